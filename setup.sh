#!/bin/sh
# Build the framework from files on disk only (offline): regenerate Gen from /repo, compile the
# whole Coq development, extract and build model_cli, build the Rust harness (release).
set -e
cd "$(dirname "$0")"
export CARGO_NET_OFFLINE=true
# the repository under verification: /repo, unless VERIF_REPO names a snapshot of it (background
# runs on a copy of /verif; the harness manifest of that copy is pointed at the snapshot)
REPO="${VERIF_REPO:-/repo}"
if [ "$REPO" != /repo ]; then sed -i "s#\"/repo/#\"$REPO/#" harness/Cargo.toml; fi
mkdir -p work evidence replays
python3 tools/rs2v.py "$REPO" coq/Gen || true
(cd coq && coq_makefile -f _CoqProject -o Makefile >/dev/null && timeout 7200 make -j16 >/dev/null)
(ulimit -s unlimited 2>/dev/null; cd extract && coqc -Q ../coq Verif Extract.v >/dev/null && ocamlfind ocamlopt -package zarith -linkpkg -O2 -w -a model.mli model.ml main.ml -o model_cli)
cp "$REPO/Cargo.lock" harness/Cargo.lock 2>/dev/null || cp /repo/Cargo.lock harness/Cargo.lock   # the lock file is untracked: a git snapshot of the repository has none
cp "$REPO/rust-toolchain" harness/rust-toolchain
(cd harness && timeout 7200 cargo build --release --offline >/dev/null 2>&1)
echo setup ok
