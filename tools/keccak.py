"""Keccak-256 (original Keccak padding 0x01, as used by the keccak-hash crate), pure Python."""
RC = [0x0000000000000001, 0x0000000000008082, 0x800000000000808A, 0x8000000080008000, 0x000000000000808B,
      0x0000000080000001, 0x8000000080008081, 0x8000000000008009, 0x000000000000008A, 0x0000000000000088,
      0x0000000080008009, 0x000000008000000A, 0x000000008000808B, 0x800000000000008B, 0x8000000000008089,
      0x8000000000008003, 0x8000000000008002, 0x8000000000000080, 0x000000000000800A, 0x800000008000000A,
      0x8000000080008081, 0x8000000000008080, 0x0000000080000001, 0x8000000080008008]
ROT = [[0, 36, 3, 41, 18], [1, 44, 10, 45, 2], [62, 6, 43, 15, 61], [28, 55, 25, 21, 56], [27, 20, 39, 8, 14]]
M = (1 << 64) - 1

def rol(x, n):
    n %= 64
    return ((x << n) | (x >> (64 - n))) & M if n else x

def keccak_f(A):
    for rnd in range(24):
        C = [A[x][0] ^ A[x][1] ^ A[x][2] ^ A[x][3] ^ A[x][4] for x in range(5)]
        Dv = [C[(x - 1) % 5] ^ rol(C[(x + 1) % 5], 1) for x in range(5)]
        A = [[A[x][y] ^ Dv[x] for y in range(5)] for x in range(5)]
        B = [[0] * 5 for _ in range(5)]
        for x in range(5):
            for y in range(5):
                B[y][(2 * x + 3 * y) % 5] = rol(A[x][y], ROT[x][y])
        A = [[B[x][y] ^ ((~B[(x + 1) % 5][y]) & B[(x + 2) % 5][y]) for y in range(5)] for x in range(5)]
        A[0][0] ^= RC[rnd]
    return A

def keccak256(data: bytes) -> bytes:
    rate = 136
    p = bytearray(data)
    p.append(0x01)
    while len(p) % rate:
        p.append(0)
    p[-1] |= 0x80
    A = [[0] * 5 for _ in range(5)]
    for off in range(0, len(p), rate):
        blk = p[off:off + rate]
        for i in range(rate // 8):
            A[i % 5][i // 5] ^= int.from_bytes(blk[8 * i:8 * i + 8], "little")
        A = keccak_f(A)
    out = b""
    for i in range(4):
        out += A[i % 5][i // 5].to_bytes(8, "little")
    return out

if __name__ == "__main__":
    assert keccak256(b"").hex() == "c5d2460186f7233c927e7db2dcc703c0e500b653ca82273b7bfad8045d85a470"
    assert keccak256(b"abc").hex() == "4e03657aea45a94fc7d47ba826c8d667c0d1e6e33a64a036ec44f58fa12d6c45"
    print("ok")
