#!/bin/sh
# usage: tools/seedtest.sh <patch.diff> <ID> [<ID>..] : apply a seeded change to /repo, run the checks, undo it
P="$1"; shift
cd /verif
git -C /repo diff --quiet || { echo "/repo has uncommitted changes: commit or stash them first (this script ends with git checkout -- .)"; exit 2; }
git -C /repo apply --check "$P" || { echo "patch does not apply"; exit 2; }
git -C /repo apply "$P"
for id in "$@"; do
  echo "== $id with $(basename $(dirname $P)) applied"
  ./check "$id" --tier quick 2>&1 | grep -v "^note\|KNOWN-FINDING" | cut -c1-300 | tail -6
done
git -C /repo checkout -- .
git -C /repo status --short | head -3
echo "NOTE: evidence/<ID>.json of the checks just run now describes the SEEDED tree: rerun ./check <ID> on the clean tree before committing"
