"""Property oracle for C17 (independent of Coq): the byte formats of plonky2's serialization, written
down directly from the format description (little-endian integers, usize as 8 bytes, canonical field
elements, length prefixes only where the format has them), used to decide whether the
IMPLEMENTATION's `enc_* / dec_*` results are what the format says.

check(op, args, res) -> None (ok) | str (what is wrong).   args / res are lists of decimal strings;
res == ['fail'] means the implementation returned Err or panicked.
Flat value formats are those of harness/src/c17.rs (see coq/Model/C17Run.v)."""

P = 0xFFFFFFFF00000001


class Fail(Exception):
    pass


class Vals:
    """reader over the flat integer arguments"""
    def __init__(self, xs):
        self.xs, self.i = xs, 0

    def z(self):
        if self.i >= len(self.xs):
            raise Fail("args")
        v = self.xs[self.i]
        self.i += 1
        return v

    def lst(self, f):
        n = self.z()
        if n > len(self.xs) - self.i:
            raise Fail("args")
        return [f() for _ in range(n)]

    def hash(self):
        return [self.z() for _ in range(4)]

    def hashes(self):
        return self.lst(self.hash)

    def exts(self):
        return self.lst(lambda: (self.z(), self.z()))

    def zs(self):
        return self.lst(self.z)

    def rest(self):
        r = self.xs[self.i:]
        self.i = len(self.xs)
        return r


def le(x, n):
    return list((x % (1 << (8 * n))).to_bytes(n, "little"))


def e_field(x):
    return le(x % P, 8)


def e_hash(h):
    return [b for x in h for b in e_field(x)]


def e_exts(v):
    return [b for (a, c) in v for b in e_field(a) + e_field(c)]


def e_mproof(p):
    if len(p) > 255:
        raise Fail("merkle proof longer than 255")
    return [len(p)] + [b for h in p for b in e_hash(h)]


def e_usizevec(v):
    return le(len(v), 8) + [b for x in v for b in le(x, 8)]


def strategy_vals(a):
    t = a.z()
    if t == 0:
        return ("fixed", a.zs())
    if t == 1:
        return ("cab", a.z(), a.z())
    if t == 2:
        return ("min", a.z() if a.z() != 0 else None)
    raise Fail("strategy tag")


def e_strategy(s):
    if s[0] == "fixed":
        return [0] + e_usizevec(s[1])
    if s[0] == "cab":
        return [1] + le(s[1], 8) + le(s[2], 8)
    return [2, 0] if s[1] is None else [2, 1] + le(s[1], 8)


def friconfig_vals(a):
    return (a.z(), a.z(), a.z(), a.z(), strategy_vals(a))


def e_friconfig(c):
    return le(c[0], 8) + le(c[1], 8) + le(c[2], 8) + le(c[3], 4) + e_strategy(c[4])


def openings_vals(a):
    names = ["constants", "sigmas", "wires", "zs", "zs_next", "pp", "quot", "lzs", "lzs_next"]
    return {n: a.exts() for n in names}


def e_openings(o):
    # wire order differs from the struct order: lookup vectors come before partial products
    return [b for n in ["constants", "sigmas", "wires", "zs", "zs_next", "lzs", "lzs_next", "pp", "quot"] for b in e_exts(o[n])]


def proof_vals(a):
    caps = [a.hashes() for _ in range(3)]
    o = openings_vals(a)
    commit = a.lst(a.hashes)
    rounds = a.lst(lambda: (a.lst(lambda: (a.zs(), a.hashes())), a.lst(lambda: (a.exts(), a.hashes()))))
    final = a.exts()
    pow_w = a.z()
    pis = a.zs()
    return caps, o, commit, rounds, final, pow_w, pis


def e_proof(p):
    caps, o, commit, rounds, final, pow_w, pis = p
    out = [b for c in caps for h in c for b in e_hash(h)]
    out += e_openings(o)
    out += [b for c in commit for h in c for b in e_hash(h)]
    for initial, steps in rounds:
        for ev, mp in initial:
            out += [b for x in ev for b in e_field(x)] + e_mproof(mp)
        for ev, mp in steps:
            out += e_exts(ev) + e_mproof(mp)
    out += e_exts(final) + e_field(pow_w)
    out += le(len(pis), 8) + [b for x in pis for b in e_field(x)]
    return out


def encode(op, xs):
    a = Vals(xs)
    if op == "enc_u8":
        return le(a.z(), 1)
    if op == "enc_u32":
        return le(a.z(), 4)
    if op == "enc_usize":
        return le(a.z(), 8)
    if op == "enc_bool":
        return [1 if a.z() else 0]
    if op == "enc_field":
        return e_field(a.z())
    if op == "enc_ext":
        return e_exts([(a.z(), a.z())])
    if op == "enc_hash":
        return e_hash(a.hash())
    if op == "enc_cap":
        return [b for h in a.hashes() for b in e_hash(h)]
    if op == "enc_mproof":
        return e_mproof(a.hashes())
    if op == "enc_usizevec":
        return e_usizevec(a.zs())
    if op == "enc_strategy":
        return e_strategy(strategy_vals(a))
    if op == "enc_friconfig":
        return e_friconfig(friconfig_vals(a))
    if op == "enc_friparams":
        c = friconfig_vals(a)
        ar, d, h = a.zs(), a.z(), a.z()
        return e_friconfig(c) + e_usizevec(ar) + le(d, 8) + [1 if h else 0]
    if op == "enc_circuitconfig":
        v = [a.z() for _ in range(8)]
        return [b for x in v[:6] for b in le(x, 8)] + [1 if v[6] else 0, 1 if v[7] else 0] + e_friconfig(friconfig_vals(a))
    if op == "enc_openings":
        return e_openings(openings_vals(a))
    if op == "enc_verifieronly":
        cap, dig = a.hashes(), a.hash()
        n = len(cap)
        if n == 0 or n & (n - 1):
            raise Fail("cap length not a power of two")
        return le(n.bit_length() - 1, 8) + [b for h in cap for b in e_hash(h)] + e_hash(dig)
    if op == "enc_proof":
        return e_proof(proof_vals(a))
    return None


class Buf:
    """Buffer: read_exact fails on short input"""
    def __init__(self, b):
        self.b, self.p = b, 0

    def take(self, n):
        if len(self.b) - self.p < n:
            raise Fail("short")
        r = self.b[self.p:self.p + n]
        self.p += n
        return r

    def u(self, n):
        return int.from_bytes(bytes(self.take(n)), "little")

    def boolean(self):
        x = self.u(1)
        if x > 1:
            raise Fail("bool")
        return x

    def field(self):
        return self.u(8)            # no range check in the real reader

    def many(self, n, f):
        if n > len(self.b):         # cannot possibly be present (every item is at least one byte)
            raise Fail("short")
        return [f() for _ in range(n)]

    def hash(self):
        return [self.field() for _ in range(4)]

    def exts(self, n):
        return self.many(n, lambda: (self.field(), self.field()))

    def mproof(self):
        return self.many(self.u(1), self.hash)

    def usizevec(self):
        return self.many(self.u(8), lambda: self.u(8))

    def strategy(self):
        t = self.u(1)
        if t == 0:
            return ("fixed", self.usizevec())
        if t == 1:
            return ("cab", self.u(8), self.u(8))
        if t == 2:
            s = self.u(1)
            if s == 0:
                return ("min", None)
            if s == 1:
                return ("min", self.u(8))
        raise Fail("tag")

    def friconfig(self):
        return (self.u(8), self.u(8), self.u(8), self.u(4), self.strategy())


def f_hashes(hs):
    return [len(hs)] + [x for h in hs for x in h]


def f_exts(v):
    return [len(v)] + [x for e in v for x in e]


def f_strategy(s):
    if s[0] == "fixed":
        return [0, len(s[1])] + s[1]
    if s[0] == "cab":
        return [1, s[1], s[2]]
    return [2, 0] if s[1] is None else [2, 1, s[1]]


def f_friconfig(c):
    return [c[0], c[1], c[2], c[3]] + f_strategy(c[4])


def shape_vals(a):
    k = ["cap_height", "num_constants", "routed", "wires", "challenges", "lookup_polys", "pp", "qdf", "salt"]
    sh = {n: a.z() for n in k}
    sh["arities"] = a.zs()
    sh["queries"], sh["final_len"] = a.z(), a.z()
    return sh


def d_openings(b, sh):
    nc = sh["challenges"]
    o = {}
    for n, ln in [("constants", sh["num_constants"]), ("sigmas", sh["routed"]), ("wires", sh["wires"]), ("zs", nc), ("zs_next", nc),
                  ("lzs", nc * sh["lookup_polys"]), ("lzs_next", nc * sh["lookup_polys"]), ("pp", sh["pp"] * nc), ("quot", sh["qdf"] * nc)]:
        o[n] = b.exts(ln)
    return o


def f_openings(o):
    return [x for n in ["constants", "sigmas", "wires", "zs", "zs_next", "pp", "quot", "lzs", "lzs_next"] for x in f_exts(o[n])]


def decode(op, xs):
    a = Vals(xs)
    sh = None
    if op in ("dec_openings", "dec_proof"):
        sh = shape_vals(a)
    h = a.z() if op == "dec_cap" else None
    bs = a.rest()
    if any(x < 0 or x > 255 for x in bs):
        raise Fail("not bytes")
    b = Buf(bs)
    if op == "dec_u8":
        v = [b.u(1)]
    elif op == "dec_u32":
        v = [b.u(4)]
    elif op == "dec_usize":
        v = [b.u(8)]
    elif op == "dec_bool":
        v = [b.boolean()]
    elif op == "dec_field":
        v = [b.field()]
    elif op == "dec_ext":
        v = [b.field(), b.field()]
    elif op == "dec_hash":
        v = b.hash()
    elif op == "dec_cap":
        v = f_hashes(b.many(1 << h, b.hash))
    elif op == "dec_mproof":
        v = f_hashes(b.mproof())
    elif op == "dec_usizevec":
        r = b.usizevec()
        v = [len(r)] + r
    elif op == "dec_strategy":
        v = f_strategy(b.strategy())
    elif op == "dec_friconfig":
        v = f_friconfig(b.friconfig())
    elif op == "dec_friparams":
        c = b.friconfig()
        ar = b.usizevec()
        v = f_friconfig(c) + [len(ar)] + ar + [b.u(8), b.boolean()]
    elif op == "dec_circuitconfig":
        six = [b.u(8) for _ in range(6)]
        v = six + [b.boolean(), b.boolean()] + f_friconfig(b.friconfig())
    elif op == "dec_verifieronly":
        hgt = b.u(8)
        cap = b.many(1 << (hgt % 64), b.hash)     # release build: shift amount masked to 6 bits
        v = f_hashes(cap) + b.hash()
    elif op == "dec_openings":
        v = f_openings(d_openings(b, sh))
    elif op == "dec_proof":
        caps = [b.many(1 << sh["cap_height"], b.hash) for _ in range(3)]
        o = d_openings(b, sh)
        commit = [b.many(1 << sh["cap_height"], b.hash) for _ in sh["arities"]]
        lens = [sh["num_constants"] + sh["routed"], sh["wires"] + sh["salt"],
                sh["challenges"] * (1 + sh["pp"] + sh["lookup_polys"]) + sh["salt"], sh["challenges"] * sh["qdf"] + sh["salt"]]
        rounds = []
        for _ in range(sh["queries"]):
            initial = [(b.many(n, b.field), b.mproof()) for n in lens]
            steps = [(b.exts(1 << ar), b.mproof()) for ar in sh["arities"]]
            rounds.append((initial, steps))
        final = b.exts(sh["final_len"])
        pow_w = b.field()
        pis = b.many(b.u(8), b.field)
        v = [x for c in caps for x in f_hashes(c)] + f_openings(o)
        v += [len(commit)] + [x for c in commit for x in f_hashes(c)]
        v += [len(rounds)]
        for initial, steps in rounds:
            v += [len(initial)] + [x for ev, mp in initial for x in [len(ev)] + ev + f_hashes(mp)]
            v += [len(steps)] + [x for ev, mp in steps for x in f_exts(ev) + f_hashes(mp)]
        v += f_exts(final) + [pow_w] + [len(pis)] + pis
    else:
        return None
    return v + [len(bs) - b.p]


def check(op, args, res):
    if not (op.startswith("enc_") or op.startswith("dec_")):
        return None
    xs = [int(x) for x in args]
    if "#" in res:
        res = res[:res.index("#")]          # trailing `# note` of the harness line
    try:
        want = encode(op, xs) if op.startswith("enc_") else decode(op, xs)
    except Fail:
        want = "fail"
    if want is None:
        return "unknown op"
    if res and res[0] == "fail":
        return None if want == "fail" else "implementation failed where the format defines a result"
    if want == "fail":
        return "implementation returned a value where the format defines none"
    got = [int(x) for x in res]
    if got != want:
        k = next((i for i, (g, w) in enumerate(zip(got, want)) if g != w), min(len(got), len(want)))
        return "result differs from the format at position %d (lengths %d / %d)" % (k, len(got), len(want))
    return None
