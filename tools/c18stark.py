"""C18, STARK entry points: classification of the `c18stark` lines (harness sub-command
`c18stark`, harness/src/c09.rs run_c18stark) and of the `c18ctl` lines (written by the `c10`
sub-command) in the format used by checks/c18.py.

  c18stark <base> <mutation id> = ok|err|panic@site  # description
  c18ctl   <system> <mutation>  = ok|err|panic@site  # description

Mutation id 0 is the unmodified proof (expected `ok`); every other line changes the shape, so
`ok` and `panic@..` are both failures of the property. Returns (n, dist, fails) where every
failure carries `entry` (stark-verify | ctl-verify) and `why` (outcome=...)."""
import re

def scan(casefile):
    n, dist, fails = 0, {}, []
    for line in open(casefile):
        if not line.startswith(("c18stark ", "c18ctl ")):
            continue
        body, _, desc = line.partition("#")
        f = body.split()
        entry = "stark-verify" if f[0] == "c18stark" else "ctl-verify"
        base, mid, outcome = f[1], f[2], f[4]
        desc = desc.strip()
        n += 1
        key = entry + ":" + ("panic" if outcome.startswith("panic") else outcome)
        dist[key] = dist.get(key, 0) + 1
        unmodified = (f[0] == "c18stark" and mid == "0")
        why = None
        if outcome.startswith("panic@"):
            why = "outcome=%s" % outcome
        elif outcome == "ok" and not unmodified:
            why = "outcome=accepted-malformed %s" % re.sub(r"[^A-Za-z0-9]+", "_", desc or mid).strip("_")
        elif outcome != "ok" and unmodified:
            why = "outcome=%s on a valid input" % outcome
        if why:
            fails.append({"entry": entry, "base": base, "mutation": mid, "desc": desc, "why": why})
    return n, dist, fails
