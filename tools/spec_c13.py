"""Property oracle for C13, independent of the Coq model and of the optimised Rust routines.

The Poseidon permutation is evaluated from its textbook definition with Python integers:
  30 rounds (4 full, 22 partial, 4 full); round r:  state <- MDS * sbox(state + rc_r),
  S-box x^7 (partial rounds: coordinate 0 only), MDS[r][c] = CIRC[(c - r) mod 12] + (r == c) * DIAG[r].
Only the *published constants* are read from the source tree (ALL_ROUND_CONSTANTS, MDS_MATRIX_CIRC,
MDS_MATRIX_DIAG - parsed here with a regular expression, not through tools/rs2v.py); none of the
FAST_PARTIAL_* tables and none of the optimised code is used.  The sponge functions and the
challenger are re-implemented from the overwrite-mode sponge definition.

check(op, args, res) -> None | message   (used to decide whether the implementation itself
violates the property on a concrete input, and as failing-input search)."""
import os, re

P = 2**64 - 2**32 + 1
REPO = os.environ.get("VERIF_REPO", "/repo")
W, RATE = 12, 8
_consts = None


def _strip_comments(src):
    src = re.sub(r"/\*.*?\*/", "", src, flags=re.S)
    return re.sub(r"//[^\n]*", "", src)


def _array(src, name):
    m = re.search(r"const\s+%s\s*:\s*\[[^=]*=\s*\[(.*?)\]\s*;" % re.escape(name), src, flags=re.S)
    if not m:
        raise RuntimeError("constant %s not found" % name)
    return [int(x.replace("_", ""), 0) for x in re.findall(r"0x[0-9a-fA-F_]+|\d[\d_]*", m.group(1))]


def consts():
    global _consts
    if _consts is None:
        ps = _strip_comments(open(os.path.join(REPO, "plonky2/src/hash/poseidon.rs")).read())
        pg = _strip_comments(open(os.path.join(REPO, "plonky2/src/hash/poseidon_goldilocks.rs")).read())
        pg = pg[pg.index("impl Poseidon for GoldilocksField"):]
        rc = _array(ps, "ALL_ROUND_CONSTANTS")
        circ = _array(pg, "MDS_MATRIX_CIRC")
        diag = _array(pg, "MDS_MATRIX_DIAG")
        if len(rc) != 360 or len(circ) != 12 or len(diag) != 12:
            raise RuntimeError("unexpected table sizes %d %d %d" % (len(rc), len(circ), len(diag)))
        mds = [[(circ[(c - r) % 12] + (diag[r] if r == c else 0)) % P for c in range(12)] for r in range(12)]
        _consts = (rc, mds)
    return _consts


_fast = None
def _fast_tables():
    """FAST_PARTIAL_ROUND_W_HATS, FAST_PARTIAL_ROUND_VS (22 x 11) and M_00 from the source tables"""
    global _fast
    if _fast is None:
        pg = _strip_comments(open(os.path.join(REPO, "plonky2/src/hash/poseidon_goldilocks.rs")).read())
        wh = _array(pg, "FAST_PARTIAL_ROUND_W_HATS")
        vs = _array(pg, "FAST_PARTIAL_ROUND_VS")
        circ = _array(pg, "MDS_MATRIX_CIRC")
        diag = _array(pg, "MDS_MATRIX_DIAG")
        if len(wh) != 242 or len(vs) != 242:
            raise RuntimeError("unexpected fast-table sizes %d %d" % (len(wh), len(vs)))
        _fast = ([wh[11 * i:11 * i + 11] for i in range(22)], [vs[11 * i:11 * i + 11] for i in range(22)], circ[0] + diag[0])
    return _fast


def mds_mul(mds, s):
    return [sum(mds[r][c] * s[c] for c in range(12)) % P for r in range(12)]


def poseidon(state):
    rc, mds = consts()
    s = [x % P for x in state]
    for r in range(30):
        s = [(s[i] + rc[12 * r + i]) % P for i in range(12)]
        if r < 4 or r >= 26:
            s = [pow(x, 7, P) for x in s]
        else:
            s[0] = pow(s[0], 7, P)
        s = mds_mul(mds, s)
    return s


def partial_rounds(state):
    """rounds 4..25 of the textbook permutation"""
    rc, mds = consts()
    s = [x % P for x in state]
    for r in range(4, 26):
        s = [(s[i] + rc[12 * r + i]) % P for i in range(12)]
        s[0] = pow(s[0], 7, P)
        s = mds_mul(mds, s)
    return s


# ---- overwrite-mode sponge
def absorb(st, xs):
    for i in range(0, len(xs), RATE):
        ch = xs[i:i + RATE]
        st = poseidon(ch + st[len(ch):])
    return st


def hash_n_to_m(xs, m):
    st = absorb([0] * W, [x % P for x in xs])
    out = []
    while True:
        out += st[:RATE]
        if len(out) >= m:
            return out[:m]
        st = poseidon(st)


def two_to_one(x, y):
    return poseidon([v % P for v in x] + [v % P for v in y] + [0] * 4)[:4]


def hash_or_noop(xs):
    if len(xs) <= 4:
        return [x % P for x in xs] + [0] * (4 - len(xs))
    return hash_n_to_m(xs, 4)


def hash_pad(xs):
    p = list(xs) + [1]
    while (len(p) + 1) % RATE != 0:
        p.append(0)
    p.append(1)
    return hash_n_to_m(p, 4)


class Duplex:
    """The transcript as a duplex sponge: pending inputs are absorbed (overwriting the first
    elements of the state, RATE at a time) before any output is produced; outputs are read from the
    rate part of the freshest state, last element first, and a new permutation is applied when they
    run out.  No buffering tricks: the pending list may grow without bound."""
    def __init__(self):
        self.st, self.pending, self.avail = [0] * W, [], []

    def observe(self, xs):
        if xs:
            self.pending += [x % P for x in xs]
            self.avail = []

    def flush(self):
        if self.pending:
            self.st = absorb(self.st, self.pending)
            self.pending = []
            self.avail = self.st[:RATE]

    def challenge(self):
        self.flush()
        if not self.avail:
            self.st = poseidon(self.st)
            self.avail = self.st[:RATE]
        return self.avail.pop()

    def compact(self):
        self.flush()
        self.avail = []
        return list(self.st)


def run_challenger(code):
    d, out, i = Duplex(), [], 0
    while i < len(code):
        c = code[i]
        if c == 0:
            k = code[i + 1]
            d.observe(code[i + 2:i + 2 + k]); i += 2 + k
        elif c == 1:
            out += [d.challenge() for _ in range(code[i + 1])]; i += 2
        elif c == 2:
            out += [d.challenge() for _ in range(4)]; i += 1
        elif c == 3:
            out += [d.challenge() for _ in range(2)]; i += 1
        elif c == 4:
            out += d.compact(); i += 1
        elif c == 5:
            d.observe([code[i + 1]]); i += 2
        else:
            raise ValueError("bad op code")
    return out


def _cmp(got, want, what):
    if got != want:
        k = next((i for i in range(min(len(got), len(want))) if got[i] != want[i]), min(len(got), len(want)))
        return "%s: output differs from the specification at index %d (got %s, specification %s; lengths %d/%d)" % (
            what, k, got[k] if k < len(got) else "-", want[k] if k < len(want) else "-", len(got), len(want))
    return None


def check(op, args, res):
    """None if the implementation result satisfies the specification, else a message"""
    if res == ["panic"]:
        return "implementation panicked"
    a = [int(x) for x in args]
    r = [int(x) for x in res]
    if op in ("poseidon", "poseidon_naive", "poseidon_spec", "poseidon_fast"):
        return _cmp(r, poseidon(a), "permutation")
    if op == "poseidon_raw":
        if any(not (0 <= x < 2**64) for x in r):
            return "raw output not a u64"
        return _cmp([x % P for x in r], poseidon(a), "permutation (raw)")
    if op == "mds_layer":
        _, mds = consts()
        return _cmp(r, mds_mul(mds, [x % P for x in a]), "MDS layer")
    if op == "mds_partial_fast":
        # d = M_00 s0 + sum_i W_HATS[round][i-1] s_i ; result_i = VS[round][i-1] s0 + s_i   (i = 1..11), in the field
        rnd, st = a[0], [x % P for x in a[1:]]
        wh, vs, m00 = _fast_tables()
        want = [(m00 * st[0] + sum(wh[rnd][i - 1] * st[i] for i in range(1, 12))) % P] + \
               [(vs[rnd][i - 1] * st[0] + st[i]) % P for i in range(1, 12)]
        return _cmp(r, want, "fast partial MDS layer, round %d" % rnd)
    if op == "partial_rounds":
        # fast partial rounds = naive partial rounds (rounds 4..25)
        return _cmp(r, partial_rounds(a), "partial rounds")
    if op == "hash_no_pad":
        return _cmp(r, hash_n_to_m(a, 4), "hash_no_pad")
    if op == "hash_n_to_m":
        return _cmp(r, hash_n_to_m(a[1:], a[0]), "hash_n_to_m_no_pad")
    if op == "two_to_one":
        return _cmp(r, two_to_one(a[:4], a[4:]), "two_to_one") or \
               _cmp(r, hash_n_to_m(a, 4), "two_to_one as sponge on 8 elements")
    if op == "hash_or_noop":
        return _cmp(r, hash_or_noop(a), "hash_or_noop")
    if op == "hash_pad":
        return _cmp(r, hash_pad(a), "hash_pad")
    if op in ("challenger", "rchallenger", "challenger_x"):
        return _cmp(r, run_challenger(a), op)
    return "unknown op " + op


if __name__ == "__main__":
    # published test vectors of poseidon_goldilocks.rs
    out = poseidon([0] * 12)
    assert out[0] == 0x3c18a9786cb0b359 and out[11] == 0x1792b1c4342109d7, out
    out = poseidon(list(range(12)))
    assert out[0] == 0xd64e1e3efc5b8e9e and out[11] == 0x5c0a27fcb0e1459b, out
    print("spec_c13 self-test ok")
