"""Property oracle for C09 (STARK proofs are accepted exactly for traces that satisfy the
constraints), independent of the Coq model: Python integers only.

  c09 <family> <case> = 1|0            verdict lines of the harness (1 = the property held)
  sat <cs> <pis> <nrows> <trace> = b   the definition of "the trace satisfies the constraints",
                                       re-evaluated here row by row
  l0lastb / l0last                     L_0 and L_{n-1} evaluated by their DEFINITION (Lagrange
                                       interpolation products over the subgroup), not by the closed form
  consumer                             sum_j alpha^(m-1-j) * filter_j * c_j
  vanish                               the same through the constraint AST, with L_0, L_last, z_last from log_n, zeta
  starkid                              vanishing(zeta) == Z_H(zeta) * sum_k t_k(zeta) zeta^(n k) for every challenge
"""
P = 2**64 - 2**32 + 1
W = 7
GEN = 7277203076849721926      # POWER_OF_TWO_GENERATOR, order 2^32


# ------------------------------------------------------------------ Fp2 = Fp[X]/(X^2 - 7) as pairs
def e_add(a, b): return ((a[0] + b[0]) % P, (a[1] + b[1]) % P)
def e_sub(a, b): return ((a[0] - b[0]) % P, (a[1] - b[1]) % P)
def e_mul(a, b): return ((a[0] * b[0] + W * a[1] * b[1]) % P, (a[0] * b[1] + a[1] * b[0]) % P)
def e_inv(a):
    n = (a[0] * a[0] - W * a[1] * a[1]) % P
    ni = pow(n, P - 2, P)
    return (a[0] * ni % P, (-a[1]) * ni % P)
def e_of(x): return (x % P, 0)
def e_pow(a, k):
    r = (1, 0)
    while k:
        if k & 1: r = e_mul(r, a)
        a = e_mul(a, a); k >>= 1
    return r
E0, E1 = (0, 0), (1, 0)


def root(log_n):
    return pow(GEN, 1 << (32 - log_n), P)


def lagrange_def(log_n, x, idx):
    """L_idx(x) over H = <g>, |H| = 2^log_n, by the interpolation product; x in Fp2"""
    n = 1 << log_n
    g = root(log_n)
    pts = [pow(g, i, P) for i in range(n)]
    num, den = E1, 1
    for i in range(n):
        if i == idx: continue
        num = e_mul(num, e_sub(x, e_of(pts[i])))
        den = den * (pts[idx] - pts[i]) % P
    return e_mul(num, e_of(pow(den, P - 2, P)))


# ------------------------------------------------------------------ constraint systems
class Reader:
    def __init__(self, a): self.a, self.i = a, 0
    def z(self):
        v = self.a[self.i]; self.i += 1; return v
    def zs(self, n):
        v = self.a[self.i:self.i + n]; self.i += n
        if len(v) != n: raise IndexError
        return v
    def done(self): return self.i == len(self.a)


def read_cs(rd):
    ncols, npi, ncons = rd.z(), rd.z(), rd.z()
    cons = []
    for _ in range(ncons):
        kind, ln = rd.z(), rd.z()
        cons.append((kind, rd.zs(ln)))
    return ncols, npi, cons


def eval_rpn(tok, lv, nv, pis, add, sub, mul, const):
    st, i = [], 0
    while i < len(tok):
        t = tok[i]
        if t == 0: st.append(const(tok[i + 1])); i += 2
        elif t == 1: st.append(lv[tok[i + 1]]); i += 2
        elif t == 2: st.append(nv[tok[i + 1]]); i += 2
        elif t == 3: st.append(const_pub(pis[tok[i + 1]], const)); i += 2
        else:
            b = st.pop(); a = st.pop()
            st.append({4: add, 5: sub, 6: mul}[t](a, b)); i += 1
    assert len(st) == 1
    return st[0]


def const_pub(x, const): return const(x)


def base_ops():
    return (lambda a, b: (a + b) % P, lambda a, b: (a - b) % P, lambda a, b: a * b % P, lambda c: c % P)


def ext_ops():
    return (e_add, e_sub, e_mul, e_of)


def trace_sat(ncols, cons, pis, rows):
    n = len(rows)
    for r in range(n):
        nv = rows[(r + 1) % n]
        for kind, tok in cons:
            applies = (kind == 0 and r == 0) or (kind == 1 and r == n - 1) or (kind == 2 and r != n - 1) or kind == 3
            if applies and eval_rpn(tok, rows[r], nv, pis, *base_ops()) != 0:
                return False
    return True


def consumer(alphas, zlast, l0, ll, items):
    """items: (kind, value in Fp2); returns the accumulators, computed as the explicit sum"""
    m = len(items)
    accs = []
    for a in alphas:
        s = E0
        for j, (k, c) in enumerate(items):
            f = {0: l0, 1: ll, 2: zlast, 3: E1}[k]
            s = e_add(s, e_mul(e_pow(a, m - 1 - j), e_mul(c, f)))
        accs.append(s)
    return accs


def pairs(v): return [(v[2 * i], v[2 * i + 1]) for i in range(len(v) // 2)]
def flat(v): return [c for p in v for c in p]


def vanishing(degree_bits, zeta, alphas, cons, pis, lv, nv):
    n = 1 << degree_bits
    g = root(degree_bits)
    l0 = lagrange_def(degree_bits, zeta, 0)
    ll = lagrange_def(degree_bits, zeta, n - 1)
    zlast = e_sub(zeta, e_of(pow(g, P - 2, P)))
    items = [(k, eval_rpn(tok, lv, nv, pis, *ext_ops())) for k, tok in cons]
    return consumer([e_of(a) for a in alphas], zlast, l0, ll, items)


def check(op, args, res):
    """None if the implementation's result satisfies the specification, else a message"""
    if op == "c09":
        return None if res[:1] == ["1"] else "property case failed: %s" % " ".join(args[:2])
    a = [int(x) for x in args]
    if op == "starkshape":
        # the property's side of the shape rules: an accepted shape has a Merkle cap and a full set of openings for
        # every oracle of the STARK (one cap per oracle is what ties the openings to polynomials fixed before zeta)
        (ch, rb, cols, npis, ul, rc, nlh, nq, nch, ncz, pis, fp, tc, ac, qc, lo, nx, au, aun, czf, qu) = a
        if res == ["panic"]:
            return "validate_proof_shape panicked"
        if res == ["0"]:
            return None
        aux = bool(ul or rc)
        naux = nlh + nch + ncz
        why = []
        if (qc >= 0) != (nq != 0): why.append("quotient cap %s but the STARK has %d quotient polynomials" % ("present" if qc >= 0 else "absent", nq))
        if (qu if qu >= 0 else 0) != nq or (qu >= 0) != (nq != 0): why.append("quotient openings %d for %d quotient polynomials" % (qu, nq))
        if (ac >= 0) != aux: why.append("auxiliary cap presence %s" % (ac >= 0))
        if aux and (au != naux or aun != naux): why.append("auxiliary openings %d/%d for %d polynomials" % (au, aun, naux))
        if not aux and (au >= 0 or aun >= 0 or czf >= 0): why.append("auxiliary openings without auxiliary polynomials")
        if lo != cols or nx != cols or pis != npis: why.append("trace openings / public inputs of the wrong length")
        if tc != 1 << ch or (qc >= 0 and qc != 1 << ch) or (ac >= 0 and ac != 1 << ch): why.append("a cap of the wrong length")
        if fp < 0: why.append("no query round")
        return None if not why else "shape accepted although " + "; ".join(why)
    if op == "sat":
        rd = Reader(a)
        ncols, npi, cons = read_cs(rd)
        pis = rd.zs(rd.z())
        n = rd.z()
        rows = [rd.zs(ncols) for _ in range(n)]
        assert rd.done()
        want = 1 if trace_sat(ncols, cons, pis, rows) else 0
        return None if res == [str(want)] else "harness satisfaction check says %s, definition says %d" % (res, want)
    if op in ("l0lastb", "l0last"):
        log_n = a[0]
        x = (a[1], 0) if op == "l0lastb" else (a[1], a[2])
        g = root(log_n)
        # the closed forms divide by n(x-1) and n(gx-1): the implementation panics (batch inverse of 0) there
        pole = x == E1 or e_mul(e_of(g), x) == E1
        if res == ["panic"]:
            return None if pole else "panic away from the poles x = 1, x = g^-1"
        if pole:
            return "no panic at a pole of the closed form"
        if log_n > 8:
            # definition by products is quadratic; use (x^n-1)/(n(x-1)) cross-multiplied instead
            n = 1 << log_n
            r = [int(v) for v in res]
            l0, ll = ((r[0], 0), (r[1], 0)) if op == "l0lastb" else ((r[0], r[1]), (r[2], r[3]))
            zx = e_sub(e_pow(x, n), E1)
            ok = e_mul(l0, e_mul(e_of(n), e_sub(x, E1))) == zx and e_mul(ll, e_mul(e_of(n), e_sub(e_mul(e_of(g), x), E1))) == zx
            return None if ok else "closed form identity fails"
        n = 1 << log_n
        l0, ll = lagrange_def(log_n, x, 0), lagrange_def(log_n, x, n - 1)
        want = [l0[0], ll[0]] if op == "l0lastb" else [l0[0], l0[1], ll[0], ll[1]]
        if op == "l0lastb" and (l0[1] or ll[1]): return "base point gives extension value"
        return None if [int(v) for v in res] == want else "L_0 / L_last differ from the interpolation definition: want %s" % want
    if op == "consumer":
        rd = Reader(a)
        na = rd.z()
        alphas = pairs(rd.zs(2 * na))
        zl, l0, ll = tuple(rd.zs(2)), tuple(rd.zs(2)), tuple(rd.zs(2))
        m = rd.z()
        items = []
        for _ in range(m):
            k = rd.z(); items.append((k, tuple(rd.zs(2))))
        assert rd.done()
        want = flat(consumer(alphas, zl, l0, ll, items))
        return None if [int(v) for v in res] == want else "accumulators differ from sum_j alpha^(m-1-j) filter_j c_j"
    if op == "vanish":
        rd = Reader(a)
        db = rd.z(); zeta = tuple(rd.zs(2)); alphas = rd.zs(rd.z())
        ncols, npi, cons = read_cs(rd)
        pis = rd.zs(rd.z())
        lv = pairs(rd.zs(2 * ncols)); nv = pairs(rd.zs(2 * ncols))
        assert rd.done()
        if res == ["panic"]: return "panic"
        want = flat(vanishing(db, zeta, alphas, cons, pis, lv, nv))
        return None if [int(v) for v in res] == want else "vanishing polynomial evaluation differs"
    if op == "starkid":
        rd = Reader(a)
        db = rd.z(); qdf = rd.z(); zeta = tuple(rd.zs(2)); alphas = rd.zs(rd.z())
        ncols, npi, cons = read_cs(rd)
        pis = rd.zs(rd.z())
        lv = pairs(rd.zs(2 * ncols)); nv = pairs(rd.zs(2 * ncols))
        q = pairs(rd.zs(2 * rd.z()))
        assert rd.done()
        van = vanishing(db, zeta, alphas, cons, pis, lv, nv)
        zn = e_pow(zeta, 1 << db)
        zh = e_sub(zn, E1)
        ok = True
        for i in range(len(alphas) if qdf else 0):
            t = E0
            for k in reversed(range(qdf)):
                t = e_add(e_mul(t, zn), q[i * qdf + k])
            ok = ok and van[i] == e_mul(zh, t)
        want = 1 if ok else 0
        return None if res == [str(want)] else "verifier identity verdict %s, specification %d" % (res, want)
    return None
