#!/usr/bin/env python3
"""rs2v: translate a small straight-line subset of Rust (integer code of plonky2's field and
Poseidon helpers) and constant tables from /repo into Gallina.

T1: constant tables  -> coq/Gen/*Consts.v
T2: integer functions -> coq/Gen/*Impl.v, in the checked monad of Base/Mach.v:
      a + b, a - b, a * b      -> chkU/chkS w (...)      (None on overflow: Rust debug panic)
      overflowing_/wrapping_   -> explicit wrap
      x << k (k literal)       -> wrap of x * 2^k          (Rust shifts do not check lost bits)
      x >> k                   -> x / 2^k                  (logical for unsigned, arithmetic for signed)
      x & (2^k - 1)            -> x mod 2^k
      e as T                   -> wrap to T
      assume(p), debug_assert! -> guard p
A construct outside the subset raises Unsupported: the tie is then broken and the check
reports it (see DESIGN.md section 6).
"""
import re, sys, os, json

class Unsupported(Exception):
    pass

# ------------------------------------------------------------------ tokenizer
TOK_RE = re.compile(r"""
    (?P<ws>\s+)
  | (?P<num>0x[0-9a-fA-F_]+(?:[ui](?:8|16|32|64|128|size))?|[0-9][0-9_]*(?:[ui](?:8|16|32|64|128|size))?)
  | (?P<id>[A-Za-z_][A-Za-z0-9_]*)
  | (?P<op>::|->|=>|==|!=|<=|>=|&&|\|\||<<=|>>=|<<|>>|\+=|-=|\*=|\.\.|[-+*/%&|^!<>=(){}\[\],;:.#?'])
""", re.X)

def strip_comments(src):
    src = re.sub(r"/\*.*?\*/", " ", src, flags=re.S)
    src = re.sub(r"//[^\n]*", " ", src)
    return src

def tokenize(src):
    toks = []
    pos = 0
    while pos < len(src):
        m = TOK_RE.match(src, pos)
        if not m:
            raise Unsupported("cannot tokenize at: %r" % src[pos:pos + 30])
        pos = m.end()
        if m.lastgroup == 'ws':
            continue
        toks.append((m.lastgroup, m.group(m.lastgroup)))
    return toks

INT_TYPES = {'u8': (False, 8), 'u16': (False, 16), 'u32': (False, 32), 'u64': (False, 64),
             'u128': (False, 128), 'usize': (False, 64), 'i64': (True, 64), 'i32': (True, 32),
             'i128': (True, 128)}

def T_int(name):
    s, w = INT_TYPES[name]
    return ('int', s, w)
T_BOOL = ('bool',)
T_F = ('F',)
T_UNIT = ('unit',)

def parse_num(tok):
    m = re.match(r"^(0x[0-9a-fA-F_]+|[0-9][0-9_]*?)((?:[ui](?:8|16|32|64|128|size))?)$", tok)
    if tok.startswith('0x'):
        m = re.match(r"^(0x[0-9a-fA-F_]+?)((?:[ui](?:8|16|32|64|128|size))?)$", tok)
    body, suf = m.group(1), m.group(2)
    # hex digits may swallow a suffix-looking tail only when it is a real suffix
    v = int(body.replace('_', ''), 0)
    return v, (T_int(suf) if suf else None)

# ------------------------------------------------------------------ parser
class Parser:
    def __init__(self, toks, pos=0):
        self.t = toks
        self.p = pos

    def peek(self, k=0):
        return self.t[self.p + k] if self.p + k < len(self.t) else ('eof', '')

    def next(self):
        tok = self.peek()
        if tok[0] == 'eof':
            raise Unsupported("unexpected end of input")
        self.p += 1
        return tok

    def accept(self, val):
        if self.peek()[1] == val:
            self.p += 1
            return True
        return False

    def expect(self, val):
        tok = self.next()
        if tok[1] != val:
            raise Unsupported("expected %r, got %r near %r" % (val, tok[1], self.t[max(0, self.p - 8):self.p + 4]))
        return tok

    # ---- types
    def parse_type(self):
        if self.accept('&'):
            self.accept('mut')
            return self.parse_type()
        if self.accept('('):
            items = []
            while not self.accept(')'):
                items.append(self.parse_type())
                self.accept(',')
            if not items:
                return T_UNIT
            return ('tuple', items)
        if self.accept('['):
            el = self.parse_type()
            self.expect(';')
            n = self.parse_expr()
            self.expect(']')
            return ('array', el, n)
        tok = self.next()
        if tok[0] != 'id':
            raise Unsupported("type expected, got %r" % (tok,))
        name = tok[1]
        while self.accept('::'):
            name = self.next()[1]
        if name in INT_TYPES:
            return T_int(name)
        if name == 'bool':
            return T_BOOL
        if name in ('Self', 'GoldilocksField', 'F'):
            return T_F
        if name == 'Option':
            self.expect('<')
            inner = self.parse_type()
            self.expect('>')
            return ('opt', inner)
        raise Unsupported("type %s" % name)

    # ---- patterns
    def parse_pat(self):
        if self.accept('('):
            items = []
            while not self.accept(')'):
                items.append(self.parse_pat())
                self.accept(',')
            return ('ptuple', items)
        if self.accept('['):
            items = []
            while not self.accept(']'):
                items.append(self.parse_pat())
                self.accept(',')
            return ('ptuple', items)
        self.accept('mut')
        tok = self.next()
        if tok[0] != 'id':
            raise Unsupported("pattern expected, got %r" % (tok,))
        if tok[1] == '_':
            return ('pwild',)
        if tok[1] in ('Self', 'GoldilocksField') and self.peek()[1] == '(':
            self.next()
            inner = self.parse_pat()
            self.expect(')')
            return inner  # newtype pattern: same representation
        return ('pvar', tok[1])

    # ---- expressions (Rust precedence)
    BIN_LEVELS = [['||'], ['&&'], ['==', '!=', '<', '>', '<=', '>='], ['|'], ['^'], ['&'],
                  ['<<', '>>'], ['+', '-'], ['*', '/', '%']]

    def parse_expr(self, level=0, nostruct=False):
        if level == len(self.BIN_LEVELS):
            return self.parse_cast()
        lhs = self.parse_expr(level + 1)
        while self.peek()[1] in self.BIN_LEVELS[level] and self.peek()[0] == 'op':
            op = self.next()[1]
            rhs = self.parse_expr(level + 1)
            lhs = ('bin', op, lhs, rhs)
        return lhs

    def parse_cast(self):
        e = self.parse_unary()
        while self.peek() == ('id', 'as'):
            self.next()
            ty = self.parse_type()
            e = ('cast', e, ty)
        return e

    def parse_unary(self):
        tok = self.peek()
        if tok[1] in ('-', '!', '*', '&') and tok[0] == 'op':
            self.next()
            if tok[1] == '&':
                self.accept('mut')
            e = self.parse_unary()
            if tok[1] in ('*', '&'):
                return e  # references are transparent in this subset
            return ('un', tok[1], e)
        return self.parse_postfix()

    def parse_args(self):
        args = []
        while not self.accept(')'):
            args.append(self.parse_expr())
            self.accept(',')
        return args

    def parse_postfix(self):
        e = self.parse_primary()
        while True:
            if self.accept('.'):
                tok = self.next()
                if tok[0] == 'num':
                    e = ('proj', e, int(tok[1]))
                elif tok[0] == 'id':
                    if self.accept('('):
                        e = ('mcall', e, tok[1], self.parse_args())
                    else:
                        e = ('fieldname', e, tok[1])
                else:
                    raise Unsupported("after '.': %r" % (tok,))
            elif self.peek()[1] == '[' :
                self.next()
                idx = self.parse_expr()
                self.expect(']')
                e = ('index', e, idx)
            elif self.peek()[1] == '?':
                raise Unsupported("? operator")
            else:
                return e

    def parse_block(self):
        self.expect('{')
        stmts = []
        tail = None
        while not self.accept('}'):
            st = self.parse_stmt()
            if st[0] == 'tail':
                tail = st[1]
                self.expect('}')
                break
            stmts.append(st)
        return ('block', stmts, tail)

    def parse_primary(self):
        tok = self.next()
        if tok[0] == 'num':
            v, ty = parse_num(tok[1])
            return ('num', v, ty)
        if tok[1] == '(':
            items = []
            trailing = False
            while not self.accept(')'):
                items.append(self.parse_expr())
                trailing = self.accept(',')
            if len(items) == 1 and not trailing:
                return items[0]
            return ('tuple', items)
        if tok[1] == '[':
            items = []
            first = self.parse_expr()
            if self.accept(';'):
                n = self.parse_expr()
                self.expect(']')
                return ('repeat', first, n)
            items.append(first)
            self.accept(',')
            while not self.accept(']'):
                items.append(self.parse_expr())
                self.accept(',')
            return ('tuple', items)
        if tok == ('id', 'unsafe'):
            return self.parse_block()
        if tok[1] == '{':
            self.p -= 1
            return self.parse_block()
        if tok == ('id', 'if'):
            cond = self.parse_expr()
            then = self.parse_block()
            els = None
            if self.peek() == ('id', 'else'):
                self.next()
                if self.peek() == ('id', 'if'):
                    els = ('block', [], self.parse_primary())
                else:
                    els = self.parse_block()
            return ('if', cond, then, els)
        if tok[1] == '<':
            # qualified path <T as Trait>::NAME
            depth = 1
            while depth > 0:
                t2 = self.next()
                if t2[0] == 'eof':
                    raise Unsupported("unterminated qualified path")
                t2 = t2[1]
                if t2 == '<': depth += 1
                if t2 == '>': depth -= 1
                if t2 == '<<': depth += 2
                if t2 == '>>': depth -= 2
            path = ['<q>']
            while self.accept('::'):
                path.append(self.next()[1])
            return self.finish_path(path)
        if tok[0] == 'id':
            path = [tok[1]]
            generics = None
            while self.peek()[1] == '::':
                self.next()
                if self.peek()[1] == '<':
                    self.next()
                    generics = []
                    while not self.accept('>'):
                        if self.peek()[0] == 'num':
                            generics.append(parse_num(self.next()[1])[0])
                        else:
                            generics.append(self.next()[1])
                        self.accept(',')
                else:
                    path.append(self.next()[1])
            return self.finish_path(path, generics)
        raise Unsupported("unexpected token %r" % (tok,))

    def finish_path(self, path, generics=None):
        if self.peek()[1] == '(':
            self.next()
            args = self.parse_args()
            return ('call', path, generics, args)
        if self.peek()[1] == '!':
            # macro call
            self.next()
            self.expect('(')
            args = self.parse_args()
            return ('macro', path[-1], args)
        if len(path) == 1:
            return ('var', path[0])
        return ('path', path)

    # ---- statements
    def parse_stmt(self):
        tok = self.peek()
        if tok == ('id', 'let'):
            self.next()
            pat = self.parse_pat()
            ty = None
            if self.accept(':'):
                ty = self.parse_type()
            init = None
            if self.accept('='):
                init = self.parse_expr()
            self.expect(';')
            return ('let', pat, ty, init)
        if tok == ('id', 'return'):
            self.next()
            e = self.parse_expr()
            self.expect(';')
            return ('return', e)
        if tok[1] == '#':
            # attribute
            self.next(); self.expect('[')
            depth = 1
            while depth:
                t2 = self.next()[1]
                if t2 == '[': depth += 1
                if t2 == ']': depth -= 1
            return self.parse_stmt()
        e = self.parse_expr()
        nxt = self.peek()[1]
        if nxt in ('=', '+=', '-=', '*='):
            self.next()
            rhs = self.parse_expr()
            self.expect(';')
            return ('assign', e, nxt, rhs)
        if self.accept(';'):
            return ('expr', e)
        if e[0] in ('if', 'block') and self.peek()[1] != '}':
            return ('expr', e)
        return ('tail', e)

# ------------------------------------------------------------------ function extraction
def find_fn(src, anchor, name):
    """Return (params_tokens..., body) of the first `fn name` after `anchor` in src."""
    start = 0
    if anchor:
        start = src.find(anchor)
        if start < 0:
            raise Unsupported("anchor %r not found" % anchor)
    m = re.compile(r"\bfn\s+%s\b" % re.escape(name)).search(src, start)
    if not m:
        raise Unsupported("fn %s not found after %r" % (name, anchor))
    # body: from fn to matching brace
    i = src.index('{', m.end())
    depth = 0
    j = i
    while True:
        c = src[j]
        if c == '{': depth += 1
        if c == '}':
            depth -= 1
            if depth == 0:
                break
        j += 1
    return src[m.start():j + 1]

def parse_fn(text):
    toks = tokenize(text)
    p = Parser(toks)
    p.expect('fn')
    name = p.next()[1]
    if p.accept('<'):
        depth = 1
        while depth:
            t2 = p.next()[1]
            if t2 == '<': depth += 1
            if t2 == '>': depth -= 1
    p.expect('(')
    params = []
    while not p.accept(')'):
        if p.peek()[1] == '&' and p.peek(1)[1] == 'self':
            p.next(); p.next()
            params.append((('pvar', 'self'), T_F))
        elif p.peek()[1] == 'self':
            p.next()
            params.append((('pvar', 'self'), T_F))
        else:
            pat = p.parse_pat()
            p.expect(':')
            ty = p.parse_type()
            params.append((pat, ty))
        p.accept(',')
    ret = T_UNIT
    if p.accept('->'):
        ret = p.parse_type()
    body = p.parse_block()
    return name, params, ret, body

# ------------------------------------------------------------------ compiler
RESERVED = {'t', 'mod', 'in', 'at', 'as', 'if', 'fun', 'let', 'end', 'fix', 'cofix', 'forall',
            'exists', 'Type', 'Prop', 'Set', 'return', 'using', 'where', 'with', 'then', 'else',
            'ret', 'bind', 'guard', 'split', 'u64', 'u32', 'u128', 'i64', 'fst', 'snd', 'P', 'S', 'O',
            'd', 'r', 'M', 'I', 'N', 'Z'}

class Ctx:
    def __init__(self, consts, funcs):
        self.consts = consts     # name -> value (python int / nested list) with types
        self.funcs = funcs       # rust fn name -> (coqname, param types, ret type)
        self.counter = {}

    def fresh(self, base):
        base = re.sub(r"[^A-Za-z0-9_]", "_", base)
        if base in RESERVED or base in self.funcs_coqnames():
            base = base + "_v"
        # names already handed out in this function (the set lives inside self.counter so that the
        # per-function reset `ctx.counter = {}` clears it too).  Without it `fresh("r_0")` called twice
        # and `fresh("r_0_1")` both yield "r_0_1" and the later binder silently shadows the earlier one.
        used = self.counter.setdefault("\0used", set())
        k = self.counter.get(base, 0)
        while True:
            name = base if k == 0 else "%s_%d" % (base, k)
            k += 1
            if name not in used:
                break
        self.counter[base] = k
        used.add(name)
        return name

    def funcs_coqnames(self):
        return {v[0] for v in self.funcs.values()}

def is_int(ty): return ty is not None and ty[0] == 'int'

def zlit(v):
    return "%d" % v if v >= 0 else "(%d)" % v

class Val:
    """compile-time value: scalar Coq term with a type, or a tuple of Vals"""
    def __init__(self, term=None, ty=None, items=None):
        self.term, self.ty, self.items = term, ty, items
    def is_tuple(self): return self.items is not None
    def pat(self):
        if self.is_tuple():
            return "(" + ", ".join(i.pat() for i in self.items) + ")"
        return self.term
    coq = pat

def type_coq(ty):
    if ty[0] in ('int', 'F'): return "Z"
    if ty[0] == 'bool': return "bool"
    if ty[0] == 'unit': return "unit"
    if ty[0] == 'tuple': return "(" + " * ".join(type_coq(t) for t in ty[1]) + ")"
    if ty[0] == 'array': return "(" + " * ".join([type_coq(ty[1])] * ty[2]) + ")"
    if ty[0] == 'opt': return "(option %s)" % type_coq(ty[1])
    raise Unsupported("type_coq %r" % (ty,))

class FnCompiler:
    def __init__(self, ctx, self_is_field=True):
        self.ctx = ctx
        self.out = []   # list of lines (continuation-passing: we emit nested text)

    # environment: dict rust name -> Val
    def fresh_val(self, base, ty):
        if ty[0] == 'tuple':
            return Val(items=[self.fresh_val("%s_%d" % (base, i), t) for i, t in enumerate(ty[1])], ty=ty)
        if ty[0] == 'array':
            return Val(items=[self.fresh_val("%s_%d" % (base, i), ty[1]) for i in range(ty[2])], ty=ty)
        return Val(term=self.ctx.fresh(base), ty=ty)

    def resolve_array_len(self, ty):
        if ty[0] == 'array':
            n = ty[2]
            if not isinstance(n, int):
                n = self.const_eval(n)
            return ('array', self.resolve_array_len(ty[1]), n)
        if ty[0] == 'tuple':
            return ('tuple', [self.resolve_array_len(t) for t in ty[1]])
        if ty[0] == 'opt':
            return ('opt', self.resolve_array_len(ty[1]))
        return ty

    def const_eval(self, e):
        if e[0] == 'num': return e[1]
        if e[0] == 'var' and e[1] in self.ctx.consts: return self.ctx.consts[e[1]][0]
        if e[0] == 'path' and e[1][-1] in self.ctx.consts: return self.ctx.consts[e[1][-1]][0]
        if e[0] == 'bin':
            a, b = self.const_eval(e[2]), self.const_eval(e[3])
            return {'+': a + b, '-': a - b, '*': a * b, '<<': a << b, '>>': a >> b}[e[1]]
        raise Unsupported("const_eval %r" % (e,))

    def bind_pat(self, pat, val, env):
        """bind pattern to an existing Val (no code emitted)"""
        if pat[0] == 'pwild': return
        if pat[0] == 'pvar':
            env[pat[1]] = val
            return
        if pat[0] == 'ptuple':
            if not val.is_tuple() or len(val.items) != len(pat[1]):
                raise Unsupported("pattern/value shape mismatch")
            for p, v in zip(pat[1], val.items):
                self.bind_pat(p, v, env)
            return
        raise Unsupported("pattern %r" % (pat,))

    # Each compile_* returns code through a continuation `k(env, value) -> str`.
    def expr(self, e, env, hint, k):
        """compile e; call k(Val) to get the rest of the code; returns code string (type M _)"""
        tag = e[0]
        if tag == 'num':
            ty = e[2] or hint
            if ty is not None and ty[0] == 'F':
                ty = T_int('u64')
            if ty is None or ty[0] != 'int':
                raise Unsupported("untyped literal %r (hint %r)" % (e, hint))
            return k(Val(zlit(e[1]), ty))
        if tag == 'var':
            name = e[1]
            if name in env:
                return k(env[name])
            if name in self.ctx.consts:
                return k(self.const_val(name))
            if name == 'None':
                return k(Val("None", hint if hint and hint[0] == 'opt' else ('opt', T_F)))
            raise Unsupported("unknown variable %s" % name)
        if tag == 'path':
            name = e[1][-1]
            if name in self.ctx.consts:
                return k(self.const_val(name))
            raise Unsupported("unknown path %r" % (e[1],))
        if tag == 'tuple':
            vals = []
            hints = None
            if hint is not None and hint[0] == 'tuple': hints = hint[1]
            if hint is not None and hint[0] == 'array': hints = [hint[1]] * len(e[1])
            def go(i):
                if i == len(e[1]):
                    return k(Val(items=list(vals), ty=('tuple', [v.ty for v in vals])))
                return self.expr(e[1][i], env, hints[i] if hints else None,
                                 lambda v: (vals.append(v), go(i + 1))[1])
            return go(0)
        if tag == 'proj':
            return self.expr(e[1], env, None, lambda v: k(self.proj(v, e[2])))
        if tag == 'fieldname':
            raise Unsupported("named field %s" % e[2])
        if tag == 'index':
            idx = self.const_eval(e[2])
            return self.expr(e[1], env, None, lambda v: k(self.proj(v, idx)))
        if tag == 'cast':
            ty = e[2]
            def after(v):
                if ty[0] != 'int':
                    raise Unsupported("cast to %r" % (ty,))
                s, w = ty[1], ty[2]
                if v.ty[0] == 'bool':
                    return k(Val("(b2z %s)" % v.term, ty))
                if v.ty[0] == 'F':
                    raise Unsupported("cast of field value")
                vs, vw = v.ty[1], v.ty[2]
                if vs == s and vw <= w:
                    return k(Val(v.term, ty))          # widening, same signedness: identity
                if (not vs) and s and vw < w:
                    return k(Val(v.term, ty))          # unsigned to wider signed: identity
                if s:
                    return k(Val("(wrapS %d %s)" % (w, v.term), ty))
                return k(Val("(wrapU %d %s)" % (w, v.term), ty))
            src_hint = None
            if e[1][0] == 'num' and e[1][2] is None:
                src_hint = ty
            return self.expr(e[1], env, src_hint, after)
        if tag == 'un':
            op = e[1]
            def after(v):
                if op == '!':
                    if v.ty[0] == 'bool':
                        return k(Val("(negb %s)" % v.term, T_BOOL))
                    raise Unsupported("bitwise not")
                if op == '-':
                    if v.ty[0] == 'F':
                        return self.mcall_emit("gl_neg", [v], T_F, k)
                    if v.ty[0] == 'int' and v.ty[1]:
                        return self.checked("(- %s)" % v.term, v.ty, k, "neg")
                    raise Unsupported("negation of unsigned")
            return self.expr(e[2], env, hint, after)
        if tag == 'bin':
            return self.binop(e, env, hint, k)
        if tag == 'call':
            return self.call(e, env, hint, k)
        if tag == 'mcall':
            return self.mcall(e, env, hint, k)
        if tag == 'macro':
            if e[1] in ('debug_assert', 'assert'):
                return self.expr(e[2][0], env, T_BOOL,
                                 lambda v: "bind (guard %s) (fun _ =>\n%s)" % (v.term, k(Val("tt", T_UNIT))))
            if e[1] == 'const_assert':
                return k(Val("tt", T_UNIT))
            raise Unsupported("macro %s" % e[1])
        if tag == 'block':
            return self.block(e, dict(env), hint, lambda env2, v: k(v))
        if tag == 'if':
            return self.if_expr(e, env, hint, k)
        if tag == 'repeat':
            n = self.const_eval(e[2])
            return self.expr(e[1], env, hint[1] if hint and hint[0] == 'array' else None,
                             lambda v: k(Val(items=[v] * n, ty=('tuple', [v.ty] * n))))
        raise Unsupported("expression %r" % (tag,))

    def const_val(self, name):
        v, ty = self.ctx.consts[name]
        def mk(v, ty):
            if isinstance(v, list):
                if ty[0] == 'array':
                    return Val(items=[mk(x, ty[1]) for x in v], ty=('tuple', [ty[1]] * len(v)))
                return Val(items=[mk(x, t) for x, t in zip(v, ty[1])], ty=ty)
            return Val(name if False else zlit(v), ty)
        if isinstance(v, list):
            return mk(v, ty)
        # scalar constants are referenced by name (defined in the Consts file)
        return Val(name, ty)

    def proj(self, v, i):
        if v.is_tuple():
            return v.items[i]
        if v.ty[0] == 'F' and i == 0:
            return Val(v.term, T_int('u64'))
        raise Unsupported("projection .%d of scalar" % i)

    def checked(self, term, ty, k, what):
        s, w = ty[1], ty[2]
        name = self.ctx.fresh(what)
        return "bind (%s %d %s) (fun %s =>\n%s)" % ("chkS" if s else "chkU", w, term, name, k(Val(name, ty)))

    def mcall_emit(self, coqfn, args, ret, k):
        res = self.fresh_val("r", ret)
        return "bind (%s %s) (fun %s =>\n%s)" % (
            coqfn, " ".join(a.coq() for a in args), ("'" + res.pat()) if res.is_tuple() else res.pat(), k(res))

    def binop(self, e, env, hint, k):
        op, l, r = e[1], e[2], e[3]
        if op in ('&&', '||'):
            fn = 'andb' if op == '&&' else 'orb'
            return self.expr(l, env, T_BOOL, lambda a: self.expr(r, env, T_BOOL,
                             lambda b: k(Val("(%s %s %s)" % (fn, a.term, b.term), T_BOOL))))
        cmp_ops = {'==': 'Z.eqb', '!=': None, '<': 'Z.ltb', '<=': 'Z.leb', '>': 'Z.gtb', '>=': 'Z.geb'}
        shift = op in ('<<', '>>')
        lit_l = (l[0] == 'num' and l[2] is None)
        lit_r = (r[0] == 'num' and r[2] is None)
        opnd_hint = None if op in cmp_ops else hint

        def with_both(a, b):
            if op in cmp_ops:
                ta, tb = a.term, b.term
                if a.ty[0] == 'F' or b.ty[0] == 'F':
                    raise Unsupported("comparison of field values")
                if op == '!=':
                    return k(Val("(negb (Z.eqb %s %s))" % (ta, tb), T_BOOL))
                return k(Val("(%s %s %s)" % (cmp_ops[op], ta, tb), T_BOOL))
            ty = a.ty
            if ty[0] == 'F' and b.ty[0] == 'F':
                fn = {'+': 'gl_add', '-': 'gl_sub', '*': 'gl_mul'}.get(op)
                if not fn: raise Unsupported("field op %s" % op)
                return self.mcall_emit(fn, [a, b], T_F, k)
            if ty[0] != 'int':
                raise Unsupported("binop %s on %r" % (op, ty))
            s, w = ty[1], ty[2]
            if op == '<<':
                kk = self.const_of(r)
                return k(Val("(%s %d %s %d)" % ("shlS" if s else "shlU", w, a.term, kk), ty))
            if op == '>>':
                kk = self.const_of(r)
                return k(Val("(shrZ %s %d)" % (a.term, kk), ty))
            if b.ty != ty:
                raise Unsupported("operand types differ: %r %s %r" % (ty, op, b.ty))
            if op == '&':
                m = self.try_const(r)
                if m is None:
                    m = self.try_const(l); other = b
                else:
                    other = a
                if m is not None and m >= 0 and (m + 1) & m == 0 and not s:
                    kbits = m.bit_length()
                    return k(Val("(lowbits %d %s)" % (kbits, other.term), ty))
                return k(Val("(Z.land %s %s)" % (a.term, b.term), ty))
            if op == '|':
                return k(Val("(Z.lor %s %s)" % (a.term, b.term), ty))
            if op in ('+', '-', '*'):
                return self.checked("(%s %s %s)" % (a.term, op, b.term), ty, k,
                                    {'+': 'sum', '-': 'dif', '*': 'prd'}[op])
            raise Unsupported("binop %s" % op)

        if shift:
            return self.expr(l, env, hint, lambda a: with_both(a, None))
        if lit_l and not lit_r:
            return self.expr(r, env, opnd_hint, lambda b: self.expr(l, env, b.ty, lambda a: with_both(a, b)))
        return self.expr(l, env, opnd_hint, lambda a: self.expr(r, env, a.ty, lambda b: with_both(a, b)))

    def try_const(self, e):
        try:
            return self.const_eval(e)
        except Unsupported:
            return None

    def const_of(self, e):
        v = self.try_const(e)
        if v is None:
            raise Unsupported("non-constant shift amount")
        return v

    def call(self, e, env, hint, k):
        path, generics, args = e[1], e[2], e[3]
        name = path[-1]
        if name in ('Self', 'GoldilocksField') and len(path) == 1:
            return self.expr(args[0], env, T_int('u64'), lambda v: k(Val(v.term, T_F)))
        if name == 'Some':
            return self.expr(args[0], env, hint[1] if hint and hint[0] == 'opt' else None,
                             lambda v: k(Val("(Some %s)" % v.coq(), ('opt', v.ty))))
        if name == 'assume':
            return self.expr(args[0], env, T_BOOL,
                             lambda v: "bind (guard %s) (fun _ =>\n%s)" % (v.term, k(Val("tt", T_UNIT))))
        if name == 'branch_hint':
            return k(Val("tt", T_UNIT))
        if name in ('from_canonical_u64',):
            # debug_assert!(n < ORDER) in the implementation: a guard
            return self.expr(args[0], env, T_int('u64'),
                             lambda v: "bind (guard (Z.ltb %s ORDER)) (fun _ =>\n%s)" % (v.term, k(Val(v.term, T_F))))
        if name == 'from_noncanonical_u64':
            return self.expr(args[0], env, T_int('u64'), lambda v: k(Val(v.term, T_F)))
        if name in self.ctx.funcs:
            coqname, ptys, rty = self.ctx.funcs[name]
            vals = []
            if len(ptys) != len(args):
                raise Unsupported("arity of %s" % name)
            def go(i):
                if i == len(args):
                    pre = ""
                    if generics:
                        pre = " ".join(str(g) for g in generics) + " "
                    return self.mcall_emit(coqname + (" " + pre.strip() if pre else ""), vals, rty, k)
                return self.expr(args[i], env, ptys[i], lambda v: (vals.append(v), go(i + 1))[1])
            return go(0)
        raise Unsupported("call to %s" % "::".join(path))

    def mcall(self, e, env, hint, k):
        recv, name, args = e[1], e[2], e[3]
        def after(v):
            if v.ty[0] == 'int':
                s, w = v.ty[1], v.ty[2]
                if name in ('overflowing_add', 'overflowing_sub', 'overflowing_mul') and not s:
                    fn = {'overflowing_add': 'ovf_addU', 'overflowing_sub': 'ovf_subU', 'overflowing_mul': 'ovf_mulU'}[name]
                    def a2(b):
                        r = Val(items=[Val(self.ctx.fresh("w"), v.ty), Val(self.ctx.fresh("c"), T_BOOL)],
                                ty=('tuple', [v.ty, T_BOOL]))
                        return "let '%s := %s %d %s %s in\n%s" % (r.pat(), fn, w, v.term, b.term, k(r))
                    return self.expr(args[0], env, v.ty, a2)
                if name in ('wrapping_add', 'wrapping_sub', 'wrapping_mul'):
                    op = {'wrapping_add': '+', 'wrapping_sub': '-', 'wrapping_mul': '*'}[name]
                    return self.expr(args[0], env, v.ty, lambda b: k(Val(
                        "(%s %d (%s %s %s))" % ("wrapS" if s else "wrapU", w, v.term, op, b.term), v.ty)))
                raise Unsupported("integer method %s" % name)
            if v.ty[0] == 'F':
                if name == 'square':
                    return self.mcall_emit("gl_square", [v], T_F, k)
                if name == 'is_zero':
                    return self.mcall_emit("gl_is_zero", [v], T_BOOL, k)
                if name == 'to_canonical_u64':
                    return self.mcall_emit("gl_to_canonical_u64", [v], T_int('u64'), k)
                if name == 'to_noncanonical_u64':
                    return k(Val(v.term, T_int('u64')))
                if name == 'exp_power_of_2':
                    n = self.const_of(args[0])
                    return self.mcall_emit("gl_exp_power_of_2 %d" % n, [v], T_F, k)
                if name == 'multiply_accumulate':
                    return self.expr(args[0], env, T_F, lambda a: self.expr(args[1], env, T_F,
                                     lambda b: self.mcall_emit("gl_multiply_accumulate", [v, a, b], T_F, k)))
                raise Unsupported("field method %s" % name)
            raise Unsupported("method %s on %r" % (name, v.ty))
        return self.expr(recv, env, None, after)

    # ---- blocks and statements
    def assigned_vars(self, block, env):
        """outer variables assigned (not declared) inside block"""
        names = []
        declared = set()
        def lhs_names(e):
            if e[0] == 'var': return [e[1]]
            if e[0] == 'tuple': return sum([lhs_names(x) for x in e[1]], [])
            raise Unsupported("assignment target %r" % (e,))
        def walk(b):
            for st in b[1]:
                if st[0] == 'let':
                    def decl(p):
                        if p[0] == 'pvar': declared.add(p[1])
                        if p[0] == 'ptuple':
                            for q in p[1]: decl(q)
                    decl(st[1])
                elif st[0] == 'assign':
                    for n in lhs_names(st[1]):
                        if n not in declared and n in env and n not in names:
                            names.append(n)
                elif st[0] == 'expr' and st[1][0] == 'if':
                    walk(st[1][2])
                    if st[1][3]: walk(st[1][3])
                elif st[0] == 'expr' and st[1][0] == 'block':
                    walk(st[1])
        walk(block)
        return names

    def block(self, b, env, hint, k):
        """compile block; k(env, Val) continuation receives final env and tail value"""
        stmts, tail = b[1], b[2]
        def go(i, env):
            if i == len(stmts):
                if tail is None:
                    return k(env, Val("tt", T_UNIT))
                return self.expr(tail, env, hint, lambda v: k(env, v))
            st = stmts[i]
            if st[0] == 'let':
                pat, ty, init = st[1], st[2], st[3]
                if ty is not None:
                    ty = self.resolve_array_len(ty)
                if init is None:
                    # deferred declaration (`let cy;`): bound at first assignment
                    env2 = dict(env)
                    def decl(p):
                        if p[0] == 'pvar': env2[p[1]] = None
                        if p[0] == 'ptuple':
                            for q in p[1]: decl(q)
                    decl(pat)
                    return go(i + 1, env2)
                def after(v):
                    env2 = dict(env)
                    v2 = self.rename_for_pat(pat, v)
                    code_prefix = v2[1]
                    self.bind_pat(pat, v2[0], env2)
                    return code_prefix + go(i + 1, env2)
                return self.expr(init, env, ty, after)
            if st[0] == 'assign':
                lhs, op, rhs = st[1], st[2], st[3]
                if op == '=':
                    def after(v):
                        env2 = dict(env)
                        self.assign_to(lhs, v, env2)
                        return go(i + 1, env2)
                    return self.expr(rhs, env, self.lhs_type(lhs, env), after)
                binop = ('bin', op[0], lhs, rhs)
                def after2(v):
                    env2 = dict(env)
                    self.assign_to(lhs, v, env2)
                    return go(i + 1, env2)
                return self.expr(binop, env, None, after2)
            if st[0] == 'return':
                return self.expr(st[1], env, self.ret_ty, lambda v: "ret %s" % v.coq())
            if st[0] == 'expr':
                e = st[1]
                if e[0] == 'if':
                    return self.if_stmt(e, env, lambda env2: go(i + 1, env2))
                return self.expr(e, env, None, lambda v: go(i + 1, env))
            raise Unsupported("statement %r" % (st[0],))
        return go(0, env)

    def rename_for_pat(self, pat, v):
        """give let-bound scalars a readable Coq name via a pure let"""
        if pat[0] == 'pvar' and not v.is_tuple() and v.ty[0] != 'unit':
            name = self.ctx.fresh(pat[1])
            if re.match(r"^[A-Za-z_][A-Za-z0-9_']*$", v.term):
                return (v, "")   # already a variable
            return (Val(name, v.ty), "let %s := %s in\n" % (name, v.term))
        if pat[0] == 'ptuple' and v.is_tuple() and len(pat[1]) == len(v.items):
            code = ""
            items = []
            for p, x in zip(pat[1], v.items):
                x2, c = self.rename_for_pat(p, x)
                items.append(x2); code += c
            return (Val(items=items, ty=v.ty), code)
        return (v, "")

    def lhs_type(self, lhs, env):
        if lhs[0] == 'var':
            v = env.get(lhs[1])
            return v.ty if v is not None else None
        if lhs[0] == 'tuple':
            tys = [self.lhs_type(x, env) for x in lhs[1]]
            if any(t is None for t in tys): return None
            return ('tuple', tys)
        return None

    def assign_to(self, lhs, v, env):
        if lhs[0] == 'var':
            if lhs[1] not in env:
                raise Unsupported("assignment to unknown %s" % lhs[1])
            env[lhs[1]] = v
            return
        if lhs[0] == 'tuple':
            if not v.is_tuple() or len(v.items) != len(lhs[1]):
                raise Unsupported("tuple assignment shape")
            for x, y in zip(lhs[1], v.items):
                self.assign_to(x, y, env)
            return
        raise Unsupported("assignment target %r" % (lhs[0],))

    def ends_with_return(self, b):
        return b[1] and b[1][-1][0] == 'return'

    def if_stmt(self, e, env, k):
        cond, then, els = e[1], e[2], e[3]
        if self.ends_with_return(then) and els is None:
            def after(c):
                tcode = self.block(then, dict(env), None, lambda env2, v: "ret tt")
                return "if %s then\n%s\nelse\n%s" % (c.term, tcode, k(env))
            return self.expr(cond, env, T_BOOL, after)
        names = self.assigned_vars(then, env)
        if els:
            for n in self.assigned_vars(els, env):
                if n not in names: names.append(n)
        def after(c):
            def pack(env2):
                vals = [env2[n] for n in names]
                if not vals: return "ret tt"
                return "ret " + ("(" + ", ".join(v.coq() for v in vals) + ")" if len(vals) > 1 else vals[0].coq())
            tcode = self.block(then, dict(env), None, lambda env2, v: pack(env2))
            ecode = self.block(els, dict(env), None, lambda env2, v: pack(env2)) if els else pack(env)
            env3 = dict(env)
            news = []
            for n in names:
                nv = self.fresh_val(n, env[n].ty)
                env3[n] = nv
                news.append(nv)
            if not news:
                patc = "_"
            elif len(news) == 1:
                patc = news[0].pat() if not news[0].is_tuple() else "'" + news[0].pat()
            else:
                patc = "'(" + ", ".join(v.pat() for v in news) + ")"
            return "bind (if %s then\n%s\nelse\n%s) (fun %s =>\n%s)" % (c.term, tcode, ecode, patc, k(env3))
        return self.expr(cond, env, T_BOOL, after)

    def if_expr(self, e, env, hint, k):
        cond, then, els = e[1], e[2], e[3]
        if els is None:
            raise Unsupported("if-expression without else")
        def after(c):
            tys = []
            def br(b):
                def fin(env2, v):
                    tys.append(v.ty)
                    return "ret %s" % v.coq()
                return self.block(b, dict(env), hint, fin)
            tcode = br(then)
            ecode = br(els)
            res = self.fresh_val("ite", tys[0])
            return "bind (if %s then\n%s\nelse\n%s) (fun %s =>\n%s)" % (
                c.term, tcode, ecode, ("'" + res.pat()) if res.is_tuple() else res.pat(), k(res))
        return self.expr(cond, env, T_BOOL, after)

    def compile_fn(self, coqname, params, ret, body, extra_params=()):
        env = {}
        sig = []
        for g in extra_params:
            sig.append("(%s : Z)" % g)
        for pat, ty in params:
            ty = self.resolve_array_len(ty)
            base = pat[1] if pat[0] == 'pvar' else "arg"
            v = self.fresh_val(base if base != 'self' else 'self_', ty)
            if v.is_tuple():
                sig.append("'(%s : %s)" % (v.pat(), type_coq(ty)))
            else:
                sig.append("(%s : %s)" % (v.pat(), type_coq(ty)))
            self.bind_pat(pat, v, env)
        self.ret_ty = self.resolve_array_len(ret)
        code = self.block(body, env, self.ret_ty, lambda env2, v: "ret %s" % v.coq())
        return "Definition %s %s : M %s :=\n%s.\n" % (coqname, " ".join(sig), type_coq(self.ret_ty), code)

# ------------------------------------------------------------------ constants (T1)
def const_table(src, name, consts):
    """parse `const NAME: TYPE = EXPR;` (first occurrence) and evaluate it"""
    m = re.search(r"\bconst\s+%s\s*:" % re.escape(name), src)
    if not m:
        raise Unsupported("const %s not found" % name)
    end = src.index(';', m.end())
    # type may contain ';' inside [T; N]: find the '=' at bracket depth 0
    i = m.end(); depth = 0
    while True:
        c = src[i]
        if c in '[(<': depth += 1
        if c in '])>': depth -= 1
        if c == '=' and depth == 0: break
        i += 1
    j = i + 1; depth = 0
    while True:
        c = src[j]
        if c in '[(': depth += 1
        if c in '])': depth -= 1
        if c == ';' and depth == 0: break
        j += 1
    tytoks = tokenize(src[m.end():i])
    ty = Parser(tytoks).parse_type()
    etoks = tokenize(src[i + 1:j])
    e = Parser(etoks).parse_expr()
    return eval_const_expr(e, consts), ty

def eval_const_expr(e, consts):
    t = e[0]
    if t == 'num': return e[1]
    if t == 'var':
        if e[1] in consts: return consts[e[1]][0]
        raise Unsupported("const var %s" % e[1])
    if t == 'path':
        if e[1][-1] in consts: return consts[e[1][-1]][0]
        raise Unsupported("const path %r" % (e[1],))
    if t == 'tuple': return [eval_const_expr(x, consts) for x in e[1]]
    if t == 'call' and e[1][-1] in ('Self', 'GoldilocksField'): return eval_const_expr(e[3][0], consts)
    if t == 'un' and e[1] == '-': return -eval_const_expr(e[2], consts)
    if t == 'cast': return eval_const_expr(e[1], consts)
    if t == 'bin':
        a, b = eval_const_expr(e[2], consts), eval_const_expr(e[3], consts)
        return {'+': lambda: a + b, '-': lambda: a - b, '*': lambda: a * b, '<<': lambda: a << b,
                '>>': lambda: a >> b, '/': lambda: a // b}[e[1]]()
    raise Unsupported("const expr %r" % (t,))

def coq_of_const(v):
    if isinstance(v, list):
        return "[" + "; ".join(coq_of_const(x) for x in v) + "]"
    return zlit(v)

def coq_type_of_const(v):
    if isinstance(v, list):
        return "list " + ("(%s)" % coq_type_of_const(v[0]) if isinstance(v[0], list) else "Z")
    return "Z"

# ------------------------------------------------------------------ driver
HEADER = """(* GENERATED by tools/rs2v.py from %s -- do not edit; regenerated on every check run *)
From Coq Require Import ZArith Bool List.
Import ListNotations.
Open Scope Z_scope.
"""

def gen_field(repo, outdir):
    gf = strip_comments(open(os.path.join(repo, "field/src/goldilocks_field.rs")).read())
    ge = strip_comments(open(os.path.join(repo, "field/src/goldilocks_extensions.rs")).read())
    consts = {}
    lines = [HEADER % "field/src/goldilocks_field.rs, field/src/goldilocks_extensions.rs"]
    for name in ["EPSILON", "ORDER", "ZERO", "ONE", "TWO", "TWO_ADICITY", "MULTIPLICATIVE_GROUP_GENERATOR", "POWER_OF_TWO_GENERATOR"]:
        consts[name] = const_table(gf, name, consts)
        lines.append("Definition %s : Z := %s." % (name, zlit(consts[name][0])))
    consts["NEG_ONE"] = const_table(gf, "NEG_ONE", consts)
    lines.append("Definition NEG_ONE : Z := %s." % zlit(consts["NEG_ONE"][0]))
    # extension constants: per degree D, anchored at `impl Extendable<D> for GoldilocksField`
    for D in (2, 4, 5):
        a = ge.index("impl Extendable<%d> for GoldilocksField" % D)
        seg = ge[a:ge.index("impl Mul for", a)]
        loc = dict(consts)
        for name in ["W", "DTH_ROOT", "EXT_MULTIPLICATIVE_GROUP_GENERATOR", "EXT_POWER_OF_TWO_GENERATOR"]:
            v, ty = const_table(seg, name, loc)
            lines.append("Definition EXT%d_%s : %s := %s." % (D, name, coq_type_of_const(v), coq_of_const(v)))
    write_if_changed(os.path.join(outdir, "FieldConsts.v"), "\n".join(lines) + "\n")

    # ---- T2 functions
    ctx = Ctx(consts, {})
    out = [HEADER % "field/src/goldilocks_field.rs, field/src/goldilocks_extensions.rs",
           "From Verif Require Import Base.Mach Gen.FieldConsts.\n"]
    def tr(src, anchor, rname, coqname, register=None, extra=()):
        text = find_fn(src, anchor, rname)
        name, params, ret, body = parse_fn(text)
        fc = FnCompiler(ctx)
        ctx.counter = {}
        code = fc.compile_fn(coqname, params, ret, body, extra)
        ptys = [fc.resolve_array_len(t) for _, t in params]
        ctx.funcs[register or rname] = (coqname, ptys, fc.resolve_array_len(ret))
        out.append(code)
    # order matters: callees first
    tr(gf, "#[cfg(not(target_arch = \"x86_64\"))]\nconst unsafe fn add_no_canonicalize", "add_no_canonicalize_trashing_input", "gl_add_no_canon")
    tr(gf, None, "split", "gl_split")
    tr(gf, "fn reduce96(", "reduce96", "gl_reduce96") if False else tr(gf, None, "reduce96", "gl_reduce96")
    tr(gf, None, "reduce128", "gl_reduce128")
    tr(gf, None, "reduce160", "gl_reduce160")
    tr(gf, "impl PrimeField64 for GoldilocksField", "to_canonical_u64", "gl_to_canonical_u64")
    tr(gf, "impl Field64 for GoldilocksField", "add_canonical_u64", "gl_add_canonical_u64")
    tr(gf, "impl Field64 for GoldilocksField", "sub_canonical_u64", "gl_sub_canonical_u64")
    tr(gf, "impl Add for GoldilocksField", "add", "gl_add")
    tr(gf, "impl Sub for GoldilocksField", "sub", "gl_sub")
    tr(gf, "impl Mul for GoldilocksField", "mul", "gl_mul")
    tr(gf, "impl Field for GoldilocksField", "from_noncanonical_i64", "gl_from_noncanonical_i64")
    tr(gf, "impl Field for GoldilocksField", "multiply_accumulate", "gl_multiply_accumulate")
    ctx.funcs['from_noncanonical_u96'] = ctx.funcs['reduce96']
    ctx.funcs['from_noncanonical_u128'] = ctx.funcs['reduce128']
    # is_zero / neg / square / exp_power_of_2 / exp_acc / try_inverse
    out.append("Definition gl_is_zero (x : Z) : M bool := bind (gl_to_canonical_u64 x) (fun c => ret (Z.eqb c 0)).\n")
    tr(gf, "impl Neg for GoldilocksField", "neg", "gl_neg")
    out.append("(* default `fn square(&self) = *self * *self` (field/src/ops.rs); default `exp_power_of_2`\n"
               "   (field/src/types.rs): square power_log times *)\n"
               "Definition gl_square (x : Z) : M Z := gl_mul x x.\n"
               "Fixpoint gl_exp_power_of_2_nat (n : nat) (x : Z) : M Z :=\n"
               "  match n with O => ret x | S n' => bind (gl_square x) (fun y => gl_exp_power_of_2_nat n' y) end.\n"
               "Definition gl_exp_power_of_2 (n : Z) (x : Z) : M Z := gl_exp_power_of_2_nat (Z.to_nat n) x.\n")
    check_defaults(repo)
    text = find_fn(gf, None, "exp_acc")
    name, params, ret, body = parse_fn(text)
    fc = FnCompiler(ctx); ctx.counter = {}
    # const generic N becomes an explicit first parameter
    ctx.consts['N'] = (None, T_int('usize'))
    out.append(compile_exp_acc(fc, params, ret, body))
    del ctx.consts['N']
    ctx.funcs['exp_acc'] = ("gl_exp_acc", [T_F, T_F], T_F)
    tr(gf, "impl Field for GoldilocksField", "try_inverse", "gl_try_inverse")
    # extensions
    tr(ge, None, "u160_times_3", "u160_times_3")
    tr(ge, None, "u160_times_7", "u160_times_7")
    for D in (2, 4, 5):
        for i in range(D):
            tr(ge, None, "ext%d_add_prods%d" % (D, i), "ext%d_add_prods%d" % (D, i))
        tr(ge, None, "ext%d_mul" % D, "ext%d_mul" % D)
    write_if_changed(os.path.join(outdir, "GoldilocksImpl.v"), "\n".join(out))

def compile_exp_acc(fc, params, ret, body):
    # fn exp_acc<const N: usize>(base, tail) { base.exp_power_of_2(N) * tail }
    tail = body[2]
    ok = (tail and tail[0] == 'bin' and tail[1] == '*' and tail[2][0] == 'mcall'
          and tail[2][2] == 'exp_power_of_2' and tail[2][3] == [('var', 'N')] and tail[2][1] == ('var', 'base')
          and tail[3] == ('var', 'tail') and not body[1])
    if not ok:
        raise Unsupported("exp_acc has an unexpected body")
    return ("Definition gl_exp_acc (n : Z) (base tail : Z) : M Z :=\n"
            "bind (gl_exp_power_of_2 n base) (fun r => gl_mul r tail).\n")

def check_defaults(repo):
    """the default methods modelled by hand above must still read as modelled"""
    ops = strip_comments(open(os.path.join(repo, "field/src/ops.rs")).read())
    if not re.search(r"default\s+fn\s+square\(&self\)\s*->\s*Self\s*\{\s*\*self\s*\*\s*\*self\s*\}", ops):
        raise Unsupported("ops.rs: default square is no longer `*self * *self`")
    ty = strip_comments(open(os.path.join(repo, "field/src/types.rs")).read())
    body = find_fn(ty, None, "exp_power_of_2")
    norm = re.sub(r"\s+", " ", body)
    want = "fn exp_power_of_2(&self, power_log: usize) -> Self { let mut res = *self; for _ in 0..power_log { res = res.square(); } res }"
    if norm != want:
        raise Unsupported("types.rs: exp_power_of_2 changed: %s" % norm)

def gen_poseidon(repo, outdir):
    ps = strip_comments(open(os.path.join(repo, "plonky2/src/hash/poseidon.rs")).read())
    pg = strip_comments(open(os.path.join(repo, "plonky2/src/hash/poseidon_goldilocks.rs")).read())
    consts = {}
    lines = [HEADER % "plonky2/src/hash/poseidon.rs, plonky2/src/hash/poseidon_goldilocks.rs"]
    for name in ["SPONGE_RATE", "SPONGE_CAPACITY", "SPONGE_WIDTH", "HALF_N_FULL_ROUNDS", "N_FULL_ROUNDS_TOTAL",
                 "N_PARTIAL_ROUNDS", "N_ROUNDS", "MAX_WIDTH"]:
        consts[name] = const_table(ps, name, consts)
        lines.append("Definition %s : Z := %s." % (name, zlit(consts[name][0])))
    v, ty = const_table(ps, "ALL_ROUND_CONSTANTS", consts)
    lines.append("Definition ALL_ROUND_CONSTANTS : list Z := %s." % coq_of_const(v))
    for name in ["MDS_MATRIX_CIRC", "MDS_MATRIX_DIAG", "FAST_PARTIAL_FIRST_ROUND_CONSTANT",
                 "FAST_PARTIAL_ROUND_CONSTANTS", "FAST_PARTIAL_ROUND_VS", "FAST_PARTIAL_ROUND_W_HATS",
                 "FAST_PARTIAL_ROUND_INITIAL_MATRIX"]:
        a = pg.index("impl Poseidon for GoldilocksField")
        v, ty = const_table(pg[a:], name, consts)
        consts[name] = (v, ty)
        lines.append("Definition %s : %s := %s." % (name, coq_type_of_const(v), coq_of_const(v)))
    mds_consts = {}
    for name in ["MDS_FREQ_BLOCK_ONE", "MDS_FREQ_BLOCK_TWO", "MDS_FREQ_BLOCK_THREE"]:
        v, ty = const_table(pg, name, consts)
        mds_consts[name] = (v, ty)
    write_if_changed(os.path.join(outdir, "PoseidonConsts.v"), "\n".join(lines) + "\n")

    # functions
    # reuse field function signatures
    fctx_funcs = {
        'from_noncanonical_u96': ("gl_reduce96", [('tuple', [T_int('u64'), T_int('u32')])], T_F),
        'from_noncanonical_u128': ("gl_reduce128", [T_int('u128')], T_F),
    }
    ctx = Ctx(dict(mds_consts), dict(fctx_funcs))
    out = [HEADER % "plonky2/src/hash/poseidon.rs, plonky2/src/hash/poseidon_goldilocks.rs",
           "From Verif Require Import Base.Mach Gen.FieldConsts Gen.GoldilocksImpl.\n"]
    def tr(src, anchor, rname, coqname):
        text = find_fn(src, anchor, rname)
        # generic `F::` prefixes resolve to the Goldilocks instance
        name, params, ret, body = parse_fn(text)
        fc = FnCompiler(ctx); ctx.counter = {}
        code = fc.compile_fn(coqname, params, ret, body)
        ptys = [fc.resolve_array_len(t) for _, t in params]
        ctx.funcs[rname] = (coqname, ptys, fc.resolve_array_len(ret))
        out.append(code)
    tr(ps, None, "add_u160_u128", "add_u160_u128")
    tr(ps, None, "reduce_u160", "reduce_u160")
    for f in ["fft2_real", "ifft2_real_unreduced", "fft4_real", "ifft4_real_unreduced", "block1", "block2", "block3",
              "mds_multiply_freq"]:
        tr(pg, "mod poseidon12_mds", f, "mds_" + f if not f.startswith("mds_") else f)
    write_if_changed(os.path.join(outdir, "PoseidonImpl.v"), "\n".join(out))

def write_if_changed(path, text):
    """keep timestamps of unchanged generated files so that make does not rebuild their dependants"""
    if os.path.exists(path) and open(path).read() == text:
        return
    open(path, "w").write(text)


def main():
    repo = sys.argv[1] if len(sys.argv) > 1 else "/repo"
    outdir = sys.argv[2] if len(sys.argv) > 2 else os.path.join(os.path.dirname(os.path.abspath(__file__)), "..", "coq", "Gen")
    os.makedirs(outdir, exist_ok=True)
    status = {"ok": True, "errors": []}
    for gen in (gen_field, gen_poseidon):
        try:
            gen(repo, outdir)
        except Unsupported as ex:
            status["ok"] = False
            status["errors"].append("%s: %s" % (gen.__name__, ex))
    print(json.dumps(status))
    sys.exit(0 if status["ok"] else 2)

if __name__ == "__main__":
    main()
