"""Independent oracle for C12 with KeccakHash<25>: level-by-level hashing with an own Keccak-256."""
from keccak import keccak256
N = 25
P = 2**64 - 2**32 + 1

def elts_bytes(xs):
    return b"".join(int(x).to_bytes(8, "little") for x in xs)

def hash_no_pad(xs):
    return keccak256(elts_bytes(xs))[:N]

def hash_or_noop(xs):
    if len(xs) * 8 <= N:
        return elts_bytes(xs) + bytes(N - 8 * len(xs))
    return hash_no_pad(xs)

def two_to_one(a, b):
    return keccak256(a + b)[:N]

def levels(leaves):
    cur = [hash_or_noop(l) for l in leaves]
    out = [cur]
    while len(cur) > 1:
        cur = [two_to_one(cur[2 * i], cur[2 * i + 1]) for i in range(len(cur) // 2)]
        out.append(cur)
    return out

_cache = {}
def tree(h, n, w, flat):
    key = (n, w, tuple(flat))
    if key not in _cache:
        if len(_cache) > 8:
            _cache.clear()
        leaves = [flat[i * w:(i + 1) * w] for i in range(n)]
        _cache[key] = (leaves, levels(leaves))
    return _cache[key]

def check(op, args, res):
    a = [int(x) for x in args]
    if res == ["panic"]:
        return "implementation panicked"
    r = [int(x) for x in res]
    if op == "kcap":
        h, n, w = a[0], a[1], a[2]
        leaves, lv = tree(h, n, w, a[3:])
        k = n.bit_length() - 1
        want = b"".join(lv[k - h])
        return None if bytes(r) == want else "cap differs from pairwise level-by-level Keccak hashing"
    if op == "kprove":
        h, n, w, i = a[0], a[1], a[2], a[3]
        leaves, lv = tree(h, n, w, a[4:])
        k = n.bit_length() - 1
        want = b""
        idx = i
        for level in range(k - h):
            want += lv[level][idx ^ 1]
            idx >>= 1
        return None if bytes(r) == want else "proof siblings differ from the tree's sibling digests"
    if op == "kverify":
        h, n, w, i = a[0], a[1], a[2], a[3]
        claimed = a[4:4 + w]
        leaves, lv = tree(h, n, w, a[4 + w:])
        want = 1 if claimed == leaves[i] else 0
        if r[0] == want:
            return None
        if want == 1:
            return "the committed leaf was rejected"
        return "position %d opens to a leaf that was not committed (width %d, cap height %d)" % (i, w, h)
    return "unknown op " + op
