"""Property oracle for C02 (independent of the Coq model and of the harness' own 1/0 flag).

A `c02` line describes one (program, configuration, corruption, prover strategy) case: the
corruption was shown by the real constraint evaluators to violate the circuit (`violated=<what>`)
and `outcome=` is what the proving API + verifier did.  The property holds on the case iff the
outcome is not an accepted proof.  `c02honest` lines must be accepted (no corruption, no knob);
`c02knob` lines run a strategy on the honest witness: a degenerate accumulator or an altered
quotient must be rejected, strategies that do not touch the transcript must be accepted.
`cpp` lines: check_partial_products terms recomputed with Python integers over Fp2 = Fp[X]/(X^2-7).
"""
P = 2**64 - 2**32 + 1
W = 7

def mul2(a, b):
    return ((a[0] * b[0] + W * a[1] * b[1]) % P, (a[0] * b[1] + a[1] * b[0]) % P)

def sub2(a, b):
    return ((a[0] - b[0]) % P, (a[1] - b[1]) % P)

def prod2(xs):
    r = (1, 0)
    for x in xs:
        r = mul2(r, x)
    return r

def read_exts(a, i):
    n = a[i]; i += 1
    out = [(a[i + 2 * k], a[i + 2 * k + 1]) for k in range(n)]
    return out, i + 2 * n

def field(tokens, key):
    for t in tokens:
        if t.startswith(key + "="):
            return t[len(key) + 1:]
    return None

def cpp_spec(a):
    md = a[0]
    nums, i = read_exts(a, 1)
    dens, i = read_exts(a, i)
    parts, i = read_exts(a, i)
    zx = (a[i], a[i + 1]); zgx = (a[i + 2], a[i + 3])
    ch = lambda v: [v[k:k + md] for k in range(0, len(v), md)]
    cn, cd = ch(nums), ch(dens)
    accs = [zx] + parts + [zgx]
    if len(cn) != len(cd) or len(cn) != len(accs) - 1:
        return None          # zip_eq panics
    out = []
    for k in range(len(cn)):
        t = sub2(mul2(accs[k], prod2(cn[k])), mul2(accs[k + 1], prod2(cd[k])))
        out += [t[0], t[1]]
    return out

def check(op, args, res):
    """None if the implementation's behaviour satisfies the property on this case, else a message"""
    if op == "cpp":
        want = cpp_spec([int(x) for x in args])
        if want is None:
            return None if res[:1] == ["fail"] else "length mismatch must panic (zip_eq)"
        if res[:1] == ["fail"]:
            return "well-formed call panicked"
        got = [int(x) for x in res]
        return None if got == want else "check_partial_products terms differ from prev*prod(num) - next*prod(den)"
    if op == "c02":
        out = field(res, "outcome")
        viol = field(res, "violated")
        if out is None or viol is None:
            return "malformed case line"
        if out == "ACCEPTED":
            return "accepted proof for a violated circuit (%s), strategy %s" % (viol, args[3] if len(args) > 3 else "?")
        if res[0] != "1":
            return "harness flag disagrees with outcome %s" % out
        return None
    if op == "c02honest":
        if res[0] != "1":
            return "honest proof not accepted or honest witness not satisfying: " + " ".join(res[2:12])
        return None
    if op == "c02knob":
        out = field(res, "outcome")
        s = args[2]
        if s in ("z-zero", "quotient-perturb") and out == "ACCEPTED":
            return "degenerate strategy %s accepted on the honest witness" % s
        if s == "z-first" and out == "ACCEPTED" and "z1:Some(1)" not in " ".join(res):
            return "Z(1) != 1 accepted on the honest witness"
        if s in ("ignore-checks", "lenient-trim") and out != "ACCEPTED":
            return "honest witness rejected although strategy %s changes nothing" % s
        return None
    return None
