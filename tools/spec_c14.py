"""Property oracle for C14, independent of the Coq model: the mathematical specification of each
operation evaluated with Python integers. Used (a) to decide whether the implementation itself
violates the property on a concrete input, (b) as the failing-input search when a proof obligation
or the model/implementation correspondence breaks."""
P = 2**64 - 2**32 + 1
W = {2: 7, 4: 7, 5: 3}

def ext_mul(D, a, b, w):
    c = [0] * D
    for i in range(D):
        for j in range(D):
            if i + j < D:
                c[i + j] = (c[i + j] + a[i] * b[j]) % P
            else:
                c[i + j - D] = (c[i + j - D] + w * a[i] * b[j]) % P
    return c

def ext_pow(D, a, e, w):
    r = [1] + [0] * (D - 1)
    while e:
        if e & 1:
            r = ext_mul(D, r, a, w)
        a = ext_mul(D, a, a, w)
        e >>= 1
    return r

def check(op, args, res, consts=None):
    """return None if the implementation result satisfies the specification, else a message"""
    if res == ["panic"]:
        return "implementation panicked"
    a = [int(x) for x in args]
    r = [int(x) for x in res]
    w = dict(W)
    def cong(got, want):
        if not (0 <= got < 2**64):
            return "result %d not a u64" % got
        if got % P != want % P:
            return "got %d = %d mod P, specification %d" % (got, got % P, want % P)
        return None
    if op == "add": return cong(r[0], a[0] + a[1])
    if op == "sub": return cong(r[0], a[0] - a[1])
    if op == "mul": return cong(r[0], a[0] * a[1])
    if op == "addc": return cong(r[0], a[0] + a[1])
    if op == "subc": return cong(r[0], a[0] - a[1])
    if op == "red96": return cong(r[0], a[0] + (a[1] << 64))
    if op == "red128": return cong(r[0], a[0])
    if op == "red160": return cong(r[0], a[0] + (a[1] << 128))
    if op == "mac": return cong(r[0], a[0] + a[1] * a[2])
    if op == "neg": return cong(r[0], -a[0])
    if op == "square": return cong(r[0], a[0] * a[0])
    if op == "canon":
        return None if r[0] == a[0] % P else "canonical form %d, expected %d" % (r[0], a[0] % P)
    if op == "fromi64":
        n = a[0] - 2**64 if a[0] >= 2**63 else a[0]
        m = cong(r[0], n)
        return m or (None if r[0] < P else "from_noncanonical_i64 result not canonical")
    if op == "inv":
        if a[0] % P == 0:
            return None if r == [0] else "inverse of zero returned a value"
        if r[0] != 1: return "inverse of a non-zero element returned None"
        return None if (r[1] * a[0]) % P == 1 else "x * inv(x) = %d" % ((r[1] * a[0]) % P)
    if op in ("ext2mul", "ext4mul", "ext5mul"):
        D = int(op[3])
        want = ext_mul(D, [x % P for x in a[:D]], [x % P for x in a[D:]], w[D])
        got = [x % P for x in r]
        if any(not (0 <= x < 2**64) for x in r): return "result not u64"
        return None if got == want else "got %s, schoolbook product %s" % (got, want)
    if op == "expu64":
        return None if r[0] == pow(a[0], a[1], P) else "got %d expected %d" % (r[0], pow(a[0], a[1], P))
    if op == "inv2exp":
        return None if (r[0] * pow(2, a[0], P)) % P == 1 else "2^k * inverse_2exp(k) != 1"
    if op == "batchinv":
        if len(r) != len(a): return "length %d, expected %d" % (len(r), len(a))
        for x, y in zip(a, r):
            if (x * y) % P != 1: return "x * batch_inverse(x) != 1 for x=%d" % x
        return None
    import re as _re
    _m = _re.match(r"ext([245])(add|sub|addassign|mulassign|sum|product|div|neg|double|scalarmul|frombase)$", op)
    if _m:
        D, what = int(_m.group(1)), _m.group(2)
        x = [v % P for v in a[:D]]
        y = [v % P for v in a[D:2 * D]] if len(a) >= 2 * D else None
        if what in ("add", "addassign"): want = [(u + v) % P for u, v in zip(x, y)]
        elif what == "sub": want = [(u - v) % P for u, v in zip(x, y)]
        elif what == "sum": want = [(2 * u + v) % P for u, v in zip(x, y)]
        elif what in ("mulassign", "product"): want = ext_mul(D, x, y, w[D])
        elif what == "div":
            got = [v % P for v in r]
            back = ext_mul(D, got, y, w[D])
            return None if back == x else "(a / b) * b = %s, a = %s" % (back, x)
        elif what == "neg": want = [(-u) % P for u in x]
        elif what == "double": want = [(2 * u) % P for u in x]
        elif what == "scalarmul": want = [(u * a[D]) % P for u in x]
        else: want = [a[0] % P] + [0] * (D - 1)
        return None if r == want else "%s: got %s, specification %s" % (op, r, want)
    if op == "div":
        return None if (r[0] * a[1]) % P == a[0] % P else "(x / y) * y != x"
    if op == "cube":
        return None if r[0] == pow(a[0], 3, P) else "cube %d, x^3 = %d" % (r[0], pow(a[0], 3, P))
    if op == "double":
        return None if r[0] == (2 * a[0]) % P else "double"
    if op == "exppow2":
        return None if r[0] == pow(a[0], 2 ** a[1], P) else "exp_power_of_2"
    if op == "mulu32":
        return None if r == [a[0] % P, (a[0] * a[1]) % P] else "multiply by a u32 constant / multiply_accumulate with zeros"
    if op == "ext2batchinv":
        if len(r) != len(a): return "length %d, expected %d" % (len(r), len(a))
        for i in range(0, len(a), 2):
            x = [a[i] % P, a[i + 1] % P]
            if ext_mul(2, x, r[i:i + 2], w[2]) != [1, 0]:
                return "x * batch_inverse(x) != 1 for element %d of %d" % (i // 2, len(a) // 2)
        return None
    if op in ("ext2inv", "ext4inv", "ext5inv"):
        D = int(op[3])
        x = [v % P for v in a]
        if all(v == 0 for v in x):
            return None if r == [0] else "inverse of zero returned a value"
        if r[0] != 1: return "inverse of non-zero extension element returned None"
        prod = ext_mul(D, x, r[1:], w[D])
        return None if prod == [1] + [0] * (D - 1) else "a * inverse(a) = %s" % prod
    if op in ("ext2frob", "ext4frob", "ext5frob"):
        D = int(op[3])
        want = ext_pow(D, [v % P for v in a], P, w[D])
        return None if r == want else "frobenius %s, a^p = %s" % (r, want)
    if op in ("ext2sq", "ext4sq", "ext5sq"):
        D = int(op[3])
        x = [v % P for v in a]
        want = ext_mul(D, x, x, w[D])
        return None if r == want else "square %s, a*a = %s" % (r, want)
    if op in ("padd", "psub", "pmul", "pneg", "psquare"):
        want = {"padd": lambda: a[0] + a[1], "psub": lambda: a[0] - a[1], "pmul": lambda: a[0] * a[1],
                "pneg": lambda: -a[0], "psquare": lambda: a[0] * a[0]}[op]() % P
        return None if r[0] == want else "packed lane result %d, specification %d" % (r[0], want)
    if op == "pinterleave_involution":
        return None if r[0] == 1 else "interleave is not an involution"
    if op == "packed_width":
        return None
    if op == "const_w":
        return None if r[0] == w[a[0]] else "W changed: binomial X^%d - %d" % (a[0], r[0])
    if op == "const_dth":
        D = a[0]
        want = pow(w[D], (P - 1) // D, P)
        return None if r[0] == want else "DTH_ROOT %d, expected W^((p-1)/D) = %d" % (r[0], want)
    return "unknown op " + op
