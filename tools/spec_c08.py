"""Property oracle for C08 (independent of the Coq model and of the harness' own 1/0 flag).

`c08 <case> <config> <kind> <strategy> = flag # detail`
  kind = positive: the honest proof must verify and every lookup output must be the table's value;
  kind = unused-table: the builder must refuse;
  any other kind is a negative: the looked-up pair / multiplicity / table cell was altered so that the
  lookup relation is violated (`violated=lookup:..`); whatever the prover strategy, the outcome must not
  be an accepted proof.
`c08replay`: fixed minimal negative (table {(1,10),(2,20)}, lookup of 2, claimed output 999, running sum started from a
  non-zero value): the regression case of the defect fixed in repo commit bfbd0f1 - must be rejected under every configuration.
`lkc`: check_lookup_constraints recomputed with Python integers (Fp2 arithmetic).
"""
P = 2**64 - 2**32 + 1
W = 7

def add2(a, b): return ((a[0] + b[0]) % P, (a[1] + b[1]) % P)
def sub2(a, b): return ((a[0] - b[0]) % P, (a[1] - b[1]) % P)
def mul2(a, b): return ((a[0] * b[0] + W * a[1] * b[1]) % P, (a[0] * b[1] + a[1] * b[0]) % P)
def base(x): return (x % P, 0)

def field(tokens, key):
    for t in tokens:
        if t.startswith(key + "="):
            return t[len(key) + 1:]
    return None

def read_exts(a, i):
    n = a[i]; i += 1
    return [(a[i + 2 * k], a[i + 2 * k + 1]) for k in range(n)], i + 2 * n

def ceil_div(a, b): return -(-a // b)

def lkc_spec(a):
    routed, qdf, nl = a[0], a[1], a[2]
    i = 3
    luts = []
    for _ in range(nl):
        n = a[i]; i += 1
        luts.append([(a[i + 2 * k], a[i + 2 * k + 1]) for k in range(n)]); i += 2 * n
    dA, dB, dAlpha, dDelta = a[i:i + 4]; i += 4
    sels, i = read_exts(a, i)
    loc, i = read_exts(a, i)
    nxt, i = read_exts(a, i)
    wires, i = read_exts(a, i)
    nlu, nlut = routed // 2, routed // 3
    lu_deg = qdf - 1
    nsldc = len(loc) - 1
    lut_deg = ceil_div(nlut, nsldc)
    TRANS_SRE, TRANS_LDC, INIT_SRE, LAST_LDC, START_END = 0, 1, 2, 3, 4
    z_re, nz_re = loc[0], nxt[0]
    zx, zgx = loc[1:], nxt[1:]
    looked = [add2(wires[3 * s], mul2(base(dA), wires[3 * s + 1])) for s in range(nlut)]
    looking = [add2(wires[2 * s], mul2(base(dA), wires[2 * s + 1])) for s in range(nlu)]
    lookupc = [add2(wires[3 * s], mul2(base(dB), wires[3 * s + 1])) for s in range(nlut)]
    out = [mul2(sels[LAST_LDC], zx[nsldc - 1]), mul2(sels[INIT_SRE], zx[nsldc - 1]), mul2(sels[INIT_SRE], z_re)]
    for r in range(START_END, len(sels)):
        t = luts[r - START_END]
        rows = ceil_div(len(t), nlut)
        pad = (nlut - len(t) % nlut) % nlut
        coeffs = [(x + dB * y) % P for (x, y) in t] + [(t[0][0] + dB * t[0][1]) % P] * pad
        coeffs += [0] * (nlut * rows - len(coeffs))
        coeffs.reverse()
        ev = 0
        for c in reversed(coeffs):
            ev = (ev * dDelta + c) % P
        out.append(mul2(sels[r], sub2(z_re, base(ev))))
    cur = nz_re
    for e in lookupc:
        cur = add2(mul2(cur, base(dDelta)), e)
    out.append(mul2(sels[TRANS_SRE], sub2(z_re, cur)))
    al = base(dAlpha)
    for poly in range(nsldc):
        lut_rng = range(poly * lut_deg, min((poly + 1) * lut_deg, nlut))
        lu_rng = range(poly * lu_deg, min((poly + 1) * lu_deg, nlu))
        def prod(rng, combos, skip=None):
            r = (1, 0)
            for j in rng:
                if j != skip:
                    r = mul2(r, sub2(al, combos[j]))
            return r
        lut_prod, lu_prod = prod(lut_rng, looked), prod(lu_rng, looking)
        lu_sum = (0, 0)
        for j in lu_rng:
            lu_sum = add2(lu_sum, prod(lu_rng, looking, j))
        lut_sum = (0, 0)
        for j in lut_rng:
            lut_sum = add2(lut_sum, mul2(wires[3 * j + 2], prod(lut_rng, looked, j)))
        prev = zgx[nsldc - 1] if poly == 0 else zx[poly - 1]
        out.append(mul2(sels[TRANS_SRE], sub2(mul2(lut_prod, sub2(zx[poly], prev)), lut_sum)))
        out.append(mul2(sels[TRANS_LDC], add2(mul2(lu_prod, sub2(zx[poly], prev)), lu_sum)))
    flat = []
    for t in out:
        flat += [t[0], t[1]]
    return flat

def check(op, args, res):
    if op == "lkc":
        want = lkc_spec([int(x) for x in args])
        got = [int(x) for x in res]
        return None if got == want else "check_lookup_constraints differs from the Sum/LDC/RE definition"
    if op == "c08replay":
        if "verify=ok" in res:
            return "accepted proof for lookup(2) = 999 in table {(1,10),(2,20)} (config %s, running sum started from a non-zero value)" % args[0]
        return None
    if op == "c08":
        kind, strat = args[2], args[3]
        if kind == "positive":
            return None if res[0] == "1" else "honest lookup circuit not proved/verified or wrong outputs: " + " ".join(res[2:14])
        if kind == "unused-table":
            return None if res[0] == "1" else "builder accepted a table that is never used"
        out = field(res, "outcome")
        if strat == "none" or strat == "witness":
            return None
        if strat == "public-prove":
            return None if res[0] == "1" else "public prover produced an accepted proof for an input outside the table"
        if out == "ACCEPTED":
            return "accepted proof although the lookup relation is violated: %s, strategy %s (%s)" % (kind, strat, field(res, "violated"))
        return None
    return None
