"""Property oracle for C06 / C20 / C11 verdict lines (independent of the Coq model).

A harness line is   <op> <subject> <case> = <agree> # exp=<1|0|?> native=<..> outer=<..> [unsat=..]
The property for one case: the in-circuit verifier accepts the assignment derived from the (proof,
verifier data) pair by the library's own assignment routines  <=>  the native verifier accepts it.
`exp` is the verdict the generator expects by construction (valid proof: 1, altered proof: 0,
`?`: decided by the native verifier alone)."""
import re

def parse_info(comment):
    return dict(m.groups() for m in re.finditer(r"(\w+)=(\S+)", comment))

def check(op, args, res, info):
    """None if the implementation results on this case satisfy the property, else a message"""
    native, outer, exp = info.get("native"), info.get("outer"), info.get("exp", "?")
    if native is None or outer is None:
        return "line carries no native/outer verdict (harness could not build the case): %s" % " ".join(args)
    nat_ok, out_ok = native == "ok", outer == "ok"
    if native.startswith("panic"):
        return "native verifier panicked (%s)" % native
    if nat_ok != out_ok:
        if out_ok:
            return "natively rejected (%s) but accepted in-circuit" % native
        return "natively accepted but rejected in-circuit (%s)" % outer
    if exp == "1" and not nat_ok:
        return "a valid proof is rejected by both verifiers (%s / %s)" % (native, outer)
    if exp == "0" and nat_ok:
        return "an altered proof is accepted by both verifiers"
    if out_ok and "unsat" in info:
        return "outer proof accepted although the generated witness violates a gate constraint (%s)" % info["unsat"]
    if res and res[0] != ("1" if nat_ok == out_ok else "0"):
        return "harness agreement flag inconsistent with the verdicts"
    return None
