"""C05 oracle for the arity schedules (FriReductionStrategy::reduction_arity_bits), independent of the
Gallina model: the property's own words - the schedule never folds below the cap height, never past the
degree, takes no reduction that is not needed, and leaves a final polynomial of at most the advertised
length unless the cap height stops it earlier.
line: aritybits <strategy> d rate_bits cap_height num_queries = <len> <bits..> | panic
strategy: 0 k v1..vk (Fixed) | 1 a f (ConstantArityBits) | 2 0 (MinSize(None)) | 2 1 m (MinSize(Some(m)))"""

def check(op, args, res):
    if op != "aritybits":
        return None
    a = [int(x) for x in args]
    panicked = res == ["panic"]
    out = None if panicked else [int(x) for x in res]
    if out is not None:
        if not out or out[0] != len(out) - 1:
            return "malformed result"
        out = out[1:]
    kind = a[0]
    if kind == 0:
        k = a[1]; v = a[2:2 + k]
        if panicked or out != v:
            return "Fixed(%s) must be returned as is, got %s" % (v, "panic" if panicked else out)
        return None
    if kind == 1:
        ar, f = a[1], a[2]
        d, r, c, q = a[3:7]
        if ar == 0:
            return None          # ConstantArityBits(0, _) does not terminate when a fold is needed: never generated
        # the definition: fold while the polynomial is longer than advertised and the next codeword still has 2^c entries
        want, dd, need_panic = [], d, False
        while dd > f:
            if dd + r < ar:
                # the guard is evaluated in usize: degree_bits + rate_bits - arity_bits underflows (debug: overflow
                # panic; release: wraps, the fold is entered and `assert!(degree_bits >= arity_bits)` fires).
                # A fold wider than the whole codeword: the configuration is refused, not scheduled.
                need_panic = True; break
            if dd + r - ar < c:
                break
            if dd < ar:
                need_panic = True; break
            want.append(ar); dd -= ar
        tag = "ConstantArityBits(%d,%d) degree_bits=%d rate_bits=%d cap_height=%d" % (ar, f, d, r, c)
        if need_panic:
            return None if panicked else "%s: a fold of 2^%d is required at degree 2^%d; the real code returned %s" % (tag, ar, dd, out)
        if panicked:
            return "%s: panics although the schedule %s exists (final polynomial of 2^%d coefficients)" % (tag, want, dd)
        if any(x != ar for x in out):
            return "%s: schedule %s is not constant" % (tag, out)
        s = sum(out)
        if s > d:
            return "%s: schedule %s folds past the degree" % (tag, out)
        for k in range(len(out)):
            if (d - k * ar) + r - ar < c:
                return "%s: reduction %d of %s folds below the cap height" % (tag, k, out)
            if d - k * ar <= f:
                return "%s: reduction %d of %s is taken although the polynomial already has at most 2^%d coefficients" % (tag, k, out, f)
        rest = d - s
        if rest > f and rest + r - ar >= c:
            return "%s: schedule %s stops with 2^%d > 2^%d coefficients although another fold fits above the cap" % (tag, out, rest, f)
        return None
    return None
