"""Property oracle for C07, independent of the Coq model (Python integers only).

It judges the IMPLEMENTATION's outputs, line by line, against the statement of the property:
  gensat          a row completed by the gate's own generators: every reported constraint value is 0
  pinned          the same row with one generator-written wire replaced by another value: some
                  reported constraint value is non-zero
  basevsext       on a base-field row the base-field evaluator (packed dispatch) and the extension
                  evaluator return the same values, exactly num_constraints of them
  circuit_agrees  the in-circuit evaluator returned the values of eval_unfiltered (Rust-side flag)
  lowdeg          measured degree of the constraint polynomials <= witness degree * declared degree,
                  and as many constraint polynomials as declared
  filter          compute_filter equals the product over the other group indices (and UNUSED_SELECTOR),
                  is zero on another index / UNUSED_SELECTOR and non-zero on the gate's own index
  sizes           declared sizes are internally consistent with the closed formulas of the gate structs
Other operations (evalext, evalbase, evalcirc, generate, written, ...) carry no property content of
their own; they are compared with the model by the correspondence run."""
P = 2**64 - 2**32 + 1
W = 7
UNUSED_SELECTOR = 2**32 - 1

GATE_NAMES = {0: "ArithmeticGate", 1: "ArithmeticExtensionGate", 2: "MulExtensionGate", 3: "BaseSumGate",
              4: "ConstantGate", 5: "CosetInterpolationGate", 6: "ExponentiationGate", 7: "PoseidonGate",
              8: "PoseidonMdsGate", 9: "PublicInputGate", 10: "RandomAccessGate", 11: "ReducingGate",
              12: "ReducingExtensionGate", 13: "NoopGate", 14: "LookupGate", 15: "LookupTableGate"}
NPARAMS = {0: 1, 1: 1, 2: 1, 3: 2, 4: 1, 6: 1, 7: 0, 8: 0, 9: 0, 10: 3, 11: 1, 12: 1, 13: 0, 14: 1, 15: 1}


def parse_gate(a):
    """returns (code, params, rest)"""
    code = a[0]
    if code == 5:
        bits, degree, nw = a[1], a[2], a[3]
        return code, [bits, degree], a[4 + nw:]
    k = NPARAMS[code]
    return code, a[1:1 + k], a[1 + k:]


def gate_label(a):
    code, params, _ = parse_gate(a)
    names = {3: ("B", "num_limbs"), 5: ("subgroup_bits", "degree"), 10: ("bits", "num_copies", "num_extra_constants"),
             11: ("num_coeffs",), 12: ("num_coeffs",), 0: ("num_ops",), 1: ("num_ops",), 2: ("num_ops",),
             4: ("num_consts",), 6: ("num_power_bits",), 14: ("num_slots",), 15: ("num_slots",)}.get(code, ())
    return "%s %s" % (GATE_NAMES[code], " ".join("%s=%d" % (n, v) for n, v in zip(names, params)))


def declared_sizes(code, ps):
    """(num_wires, num_constants, degree, num_constraints) from the closed formulas, D = 2"""
    if code == 0: return (4 * ps[0], 2, 3, ps[0])
    if code == 1: return (8 * ps[0], 2, 3, 2 * ps[0])
    if code == 2: return (6 * ps[0], 1, 3, 2 * ps[0])
    if code == 3: return (1 + ps[1], 0, ps[0], 1 + ps[1])
    if code == 4: return (ps[0], ps[0], 1, ps[0])
    if code == 5:
        n = 1 << ps[0]
        ni = (n - 2) // (ps[1] - 1)
        return (1 + 2 * n + 4 + 2 * (2 * ni + 1), 0, ps[1], 4 + 4 * ni)
    if code == 6: return (2 * ps[0] + 2, 0, 4, ps[0] + 1)
    if code == 7: return (135, 0, 7, 123)
    if code == 8: return (48, 0, 1, 24)
    if code == 9: return (4, 0, 1, 4)
    if code == 10:
        bits, copies, extra = ps
        return ((2 + (1 << bits)) * copies + extra + copies * bits, extra, bits + 1, copies * (bits + 2) + extra)
    if code == 11: return (4 + 3 * ps[0], 0, 2, 2 * ps[0])
    if code == 12: return (4 + 4 * ps[0], 0, 2, 2 * ps[0])
    if code == 13: return (0, 0, 0, 0)
    if code == 14: return (2 * ps[0], 0, 0, 0)
    if code == 15: return (3 * ps[0], 0, 0, 0)


def fp2_mul(a, b):
    return ((a[0] * b[0] + W * a[1] * b[1]) % P, (a[0] * b[1] + a[1] * b[0]) % P)


def check(op, args, res):
    """None if the implementation's result is consistent with the property, else a message"""
    panicked = res == ["panic"]
    try:
        a = [int(x) for x in args]
        r = [] if panicked else [int(x) for x in res]
    except ValueError:
        return "unparsable line"
    if op == "d4gate":
        checks = ["extension evaluator returns as many values as the gate declares", "base-field batch evaluator equals the extension evaluator",
                  "low degree / declared count (gate_testing::test_low_degree)", "in-circuit evaluator equals the native one (gate_testing::test_eval_fns)",
                  "a D = 4 circuit using the gate family is proved and verified"]
        if r == [1]:
            return None
        return "extension degree %d, gate #%d of harness/src/c07d4.rs: %s - FAILED" % (a[0], a[1], checks[a[2]] if a[2] < len(checks) else "check %d" % a[2])
    if op in ("gensat", "pinned", "basevsext", "circuit_agrees", "lowdeg", "filter") and panicked:
        return "implementation panicked"
    if op == "sizes" and panicked:
        # degenerate parameters (ExponentiationGate{0}, RandomAccessGate{bits:0} or {num_copies:0}): the index
        # arithmetic of num_wires() underflows in debug builds; outside the property (the model's gate_wf is
        # false for exactly these, which the correspondence run compares)
        return None
    if op == "gensat":
        bad = [i for i, x in enumerate(r) if x % P != 0]
        if bad:
            return "%s: generated row violates constraint %d (value %d)" % (gate_label(a), bad[0], r[bad[0]])
        return None
    if op == "pinned":
        w, v = a[-2], a[-1]
        if all(x % P == 0 for x in r):
            return ("%s: generator-written wire %d replaced by %d and no constraint notices (%d constraints, all zero)"
                    % (gate_label(a), w, v, len(r)))
        return None
    if op == "basevsext":
        nc = r[0]
        if len(r) != 1 + 3 * nc:
            return "%s: expected %d base and %d extension values, got %d numbers" % (gate_label(a), nc, nc, len(r) - 1)
        base, ext = r[1:1 + nc], r[1 + nc:]
        for i in range(nc):
            if ext[2 * i] != base[i] or ext[2 * i + 1] != 0:
                return "%s: constraint %d differs between the base-field and extension evaluators" % (gate_label(a), i)
        code, ps, _ = parse_gate(a)
        if declared_sizes(code, ps)[3] != nc:
            return "%s: declares %d constraints, structure says %d" % (gate_label(a), nc, declared_sizes(code, ps)[3])
        return None
    if op == "circuit_agrees":
        return None if r == [1] else "%s: in-circuit evaluator disagrees with eval_unfiltered" % gate_label(a[:-1])
    if op == "lowdeg":
        measured, wdeg = a[-2], a[-1]
        declared, k = r[0], r[1]
        code, ps, _ = parse_gate(a[:-2])
        if measured > wdeg * declared:
            return "%s: measured degree %d exceeds %d * declared degree %d" % (gate_label(a[:-2]), measured, wdeg, declared)
        if k != declared_sizes(code, ps)[3]:
            return "%s: %d constraint polynomials, %d declared" % (gate_label(a[:-2]), k, declared_sizes(code, ps)[3])
        return None
    if op == "sizes":
        code, ps, _ = parse_gate(a)
        want = declared_sizes(code, ps)
        if tuple(r) != want:
            return "%s: declared sizes %s, structure says %s" % (gate_label(a), r, list(want))
        return None
    if op == "filter":
        row, lo, hi, many, s0, s1 = a
        idx = [i for i in range(lo, hi) if i != row] + ([UNUSED_SELECTOR] if many else [])
        acc = (1, 0)
        for i in idx:
            acc = fp2_mul(acc, ((i - s0) % P, (-s1) % P))
        if list(acc) != r:
            return "filter(row=%d, group=%d..%d): got %s, product formula gives %s" % (row, lo, hi, r, list(acc))
        if s1 == 0 and s0 in idx and r != [0, 0]:
            return "filter does not vanish on another selector value %d" % s0
        if s1 == 0 and s0 == row and r == [0, 0]:
            return "filter vanishes on the gate's own index %d" % row
        return None
    return None
