"""Property oracle for C12, independent of the Coq model: Merkle commitments as the mathematical
object "hash the leaves, then hash pairwise, level by level", evaluated with Python integers.
Node (level j, position p) of the tree over 2^k leaves is levels[j][p]; the cap of height h is
levels[k-h]; the opening of position i is [levels[j][(i >> j) ^ 1] for j < k-h]; verification
recomputes the cap entry i >> (k-h) from the leaf and the siblings.

Hashers: 0 = Poseidon (permutation written from the textbook definition, constants parsed from
/repo/plonky2/src/hash/poseidon.rs and poseidon_goldilocks.rs), 1 = ToyHash (see harness/src/c12.rs).

check(op, args, res) -> None if the implementation result satisfies the property for that case,
else a message.  Used (a) to decide whether the implementation itself violates the property on a
concrete input, (b) as the failing-input search when a proof or the model tie breaks."""
import os, re

P = 2**64 - 2**32 + 1
REPO = os.environ.get("VERIF_REPO", "/repo")

_consts = {}

def _load():
    if _consts:
        return _consts
    src = open(os.path.join(REPO, "plonky2/src/hash/poseidon.rs")).read()
    m = re.search(r"pub const ALL_ROUND_CONSTANTS[^=]*=\s*\[(.*?)\];", src, flags=re.S)
    body = re.sub(r"//[^\n]*", "", m.group(1))
    rc = [int(x.replace("_", ""), 16) for x in re.findall(r"0x[0-9a-fA-F_]+", body)]
    g = open(os.path.join(REPO, "plonky2/src/hash/poseidon_goldilocks.rs")).read()
    circ = [int(x) for x in re.search(r"const MDS_MATRIX_CIRC[^=]*=\s*\[(.*?)\];", g, flags=re.S).group(1).replace(" ", "").split(",") if x]
    diag = [int(x) for x in re.search(r"const MDS_MATRIX_DIAG[^=]*=\s*\[(.*?)\];", g, flags=re.S).group(1).replace(" ", "").split(",") if x]
    assert len(rc) == 360 and len(circ) == 12 and len(diag) == 12
    _consts.update(rc=rc, circ=circ, diag=diag)
    return _consts

def poseidon_permute(st):
    c = _load()
    rc, circ, diag = c["rc"], c["circ"], c["diag"]
    st = list(st)
    for r in range(30):
        st = [(st[i] + rc[12 * r + i]) % P for i in range(12)]
        if r < 4 or r >= 26:
            st = [pow(x, 7, P) for x in st]
        else:
            st[0] = pow(st[0], 7, P)
        st = [(sum(st[(i + row) % 12] * circ[i] for i in range(12)) + st[row] * diag[row]) % P for row in range(12)]
    return st

def poseidon_hash_no_pad(xs):
    st = [0] * 12
    for o in range(0, len(xs), 8):
        ch = xs[o:o + 8]
        st[:len(ch)] = ch
        st = poseidon_permute(st)
    return st[:4]

def poseidon_two_to_one(a, b):
    return poseidon_permute(list(a) + list(b) + [0] * 4)[:4]

def toy_hash_no_pad(xs):
    out = []
    for j in range(4):
        acc = j + 1
        for x in xs:
            acc = (acc * (31 + j) + x + 7) % P
        out.append(acc)
    return out

def toy_two_to_one(a, b):
    return [(a[j] * 31 + b[(j + 1) % 4] * 17 + a[(j + 2) % 4] * b[j] + 7 + j) % P for j in range(4)]

class Hasher:
    def __init__(self, hid):
        self.no_pad = poseidon_hash_no_pad if hid == 0 else toy_hash_no_pad
        self.two = poseidon_two_to_one if hid == 0 else toy_two_to_one
        self.cache = {}
    def leaf(self, xs):
        xs = [x % P for x in xs]
        if len(xs) <= 4:
            return tuple(xs + [0] * (4 - len(xs)))
        key = tuple(xs)
        if key not in self.cache:
            if len(self.cache) > 200000:
                self.cache.clear()
            self.cache[key] = tuple(self.no_pad(xs))
        return self.cache[key]
    def node(self, a, b):
        key = (tuple(a), tuple(b))
        if key not in self.cache:
            if len(self.cache) > 200000:
                self.cache.clear()
            self.cache[key] = tuple(self.two([x % P for x in a], [x % P for x in b]))
        return self.cache[key]

def is_pow2(n):
    return n > 0 and n & (n - 1) == 0

def levels_of(H, leaves):
    lv = [[H.leaf(l) for l in leaves]]
    while len(lv[-1]) > 1:
        cur = lv[-1]
        lv.append([H.node(cur[2 * i], cur[2 * i + 1]) for i in range(len(cur) // 2)])
    return lv

def walk(H, cur, i, sibs):
    for s in sibs:
        cur = H.node(s, cur) if i & 1 else H.node(cur, s)
        i >>= 1
    return cur, i

def groups(xs, n, w):
    assert len(xs) >= n * w
    return [xs[j * w:(j + 1) * w] for j in range(n)], xs[n * w:]

def digests(xs):
    assert len(xs) % 4 == 0
    return [tuple(xs[j:j + 4]) for j in range(0, len(xs), 4)]

def lp_lists(xs, n):
    out = []
    for _ in range(n):
        ln = xs[0]
        out.append(digests(xs[1:1 + 4 * ln]))
        xs = xs[1 + 4 * ln:]
    return out, xs

def lp_flat(ps):
    out = []
    for p in ps:
        out.append(len(p))
        for d in p:
            out.extend(d)
    return out

def expect(res, want, what):
    """want: list of ints or 'panic'"""
    if want == "panic":
        return None if res == ["panic"] else "%s: expected a panic, implementation returned a value" % what
    if res == ["panic"]:
        return "%s: implementation panicked" % what
    got = [int(x) for x in res]
    if got != list(want):
        k = next((j for j in range(min(len(got), len(want))) if got[j] != want[j]), min(len(got), len(want)))
        return "%s: differs from the specification at output %d (lengths %d / %d)" % (what, k, len(got), len(want))
    return None

# ---- path compression, written on the set of tree nodes (heap numbering) ----
def compress_spec(h, idx, proofs):
    if not proofs:
        raise IndexError
    height = h + len(proofs[0])
    n = 1 << height
    for i in idx:
        if height > h and i >= n:
            raise IndexError
    known = set()
    for i in idx:
        for j in range(height - h):
            known.add((i + n) >> j)
    out = []
    for i, p in zip(idx, proofs):
        node, cp = i + n, []
        for s in p:
            sib = node ^ 1
            if sib >= 2 * n:
                raise IndexError
            if sib not in known:
                cp.append(s)
                known.add(sib)
            node >>= 1
            known.add(node)
        out.append(cp)
    return out

def decompress_spec(H, leaves, idx, cps, height, h):
    n = 1 << height
    val = {}
    for i, l in zip(idx, leaves):
        val[i + n] = H.leaf(l)
    its = [list(p) for p in cps]
    pairs = min(len(idx), len(its))
    for j in range(height - h):
        for q in range(pairs):
            node = (idx[q] + n) >> j
            cur = val[node]
            sib = node ^ 1
            if sib not in val:
                val[sib] = its[q].pop(0)
            val[node >> 1] = H.node(cur, val[sib]) if node % 2 == 0 else H.node(val[sib], cur)
    out = []
    for i in idx:
        node, p = i + n, []
        for _ in range(height - h):
            p.append(val[node ^ 1])
            node >>= 1
        out.append(p)
    return out

# ---- batch trees ----
def batch_levels(H, mats, h):
    """returns (levels, cap); levels[j] = digests at height k0 - j BEFORE the rows of a matrix of that
    height are hashed in; after[j] = after. Siblings are read from after[]."""
    if not mats or any(not is_pow2(len(m)) for m in mats):
        raise AssertionError
    if any(len(mats[j]) <= len(mats[j + 1]) for j in range(len(mats) - 1)):
        raise AssertionError
    if (1 << h) > len(mats[-1]):
        raise AssertionError
    by_len = {len(m): m for m in mats}
    cur = [H.leaf(l) for l in mats[0]]
    after = [cur]
    while len(cur) > (1 << h):
        cur = [H.node(cur[2 * i], cur[2 * i + 1]) for i in range(len(cur) // 2)]
        if len(cur) in by_len:
            m = by_len[len(cur)]
            cur = [H.leaf(list(cur[i]) + [x % P for x in m[i]]) for i in range(len(cur))]
        after.append(cur)
    return after, cur

def batch_walk(H, vals, heights, i, sibs):
    if len(vals) != len(heights) or not vals:
        raise AssertionError
    cur = H.leaf(vals[0])
    ch, nxt = heights[0], 1
    for s in sibs:
        cur = H.node(s, cur) if i & 1 else H.node(cur, s)
        i >>= 1
        ch = (ch - 1) % 2**64
        if nxt < len(heights) and ch == heights[nxt]:
            cur = H.leaf(list(cur) + [x % P for x in vals[nxt]])
            nxt += 1
    if nxt != len(vals):
        raise AssertionError
    return cur, i

def parse_batch(a):
    nl, a = a[0], a[1:]
    shapes = [(a[2 * j], a[2 * j + 1]) for j in range(nl)]
    a = a[2 * nl:]
    mats = []
    for (n, w) in shapes:
        m, a = groups(a, n, w)
        mats.append(m)
    assert not a
    return mats

_H = {}
def hasher(hid):
    if hid not in _H:
        _H[hid] = Hasher(hid)
    return _H[hid]

def check(op, args, res):
    a = [int(x) for x in args]
    if op == "deepprove":
        if res != ["1", "1", "1"]:
            what = "panicked" if res == ["panic"] else "verifies=%s path_equals_levelwise=%s other_leaf_rejected=%s" % tuple((res + ["?"] * 3)[:3])
            return "tree of 2^%d leaves, cap height %d, position %d: %s" % (a[1], a[2], a[4], what)
        return None
    if op == "hashleaf":
        return expect(res, list(hasher(a[0]).leaf(a[1:])), "hash_or_noop")
    if op == "twoto1":
        return expect(res, list(hasher(a[0]).node(tuple(a[1:5]), tuple(a[5:9]))), "two_to_one")
    if op in ("cap", "proveall", "prove"):
        H = hasher(a[0])
        h, n, w = a[1], a[2], a[3]
        rest = a[4:]
        i = None
        if op == "prove":
            i, rest = rest[0], rest[1:]
        leaves, tail = groups(rest, n, w)
        assert not tail
        if not is_pow2(n) or (1 << h) > n:
            return expect(res, "panic", "tree over %d leaves with cap height %d" % (n, h))
        lv = levels_of(H, leaves)
        k = n.bit_length() - 1
        if op == "cap":
            return expect(res, [x for d in lv[k - h] for x in d], "cap of %d leaves, height %d" % (n, h))
        def opening(i):
            return [x for j in range(k - h) for x in lv[j][(i >> j) ^ 1]]
        if op == "proveall":
            m = expect(res, [x for i in range(n) for x in opening(i)], "openings of %d leaves, cap height %d" % (n, h))
            if m:
                return m
            # and every opening verifies against the cap with its leaf (redundant with the above,
            # kept as the direct statement of the property)
            for i in range(n):
                d, j = walk(H, H.leaf(leaves[i]), i, digests(opening(i)))
                if d != lv[k - h][j]:
                    return "honest opening of position %d does not verify" % i
            return None
        if i < n:
            return expect(res, opening(i), "opening of position %d" % i)
        # position outside the tree: the property makes no claim beyond "no opening that verifies"
        if res == ["panic"]:
            return None
        got = digests([int(x) for x in res])
        if len(got) != k - h:
            return "prove(%d) on %d leaves returned a proof of length %d" % (i, n, len(got))
        if k - h == 0:
            return None  # an empty proof for an all-cap tree; verification indexes the cap out of range
        return "prove(%d) on %d leaves returned a non-empty proof" % (i, n)
    if op == "verify":
        H = hasher(a[0])
        i, w, ncap, nsib = a[1:5]
        rest = a[5:]
        leaf, rest = rest[:w], rest[w:]
        cap, rest = digests(rest[:4 * ncap]), rest[4 * ncap:]
        sibs = digests(rest)
        assert len(sibs) == nsib
        d, j = walk(H, H.leaf(leaf), i, sibs)
        if j >= ncap:
            return expect(res, "panic", "cap index %d of %d" % (j, ncap))
        return expect(res, [1 if d == tuple(x % P for x in cap[j]) else 0], "verdict")
    if op == "compress":
        h, m = a[0], a[1]
        idx = a[2:2 + m]
        proofs, tail = lp_lists(a[2 + m:], m)
        assert not tail
        try:
            want = lp_flat(compress_spec(h, idx, proofs))
        except (IndexError, KeyError):
            want = "panic"
        return expect(res, want, "compressed proofs")
    if op == "decompress":
        H = hasher(a[0])
        height, h, m, w = a[1:5]
        idx = a[5:5 + m]
        leaves, rest = groups(a[5 + m:], m, w)
        cps, tail = lp_lists(rest, m)
        assert not tail
        try:
            want = lp_flat(decompress_spec(H, leaves, idx, cps, height, h))
        except (IndexError, KeyError):
            want = "panic"
        return expect(res, want, "decompressed proofs")
    if op in ("bcap", "bopen", "bopenall"):
        H = hasher(a[0])
        h = a[1]
        i = None
        rest = a[2:]
        if op == "bopen":
            i, rest = rest[0], rest[1:]
        mats = parse_batch(rest)
        try:
            after, cap = batch_levels(H, mats, h)
        except AssertionError:
            return expect(res, "panic", "malformed batch tree")
        if op == "bcap":
            return expect(res, [x for d in cap for x in d], "batch cap")
        n = len(mats[0])
        def opening(i):
            return [x for j in range(len(after) - 1) for x in after[j][(i >> j) ^ 1]]
        if op == "bopenall":
            m = expect(res, [x for i in range(n) for x in opening(i)], "batch openings")
            if m:
                return m
            k0 = n.bit_length() - 1
            heights = [len(mm).bit_length() - 1 for mm in mats]
            for i in range(n):
                vals = [mm[i >> (k0 - hh)] for mm, hh in zip(mats, heights)]
                d, j = batch_walk(H, vals, heights, i, digests(opening(i)))
                if d != cap[j]:
                    return "honest batch opening of position %d does not verify" % i
            return None
        if i < n:
            return expect(res, opening(i), "batch opening of position %d" % i)
        return None
    if op == "bverify":
        H = hasher(a[0])
        i, nl = a[1], a[2]
        shapes = [(a[3 + 2 * j], a[4 + 2 * j]) for j in range(nl)]
        rest = a[3 + 2 * nl:]
        ncap, nsib, rest = rest[0], rest[1], rest[2:]
        vals = []
        for (_, w) in shapes:
            vals.append(rest[:w])
            rest = rest[w:]
        cap, rest = digests(rest[:4 * ncap]), rest[4 * ncap:]
        sibs = digests(rest)
        assert len(sibs) == nsib
        try:
            d, j = batch_walk(H, vals, [s[0] for s in shapes], i, sibs)
        except AssertionError:
            return expect(res, "panic", "batch verification with inconsistent heights")
        if j >= ncap:
            return expect(res, "panic", "cap index %d of %d" % (j, ncap))
        return expect(res, [1 if d == tuple(x % P for x in cap[j]) else 0], "batch verdict")
    return "unknown operation " + op

if __name__ == "__main__":
    import sys
    sys.path.insert(0, os.path.dirname(os.path.abspath(__file__)))
    from checklib import parse_case_lines
    n = bad = 0
    for lineno, op, args, res in parse_case_lines(sys.argv[1]):
        n += 1
        m = check(op, args, res)
        if m:
            bad += 1
            if bad <= 20:
                print("line %d %s: %s" % (lineno, op, m))
    print("checked %d, failures %d" % (n, bad))
