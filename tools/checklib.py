"""Shared machinery of the per-property checks (see DESIGN.md section 3, 'Check driver').

Steps of a check run:
  1. rs2v regenerates coq/Gen/*.v from /repo's working tree (translator tie)
  2. make Props/<ID>.vo (and what it depends on) under a timeout, with a file lock
  3. audit: forbidden tokens in the Coq tree, Print Assumptions of every property theorem
  4. harness build from /repo's working tree (cargo, offline, hooks on) and case generation
  5. model run (extracted OCaml model_cli; optionally an in-Coq vm_compute subset)
  6. comparison, property oracle on the implementation results, failing-input search
  7. evidence/<ID>.json, VIOLATION / KNOWN-FINDING lines, exit code
"""
import fcntl, hashlib, json, os, re, subprocess, sys, time

VERIF = os.path.dirname(os.path.dirname(os.path.abspath(__file__)))
REPO = os.environ.get("VERIF_REPO", "/repo")
COQ = os.path.join(VERIF, "coq")
WORK = os.path.join(VERIF, "work")
HARNESS = os.path.join(VERIF, "harness")
EXTRACT = os.path.join(VERIF, "extract")

FORBIDDEN = re.compile(r"\b(Admitted|admit|Axiom|Axioms|Parameter|Parameters|Conjecture|Conjectures|"
                       r"Unset\s+Guard|bypass_check|Admit\s+Obligations)\b|type-in-type|impredicative-set")

ENV = dict(os.environ)
ENV.update({"CARGO_NET_OFFLINE": "true", "GOPROXY": "off", "PIP_NO_INDEX": "1"})


class Lock:
    def __init__(self, name):
        os.makedirs(WORK, exist_ok=True)
        self.path = os.path.join(WORK, name + ".lock")

    def __enter__(self):
        self.f = open(self.path, "w")
        fcntl.flock(self.f, fcntl.LOCK_EX)
        return self

    def __exit__(self, *a):
        fcntl.flock(self.f, fcntl.LOCK_UN)
        self.f.close()


def run(cmd, cwd=None, timeout=3600, env=None):
    t0 = time.time()
    try:
        p = subprocess.run(cmd, cwd=cwd, env=env or ENV, stdout=subprocess.PIPE, stderr=subprocess.STDOUT,
                           timeout=timeout, shell=isinstance(cmd, str), text=True, errors="replace")
        return p.returncode, p.stdout, time.time() - t0
    except subprocess.TimeoutExpired as ex:
        out = ex.stdout if isinstance(ex.stdout, str) else (ex.stdout or b"").decode(errors="replace")
        return 124, out + "\n[timeout after %ds]" % timeout, time.time() - t0


class Check:
    def __init__(self, pid, tier, seed):
        self.pid = pid
        self.tier = tier
        self.seed = seed
        self.t0 = time.time()
        self.work = os.path.join(WORK, pid)
        os.makedirs(self.work, exist_ok=True)
        os.makedirs(os.path.join(VERIF, "evidence"), exist_ok=True)
        os.makedirs(os.path.join(VERIF, "replays"), exist_ok=True)
        self.violations = []      # list of (replay_path, suffix)
        self.known = []
        self.notes = []
        self.broken = []          # names of proof obligations / correspondences that no longer check
        self.findings = load_known_findings(pid)

    # ---------------------------------------------------------------- step 1
    def regenerate(self):
        """translator tie: returns (ok, errors)"""
        with Lock("coq"):
            rc, out, _ = run([sys.executable, os.path.join(VERIF, "tools", "rs2v.py"), REPO,
                              os.path.join(COQ, "Gen")], timeout=300)
        try:
            st = json.loads(out.strip().splitlines()[-1])
        except Exception:
            st = {"ok": False, "errors": ["translator crashed: " + out[-500:]]}
        if not st["ok"]:
            for e in st["errors"]:
                self.broken.append("translator: " + e)
        return st["ok"], st.get("errors", [])

    # ---------------------------------------------------------------- step 2
    def make(self, targets, timeout=2400):
        """build .vo targets (relative to coq/). Returns (ok, log)."""
        with Lock("coq"):
            if not os.path.exists(os.path.join(COQ, "Makefile")) or \
               os.path.getmtime(os.path.join(COQ, "_CoqProject")) > os.path.getmtime(os.path.join(COQ, "Makefile")):
                run("coq_makefile -f _CoqProject -o Makefile", cwd=COQ, timeout=120)
            rc, out, dt = run(["make", "-j16"] + targets, cwd=COQ, timeout=timeout)
        ok = rc == 0
        if not ok:
            m = re.findall(r'File "\./([^"]+)", line (\d+)', out)
            where = "%s:%s" % m[-1] if m else "?"
            self.broken.append("coq build failed at %s" % where)
        return ok, out

    # ---------------------------------------------------------------- step 3
    def audit(self, module, theorems, allow=()):
        """Print Assumptions for each theorem; forbidden-token grep. Returns dict name -> assumptions text."""
        bad = []
        for root, _, files in os.walk(COQ):
            for fn in files:
                if fn.endswith(".v"):
                    txt = open(os.path.join(root, fn), errors="replace").read()
                    txt = strip_coq_comments(txt)
                    for m in FORBIDDEN.finditer(txt):
                        bad.append("%s: %s" % (os.path.relpath(os.path.join(root, fn), COQ), m.group(0)))
        for root, _, files in os.walk(EXTRACT):
            for fn in files:
                if fn.endswith(".v"):
                    txt = strip_coq_comments(open(os.path.join(root, fn), errors="replace").read())
                    for m in FORBIDDEN.finditer(txt):
                        bad.append("extract/%s: %s" % (fn, m.group(0)))
        if bad:
            self.broken.append("forbidden tokens: " + "; ".join(bad[:5]))
        mods = module if isinstance(module, (list, tuple)) else [module]
        src = "".join("From Verif Require Import %s.\n" % m for m in mods)
        for t in theorems:
            src += 'Print Assumptions %s.\n' % t
        path = os.path.join(self.work, "Audit_%s.v" % self.pid)
        open(path, "w").write(src)
        with Lock("coq"):
            rc, out, _ = run(["coqc", "-Q", COQ, "Verif", path], cwd=self.work, timeout=900)
        res = {}
        if rc != 0:
            self.broken.append("audit failed: " + out[-300:])
            return res
        # coqc prints one block per Print Assumptions
        blocks = re.split(r"(?=Closed under the global context|Axioms:)", out)
        blocks = [b.strip() for b in blocks if b.strip()]
        for t, b in zip(theorems, blocks):
            res[t] = b
            if not b.startswith("Closed under the global context"):
                names = re.findall(r"^\s*([A-Za-z_][\w.']*)\s*:", b, flags=re.M)
                extra = [n for n in names if n not in allow]
                if extra:
                    self.broken.append("theorem %s depends on axioms: %s" % (t, ", ".join(extra)))
        if len(blocks) != len(theorems):
            self.broken.append("audit: expected %d assumption reports, got %d" % (len(theorems), len(blocks)))
        return res

    # ---------------------------------------------------------------- step 4
    def build_harness(self, profile="release", timeout=3000, rustflags=None, target_dir=None):
        """cargo build of the harness against /repo's working tree. With rustflags/target_dir a build
        flavour (e.g. -C target-feature=+avx2) goes to its own target directory under harness/."""
        with Lock("cargo"):
            for f in ("Cargo.lock", "rust-toolchain"):
                src = os.path.join(REPO, f)
                if os.path.exists(src):
                    dst = os.path.join(HARNESS, f)
                    if not os.path.exists(dst) or open(src, "rb").read() != open(dst, "rb").read():
                        open(dst, "wb").write(open(src, "rb").read())
            cmd = ["cargo", "build", "--offline"] + (["--release"] if profile == "release" else [])
            env = dict(ENV)
            tdir = os.path.join(HARNESS, "target")
            if rustflags:
                env["RUSTFLAGS"] = rustflags
            if target_dir:
                tdir = os.path.join(HARNESS, target_dir)
                env["CARGO_TARGET_DIR"] = tdir
            rc, out, dt = run(cmd, cwd=HARNESS, timeout=timeout, env=env)
        if rc != 0:
            self.broken.append("harness build failed (%s%s): %s" % (profile, " " + rustflags if rustflags else "", tail(out, 12)))
            return None
        return os.path.join(tdir, profile if profile == "release" else "debug", "verif_harness")

    def run_harness(self, binary, prop, outfile, extra=(), timeout=3000, env=None):
        e = dict(ENV)
        if env:
            e.update(env)
        rc, out, dt = run([binary, prop, str(self.seed), self.tier, outfile] + list(extra), cwd=self.work,
                          timeout=timeout, env=e)
        if rc != 0:
            self.broken.append("harness run failed: " + tail(out, 8))
            return False
        return True

    # ---------------------------------------------------------------- step 5
    def build_model_cli(self, timeout=1200):
        # every module Extract.v imports has to be up to date with the regenerated coq/Gen (another check, or a
        # run on a different /repo tree, may have rebuilt only its own targets): make them first
        try:
            txt = strip_coq_comments(open(os.path.join(EXTRACT, "Extract.v")).read())
            mods = re.findall(r"\b((?:Model|Base|Gen|Proofs)\.[A-Za-z0-9_]+)", " ".join(re.findall(r"From Verif Require Import([^.]*(?:\.[A-Za-z][^.]*)*)\.", txt)))
            targets = sorted(set(m.replace(".", "/") + ".vo" for m in mods))
        except Exception:
            targets = []
        if targets:
            ok, log = self.make(targets, timeout=timeout)
            if not ok:
                return None
        with Lock("coq"):
            rc, out, _ = run("ulimit -s unlimited 2>/dev/null; coqc -Q ../coq Verif Extract.v && "
                             "ocamlfind ocamlopt -package zarith -linkpkg -O2 "
                             "-w -a model.mli model.ml main.ml -o model_cli", cwd=EXTRACT, timeout=timeout)
        if rc != 0:
            self.broken.append("extraction / model_cli build failed: " + tail(out, 8))
            return None
        return os.path.join(EXTRACT, "model_cli")

    def run_model(self, cli, table, casefile, timeout=3000):
        rc, out, dt = run("ulimit -s unlimited 2>/dev/null; %s %s %s" % (cli, table, casefile), cwd=self.work,
                          timeout=timeout)
        counts, mism, total = {}, [], None
        for line in out.splitlines():
            if line.startswith("COUNT "):
                _, op, c = line.split()
                counts[op] = int(c)
            elif line.startswith("MISMATCH "):
                mism.append(line)
            elif line.startswith("TOTAL "):
                parts = line.split()
                total = (int(parts[1]), int(parts[3]))
        if rc != 0 or total is None:
            self.broken.append("model run failed: " + tail(out, 6))
            return counts, mism, (0, 0)
        return counts, mism, total

    def coq_eval_subset(self, imports, exprs, timeout=900):
        """evaluate closed Gallina expressions with vm_compute inside Coq (no extraction involved);
        returns the list of printed results (strings, whitespace-normalised)"""
        src = "From Coq Require Import ZArith List.\nImport ListNotations.\nOpen Scope Z_scope.\n"
        src += "From Verif Require Import %s.\n" % " ".join(imports)
        for e in exprs:
            src += "Eval vm_compute in (%s).\n" % e
        path = os.path.join(self.work, "Cases_%s.v" % self.pid)
        open(path, "w").write(src)
        with Lock("coq"):
            rc, out, _ = run(["coqc", "-Q", COQ, "Verif", path], cwd=self.work, timeout=timeout)
        if rc != 0:
            self.broken.append("in-Coq evaluation failed: " + tail(out, 6))
            return None
        res = re.findall(r"=\s*(.*?)\s*:\s*(?:option|list|M|bool|Z|N|nat|prod|outcome)[^\n]*(?:\n|$)", out, flags=re.S)
        return [re.sub(r"\s+", " ", r) for r in res]

    # ---------------------------------------------------------------- step 6/7
    def violation(self, case, expected, observed, what, no_input=False):
        """record a violation; if it matches a known finding, print KNOWN-FINDING instead"""
        for f in self.findings:
            if f["match"](case, what):
                msg = "KNOWN-FINDING: property=%s %s" % (self.pid, f["text"])
                if msg not in self.known:
                    self.known.append(msg)
                return
        h = hashlib.sha1(json.dumps([case, what], sort_keys=True, default=str).encode()).hexdigest()[:12]
        path = os.path.join(VERIF, "replays", "%s-%s.json" % (self.pid, h))
        json.dump({"property": self.pid, "seed": self.seed, "tier": self.tier, "case": case,
                   "expected": expected, "observed": observed, "what": what,
                   "replay_cmd": "./check %s --replay %s" % (self.pid, path)}, open(path, "w"), indent=1,
                  default=str)
        self.violations.append((path, " no-failing-input-found" if no_input else ""))

    def finish(self, level, coverage, assumptions):
        # a broken proof / tie with no failing input is still a violation (unproved)
        if self.broken and not self.violations:
            self.violation({"broken": self.broken}, "all obligations and the tie check", self.broken,
                           "obligation or tie no longer checks", no_input=True)
        ev = {
            "property_id": self.pid, "tier": self.tier, "seed": self.seed, "level": level,
            "coverage": coverage, "assumptions": assumptions,
            "wall_s": round(time.time() - self.t0, 2),
            "violations": len(self.violations),
        }
        ev["coverage"]["known_findings_reported"] = self.known
        ev["coverage"]["broken_obligations"] = self.broken
        json.dump(ev, open(os.path.join(VERIF, "evidence", "%s.json" % self.pid), "w"), indent=1, default=str)
        for k in self.known:
            print(k)
        for n in self.notes:
            print("note:", n)
        seen = set()
        for path, suf in self.violations[:20]:
            if path in seen:
                continue
            seen.add(path)
            print("VIOLATION property=%s replay=%s%s" % (self.pid, path, suf))
        print("%s %s: %s in %.1fs" % (self.pid, self.tier, "FAIL" if self.violations else "ok", time.time() - self.t0))
        sys.exit(1 if self.violations else 0)


def props(pid):
    """(relative paths, module names, .vo targets) of every Props file of a property: Props/<ID>.v, Props/<ID>b.v, ..."""
    import glob
    rels = sorted(os.path.relpath(f, COQ) for f in glob.glob(os.path.join(COQ, "Props", pid + "*.v")))
    rels = [r for r in rels if re.match(r"Props/%s[a-z]?\.v$" % pid, r)]
    mods = [r[:-2].replace("/", ".") for r in rels]
    return rels, mods, [r + "o" for r in rels]


def theorems_of(*relpaths):
    """names of the Theorem/Corollary statements of Props files (comments stripped)"""
    names = []
    for rp in relpaths:
        path = os.path.join(COQ, rp)
        if not os.path.exists(path):
            continue
        txt = strip_coq_comments(open(path).read())
        names += re.findall(r"^\s*(?:Theorem|Corollary)\s+([A-Za-z_][\w']*)", txt, flags=re.M)
    return names


def strip_coq_comments(txt):
    out, depth, i = [], 0, 0
    while i < len(txt):
        if txt.startswith("(*", i):
            depth += 1; i += 2
        elif txt.startswith("*)", i) and depth:
            depth -= 1; i += 2
        else:
            if depth == 0:
                out.append(txt[i])
            i += 1
    return "".join(out)


def tail(s, n):
    return " | ".join(s.strip().splitlines()[-n:])


def load_known_findings(pid):
    """known_findings.txt lines:
         finding: property=<ID> site=<regex over the violation description / case> <description>
         fixed: property=<ID> <commit> <what failed>          (suppresses nothing)
    """
    res = []
    path = os.path.join(VERIF, "known_findings.txt")
    if not os.path.exists(path):
        return res
    for line in open(path):
        line = line.strip()
        m = re.match(r"finding:\s+property=(\S+)\s+site=(\S+)\s+(.*)$", line)
        if m and m.group(1) == pid:
            rx = re.compile(m.group(2))
            res.append({"text": m.group(3),
                        "match": (lambda case, what, rx=rx: bool(rx.search(what)) or bool(rx.search(json.dumps(case, default=str))))})
    return res


_fail_classes = {}
def keep_failure(fails, msg, per_class=3, max_classes=200, scope="default"):
    """Failure lists are capped PER CLASS of message (numbers stripped), not in total: a known finding that
    fails many times must not use up the room a new failure needs."""
    key = (scope, id(fails), re.sub(r"\d+", "N", str(msg))[:120])
    cnt = _fail_classes.get(key, 0)
    nclasses = len([k for k in _fail_classes if k[0] == scope and k[1] == id(fails)])
    if cnt >= per_class or (cnt == 0 and nclasses >= max_classes):
        return False
    _fail_classes[key] = cnt + 1
    return True


def parse_case_lines(path):
    """yield (lineno, op, args(list of str), res(list of str) or 'panic')"""
    with open(path) as f:
        for i, line in enumerate(f, 1):
            if "=" not in line:
                continue
            lhs, rhs = line.split("=", 1)
            l = lhs.split()
            if not l:
                continue
            yield i, l[0], l[1:], rhs.split()


def std_args():
    import argparse
    ap = argparse.ArgumentParser()
    ap.add_argument("--tier", default=os.environ.get("VERIF_TIER", "quick"))
    ap.add_argument("--seed", type=int, default=int(os.environ.get("VERIF_SEED", "1")))
    ap.add_argument("--replay", default=None)
    return ap
