"""Property oracle for C10 (STARK lookups and cross-table lookups), independent of the Coq
model: Python integers only.

  c10 <family> <case> = 1|0     verdict lines of the harness (1 = the property held)
  lk <lookup> <rows> = b        the multiset statement of a lookup: for every value v,
                                sum of filters of looking entries equal to v == sum of frequencies of table rows equal to v
  ctlsys <system> = b           per CTL: filtered looking rows (+ extra values) == filtered looked rows as multisets
  lkcols .. = columns           the prover's helper columns are sum_j filter_j/(x + f_j) per batch and
                                Z_0 = 0, Z_(i+1) = Z_i + sum_k h_k(i) - m(i)/(t(i) + x)
  psums .. = columns            CTL helper columns likewise, Z_i = sum_{j >= i} sum_k h_k(j)
  ctlsum .. = 1|0|panic         sum over the distinct looking tables' next openings (+ extra) == looked table's next opening
"""
from spec_c09 import P, Reader

def inv(a):
    return pow(a % P, P - 2, P)

def read_col(rd):
    lin = [(rd.z(), rd.z()) for _ in range(rd.z())]
    nxt = [(rd.z(), rd.z()) for _ in range(rd.z())]
    return lin, nxt, rd.z()

def read_filter(rd):
    prods = [(read_col(rd), read_col(rd)) for _ in range(rd.z())]
    consts = [read_col(rd) for _ in range(rd.z())]
    return prods, consts

def read_rows(rd):
    n, w = rd.z(), rd.z()
    return [rd.zs(w) for _ in range(n)]

def col_at(c, rows, r):
    lin, nxt, k = c
    n = len(rows)
    s = k
    for i, f in lin: s += rows[r][i] * f
    for i, f in nxt: s += rows[(r + 1) % n][i] * f
    return s % P

def filter_at(f, rows, r):
    prods, consts = f
    s = 0
    for a, b in prods: s += col_at(a, rows, r) * col_at(b, rows, r)
    for c in consts: s += col_at(c, rows, r)
    return s % P

def read_lookup(rd):
    k = rd.z()
    cfs = []
    for _ in range(k):
        c = read_col(rd); f = read_filter(rd); cfs.append((c, f))
    return cfs, read_col(rd), read_col(rd)

def lookup_holds(cfs, table, freq, rows):
    m = {}
    for r in range(len(rows)):
        for c, f in cfs:
            v = col_at(c, rows, r); e = m.setdefault(v, [0, 0]); e[0] = (e[0] + filter_at(f, rows, r)) % P
        v = col_at(table, rows, r); e = m.setdefault(v, [0, 0]); e[1] = (e[1] + col_at(freq, rows, r)) % P
    return all(a == b for a, b in m.values())

def chunk(l, k):
    return [l[i:i + k] for i in range(0, len(l), k)]

def combine(beta, gamma, terms):
    acc = 0
    for t in reversed(terms): acc = (acc * beta + t) % P
    return (acc + gamma) % P

def helper_cols(rows, cfs, beta, gamma, degree):
    """cfs: list of (list of columns, filter); None if the real code must panic"""
    k = 1 if degree == 0 else degree - 1
    if k == 0: return None
    out = []
    for ck in chunk(cfs, k):
        col = []
        for d in range(len(rows)):
            s = 0
            for cols, f in ck:
                comb = combine(beta, gamma, [col_at(c, rows, d) for c in cols])
                if comb == 0: return None
                s += inv(comb) * filter_at(f, rows, d)
            col.append(s % P)
        out.append(col)
    return out

def check(op, args, res):
    if op in ("c10",):
        return None if res[:1] == ["1"] else "property case failed: %s" % " ".join(args[:2])
    if op in ("c10info", "c18ctl", "lkeval", "ctleval"):
        return None
    a = [int(x) for x in args]
    rd = Reader(a)
    if op == "lk":
        cfs, table, freq = read_lookup(rd); rows = read_rows(rd); assert rd.done()
        want = 1 if lookup_holds(cfs, table, freq, rows) else 0
        return None if res == [str(want)] else "harness lookup predicate %s, definition %d" % (res, want)
    if op == "ctlsys":
        tables = [read_rows(rd) for _ in range(rd.z())]
        ok = True
        for _ in range(rd.z()):
            nlooking = rd.z()
            twcs = []
            for _ in range(nlooking + 1):
                t = rd.z(); cols = [read_col(rd) for _ in range(rd.z())]; f = read_filter(rd)
                twcs.append((t, cols, f))
            extra = [tuple(rd.zs(rd.z())) for _ in range(rd.z())]
            m = {}
            for idx, (t, cols, f) in enumerate(twcs):
                rows = tables[t]
                side = 1 if idx == nlooking else 0
                for r in range(len(rows)):
                    key = tuple(col_at(c, rows, r) for c in cols)
                    e = m.setdefault(key, [0, 0]); e[side] = (e[side] + filter_at(f, rows, r)) % P
            for e_ in extra:
                e = m.setdefault(tuple(x % P for x in e_), [0, 0]); e[0] = (e[0] + 1) % P
            ok = ok and all(x == y for x, y in m.values())
        assert rd.done()
        want = 1 if ok else 0
        return None if res == [str(want)] else "harness CTL predicate %s, definition %d" % (res, want)
    if op == "lkcols":
        ch, degree = rd.z(), rd.z()
        cfs, table, freq = read_lookup(rd); rows = read_rows(rd); assert rd.done()
        n = len(rows)
        hs = helper_cols(rows, [([c], f) for c, f in cfs], 1, ch, degree)
        tc = [(col_at(table, rows, r) + ch) % P for r in range(n)]
        must_panic = hs is None or 0 in tc
        if res == ["panic"]:
            return None if must_panic else "panic on a well-formed input"
        if must_panic: return "no panic although a denominator is zero / the batch size is zero"
        r = [int(v) for v in res]
        if len(r) != (len(hs) + 1) * n: return "wrong number of columns"
        cols = chunk(r, n)
        if cols[:-1] != hs: return "helper columns are not sum_j filter_j / (x + f_j)"
        z = cols[-1]
        if z[0] != 0: return "Z does not start at 0"
        for i in range(n - 1):
            step = (sum(h[i] for h in hs) - col_at(freq, rows, i) * inv(tc[i])) % P
            if (z[i + 1] - z[i] - step) % P: return "Z is not the running sum at row %d" % i
        return None
    if op == "psums":
        beta, gamma, degree = rd.z(), rd.z(), rd.z()
        cfs = []
        for _ in range(rd.z()):
            cols = [read_col(rd) for _ in range(rd.z())]; cfs.append((cols, read_filter(rd)))
        rows = read_rows(rd); assert rd.done()
        n = len(rows)
        hs = helper_cols(rows, cfs, beta, gamma, degree)
        if res == ["panic"]:
            return None if hs is None else "panic on a well-formed input"
        if hs is None: return "no panic although a denominator / the batch size is zero"
        r = [int(v) for v in res]
        z = [0] * n
        acc = 0
        for i in reversed(range(n)):
            acc = (acc + sum(h[i] for h in hs)) % P; z[i] = acc
        want = (hs + [z]) if len(cfs) > 1 else [z]
        return None if chunk(r, n) == want else "partial sums differ from the reverse running sum of the helper columns"
    if op == "ctlsum":
        nch = rd.z()
        zs = [rd.zs(rd.z()) for _ in range(rd.z())]
        pos = [0] * len(zs)
        verdict = 1
        def nxt(t):
            if t >= len(zs) or pos[t] >= len(zs[t]): raise IndexError
            v = zs[t][pos[t]]; pos[t] += 1; return v
        try:
            for _ in range(rd.z()):
                looking = rd.zs(rd.z()); looked = rd.z()
                extra = rd.zs(rd.z()) if rd.z() else None
                seen = []
                for t in looking:
                    if t not in seen: seen.append(t)
                if verdict != 1: continue
                for c in range(nch):
                    s = sum(nxt(t) for t in seen)
                    if extra is not None:
                        if c >= len(extra): raise IndexError
                        s += extra[c]
                    if s % P != nxt(looked) % P:
                        verdict = 0; break
        except IndexError:
            verdict = "panic"
        return None if res == [str(verdict)] else "verify_cross_table_lookups gave %s, specification %s" % (res, verdict)
    return None
