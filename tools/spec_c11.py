"""Property oracle for C11 lines (independent of the Coq model): the in-circuit STARK verifier
accepts the assignment derived from (proof, public inputs, degree) exactly when the native STARK
verifier accepts the proof and the degree handed to the assignment is the proof's own."""
import spec_c06

def check(op, args, res, info):
    if res and res[0] == "-":
        return None          # outside the range the circuit was built for: informational
    return spec_c06.check(op, args, res, info)
