"""Property oracle for C20 lines (independent of the Coq model).
  cond-* / ordummy-*: accepted in-circuit <=> the SELECTED (proof, verifier data) pair is natively
                      valid (b = 0 of ordummy selects the library's own dummy proof), whatever the other;
  select-*:           the selected structure equals the chosen input;
  dummy:              the dummy proof verifies against the dummy circuit with the requested common data;
  cyclic chain<i>:    verifies, passes the verifier-data check, carries the verifier data, counter = i;
  cyclic alter-* ..:  the verifier-data check rejects."""
import re
import spec_c06

def check(op, args, res, info):
    subject, case = args[0], args[1]
    if res and res[0] == "-":
        return None                       # the library refuses the shape (panic in dummy_circuit): nothing generated
    if "native" in info and "outer" in info:
        why = spec_c06.check(op, args, res, info)
        if why:
            return why
        sel_ok = info["native"] == "ok"
        if case.startswith("cond-") and info.get("exp") in ("0", "1") and (info["exp"] == "1") != sel_ok:
            return "selected branch validity by construction (%s) differs from the native verdict (%s)" % (info["exp"], info["native"])
        return None
    if subject == "cyclic":
        m = re.match(r"chain(\d+)$", case)
        if m:
            if info.get("verify") != "ok": return "chain proof %s does not verify" % m.group(1)
            if info.get("check") != "ok": return "chain proof %s fails the verifier-data check" % m.group(1)
            if info.get("vd_in_pis") != "1": return "chain proof %s does not carry the circuit's verifier data" % m.group(1)
            if info.get("counter") != m.group(1): return "chain proof %s has counter %s" % (m.group(1), info.get("counter"))
            if info.get("hash_ok") != "1": return "chain proof %s carries a wrong hash" % m.group(1)
            return None
        if case.startswith(("alter-", "short-pis", "foreign-vd-base")):
            if info.get("check") == "ok": return "verifier-data check accepts altered data (%s)" % case
            if info.get("check") != "err": return "verifier-data check outcome %s (%s)" % (info.get("check"), case)
    if not res or res[0] != "1":
        return "case fails: %s %s" % (case, " ".join("%s=%s" % kv for kv in sorted(info.items())))
    return None
