"""Independent oracle for the Keccak glue of C13 (own Keccak-256 in tools/keccak.py)."""
from keccak import keccak256
P = 2**64 - 2**32 + 1
N = 25

def le(xs):
    return b"".join(int(x).to_bytes(8, "little") for x in xs)

def kperm(state):
    """field representation of H(s) || H(H(s)) || ..., 64-bit LE words, words >= P rejected"""
    out, cur = [], le(state)
    while len(out) < 12:
        cur = keccak256(cur)
        for i in range(4):
            wv = int.from_bytes(cur[8 * i:8 * i + 8], "little")
            if wv < P and len(out) < 12:
                out.append(wv)
    return out

def challenger(xs, ndraw):
    """duplex sponge in overwrite mode over kperm, rate 8"""
    state, inbuf, outbuf, res = [0] * 12, [], [], []
    def duplex():
        nonlocal state, inbuf, outbuf
        for i, v in enumerate(inbuf):
            state[i] = v
        inbuf = []
        state = kperm(state)
        outbuf = state[:8]
    for x in xs:
        outbuf = []
        inbuf.append(x)
        if len(inbuf) == 8:
            duplex()
    for _ in range(ndraw):
        if inbuf or not outbuf:
            duplex()
        res.append(outbuf.pop())
    return res

def check(op, args, res):
    if res == ["panic"]:
        return "implementation panicked"
    a = [int(x) for x in args]
    r = [int(x) for x in res]
    if op == "kperm":
        want = kperm([x % P for x in a])
        return None if r == want else "KeccakPermutation differs from the hash-onion specification"
    if op == "khash":
        want = list(keccak256(le([x % P for x in a[1:]]))[:N])
        return None if r == want else "KeccakHash::hash_no_pad differs from keccak256(LE elements)[..25]"
    if op == "khashornoop":
        xs = [x % P for x in a[1:]]
        want = list(le(xs) + bytes(N - 8 * len(xs))) if 8 * len(xs) <= N else list(keccak256(le(xs))[:N])
        return None if r == want else "hash_or_noop differs (width %d)" % len(xs)
    if op == "ktwo":
        want = list(keccak256(bytes(a[:N]) + bytes(a[N:]))[:N])
        return None if r == want else "two_to_one differs from keccak256(left || right)[..25]"
    if op == "kdigest_to_vec":
        bs = bytes(a)
        want = [int.from_bytes(bs[i:i + 7], "little") for i in range(0, N, 7)]
        return None if r == want else "digest -> field packing drops or alters bytes: got %s want %s" % (r, want)
    if op == "kchallenger":
        want = challenger([x % P for x in a[1:]], 3)
        return None if r == want else "Challenger over KeccakPermutation differs from the duplex sponge"
    return "unknown op " + op
