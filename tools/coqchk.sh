#!/bin/sh
# Re-check every compiled Props module (and everything it depends on) with Coq's independent checker and
# print the axioms the development relies on. Takes tens of minutes; not part of the quick/thorough tiers.
# Output of the last run: coq/COQCHK.txt
cd "$(dirname "$0")/../coq" || exit 2
mods=$(ls Props/*.vo | sed 's|Props/\(.*\)\.vo|Verif.Props.\1|' | tr '\n' ' ')
timeout 14400 coqchk -o -silent -Q . Verif $mods
