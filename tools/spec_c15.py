"""Property oracle for C15, independent of the Coq model: the defining identities of the transforms
and of the polynomial algebra, evaluated with Python integers (direct O(n^2) evaluation on the
subgroup - O(n) per point with Horner -, schoolbook multiplication, textbook long division, bit
reversal by reversing the binary string).  `check(op, args, res)` returns None if the
implementation's result satisfies the property for that case, else a message.

Where the documented behaviour of an operation includes a panic (length not a power of two, zero
divisor, ...) the oracle says so explicitly; a panic anywhere else is a violation."""
import random

P = 2**64 - 2**32 + 1
TWO_ADICITY = 32
POWER_OF_TWO_GENERATOR = 7277203076849721926
MULT_GEN = 14293326489335486720
BIG_T_SIZE = 1 << 14
SMALL_ARR_SIZE = 1 << 16

# oracle cost control: number of points at which a size-n transform is compared with direct evaluation
FULL_BELOW = 1 << 9
SAMPLE_POINTS = 96


def inv(x):
    return pow(x % P, P - 2, P)


def is_pow2(n):
    return n >= 1 and n & (n - 1) == 0


def lg(n):
    return n.bit_length() - 1


def root(k):
    """primitive 2^k-th root of unity used by the code"""
    return pow(POWER_OF_TWO_GENERATOR, 1 << (TWO_ADICITY - k), P)


def horner(c, x):
    acc = 0
    for a in reversed(c):
        acc = (acc * x + a) % P
    return acc


def bitrev(i, k):
    if k == 0:
        return 0
    return int(format(i, "0%db" % k)[::-1], 2)


def trim(c):
    c = list(c)
    while c and c[-1] % P == 0:
        c.pop()
    return c


def school_mul(a, b):
    if not a or not b:
        return []
    r = [0] * (len(a) + len(b) - 1)
    for i, x in enumerate(a):
        if x:
            for j, y in enumerate(b):
                r[i + j] = (r[i + j] + x * y) % P
    return r


def poly_eq(a, b):
    return trim([x % P for x in a]) == trim([x % P for x in b])


def poly_add(a, b):
    n = max(len(a), len(b))
    return [((a[i] if i < len(a) else 0) + (b[i] if i < len(b) else 0)) % P for i in range(n)]


def long_div(a, b):
    a = trim([x % P for x in a])
    b = trim([x % P for x in b])
    assert b
    q = [0] * max(len(a) - len(b) + 1, 0)
    r = a
    li = inv(b[-1])
    while len(r) >= len(b):
        c = r[-1] * li % P
        d = len(r) - len(b)
        q[d] = c
        for i, y in enumerate(b):
            r[d + i] = (r[d + i] - c * y) % P
        r = trim(r)
    return q, r


def points_for(n, seed):
    if n <= FULL_BELOW:
        return list(range(n))
    rnd = random.Random(seed)
    pts = {0, 1, n - 1, n // 2, n // 2 + 1}
    while len(pts) < SAMPLE_POINTS:
        pts.add(rnd.randrange(n))
    return sorted(pts)


def check_evals(coeffs, values, shift, what):
    """values[i] == coeffs(shift * w^i) for the subgroup of size len(values)"""
    n = len(values)
    if not is_pow2(n):
        return "%s: result length %d is not a power of two" % (what, n)
    w = root(lg(n))
    for i in points_for(n, n + len(coeffs)):
        x = shift * pow(w, i, P) % P
        want = horner(coeffs, x)
        if values[i] != want:
            return "%s: value %d is %d, direct evaluation gives %d" % (what, i, values[i], want)
    return None


def expect_panic(res, cond, why):
    """cond: the documented precondition is violated -> a panic is the specified behaviour"""
    if res == ["panic"]:
        return None if cond else "implementation panicked"
    if cond:
        return "expected a panic (%s), got a result" % why
    return False  # continue with the value checks


def split2(a):
    la = a[0]
    return a[1:1 + la], a[1 + la:]


def parse_table(a):
    nrows = a[0]
    pos, rows = 1, []
    for _ in range(nrows):
        ln = a[pos]
        rows.append(a[pos + 1:pos + 1 + ln])
        pos += 1 + ln
    return rows, a[pos:]


def good_table(rows, k, r):
    """rows used by the layers r..k-1 hold the powers of the right roots"""
    if len(rows) != k:
        return False
    for i in range(r, k):
        g = root(i + 1)
        half = 1 << i
        if len(rows[i]) < half:
            return False
        x = 1
        for j in range(half):
            if rows[i][j] % P != x:
                return False
            x = x * g % P
    return True


def check(op, args, res, consts=None):
    a = [int(x) for x in args]
    if res == ["panic"]:
        r = None
    else:
        r = [int(x) for x in res]
        if any(not (0 <= x < 2**64) for x in r):
            return "result not u64"

    # ------------------------------------------------------------ util
    if op == "revbits":
        n, nb = a
        if r is None:
            return "implementation panicked"
        if nb == 0:
            want = 0 if n == 0 else None
        else:
            want = bitrev(n, nb) if n < (1 << nb) else None
        if want is None:
            return None  # outside the documented domain (n has bits above num_bits)
        return None if r[0] == want else "reverse_bits(%d, %d) = %d, expected %d" % (n, nb, r[0], want)
    if op in ("revidx", "revidx_inplace"):
        arr = a if op == "revidx" else a[1:]
        n = len(arr)
        e = expect_panic(res, not is_pow2(n), "length %d is not a power of two" % n)
        if e is not False:
            return e
        k = lg(n)
        if len(r) != n:
            return "length changed"
        for i in range(n):
            if r[i] != arr[bitrev(i, k)]:
                return "position %d holds input[%d]?, expected input[%d]" % (i, arr.index(r[i]) if r[i] in arr else -1, bitrev(i, k))
        return None
    if op == "transpose":
        lb_stride, lb_size, x = a[:3]
        arr = a[3:]
        if r is None:
            return "implementation panicked"
        if len(r) != len(arr):
            return "length changed"
        if lb_size > lb_stride:
            return None  # overlapping layout: no specification
        want = list(arr)
        for i in range(1 << lb_size):
            for j in range(1 << lb_size):
                want[((i + x) << lb_stride) + j + x] = arr[((j + x) << lb_stride) + i + x]
        return None if r == want else "not the transpose of the 2^%d square at offset %d, stride 2^%d" % (lb_size, x, lb_stride)

    # ------------------------------------------------------------ fft
    if op == "prou":
        k = a[0]
        e = expect_panic(res, k > TWO_ADICITY, "n_log > TWO_ADICITY")
        if e is not False:
            return e
        g = r[0]
        if pow(g, 1 << k, P) != 1:
            return "g^(2^k) != 1"
        if k > 0 and pow(g, 1 << (k - 1), P) != P - 1:
            return "g^(2^(k-1)) != -1"
        return None
    if op == "subgroup":
        k = a[0]
        if r is None:
            return "implementation panicked"
        g = root(k)
        return None if r == [pow(g, i, P) for i in range(1 << k)] else "not the powers of the generator"
    if op == "roottable":
        n = a[0]
        e = expect_panic(res, not is_pow2(n) or lg(n) > TWO_ADICITY, "size not a supported power of two")
        if e is not False:
            return e
        rows, rest = parse_table(r)
        if rest:
            return "trailing data"
        return None if good_table(rows, lg(n), 0) else "root table rows are not the powers of the 2^(i+1)-th roots"
    if op in ("fft", "fft_r", "fftx", "ifft", "ifft_r", "ifftx", "coset_fft", "coset_fft_r", "coset_ifft"):
        shift, zr, table = 1, 0, None
        if op in ("fft", "ifft"):
            c = a
        elif op in ("fft_r", "ifft_r"):
            zr, c = a[0], a[1:]
        elif op in ("fftx", "ifftx"):
            zr = a[1] if a[0] else 0
            table, c = parse_table(a[2:])
        elif op == "coset_fft_r":
            shift, zr, c = a[0] % P, a[1], a[2:]
        else:
            shift, c = a[0] % P, a[1:]
        n = len(c)
        c = [x % P for x in c]
        bad_len = not is_pow2(n)
        if bad_len:
            e = expect_panic(res, True, "length %d is not a power of two" % n)
            return e if e is not False else None
        k = lg(n)
        if table is not None and not good_table(table, k, min(zr, k)):
            # a table of the wrong length must be refused; wrong contents have no specification
            if len(table) != k:
                return None if r is None else "root table of length %d accepted for size 2^%d" % (len(table), k)
            return None
        if op == "coset_ifft" and shift == 0:
            return None if r is None else "expected a panic (zero shift)"
        if r is None:
            return "implementation panicked"
        if len(r) != n:
            return "result length %d, expected %d" % (len(r), n)
        tail_zero = zr == 0 or all(x == 0 for x in c[(n >> zr if zr < 64 else 0):])
        if not tail_zero:
            return None  # zero-tail promise broken by the caller: no specification
        if op in ("fft", "fft_r", "fftx", "coset_fft", "coset_fft_r"):
            return check_evals(c, r, shift, op)
        # inverse transforms: the result, evaluated on the (coset of the) subgroup, reproduces the input
        return check_evals(r, c, shift, op)
    if op in ("lde", "lde_coset", "clde"):
        rb, v = a[0], [x % P for x in a[1:]]
        n = len(v)
        if op == "clde":
            if r is None:
                return "implementation panicked"
            return None if r == v + [0] * ((n << rb) - n) else "not the zero-padded coefficient vector"
        e = expect_panic(res, not is_pow2(n), "length %d is not a power of two" % n)
        if e is not False:
            return e
        if len(r) != n << rb:
            return "result length %d, expected %d" % (len(r), n << rb)
        shift = MULT_GEN if op == "lde_coset" else 1
        # the unique polynomial of degree < n through the inputs on H, evaluated on the larger domain:
        # compare through the barycentric form on H (independent of any FFT)
        k, K = lg(n), lg(n << rb)
        w, W = root(k), root(K)
        xs = [pow(w, i, P) for i in range(n)]
        ninv = inv(n)
        for i in points_for(n << rb, n + rb):
            x = shift * pow(W, i, P) % P
            hit = [j for j in range(n) if xs[j] == x] if n <= 4096 else []
            if shift == 1 and i % (1 << rb) == 0:
                want = v[i >> rb]
            else:
                # p(x) = (x^n - 1)/n * sum_j v_j w^j / (x - w^j)
                zh = (pow(x, n, P) - 1) % P
                s = 0
                for j in range(n):
                    s = (s + v[j] * xs[j] % P * inv(x - xs[j])) % P
                want = zh * ninv % P * s % P
            if r[i] != want:
                return "%s: value %d is %d, the interpolant gives %d" % (op, i, r[i], want)
        return None

    # ------------------------------------------------------------ polynomial/mod.rs
    if op == "eval":
        if r is None:
            return "implementation panicked"
        x, c = a[0] % P, a[1:]
        want = sum(ci * pow(x, i, P) for i, ci in enumerate(c)) % P
        return None if r[0] == want else "eval %d, sum of monomials %d" % (r[0], want)
    if op == "evalpow":
        c, pw = split2(a)
        e = expect_panic(res, len(c) == 0, "empty coefficient vector")
        if e is not False:
            return e
        if len(pw) != len(c) - 1:
            return None
        want = (c[0] + sum(ci * p for ci, p in zip(c[1:], pw))) % P
        return None if r[0] == want else "eval_with_powers %d, expected %d" % (r[0], want)
    if op in ("polyadd", "polysub", "polymul"):
        x, y = split2(a)
        if r is None:
            return "implementation panicked"
        x = [v % P for v in x]
        y = [v % P for v in y]
        if op == "polyadd":
            want = poly_add(x, y)
        elif op == "polysub":
            want = poly_add(x, [(-v) % P for v in y])
        else:
            want = school_mul(x, y)
        if op != "polymul" and len(r) != max(len(x), len(y)):
            return "result length %d, expected %d" % (len(r), max(len(x), len(y)))
        return None if poly_eq(r, want) else "%s differs from the schoolbook result" % op
    if op == "scalarmul":
        if r is None:
            return "implementation panicked"
        return None if r == [a[0] * v % P for v in a[1:]] else "scalar multiple differs"
    if op == "trim":
        if r is None:
            return "implementation panicked"
        return None if r == trim([v % P for v in a]) else "trim differs"
    if op == "trimlen":
        if r is None:
            return "implementation panicked"
        ln, c = a[0], [v % P for v in a[1:]]
        ok = ln <= len(c) and all(v == 0 for v in c[ln:])
        if ok:
            return None if r == [1] + c[:ln] else "trim_to_len: wrong result"
        return None if r == [0] else "trim_to_len accepted a vector with a non-zero coefficient beyond len (or too short)"
    if op == "padded":
        ln, c = a[0], [v % P for v in a[1:]]
        e = expect_panic(res, ln < len(c), "padding to a smaller length")
        if e is not False:
            return e
        return None if r == c + [0] * (ln - len(c)) else "padded differs"
    if op == "degp1":
        if r is None:
            return "implementation panicked"
        return None if r[0] == len(trim([v % P for v in a])) else "degree_plus_one differs"
    if op == "lead":
        if r is None:
            return "implementation panicked"
        t = trim([v % P for v in a])
        return None if r[0] == (t[-1] if t else 0) else "lead differs"

    # ------------------------------------------------------------ division.rs
    if op == "divlin":
        if r is None:
            return "implementation panicked"
        z, c = a[0] % P, [v % P for v in a[1:]]
        if len(r) != max(len(c) - 1, 0):
            return "quotient length %d, expected %d" % (len(r), max(len(c) - 1, 0))
        # p = (X - z) q + p(z)
        rhs = poly_add(school_mul([(-z) % P, 1], r), [horner(c, z)])
        return None if poly_eq(rhs, c) else "p != (X - z) q + p(z)"
    if op in ("divrem", "divremlong"):
        x, y = split2(a)
        x = [v % P for v in x]
        y = [v % P for v in y]
        # a zero dividend is answered before the divisor is looked at (documented order of the branches)
        e = expect_panic(res, (not trim(y)) and bool(trim(x)), "division by the zero polynomial")
        if e is not False:
            return e
        if not trim(y):
            return None if poly_eq(r[1:], []) else "0 / 0 returned a non-zero pair"
        lq = r[0]
        q, rem = r[1:1 + lq], r[1 + lq:]
        if not poly_eq(poly_add(school_mul(q, y), rem), x):
            return "a != q b + r"
        if len(trim(rem)) >= len(trim(y)):
            return "deg r = %d is not below deg b = %d" % (len(trim(rem)) - 1, len(trim(y)) - 1)
        wq, wr = long_div(x, y)
        if not (poly_eq(q, wq) and poly_eq(rem, wr)):
            return "differs from textbook long division"
        return None
    if op == "invmodxn":
        n, c = a[0], [v % P for v in a[1:]]
        e = expect_panic(res, n == 0 or not c or c[0] == 0, "n = 0 or zero constant term")
        if e is not False:
            return e
        prod = school_mul(r, c)[:n]
        if len(r) > n:
            return "result longer than n"
        return None if poly_eq(prod, [1]) else "p * inv != 1 mod x^%d" % n

    # ------------------------------------------------------------ interpolation.rs
    if op in ("interp", "baryw", "interpolate"):
        x = None
        pts = a
        if op == "interpolate":
            x, pts = a[0] % P, a[1:]
        xs = [v % P for v in pts[0::2]]
        ys = [v % P for v in pts[1::2]]
        dup = len(set(xs)) != len(xs)
        e = expect_panic(res, dup, "repeated abscissa")
        if e is not False:
            return e
        n = len(xs)
        if op == "baryw":
            for i in range(n):
                d = 1
                for j in range(n):
                    if j != i:
                        d = d * (xs[i] - xs[j]) % P
                if r[i] * d % P != 1:
                    return "weight %d is not 1 / prod (x_i - x_j)" % i
            return None
        if op == "interp":
            if len(trim(r)) != len(r):
                return "result not trimmed"
            if len(r) > n:
                return "degree %d interpolant for %d points" % (len(r) - 1, n)
            for xi, yi in zip(xs, ys):
                if horner(r, xi) != yi:
                    return "interpolant does not pass through (%d, %d)" % (xi, yi)
            return None
        # Lagrange form
        want = 0
        for i in range(n):
            num, den = 1, 1
            for j in range(n):
                if j != i:
                    num = num * (x - xs[j]) % P
                    den = den * (xs[i] - xs[j]) % P
            want = (want + ys[i] * num % P * inv(den)) % P
        return None if r[0] == want else "interpolate %d, Lagrange form %d" % (r[0], want)
    if op == "interp2":
        a0, a1, b0, b1, x = [v % P for v in a]
        e = expect_panic(res, a0 == b0, "equal abscissae")
        if e is not False:
            return e
        # the line through the two points
        want = (a1 + (x - a0) * (b1 - a1) % P * inv(b0 - a0)) % P
        return None if r[0] == want else "interpolate2 differs"

    # ------------------------------------------------------------ zero_poly_coset.rs, cosets.rs
    if op in ("zpoc", "zpoc_l0"):
        n_log, rate_bits = a[0], a[1]
        n, rate = 1 << n_log, 1 << rate_bits
        K = root(n_log + rate_bits) if n_log + rate_bits <= TWO_ADICITY else None
        if K is None:
            return None
        def zh(i):  # Z_H(g w^i), w generator of K
            return (pow(MULT_GEN * pow(K, i, P) % P, n, P) - 1) % P
        if op == "zpoc":
            if r is None:
                return "implementation panicked"
            for i in range(rate):
                if r[i] != zh(i):
                    return "eval(%d) is not Z_H(g w^i)" % i
                if r[rate + i] * zh(i) % P != 1:
                    return "eval_inverse(%d) is not the inverse" % i
            return None
        i, x = a[2], a[3] % P
        e = expect_panic(res, x == 1, "L_0 at x = 1 divides by zero")
        if e is not False:
            return e
        if r[0] != zh(i) or r[1] * zh(i) % P != 1:
            return "eval / eval_inverse wrong at %d" % i
        return None if r[2] == zh(i) * inv(n * (x - 1)) % P else "eval_l_0 differs from Z_H/(n (x - 1))"
    if op == "cosetshifts":
        sg, ns = a
        e = expect_panic(res, sg % (1 << 32) == 0, "subgroup size truncated to u32 is zero")
        if e is not False:
            return e
        if len(r) != ns:
            return "wrong number of shifts"
        # distinct cosets of the subgroup of order sg: (s_i / s_j)^sg != 1
        for i in range(ns):
            for j in range(i):
                if pow(r[i] * inv(r[j]) % P, sg, P) == 1:
                    return "shifts %d and %d give the same coset" % (i, j)
        return None
    return "unknown op " + op
