(* Abstract field interface used by all protocol-level models.
   Models are written over [FieldOps] (executable); theorems assume [FieldLaws].
   No axioms: laws are section hypotheses / class instances proved elsewhere
   (Proofs/FpField.v gives the Goldilocks instance). *)
From Coq Require Import ZArith List Lia Ring Field Setoid Morphisms.
Import ListNotations.

Class FieldOps (F : Type) : Type := {
  fzero : F;
  fone : F;
  fadd : F -> F -> F;
  fsub : F -> F -> F;
  fmul : F -> F -> F;
  fneg : F -> F;
  finv : F -> F;          (* total: finv 0 is unspecified by the laws *)
  feqb : F -> F -> bool;
}.

Declare Scope field_scope.
Delimit Scope field_scope with F.
Notation "0" := fzero : field_scope.
Notation "1" := fone : field_scope.
Infix "+" := fadd : field_scope.
Infix "-" := fsub : field_scope.
Infix "*" := fmul : field_scope.
Notation "- x" := (fneg x) : field_scope.
Infix "=?" := feqb : field_scope.

Definition fdiv {F} `{FieldOps F} (x y : F) : F := fmul x (finv y).
Infix "/" := fdiv : field_scope.

Class FieldLaws (F : Type) `{FieldOps F} : Prop := {
  f_add_0_l : forall x, (0 + x = x)%F;
  f_add_comm : forall x y, (x + y = y + x)%F;
  f_add_assoc : forall x y z, (x + (y + z) = (x + y) + z)%F;
  f_mul_1_l : forall x, (1 * x = x)%F;
  f_mul_comm : forall x y, (x * y = y * x)%F;
  f_mul_assoc : forall x y z, (x * (y * z) = (x * y) * z)%F;
  f_distr_l : forall x y z, ((x + y) * z = x * z + y * z)%F;
  f_sub_def : forall x y, (x - y = x + - y)%F;
  f_opp_def : forall x, (x + - x = 0)%F;
  f_inv_l : forall x, x <> 0%F -> (finv x * x = 1)%F;
  f_1_neq_0 : (1 <> 0 :> F)%F;
  f_eqb_spec : forall x y, (x =? y)%F = true <-> x = y;
}.

Section FieldFacts.
  Context {F : Type} `{FL : FieldLaws F}.
  Local Open Scope field_scope.

  Lemma F_ring_theory : ring_theory (R := F) 0 1 fadd fmul fsub fneg eq.
  Proof.
    constructor.
    - apply f_add_0_l. - apply f_add_comm. - apply f_add_assoc.
    - apply f_mul_1_l. - apply f_mul_comm. - apply f_mul_assoc.
    - apply f_distr_l. - apply f_sub_def. - apply f_opp_def.
  Qed.

  Lemma F_field_theory : field_theory (R := F) 0 1 fadd fmul fsub fneg fdiv finv eq.
  Proof.
    constructor.
    - apply F_ring_theory.
    - apply f_1_neq_0.
    - reflexivity.
    - apply f_inv_l.
  Qed.

  Add Field Ffield : F_field_theory.

  Lemma feqb_refl x : (x =? x) = true.
  Proof. apply f_eqb_spec. reflexivity. Qed.

  Lemma feqb_false x y : (x =? y) = false <-> x <> y.
  Proof.
    split.
    - intros E Hxy. apply f_eqb_spec in Hxy. congruence.
    - intros Hn. destruct (x =? y) eqn:E; auto. apply f_eqb_spec in E. contradiction.
  Qed.

  Lemma F_eq_dec (x y : F) : {x = y} + {x <> y}.
  Proof.
    destruct (x =? y) eqn:E.
    - left. apply f_eqb_spec. exact E.
    - right. apply feqb_false. exact E.
  Qed.

  Lemma f_mul_0_l x : 0 * x = 0. Proof. ring. Qed.
  Lemma f_mul_0_r x : x * 0 = 0. Proof. ring. Qed.
  Lemma f_add_0_r x : x + 0 = x. Proof. ring. Qed.
  Lemma f_mul_1_r x : x * 1 = x. Proof. ring. Qed.
  Lemma f_sub_diag x : x - x = 0. Proof. ring. Qed.
  Lemma f_inv_r x : x <> 0 -> x * finv x = 1.
  Proof. intros. rewrite f_mul_comm. apply f_inv_l. auto. Qed.

  (* integral domain *)
  Lemma f_mul_eq_0 x y : x * y = 0 -> x = 0 \/ y = 0.
  Proof.
    intros E. destruct (F_eq_dec x 0) as [->|Hx]; [left; reflexivity|right].
    assert (finv x * (x * y) = y) by (field; auto).
    rewrite E in H0. rewrite <- H0. ring.
  Qed.

  Lemma f_mul_neq_0 x y : x <> 0 -> y <> 0 -> x * y <> 0.
  Proof. intros Hx Hy E. apply f_mul_eq_0 in E. tauto. Qed.

  Lemma f_sub_eq_0 x y : x - y = 0 <-> x = y.
  Proof.
    split; intros E.
    - assert (x = (x - y) + y) by ring. rewrite E in H0. rewrite H0. ring.
    - subst. ring.
  Qed.

  Lemma f_mul_cancel_l x y z : x <> 0 -> x * y = x * z -> y = z.
  Proof.
    intros Hx E. apply f_sub_eq_0.
    assert (E2 : x * (y - z) = 0) by (transitivity (x * y - x * z); [ring | rewrite E; ring]).
    apply f_mul_eq_0 in E2. tauto.
  Qed.

  Lemma f_inv_neq_0 x : x <> 0 -> finv x <> 0.
  Proof.
    intros Hx E. pose proof (f_inv_l x Hx) as H1. rewrite E in H1.
    rewrite f_mul_0_l in H1. apply f_1_neq_0. auto.
  Qed.

  (* powers *)
  Fixpoint fpow (x : F) (n : nat) : F :=
    match n with O => 1 | S n' => x * fpow x n' end.

  Lemma fpow_add x n m : fpow x (n + m) = fpow x n * fpow x m.
  Proof. induction n; simpl; [ring|]. rewrite IHn. ring. Qed.

  Lemma fpow_mul x n m : fpow x (n * m) = fpow (fpow x n) m.
  Proof.
    induction m; simpl.
    - rewrite Nat.mul_0_r. reflexivity.
    - rewrite Nat.mul_succ_r, Nat.add_comm, fpow_add, IHm. reflexivity.
  Qed.

  Lemma fpow_neq_0 x n : x <> 0 -> fpow x n <> 0.
  Proof. intros Hx. induction n; simpl; [apply f_1_neq_0|]. apply f_mul_neq_0; auto. Qed.

  Lemma fpow_1_l n : fpow 1 n = 1.
  Proof. induction n; simpl; [reflexivity|]. rewrite IHn. ring. Qed.

  Lemma fpow_mul_base x y n : fpow (x * y) n = fpow x n * fpow y n.
  Proof. induction n; simpl; [ring|]. rewrite IHn. ring. Qed.

  (* sums and products over lists *)
  Definition fsum (l : list F) : F := fold_right fadd 0 l.
  Definition fprod (l : list F) : F := fold_right fmul 1 l.

  Lemma fsum_app l1 l2 : fsum (l1 ++ l2) = fsum l1 + fsum l2.
  Proof. induction l1; simpl; [ring|]. rewrite IHl1. ring. Qed.
  Lemma fprod_app l1 l2 : fprod (l1 ++ l2) = fprod l1 * fprod l2.
  Proof. induction l1; simpl; [ring|]. rewrite IHl1. ring. Qed.

  Lemma fprod_neq_0 l : Forall (fun x => x <> 0) l -> fprod l <> 0.
  Proof. induction 1; simpl; [apply f_1_neq_0|]. apply f_mul_neq_0; auto. Qed.
End FieldFacts.

(* `ring`/`field` for users: inside a section with [FieldLaws F], write
     Add Field Ff : (@F_field_theory F _ _).
*)
