(* A tiny deserialiser over flat integer lists (the interchange format between the Rust harness
   and the Gallina models): every composite is length-prefixed. *)
From Coq Require Import ZArith List Bool.
Import ListNotations.
Open Scope Z_scope.

Definition R (A : Type) : Type := list Z -> option (A * list Z).
Definition rret {A} (a : A) : R A := fun s => Some (a, s).
Definition rbind {A B} (m : R A) (k : A -> R B) : R B :=
  fun s => match m s with Some (a, s') => k a s' | None => None end.
Definition rfail {A} : R A := fun _ => None.
Notation "'rdo' x <- m ;; k" := (rbind m (fun x => k)) (at level 200, x pattern, right associativity).

Definition rd_z : R Z := fun s => match s with x :: t => Some (x, t) | [] => None end.
Definition rd_nat : R nat := rdo x <- rd_z ;; if (x <? 0)%Z then rfail else rret (Z.to_nat x).
Definition rd_bool : R bool := rdo x <- rd_z ;; rret (negb (x =? 0)).

Fixpoint rd_n {A} (n : nat) (r : R A) : R (list A) :=
  match n with
  | O => rret []
  | S n' => rdo x <- r ;; rdo xs <- rd_n n' r ;; rret (x :: xs)
  end.
(* length-prefixed list; the length must not exceed what is left (no unbounded allocation) *)
Definition rd_list {A} (r : R A) : R (list A) :=
  fun s => match s with
           | n :: t => if (n <? 0) || (Z.of_nat (length t) <? n) then None else rd_n (Z.to_nat n) r t
           | [] => None
           end.
Definition rd_pair {A B} (ra : R A) (rb : R B) : R (A * B) :=
  rdo a <- ra ;; rdo b <- rb ;; rret (a, b).
Definition rd_end {A} (a : A) : R A := fun s => match s with [] => Some (a, []) | _ => None end.
Definition run_reader {A} (r : R A) (s : list Z) : option A :=
  match r s with Some (a, []) => Some a | _ => None end.
