(* Polynomials as coefficient lists (low degree first) over an abstract field.
   Evaluation (Horner), addition, scaling, schoolbook multiplication,
   synthetic division by (X - z) (plonky2's PolynomialCoeffs::divide_by_linear),
   the root bound (a non-zero polynomial with at most d+1 coefficients has at
   most d distinct roots), and the derived bound for random linear combinations
   by powers of alpha (plonky2's reduce_with_powers).  No axioms. *)
From Coq Require Import List Lia Arith Ring Field.
From Verif Require Import Base.Field.
Import ListNotations.
Local Open Scope field_scope.

Section Poly.
  Context {F : Type} `{FL : FieldLaws F}.

  Add Field Ff : (@F_field_theory F _ FL).

  Definition poly := list F.

  (* Horner evaluation *)
  Fixpoint peval (p : poly) (x : F) : F :=
    match p with
    | [] => 0
    | c :: p' => c + x * peval p' x
    end.

  (* coefficientwise addition; result length = max *)
  Fixpoint padd (p q : poly) : poly :=
    match p, q with
    | [], _ => q
    | _, [] => p
    | a :: p', b :: q' => (a + b) :: padd p' q'
    end.

  Definition pscale (c : F) (p : poly) : poly := map (fmul c) p.

  (* schoolbook multiplication *)
  Fixpoint pmul (p q : poly) : poly :=
    match p with
    | [] => []
    | c :: p' => padd (pscale c q) (0 :: pmul p' q)
    end.

  (* all coefficients zero *)
  Definition pzero (p : poly) : Prop := Forall (fun c => c = 0) p.

  (* ---------------------------------------------------------------- *)
  (* lengths *)

  Lemma padd_length : forall p q,
    length (padd p q) = Nat.max (length p) (length q).
  Proof.
    induction p as [|a p IH]; intros q; simpl.
    - reflexivity.
    - destruct q as [|b q]; simpl.
      + reflexivity.
      + rewrite IH. reflexivity.
  Qed.

  Lemma pscale_length : forall c p, length (pscale c p) = length p.
  Proof. intros. unfold pscale. apply map_length. Qed.

  (* ---------------------------------------------------------------- *)
  (* evaluation lemmas *)

  Lemma peval_padd : forall p q x, peval (padd p q) x = peval p x + peval q x.
  Proof.
    induction p as [|a p IH]; intros q x.
    - simpl. ring.
    - destruct q as [|b q].
      + simpl. ring.
      + simpl. rewrite IH. ring.
  Qed.

  Lemma peval_pscale : forall c p x, peval (pscale c p) x = c * peval p x.
  Proof.
    intros c p x. induction p as [|a p IH].
    - simpl. ring.
    - change (pscale c (a :: p)) with (c * a :: pscale c p).
      cbn [peval]. rewrite IH. ring.
  Qed.

  Lemma peval_pmul : forall p q x, peval (pmul p q) x = peval p x * peval q x.
  Proof.
    induction p as [|c p IH]; intros q x.
    - simpl. ring.
    - cbn [pmul]. rewrite peval_padd, peval_pscale.
      cbn [peval]. rewrite IH. ring.
  Qed.

  Lemma peval_pzero : forall p x, pzero p -> peval p x = 0.
  Proof.
    intros p x HZ. induction HZ as [|c p Hc Hp IH].
    - reflexivity.
    - simpl. rewrite Hc, IH. ring.
  Qed.

  Lemma peval_app : forall p q x,
    peval (p ++ q) x = peval p x + fpow x (length p) * peval q x.
  Proof.
    induction p as [|c p IH]; intros q x.
    - simpl. ring.
    - simpl. rewrite IH. ring.
  Qed.

  (* ---------------------------------------------------------------- *)
  (* pzero facts *)

  Lemma pzero_dec : forall p, {pzero p} + {~ pzero p}.
  Proof.
    intros p. unfold pzero. apply Forall_dec. intros c. apply F_eq_dec.
  Qed.

  Lemma not_pzero_nonempty : forall p, ~ pzero p -> (0 < length p)%nat.
  Proof.
    intros [|c p] HN.
    - exfalso. apply HN. constructor.
    - simpl. lia.
  Qed.

  Lemma Exists_nonzero_not_pzero : forall p,
    Exists (fun t => t <> 0) p -> ~ pzero p.
  Proof.
    intros p HE HZ. unfold pzero in HZ.
    rewrite Forall_forall in HZ. rewrite Exists_exists in HE.
    destruct HE as [t [Hin Hne]]. apply Hne. apply HZ. exact Hin.
  Qed.

  (* ---------------------------------------------------------------- *)
  (* synthetic division by (X - z) *)

  Fixpoint div_linear (p : poly) (z : F) : poly * F :=
    match p with
    | [] => ([], 0)
    | c :: p' =>
        match p' with
        | [] => ([], c)
        | _ :: _ =>
            let (q', r') := div_linear p' z in
            (r' :: q', c + z * r')
        end
    end.

  Lemma div_linear_cons2 : forall c d p' z,
    div_linear (c :: d :: p') z =
    let (q', r') := div_linear (d :: p') z in (r' :: q', c + z * r').
  Proof. reflexivity. Qed.

  Lemma div_linear_spec : forall p z q r, div_linear p z = (q, r) ->
    r = peval p z /\ length q = pred (length p) /\
    forall x, peval p x = (x - z) * peval q x + r.
  Proof.
    induction p as [|c p IH]; intros z q r HD.
    - simpl in HD. inversion HD; subst. simpl.
      split; [reflexivity|]. split; [reflexivity|]. intros x. ring.
    - destruct p as [|d p'].
      + simpl in HD. inversion HD; subst. simpl.
        split; [ring|]. split; [reflexivity|]. intros x. ring.
      + rewrite div_linear_cons2 in HD.
        destruct (div_linear (d :: p') z) as [q' r'] eqn:E.
        inversion HD; subst. clear HD.
        destruct (IH z q' r' E) as [Hr [Hl Hx]].
        split; [|split].
        * cbn [peval]. cbn [peval] in Hr. rewrite <- Hr. ring.
        * cbn [length] in *. rewrite Hl. reflexivity.
        * intros x.
          change (peval (c :: d :: p') x) with (c + x * peval (d :: p') x).
          rewrite Hx. cbn [peval]. ring.
  Qed.

  (* if the quotient is syntactically zero and the remainder is zero, so is p *)
  Lemma div_linear_pzero : forall p z q r, div_linear p z = (q, r) ->
    pzero q -> r = 0 -> pzero p.
  Proof.
    induction p as [|c p IH]; intros z q r HD Hq Hr.
    - constructor.
    - destruct p as [|d p'].
      + simpl in HD. inversion HD; subst. constructor; [reflexivity|constructor].
      + rewrite div_linear_cons2 in HD.
        destruct (div_linear (d :: p') z) as [q' r'] eqn:E.
        injection HD as Hq1 Hr1. rewrite Hr in Hr1. clear Hr.
        rewrite <- Hq1 in Hq. clear Hq1.
        inversion Hq as [|? ? Hr' Hq']. rewrite Hr' in *.
        constructor.
        * rewrite <- Hr1. ring.
        * apply (IH z q' 0 E Hq' eq_refl).
  Qed.

  (* ---------------------------------------------------------------- *)
  (* factor theorem and root bound *)

  Lemma factor_root : forall p z, peval p z = 0 ->
    forall q r, div_linear p z = (q, r) ->
    forall x, peval p x = (x - z) * peval q x.
  Proof.
    intros p z Hz q r HD x.
    destruct (div_linear_spec p z q r HD) as [Hr [_ Hx]].
    rewrite Hx, Hr, Hz. ring.
  Qed.

  Theorem root_bound : forall (p : poly) (roots : list F),
    ~ pzero p -> NoDup roots -> (forall r, In r roots -> peval p r = 0) ->
    (length roots < length p)%nat.
  Proof.
    intros p roots. revert p.
    induction roots as [|r rs IH]; intros p Hnz Hnd Hroots.
    - simpl. apply not_pzero_nonempty. exact Hnz.
    - destruct (div_linear p r) as [q rem] eqn:E.
      destruct (div_linear_spec p r q rem E) as [Hrem [Hlen Hx]].
      assert (Hr0 : peval p r = 0) by (apply Hroots; left; reflexivity).
      assert (Hrem0 : rem = 0) by (rewrite Hrem; exact Hr0).
      assert (Hqnz : ~ pzero q).
      { intros Hq. apply Hnz. eapply div_linear_pzero; eauto. }
      apply NoDup_cons_iff in Hnd. destruct Hnd as [Hnotin Hnd'].
      rewrite Hrem0 in Hx. clear Hrem Hrem0.
      assert (Hqroots : forall x, In x rs -> peval q x = 0).
      { intros x Hin.
        assert (Hpx : peval p x = 0) by (apply Hroots; right; exact Hin).
        rewrite Hx in Hpx.
        assert (Hprod : (x - r) * peval q x = 0).
        { rewrite <- Hpx. ring. }
        apply f_mul_eq_0 in Hprod. destruct Hprod as [Hd|Hd]; [|exact Hd].
        apply (proj1 (f_sub_eq_0 _ _)) in Hd. subst x. contradiction. }
      specialize (IH q Hqnz Hnd' Hqroots).
      simpl. lia.
  Qed.

  Corollary poly_eq_bound : forall (p q : poly) (pts : list F),
    NoDup pts -> (forall x, In x pts -> peval p x = peval q x) ->
    (Nat.max (length p) (length q) <= length pts)%nat ->
    forall x, peval p x = peval q x.
  Proof.
    intros p q pts Hnd Hagree Hlen x.
    set (d := padd p (pscale (- (1)) q)).
    assert (Hd : forall y, peval d y = peval p y - peval q y).
    { intros y. unfold d. rewrite peval_padd, peval_pscale. ring. }
    assert (Hdlen : length d = Nat.max (length p) (length q)).
    { unfold d. rewrite padd_length, pscale_length. reflexivity. }
    destruct (pzero_dec d) as [Hz|Hnz].
    - apply f_sub_eq_0. rewrite <- Hd. apply peval_pzero. exact Hz.
    - exfalso.
      assert (Hlt : (length pts < length d)%nat).
      { apply root_bound; auto.
        intros y Hin. rewrite Hd. apply f_sub_eq_0. apply Hagree. exact Hin. }
      lia.
  Qed.

  (* random linear combination by powers of alpha, as used by plonky2's
     reduce_with_powers:  sum_i terms_i * alpha^i = peval terms alpha *)
  Theorem alpha_combination_bound : forall (terms : list F),
    Exists (fun t => t <> 0) terms ->
    forall (bad : list F), NoDup bad -> (forall a, In a bad -> peval terms a = 0) ->
    (length bad <= length terms - 1)%nat.
  Proof.
    intros terms HE bad Hnd Hbad.
    assert (Hlt : (length bad < length terms)%nat).
    { apply root_bound; auto. apply Exists_nonzero_not_pzero. exact HE. }
    lia.
  Qed.

End Poly.
