(* Machine integers as ranges of Z; the checked monad used by the translated code.
   Plain + - * of the Rust source become checked operations (None on overflow of
   their width: the debug-build panic, and the place where every "cannot overflow"
   comment becomes a proof obligation); wrapping_/overflowing_ operations wrap;
   assume/debug_assert become guards. *)
From Coq Require Import ZArith Bool List Lia.
Open Scope Z_scope.

Definition M (A : Type) := option A.
Definition ret {A} (a : A) : M A := Some a.
Definition bind {A B} (m : M A) (k : A -> M B) : M B :=
  match m with Some a => k a | None => None end.

Definition inU (w z : Z) : bool := (0 <=? z) && (z <? 2 ^ w).
Definition inS (w z : Z) : bool := (- 2 ^ (w - 1) <=? z) && (z <? 2 ^ (w - 1)).
Definition chkU (w z : Z) : M Z := if inU w z then Some z else None.
Definition chkS (w z : Z) : M Z := if inS w z then Some z else None.
Definition wrapU (w z : Z) : Z := z mod 2 ^ w.
Definition wrapS (w z : Z) : Z := (z + 2 ^ (w - 1)) mod 2 ^ w - 2 ^ (w - 1).
Definition b2z (b : bool) : Z := if b then 1 else 0.
Definition ovf_addU (w x y : Z) : Z * bool := (wrapU w (x + y), negb (inU w (x + y))).
Definition ovf_subU (w x y : Z) : Z * bool := (wrapU w (x - y), negb (inU w (x - y))).
Definition ovf_mulU (w x y : Z) : Z * bool := (wrapU w (x * y), negb (inU w (x * y))).
Definition guard (b : bool) : M unit := if b then Some tt else None.
Definition shrZ (x k : Z) : Z := x / 2 ^ k.
Definition shlU (w x k : Z) : Z := wrapU w (x * 2 ^ k).
Definition shlS (w x k : Z) : Z := wrapS w (x * 2 ^ k).
Definition lowbits (k x : Z) : Z := x mod 2 ^ k.

Definition u64 (x : Z) : Prop := 0 <= x < 2 ^ 64.
Definition u32 (x : Z) : Prop := 0 <= x < 2 ^ 32.
Definition u128 (x : Z) : Prop := 0 <= x < 2 ^ 128.
Definition i64 (x : Z) : Prop := - 2 ^ 63 <= x < 2 ^ 63.

Lemma chkU_Some w z : 0 <= z < 2 ^ w -> chkU w z = Some z.
Proof. intros H. unfold chkU, inU.
  destruct (Z.leb_spec 0 z); destruct (Z.ltb_spec z (2 ^ w)); simpl; auto; lia. Qed.
Lemma chkS_Some w z : - 2 ^ (w - 1) <= z < 2 ^ (w - 1) -> chkS w z = Some z.
Proof. intros H. unfold chkS, inS.
  destruct (Z.leb_spec (- 2 ^ (w - 1)) z); destruct (Z.ltb_spec z (2 ^ (w - 1))); simpl; auto; lia. Qed.
Lemma chkU_inv w z r : chkU w z = Some r -> r = z /\ 0 <= z < 2 ^ w.
Proof. unfold chkU, inU. destruct (Z.leb_spec 0 z); destruct (Z.ltb_spec z (2 ^ w)); simpl;
  intros E; inversion E; lia. Qed.
Lemma guard_true b : b = true -> guard b = Some tt.
Proof. intros ->; reflexivity. Qed.

(* ---- stepping lemmas: keep 2^w symbolic; side conditions go to lia *)
Lemma inU_true w z : 0 <= z < 2 ^ w -> inU w z = true.
Proof. intros H. unfold inU.
  destruct (Z.leb_spec 0 z); destruct (Z.ltb_spec z (2 ^ w)); simpl; auto; lia. Qed.
Lemma inU_false w z : z < 0 \/ 2 ^ w <= z -> inU w z = false.
Proof. intros H. unfold inU.
  destruct (Z.leb_spec 0 z); destruct (Z.ltb_spec z (2 ^ w)); simpl; auto; lia. Qed.
Lemma inS_true w z : - 2 ^ (w - 1) <= z < 2 ^ (w - 1) -> inS w z = true.
Proof. intros H. unfold inS.
  destruct (Z.leb_spec (- 2 ^ (w - 1)) z); destruct (Z.ltb_spec z (2 ^ (w - 1))); simpl; auto; lia. Qed.
Lemma bind_chkU {B} w z (k : Z -> M B) : 0 <= z < 2 ^ w -> bind (chkU w z) k = k z.
Proof. intros H. unfold bind. rewrite chkU_Some; auto. Qed.
Lemma bind_chkS {B} w z (k : Z -> M B) : - 2 ^ (w - 1) <= z < 2 ^ (w - 1) -> bind (chkS w z) k = k z.
Proof. intros H. unfold bind. rewrite chkS_Some; auto. Qed.
Lemma bind_guard {B} b (k : unit -> M B) : b = true -> bind (guard b) k = k tt.
Proof. intros ->. reflexivity. Qed.
Lemma bind_ret {A B} (a : A) (k : A -> M B) : bind (ret a) k = k a.
Proof. reflexivity. Qed.
Lemma bind_Some {A B} (a : A) (k : A -> M B) : bind (Some a) k = k a.
Proof. reflexivity. Qed.
Lemma wrapU_small w z : 0 <= z < 2 ^ w -> wrapU w z = z.
Proof. intros. unfold wrapU. apply Z.mod_small; auto. Qed.
Lemma wrapU_over w z : 2 ^ w <= z < 2 * 2 ^ w -> wrapU w z = z - 2 ^ w.
Proof. intros. unfold wrapU. symmetry. apply Z.mod_unique with 1; lia. Qed.
Lemma wrapU_under w z : - 2 ^ w <= z < 0 -> wrapU w z = z + 2 ^ w.
Proof. intros. unfold wrapU. symmetry. apply Z.mod_unique with (-1); lia. Qed.
Lemma wrapU_range w z : 0 <= w -> 0 <= wrapU w z < 2 ^ w.
Proof. intros. unfold wrapU. apply Z.mod_pos_bound. apply Z.pow_pos_nonneg; lia. Qed.
Lemma b2z_true : b2z true = 1. Proof. reflexivity. Qed.
Lemma b2z_false : b2z false = 0. Proof. reflexivity. Qed.
