(* C20 - Conditional and cyclic recursion enforce exactly the selected verification.
   Component theorems; the end-to-end statement is decided per case by harness/src/c20.rs. *)
From Coq Require Import ZArith List Lia Ring.
From Coq Require Import setoid_ring.InitialRing.
From Verif Require Import Model.RecursionParts Proofs.RecursionParts.
Import ListNotations.

(* ---- select ------------------------------------------------------------------------------- *)
(* CircuitBuilder::select computes b*x - (b*y - y); for a boolean b this is `if b then x else y`
   in every commutative ring *)
Theorem C20_select_arith_bool : forall (R : Type) (rO rI : R) (radd rmul rsub : R -> R -> R) (ropp : R -> R),
  ring_theory rO rI radd rmul rsub ropp eq ->
  forall (b : bool) (x y : R), sel_arith rmul rsub (of_bool rO rI b) x y = if b then x else y.
Proof. exact @sel_arith_bool. Qed.

Theorem C20_select_arith_alt : forall (R : Type) (rO rI : R) (radd rmul rsub : R -> R -> R) (ropp : R -> R),
  ring_theory rO rI radd rmul rsub ropp eq ->
  forall b x y : R, sel_arith rmul rsub b x y = radd (rmul b (rsub x y)) y.
Proof. exact @sel_arith_alt. Qed.

(* select_proof_with_pis / select_verifier_data followed by ONE verification V (any function of
   the selected structures): the outcome is that of the selected pair, irrespective of the other *)
Theorem C20_select_then_verify : forall (R : Type) (rO rI : R) (radd rmul rsub : R -> R -> R) (ropp : R -> R),
  ring_theory rO rI radd rmul rsub ropp eq ->
  forall (T : Type) (V : list (list R) -> list (list R) -> T) (b : bool) p0 p1 vd0 vd1,
  same_shape p0 p1 -> same_shape vd0 vd1 ->
  exists sp svd,
    select_struct rmul rsub (of_bool rO rI b) p0 p1 = Some sp /\
    select_struct rmul rsub (of_bool rO rI b) vd0 vd1 = Some svd /\
    V sp svd = if b then V p0 vd0 else V p1 vd1.
Proof. exact @select_then_verify. Qed.

(* shapes must agree: otherwise the builder panics (zip_eq), no circuit is produced *)
Theorem C20_select_shape_mismatch : forall (R : Type) (rmul rsub : R -> R -> R) (b : R) s0 s1,
  ~ same_shape s0 s1 -> select_struct rmul rsub b s0 s1 = None.
Proof. exact @select_struct_shape_mismatch. Qed.

Example C20_ex_select :
  select_struct Z.mul Z.sub 1%Z [[1; 2]; [3]]%Z [[7; 8]; [9]]%Z = Some [[1; 2]; [3]]%Z /\
  select_struct Z.mul Z.sub 0%Z [[1; 2]; [3]]%Z [[7; 8]; [9]]%Z = Some [[7; 8]; [9]]%Z /\
  select_struct Z.mul Z.sub 1%Z [[1; 2]; [3]]%Z [[7; 8]]%Z = None.
Proof. repeat split; reflexivity. Qed.

Example C20_ex_select_then_verify : forall (V : list (list Z) -> list (list Z) -> bool) (b : bool),
  exists sp svd,
    select_struct Z.mul Z.sub (of_bool 0%Z 1%Z b) [[1; 2]; [3]]%Z [[7; 8]; [9]]%Z = Some sp /\
    select_struct Z.mul Z.sub (of_bool 0%Z 1%Z b) [[4]]%Z [[5]]%Z = Some svd /\
    V sp svd = if b then V [[1; 2]; [3]]%Z [[4]]%Z else V [[7; 8]; [9]]%Z [[5]]%Z.
Proof. intros V b. apply (C20_select_then_verify Z 0%Z 1%Z Z.add Z.mul Z.sub Z.opp Zth); reflexivity. Qed.

(* ---- verifier data in the public inputs of a cyclic proof ---------------------------------- *)
(* VerifierOnlyCircuitData::from_slice returns (cap, digest) exactly when the public inputs end
   with digest ++ cap (all cap sizes, any prefix) *)
Theorem C20_from_slice_spec : forall (A : Type) (d : A) cap_len pis cap digest,
  wf_vd cap_len cap digest ->
  (from_slice d cap_len pis = Some (cap, digest) <-> exists pre, pis = pre ++ vd_pis cap digest).
Proof. exact @from_slice_spec. Qed.

(* the layout written by add_verifier_data_public_inputs is the one read back *)
Theorem C20_vd_public_inputs_layout : forall (A : Type) (d : A) cap_len pre cap digest,
  wf_vd cap_len cap digest ->
  from_slice d cap_len (pre ++ vd_pis cap digest) = Some (cap, digest).
Proof. exact @vd_public_inputs_layout. Qed.

(* check_cyclic_proof_verifier_data compares exactly the verifier-data slice *)
Theorem C20_cyclic_vd_check_spec : forall (A : Type) (d : A) (eqb : A -> A -> bool),
  (forall x y, eqb x y = true <-> x = y) ->
  forall cap_len pis cap digest, wf_vd cap_len cap digest ->
  (check_cyclic d eqb cap_len pis cap digest = true <-> exists pre, pis = pre ++ vd_pis cap digest).
Proof. exact @check_cyclic_spec. Qed.

(* ... hence every alteration of an element of that slice is rejected *)
Theorem C20_cyclic_vd_check_rejects_altered : forall (A : Type) (d : A) (eqb : A -> A -> bool),
  (forall x y, eqb x y = true <-> x = y) ->
  forall cap_len pre cap digest pis' i, wf_vd cap_len cap digest ->
  length pis' = length (pre ++ vd_pis cap digest) ->
  length pre <= i ->
  nth i pis' d <> nth i (pre ++ vd_pis cap digest) d ->
  check_cyclic d eqb cap_len pis' cap digest = false.
Proof. exact @check_cyclic_rejects_altered. Qed.

Example C20_ex_from_slice :
  from_slice 0 2 ([100; 101] ++ [1; 2; 3; 4] ++ [5; 6; 7; 8; 9; 10; 11; 12])
  = Some ([[5; 6; 7; 8]; [9; 10; 11; 12]], [1; 2; 3; 4]) /\
  check_cyclic 0 Nat.eqb 2 ([100; 101] ++ [1; 2; 3; 4] ++ [5; 6; 7; 8; 9; 10; 11; 12])
               [[5; 6; 7; 8]; [9; 10; 11; 12]] [1; 2; 3; 4] = true /\
  check_cyclic 0 Nat.eqb 2 ([100; 101] ++ [1; 2; 3; 4] ++ [5; 6; 7; 8; 9; 10; 11; 13])
               [[5; 6; 7; 8]; [9; 10; 11; 12]] [1; 2; 3; 4] = false /\
  from_slice 0 2 [1; 2; 3] = None.
Proof. repeat split; reflexivity. Qed.
