(* C01 - Honest proofs of satisfiable circuits verify and carry the right outputs.
   The end-to-end statement (the builder, generators and prover implement eval_prog and the
   verifier accepts) is decided by the correspondence run of checks/c01.py; this file holds the
   kernel theorems proved on the model. *)
From Coq Require Import ZArith List.
From Verif Require Import Base.Field Model.Fp Model.Prog.
Import ListNotations.

(* the direct evaluation is a function of the program and its inputs only: public outputs are
   determined (there is exactly one candidate for "the right outputs") *)
Theorem C01_eval_prog_deterministic : forall p o1 o2,
  eval_prog p = Some o1 -> eval_prog p = Some o2 -> o1 = o2.
Proof. intros p o1 o2 H1 H2. rewrite H1 in H2. inversion H2. reflexivity. Qed.
