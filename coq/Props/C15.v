(* C15 - Transforms and polynomial algebra agree with their definitions.
   Property theorems only; each is closed by [exact] of a lemma proved in Proofs/.
   Models: Model/BitRev.v (util/src/lib.rs, util/src/transpose_util.rs), Model/FFT.v (field/src/fft.rs,
   FFT-facing part of field/src/polynomial/mod.rs), Model/PolyOps.v (polynomial/mod.rs, division.rs,
   interpolation.rs, zero_poly_coset.rs, cosets.rs); tied to the Rust code by the C15 correspondence
   run.  [None] = the real code panics.

   Generic setting: any field ([FieldLaws]) with the two-adic data of the `Field` trait
   ([TwoAdic]: TWO_ADICITY, POWER_OF_TWO_GENERATOR, inverse_2exp, element size) satisfying
   [TwoAdicLaws]: the generator g is a principal root, i.e.  g^(2^T) = 1 and g^(2^(T-1)) = -1
   ([is_root]), and inverse_2exp(k) * 2^k = 1 for k <= T.  The Goldilocks instance
   [FpTwoAdicLaws] is proved in Proofs/PolyOps.v.  [prou k] = g^(2^(T-k)) is
   `primitive_root_of_unity(k)`.  All theorems are for every size 2^k, k <= TWO_ADICITY.

   The premise (k < 64) says that the length 2^k fits a usize; it is what the in-place bit reversal
   (table / split-index arithmetic on 64-bit words) needs.  [in_place_ok sz k] = "reverse_index_bits_in_place
   on 2^k elements of sz bytes returns the bit-reversal permutation"; it is proved for every element
   size and every k < 64, simple path and chunk / transpose / chunk path: [C15_in_place_ok]. *)
From Coq Require Import NArith ZArith List Lia.
From Verif Require Import Base.Field Base.Poly Model.FieldGeneric Model.BitRev Model.FFT Model.PolyOps
  Model.Fp Model.C15Run Proofs.BitRev Proofs.FFT Proofs.PolyOps Proofs.Interpolant.
Import ListNotations.

(* ------------------------------------------------------------------------------------------ *)
(* a. bit reversal *)

(* BIT_REVERSE_6BIT[i] >> (6 - k) is the k-bit reversal of i (k <= 6, i < 2^k) *)
Theorem C15_bit_reverse_table_correct : forall (k : nat) (i : N), (k <= 6)%nat -> (i < 2 ^ N.of_nat k)%N ->
  exists b, getN BIT_REVERSE_6BIT i = Some b /\ N.shiftr b (6 - N.of_nat k) = bitrev k i.
Proof. exact bit_reverse_table_correct. Qed.

(* plonky2::util::reverse_bits(n, k) on its domain; [bitrev] is the recursive k-bit reversal
   bitrev (S k) x = (x mod 2) * 2^k + bitrev k (x / 2) *)
Theorem C15_reverse_bits_spec : forall (n : N) (k : nat), (k <= 64)%nat -> (n < 2 ^ N.of_nat k)%N ->
  reverse_bits n (N.of_nat k) = Some (bitrev k n).
Proof. exact reverse_bits_spec. Qed.

Theorem C15_bitrev_S : forall k x, bitrev (S k) x = (x mod 2 * 2 ^ N.of_nat k + bitrev k (x / 2))%N.
Proof. exact bitrev_S. Qed.

(* bitrev k is a permutation of [0, 2^k): it maps into the range and is its own inverse *)
Theorem C15_bitrev_lt : forall k x, (bitrev k x < 2 ^ N.of_nat k)%N.
Proof. exact bitrev_lt. Qed.
Theorem C15_bitrev_involutive : forall k x, (x < 2 ^ N.of_nat k)%N -> bitrev k (bitrev k x) = x.
Proof. exact bitrev_involutive. Qed.

(* reverse_index_bits (table path for n_power <= 6, split path above): result[i] = input[bitrev i] *)
Theorem C15_reverse_index_bits_spec : forall (A : Type) (arr : list A) (k : nat),
  (k < 64)%nat -> length arr = (2 ^ k)%nat ->
  exists res, reverse_index_bits arr = Some res /\ length res = length arr /\
              forall i, (i < 2 ^ N.of_nat k)%N -> getN res i = getN arr (bitrev k i).
Proof. exact @reverse_index_bits_spec. Qed.

Theorem C15_reverse_index_bits_involutive : forall (A : Type) (arr res : list A) (k : nat),
  (k < 64)%nat -> length arr = (2 ^ k)%nat -> reverse_index_bits arr = Some res ->
  reverse_index_bits res = Some arr.
Proof. exact @reverse_index_bits_involutive. Qed.

(* a length that is not a power of two panics (log2_strict) *)
Theorem C15_reverse_index_bits_not_pow2 : forall (A : Type) (arr : list A),
  (forall k : nat, length arr <> (2 ^ k)%nat) -> reverse_index_bits arr = None.
Proof. exact @reverse_index_bits_not_pow2. Qed.

(* the in-place variant, simple path (swap loop over the table / split index) *)
Theorem C15_reverse_index_bits_in_place_small_spec : forall (A : Type) (arr : list A) (k : nat),
  (k < 64)%nat -> length arr = (2 ^ k)%nat ->
  exists res, reverse_index_bits_in_place_small arr (N.of_nat k) = Some res /\ length res = length arr /\
              forall i, (i < 2 ^ N.of_nat k)%N -> getN res i = getN arr (bitrev k i).
Proof. exact @reverse_index_bits_in_place_small_spec. Qed.

(* the in-place reversal, both strategies (size_of::<T>() << lb_n <= SMALL_ARR_SIZE or size_of >= BIG_T_SIZE:
   simple path; otherwise chunks -> square transpose(s) -> chunks), for every element size sz *)
Theorem C15_in_place_ok : forall (sz : N) (k : nat) (A : Type) (arr : list A),
  (k < 64)%nat -> length arr = (2 ^ k)%nat ->
  exists res, reverse_index_bits_in_place sz arr = Some res /\ length res = length arr /\
              forall i, (i < 2 ^ N.of_nat k)%N -> getN res i = getN arr (bitrev k i).
Proof. intros sz k A arr Hk. exact (in_place_ok_all sz k Hk A arr). Qed.

Theorem C15_reverse_index_bits_in_place_not_pow2 : forall (A : Type) sz (arr : list A),
  (forall k : nat, length arr <> (2 ^ k)%nat) -> reverse_index_bits_in_place sz arr = None.
Proof. exact @reverse_index_bits_in_place_not_pow2. Qed.

(* f (stretch, proved). The chunked path step by step: every intermediate call succeeds (all indices
   touched by the unsafe swaps are in range) and the composition is the bit-reversal permutation;
   even lb_n: one transpose, odd lb_n: a second transpose on the slice advanced by 2^lb_num_chunks *)
Theorem C15_reverse_in_place_chunked_spec : forall (A : Type) (arr : list A) (k : nat),
  (k < 64)%nat -> length arr = (2 ^ k)%nat ->
  let lb_num_chunks := N.shiftr (N.of_nat k) 1 in
  let lb_chunk_size := (N.of_nat k - lb_num_chunks)%N in
  exists a1 a2 a3 res,
    reverse_index_bits_in_place_chunks arr lb_num_chunks lb_chunk_size = Some a1 /\
    transpose_in_place_square a1 lb_chunk_size lb_num_chunks 0 = Some a2 /\
    (if negb (lb_num_chunks =? lb_chunk_size)%N
     then (lenN a2 <? N.shiftl 1 lb_num_chunks)%N = false /\
          exists t, transpose_in_place_square (skipn (N.to_nat (N.shiftl 1 lb_num_chunks)) a2) lb_chunk_size lb_num_chunks 0 = Some t /\
                    a3 = firstn (N.to_nat (N.shiftl 1 lb_num_chunks)) a2 ++ t
     else a3 = a2) /\
    reverse_index_bits_in_place_chunks a3 lb_num_chunks lb_chunk_size = Some res /\
    length res = length arr /\ forall I, (I < 2 ^ N.of_nat k)%N -> getN res I = getN arr (bitrev k I).
Proof. exact reverse_in_place_chunked_spec. Qed.

(* transpose_in_place_square(arr, lb_stride, lb_size, x): when the square fits
   (x + 2^lb_size <= bnd <= 2^lb_stride and every cell (r, c), r, c < bnd, is an index of arr) the call
   succeeds - every index touched is in range - and exchanges cell (r, c) with (c, r) for all rows and
   columns in [x, x + 2^lb_size), leaving every other position unchanged:
   [transposed]: result[p] = arr[Tr p], Tr p = (p mod S) * S + p / S if (p / S, p mod S) is in the square, else p *)
Theorem C15_transpose_square_spec : forall (A : Type) (lb_stride len bnd : N),
  (bnd <= 2 ^ lb_stride)%N -> (forall r c, (r < bnd)%N -> (c < bnd)%N -> (r * 2 ^ lb_stride + c < len)%N) ->
  forall (arr : list A) (lb_size x : N), (x + 2 ^ lb_size <= bnd)%N -> lenN arr = len ->
  exists res, transpose_in_place_square arr lb_stride lb_size x = Some res /\
    length res = length arr /\
    forall p, (p < lenN arr)%N ->
      getN res p = getN arr (if Rsq x (2 ^ lb_size) (p / 2 ^ lb_stride) (p mod 2 ^ lb_stride)
                             then (p mod 2 ^ lb_stride) * 2 ^ lb_stride + p / 2 ^ lb_stride else p)%N.
Proof. exact @transpose_square_spec. Qed.

(* ------------------------------------------------------------------------------------------ *)
(* b. the FFT *)

(* Cooley-Tukey correctness of the model's butterflies, explicit root hypothesis:
   for ANY w with w^(2^k) = 1 and w^(2^(k-1)) = -1 and any table whose row i holds the powers
   w^(2^(k-1-i) * j), fft_classic returns the evaluations at 1, w, w^2, .. in natural order *)
Theorem C15_fft_classic_spec : forall (F : Type) (FO : FieldOps F) (FL : FieldLaws F) (TA : TwoAdic F)
  (k : nat) (w : F) (table : FftRootTable) (cs : list F),
  (k < 64)%nat ->
  (fpow w (2 ^ k) = fone /\ (forall k', k = S k' -> fpow w (2 ^ k') = fneg fone)) ->
  (forall i, (i < k)%nat -> exists row, nth_error table i = Some row /\ (2 ^ i <= length row)%nat /\
     forall j, (j < 2 ^ i)%nat -> nth j row fzero = fpow w (2 ^ (k - 1 - i) * j)) ->
  length table = k -> length cs = (2 ^ k)%nat ->
  fft_classic cs 0 table = Some (map (fun j => peval cs (fpow w j)) (seq 0 (length cs))).
Proof. exact @fft_classic_spec. Qed.

(* the r-shortcut: when the last n - n/2^r coefficients are zero the copy loop replaces the first r layers *)
Theorem C15_fft_classic_zero_tail : forall (F : Type) (FO : FieldOps F) (FL : FieldLaws F) (TA : TwoAdic F)
  (k r : nat) (w : F) (table : FftRootTable) (cs : list F),
  (k < 64)%nat -> is_root w k -> rows_ok w k table -> length table = k ->
  length cs = (2 ^ k)%nat -> (r <= k)%nat -> (forall i, (2 ^ (k - r) <= i)%nat -> nth i cs fzero = fzero) ->
  fft_classic cs r table = Some (dft w cs).
Proof. exact @fft_classic_zero_tail. Qed.

(* fft(poly) = direct evaluation on the subgroup, natural order *)
Theorem C15_fft_spec : forall (F : Type) (FO : FieldOps F) (FL : FieldLaws F) (TA : TwoAdic F) (TL : TwoAdicLaws F)
  (k : nat) (cs : list F),
  (k <= ta_two_adicity)%nat -> (k < 64)%nat -> length cs = (2 ^ k)%nat ->
  fft cs = map (fun i => peval cs (fpow (prou k) i)) (seq 0 (2 ^ k)).
Proof. exact @fft_spec. Qed.

(* every option combination returns the same values: zero-tail factor r <= k with a zero tail,
   supplied root table of the right shape (in particular the one fft_root_table computes) *)
Theorem C15_fft_with_options_spec : forall (F : Type) (FO : FieldOps F) (FL : FieldLaws F) (TA : TwoAdic F)
  (TL : TwoAdicLaws F) (k : nat) (cs : list F) zf rt,
  (k <= ta_two_adicity)%nat -> (k < 64)%nat -> length cs = (2 ^ k)%nat ->
  zf_ok k zf cs -> rt_ok k rt ->
  fft_with_options cs zf rt = Some (dft (prou k) cs).
Proof. exact @fft_with_options_spec. Qed.

Theorem C15_fft_zero_tail : forall (F : Type) (FO : FieldOps F) (FL : FieldLaws F) (TA : TwoAdic F) (TL : TwoAdicLaws F)
  (k r : nat) (cs : list F),
  (k <= ta_two_adicity)%nat -> (k < 64)%nat -> length cs = (2 ^ k)%nat ->
  (r <= k)%nat -> (forall i, (2 ^ (k - r) <= i)%nat -> nth i cs fzero = fzero) ->
  fft_with_options cs (Some r) None = fft_with_options cs None None.
Proof. exact @fft_zero_tail. Qed.

Theorem C15_root_table_irrelevant : forall (F : Type) (FO : FieldOps F) (FL : FieldLaws F) (TA : TwoAdic F)
  (TL : TwoAdicLaws F) (k : nat) (cs : list F) zf (table : FftRootTable),
  (k <= ta_two_adicity)%nat -> (k < 64)%nat -> length cs = (2 ^ k)%nat -> zf_ok k zf cs ->
  length table = k -> rows_ok (prou k) k table ->
  fft_with_options cs zf (Some table) = fft_with_options cs zf None.
Proof. exact @root_table_irrelevant. Qed.

(* fft_root_table(2^k) is such a table *)
Theorem C15_computed_root_table_ok : forall (F : Type) (FO : FieldOps F) (FL : FieldLaws F) (TA : TwoAdic F)
  (k : nat), (k <= ta_two_adicity)%nat ->
  exists table, fft_root_table (2 ^ N.of_nat k) = Some table /\ length table = k /\ rows_ok (prou k) k table.
Proof. exact @fft_root_table_spec. Qed.

(* a table of any other length (e.g. one computed for a larger size) is a panic, as in the code *)
Theorem C15_root_table_wrong_length : forall (F : Type) (FO : FieldOps F) (TA : TwoAdic F)
  (k : nat) (cs : list F) zf (table : FftRootTable),
  (k < 64)%nat -> length cs = (2 ^ k)%nat -> length table <> k ->
  fft_with_options cs zf (Some table) = None.
Proof. exact @root_table_wrong_length. Qed.

(* ------------------------------------------------------------------------------------------ *)
(* c. inverse, cosets, low-degree extension *)
Theorem C15_ifft_fft : forall (F : Type) (FO : FieldOps F) (FL : FieldLaws F) (TA : TwoAdic F) (TL : TwoAdicLaws F)
  (k : nat) (cs : list F),
  (k <= ta_two_adicity)%nat -> (k < 64)%nat -> length cs = (2 ^ k)%nat ->
  ifft (fft cs) = cs.
Proof. exact @ifft_fft. Qed.

Theorem C15_fft_ifft : forall (F : Type) (FO : FieldOps F) (FL : FieldLaws F) (TA : TwoAdic F) (TL : TwoAdicLaws F)
  (k : nat) (vs : list F),
  (k <= ta_two_adicity)%nat -> (k < 64)%nat -> length vs = (2 ^ k)%nat ->
  fft (ifft vs) = vs.
Proof. exact @fft_ifft. Qed.

(* ifft with any admissible options is the same inverse transform *)
Theorem C15_ifft_with_options_spec : forall (F : Type) (FO : FieldOps F) (FL : FieldLaws F) (TA : TwoAdic F)
  (TL : TwoAdicLaws F) (k : nat) (vs : list F) zf rt,
  (k <= ta_two_adicity)%nat -> (k < 64)%nat -> length vs = (2 ^ k)%nat ->
  zf_ok k zf vs -> rt_ok k rt ->
  ifft_with_options vs zf rt = Some (idft k vs).
Proof. exact @ifft_with_options_spec. Qed.

Theorem C15_coset_fft_spec : forall (F : Type) (FO : FieldOps F) (FL : FieldLaws F) (TA : TwoAdic F)
  (TL : TwoAdicLaws F) (k : nat) (shift : F) (cs : list F),
  (k <= ta_two_adicity)%nat -> (k < 64)%nat -> length cs = (2 ^ k)%nat ->
  coset_fft shift cs = map (fun i => peval cs (fmul shift (fpow (prou k) i))) (seq 0 (2 ^ k)).
Proof. exact @coset_fft_spec. Qed.

Theorem C15_coset_ifft_coset_fft : forall (F : Type) (FO : FieldOps F) (FL : FieldLaws F) (TA : TwoAdic F)
  (TL : TwoAdicLaws F) (k : nat) (shift : F) (cs : list F),
  (k <= ta_two_adicity)%nat -> (k < 64)%nat -> length cs = (2 ^ k)%nat -> shift <> fzero ->
  coset_ifft shift (coset_fft shift cs) = cs.
Proof. exact @coset_ifft_coset_fft. Qed.

(* PolynomialValues::lde: the values on the larger domain are the evaluations of ONE polynomial
   (ifft vs, of length 2^k), and that polynomial takes the given values on the small domain *)
Theorem C15_lde_spec : forall (F : Type) (FO : FieldOps F) (FL : FieldLaws F) (TA : TwoAdic F)
  (TL : TwoAdicLaws F) (k rate_bits : nat) (vs : list F),
  (k + rate_bits <= ta_two_adicity)%nat -> (k < 64)%nat -> (k + rate_bits < 64)%nat ->
  length vs = (2 ^ k)%nat ->
  lde rate_bits vs = map (fun i => peval (ifft vs) (fpow (prou (k + rate_bits)) i)) (seq 0 (2 ^ (k + rate_bits)))
  /\ map (fun i => peval (ifft vs) (fpow (prou k) i)) (seq 0 (2 ^ k)) = vs.
Proof. exact @lde_spec. Qed.

(* ------------------------------------------------------------------------------------------ *)
(* e. polynomial algebra *)
Theorem C15_eval_horner : forall (F : Type) (FO : FieldOps F) (FL : FieldLaws F) (cs : list F) (x : F),
  eval cs x = peval cs x.
Proof. exact @eval_horner. Qed.

(* p = (X - z) q + p(z) *)
Theorem C15_divide_by_linear_spec : forall (F : Type) (FO : FieldOps F) (FL : FieldLaws F) (p : list F) (z : F),
  let q := divide_by_linear p z in
  length q = pred (length p) /\ forall x, peval p x = fadd (fmul (fsub x z) (peval q x)) (peval p z).
Proof. exact @divide_by_linear_spec. Qed.

(* the FFT-based product is the schoolbook product [pmul], zero-padded to next_power_of_two(len a + len b) *)
Theorem C15_mul_spec : forall (F : Type) (FO : FieldOps F) (FL : FieldLaws F) (TA : TwoAdic F) (TL : TwoAdicLaws F)
  (a b : list F),
  let K := log2_ceil_nat (length a + length b) in
  (K <= ta_two_adicity)%nat -> (K < 64)%nat ->
  poly_mul a b = Some (pmul a b ++ repeat fzero (2 ^ K - length (pmul a b))) /\
  forall c, poly_mul a b = Some c -> forall x, peval c x = fmul (peval a x) (peval b x).
Proof. exact @mul_spec. Qed.

Theorem C15_trim_to_len_spec : forall (F : Type) (FO : FieldOps F) (FL : FieldLaws F) (p : list F) (len : nat),
  match trim_to_len p len with
  | inl q => (len <= length p)%nat /\ q = firstn len p /\ length q = len /\
             (forall i, (len <= i)%nat -> nth i p fzero = fzero) /\ forall x, peval q x = peval p x
  | inr _ => (length p < len)%nat \/ exists i, (len <= i < length p)%nat /\ nth i p fzero <> fzero
  end.
Proof. exact @trim_to_len_spec. Qed.

Theorem C15_trimmed_spec : forall (F : Type) (FO : FieldOps F) (FL : FieldLaws F) (p : list F),
  length (trimmed p) = degree_plus_one p /\ forall x, peval (trimmed p) x = peval p x.
Proof. intros F FO FL p. split; [exact (trimmed_length p) | exact (peval_trimmed p)]. Qed.

(* long division: a = q b + r and deg r < deg b for every divisor with a non-zero coefficient *)
Theorem C15_div_rem_long_spec : forall (F : Type) (FO : FieldOps F) (FL : FieldLaws F) (a b : list F),
  degree_plus_one b <> 0%nat ->
  exists q r, div_rem_long_division a b = Some (q, r) /\
              (forall x, peval a x = fadd (fmul (peval q x) (peval b x)) (peval r x)) /\
              (degree_plus_one r < degree_plus_one b)%nat.
Proof. exact @div_rem_long_spec. Qed.

Theorem C15_div_rem_long_zero_divisor : forall (F : Type) (FO : FieldOps F) (FL : FieldLaws F) (a b : list F),
  degree_plus_one a <> 0%nat -> degree_plus_one b = 0%nat -> div_rem_long_division a b = None.
Proof. exact @div_rem_long_zero_divisor. Qed.

(* ------------------------------------------------------------------------------------------ *)
(* f. div_rem (Newton inversion) and inv_mod_xn (stretch, proved on the repaired code).
   History: on the code before /repo commit 119d559 the faithful model REFUTED the defining identity
   (former theorems C15_div_rem_newton_refuted, C15_inv_mod_xn_refuted, C15_inv_mod_xn_panics:
   inv_mod_xn appended the trimmed Newton correction at the wrong offset - wrong inverse or a panic in
   drain(n..) -, and div_rem trimmed rev_q before reversing it, losing low-order zero coefficients of
   the quotient).  Both defects were repaired by that commit; Model/PolyOps.v mirrors the repaired code.
   M bounds the transform sizes that occur (the products go through the FFT). *)

(* inv_mod_xn(p, n), n > 0, p(0) <> 0: the call succeeds and p * a = 1 mod X^n, i.e. the first n
   coefficients of the schoolbook product [pmul p a] are 1, 0, .., 0 (Newton invariant
   a_i * h = 1 mod X^(2^i)); a has n coefficients, or the single coefficient 1/p(0) for constant p *)
Theorem C15_inv_mod_xn_spec : forall (F : Type) (FO : FieldOps F) (FL : FieldLaws F) (TA : TwoAdic F) (TL : TwoAdicLaws F)
  (M : nat), (M <= ta_two_adicity)%nat -> (M < 64)%nat ->
  forall (p : list F) (n : nat), (0 < n)%nat -> nth 0 p fzero <> fzero ->
  let Hm := Nat.max (length p) n in
  (Hm + Hm <= 2 ^ M)%nat -> (2 * 2 ^ log2_ceil_nat Hm <= 2 ^ M)%nat ->
  exists a, inv_mod_xn p n = Some a /\
            length a = (if Nat.eqb (degree_plus_one p) 1 then 1 else n)%nat /\
            forall i, (i < n)%nat -> nth i (pmul p a) fzero = nth i [fone] fzero.
Proof. exact @inv_mod_xn_spec. Qed.

(* div_rem, all five branches including the Newton path: a = q b + r and deg r < deg b *)
Theorem C15_div_rem_spec : forall (F : Type) (FO : FieldOps F) (FL : FieldLaws F) (TA : TwoAdic F) (TL : TwoAdicLaws F)
  (a b : list F), degree_plus_one b <> 0%nat ->
  let M := S (log2_ceil_nat (length a + length b)) in
  (M <= ta_two_adicity)%nat -> (M < 64)%nat ->
  exists q r, div_rem a b = Some (q, r) /\
              (forall x, peval a x = fadd (fmul (peval q x) (peval b x)) (peval r x)) /\
              (degree_plus_one r < degree_plus_one b)%nat.
Proof. exact @div_rem_spec. Qed.

(* ------------------------------------------------------------------------------------------ *)
(* interpolation: partial *)
Theorem C15_eval_with_powers_spec : forall (F : Type) (FO : FieldOps F) (FL : FieldLaws F) (c0 : F) (rest : list F) (x : F),
  eval_with_powers (c0 :: rest) (powers_from x x (length rest)) = Some (peval (c0 :: rest) x).
Proof. exact @eval_with_powers_spec. Qed.

Theorem C15_interpolate2_spec : forall (F : Type) (FO : FieldOps F) (FL : FieldLaws F) (a0 a1 b0 b1 x : F),
  (a0 = b0 -> interpolate2 a0 a1 b0 b1 x = None) /\
  (a0 <> b0 -> exists v, interpolate2 a0 a1 b0 b1 x = Some v /\
                         fmul v (fsub b0 a0) = fadd (fmul a1 (fsub b0 a0)) (fmul (fsub x a0) (fsub b1 a1)) /\
                         (x = a0 -> v = a1) /\ (x = b0 -> v = b1)).
Proof. exact @interpolate2_spec. Qed.

(* interpolate_spec: on a node the stored ordinate is returned (C15_interpolate_on_node_partial: the
   early-return branch); off the nodes the value is sum_i w_i y_i prod_{j<>i} (x - x_j)
   (C15_interpolate_off_node_spec), and the barycentric weights satisfy w_i prod_{j<>i} (x_i - x_j) = 1
   (C15_barycentric_weights_spec) - together: the value of the Lagrange interpolant.
   `interpolant(points)` itself: C15_interpolant_spec below (total, degree bound, passes through
   every point, for every number of points). *)
Theorem C15_interpolate_on_node_partial : forall (F : Type) (FO : FieldOps F) (FL : FieldLaws F)
  (points : list (F * F)) (w : list F) i x_i y_i,
  nth_error points i = Some (x_i, y_i) ->
  (forall j p, (j < i)%nat -> nth_error points j = Some p -> fst p <> x_i) ->
  interpolate points x_i w = Some y_i.
Proof. exact @interpolate_on_node_partial. Qed.

Theorem C15_barycentric_weights_spec : forall (F : Type) (FO : FieldOps F) (FL : FieldLaws F) (points : list (F * F)),
  (forall i j, (i < length points)%nat -> (j < length points)%nat -> i <> j -> px points i <> px points j) ->
  exists w, barycentric_weights points = Some w /\ length w = length points /\
    forall i, (i < length points)%nat ->
      fmul (nth i w fzero) (fproduct (map (fun j => fsub (px points i) (px points j)) (others (length points) i))) = fone.
Proof. exact @barycentric_weights_spec. Qed.

Theorem C15_interpolate_off_node_spec : forall (F : Type) (FO : FieldOps F) (FL : FieldLaws F)
  (points : list (F * F)) (x : F) (w : list F),
  (forall i, (i < length points)%nat -> px points i <> x) -> length w = length points ->
  interpolate points x w =
  Some (fsum_l (map (fun i => fmul (fmul (nth i w fzero) (py points i))
                                   (fproduct (map (fun j => fsub x (px points j)) (others (length points) i))))
                    (seq 0 (length points)))).
Proof. exact @interpolate_off_node_spec. Qed.

(* `interpolate` is, for weights with w_i prod_{j<>i}(x_i - x_j) = 1 (those barycentric_weights returns),
   the evaluation of ONE polynomial of fewer than n coefficients at every x, on the nodes (early
   return) and off them (barycentric formula) *)
Theorem C15_interpolate_is_lagrange_eval : forall (F : Type) (FO : FieldOps F) (FL : FieldLaws F)
  (points : list (F * F)) (w : list F),
  length w = length points ->
  (forall i, (i < length points)%nat ->
     fmul (nth i w fzero) (fproduct (map (fun j => fsub (px points i) (px points j)) (others (length points) i))) = fone) ->
  ((length (lagrange points w) <= length points)%nat) /\
  (forall x, interpolate points x w = Some (peval (lagrange points w) x)).
Proof.
  intros F FO FL points w Hlen Hw. split.
  - apply lagrange_length.
  - now apply interpolate_is_lagrange_eval.
Qed.

(* `interpolant`: for pairwise distinct abscissae and a number of points whose next power of two fits
   the two-adic subgroup (and a usize) the function does not panic, returns at most n coefficients
   (the degree bound, after trim) and the polynomial passes through every point.  Every n >= 0,
   not only powers of two. *)
Theorem C15_interpolant_spec : forall (F : Type) (FO : FieldOps F) (FL : FieldLaws F) (TA : TwoAdic F) (TL : TwoAdicLaws F)
  (points : list (F * F)),
  (forall i j, (i < length points)%nat -> (j < length points)%nat -> i <> j -> px points i <> px points j) ->
  (log2_ceil_nat (length points) <= ta_two_adicity)%nat ->
  (log2_ceil_nat (length points) < 64)%nat ->
  exists c, interpolant points = Some c /\
            (length c <= length points)%nat /\
            forall i, (i < length points)%nat -> peval c (px points i) = py points i.
Proof. exact @interpolant_spec. Qed.

(* ------------------------------------------------------------------------------------------ *)
(* non-vacuity: the Goldilocks field satisfies the hypotheses, and a concrete transform *)
Example C15_Fp_instance : TwoAdicLaws Fp.
Proof. exact FpTwoAdicLaws. Qed.

Example C15_Fp_in_place_small : forall k, (k <= 13)%nat -> in_place_ok (@ta_size_of Fp FpTwoAdic) k.
Proof.
  intros k Hk. apply in_place_ok_small; [lia|]. left.
  change (@ta_size_of Fp FpTwoAdic) with 8%N. rewrite N.shiftl_mul_pow2. unfold SMALL_ARR_SIZE.
  change 65536%N with (8 * 2 ^ 13)%N. apply N.mul_le_mono_l. apply N.pow_le_mono_r; lia.
Qed.

Example C15_fft_example :
  zs (fft (fps [1; 2; 3; 4]%Z)) = [10; 18446181119461163007; 18446744069414584319; 562949953421310]%Z
  /\ zs (ifft (fft (fps [1; 2; 3; 4]%Z))) = [1; 2; 3; 4]%Z
  /\ run_divremlong [4; 0; 1; 0; 1; 1; 0; 1]%Z = Some [2; 0; 1]%Z
  /\ run_divrem [4; 0; 1; 0; 1; 1; 0; 1]%Z = Some [2; 0; 1]%Z
  /\ run_invmodxn [5; 1; 0; 18446744069414584320]%Z = Some [1; 0; 1; 0; 1]%Z.
Proof. vm_compute. repeat split. Qed.
