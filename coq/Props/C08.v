(* C08 - Table lookups are provable exactly for pairs contained in the table.
   Kernel theorems on Model/Lookup.v (lookup_constraints is tied to the implementation's
   check_lookup_constraints by the `lkc` correspondence, compute_lookup_polys by `clp`, checks/c08.py):
     - transition algebra of the partial Sum / LDC (SLDC) polynomials;
     - telescoping over the rows of a table: end value - start value = Sum - LDC, from vanishing
       transition constraints alone;
     - the counting identity of the logarithmic-derivative argument (multiplicities = hit counts);
     - the RE recurrence ends at get_lut_poly's value when the table rows hold the declared table,
       and conversely pins the rows for all but fewer than #slots values of delta (root bound);
     - completeness of compute_lookup_polys for any number of tables (C08_lookup_complete);
     - soundness direction (C08_lookup_sound_partial): if every lookup constraint vanishes on every row
       of H, then for every table the start of the running sum is pinned to zero by InitSre, its end by
       LastLdc, hence the balance equation sum_i m_i/(alpha - t_i) = sum_j 1/(alpha - f_j) holds at
       the challenge alpha over the table's rows, and the RE recurrence over the table rows equals
       get_lut_poly(delta) of the declared table;
     - root-bound step (C08_balance_forces_membership, C08_lookup_sound_membership_partial): the balance
       equation holding at #table slots + #looking slots distinct challenges alpha (not poles) forces
       every looking combination to be the combination of a slot of the table rows, provided
       1, 2, .., #lookups are non-zero in the field (characteristic larger than the number of lookups).
   History: before repo commit bfbd0f1 the initial constraint was `InitSre * z_x_lookup_sldcs[0]`, i.e. it
   pinned the FIRST partial polynomial on the row after the table although the first table row's
   transition starts from the LAST one; with more than one partial polynomial the start value of the sum
   was free and forged proofs verified (found by the C08/C02 harness strategy `sldc-shift`; this file then
   contained C08_lookup_sound_refuted). The model mirrors the fixed code; the forged instance is kept below
   as a regression Example (C08_forged_instance_now_rejected).
   _partial / NOT proved: the step from "every looking combination (for one challenge a) is a table-row
   combination, and the table rows' RE value matches the declared table" to "every looked (input, output) pair
   is an entry of the declared table" needs the same root-bound argument over the challenges a, b, delta
   (C08_combo_pair_unique and C08_re_forces_table are the algebraic pieces) and the protocol-level argument
   that one committed wire assignment must work for random challenges (Fiat-Shamir / FRI), which is not
   formalised; that add_all_lookups / set_lookup_wires / the generators produce the layout and wires assumed
   by C08_lookup_complete is exercised by the C08 corpus on the implementation, not proved. *)
From Coq Require Import List Arith ZArith Bool Lia.
From Verif Require Import Base.Field Base.Poly Model.Fp Proofs.FpFieldPrime Model.Permutation Proofs.Permutation
                          Model.Lookup Proofs.Lookup.
Import ListNotations.
Local Open Scope field_scope.

(* with non-zero factors alpha - t_i the Sum transition constraint of a chunk r of slots vanishes iff
   z - prev = sum_i m_i / (alpha - t_i) *)
Theorem C08_sum_transition_algebra :
  forall (F : Type) (H : FieldOps F) (FL : FieldLaws F) (alpha a : F) (w : list F) (r : list nat),
    NoDup r -> forall z prev : F,
    (forall j, In j r -> alpha - looked_combo a w j <> 0) ->
    (sum_transition alpha a w r z prev = 0 <->
     z - prev = fsum (map (fun i => multiplicity w i * finv (alpha - looked_combo a w i)) r)).
Proof. exact @sum_transition_algebra. Qed.

(* ... and the LDC transition constraint iff z - prev = - sum_j 1 / (alpha - f_j) *)
Theorem C08_ldc_transition_algebra :
  forall (F : Type) (H : FieldOps F) (FL : FieldLaws F) (alpha a : F) (w : list F) (r : list nat),
    NoDup r -> forall z prev : F,
    (forall j, In j r -> alpha - looking_combo a w j <> 0) ->
    (ldc_transition alpha a w r z prev = 0 <->
     z - prev = - fsum (map (fun i => finv (alpha - looking_combo a w i)) r)).
Proof. exact @ldc_transition_algebra. Qed.

(* S k r: value of partial SLDC polynomial k (k < npl) on row r; prevS: the value a transition starts from
   (previous partial polynomial of the row, or the last one of the next row).  If all transition constraints
   of the table rows [last_lut, first_lut] and looking rows [last_lu, last_lut) vanish, then
   S_last(last_lu) - S_last(first_lut + 1) = Sum - LDC. Nothing is assumed about the start value. *)
Theorem C08_sldc_chain_sound :
  forall (F : Type) (H : FieldOps F) (FL : FieldLaws F) (num_routed qdf npl : nat) (ch : challenges) (g : region)
         (W : nat -> list F) (S0 : nat -> nat -> F),
    (1 <= npl)%nat ->
    (num_routed / 3 <= npl * div_ceil (num_routed / 3) npl)%nat ->
    (num_routed / 2 <= npl * (qdf - 1))%nat ->
    (last_lu g < last_lut g)%nat /\ (last_lut g <= first_lut g)%nat ->
    (forall r, In r (lut_rows g) ->
       lut_factors_ok num_routed ch W r /\
       forall k, (k < npl)%nat ->
         sum_transition (ch_alpha ch) (ch_a ch) (W r) (slot_range k (div_ceil (num_routed / 3) npl) (num_routed / 3))
                        (S0 k r) (prevS npl S0 k r) = 0) ->
    (forall r, In r (lu_rows g) ->
       lu_factors_ok num_routed ch W r /\
       forall k, (k < npl)%nat ->
         ldc_transition (ch_alpha ch) (ch_a ch) (W r) (slot_range k (qdf - 1) (num_routed / 2))
                        (S0 k r) (prevS npl S0 k r) = 0) ->
    S0 (npl - 1)%nat (last_lu g) - S0 (npl - 1)%nat (first_lut g + 1)%nat =
    fsum (map (fun r => fsum (map (sum_term ch W r) (seq 0 (num_routed / 3)))) (lut_rows g))
    - fsum (map (fun r => fsum (map (ldc_term ch W r) (seq 0 (num_routed / 2)))) (lu_rows g)).
Proof. exact @sldc_chain_sound. Qed.

(* table values ts, hit list es (the table index of every looking value), multiplicity of index e = number of
   hits: sum_e m_e * g(t_e) = sum_j g(f_j) for every g, in particular g(v) = 1 / (alpha - v) *)
Theorem C08_logup_balance :
  forall (F : Type) (H : FieldOps F) (FL : FieldLaws F) (ts : list F) (es : list nat) (gf : F -> F),
    (forall e, In e es -> (e < length ts)%nat) ->
    fsum (map (fun e => fofnat (count_occ Nat.eq_dec es e) * gf (nth e ts 0)) (seq 0 (length ts))) =
    fsum (map gf (map (fun e => nth e ts 0) es)).
Proof. exact @logup_balance. Qed.

(* the value the verifier compares RE with is the RE recurrence run from 0 over the padded table *)
Theorem C08_lut_poly_eval_spec :
  forall (F : Type) (H : FieldOps F) (FL : FieldLaws F) (tab : list (F * F)) (ch : challenges) (nlut : nat),
    tab <> [] -> (1 <= nlut)%nat ->
    lut_poly_eval tab ch nlut = Some (re_fold (ch_delta ch) 0 (padded_combos tab (ch_b ch) nlut)).
Proof. exact @lut_poly_eval_spec. Qed.

(* deterministic direction of "RE forces the table": agreement for |cs| distinct deltas forces the slot values *)
Theorem C08_re_forces_table :
  forall (F : Type) (H : FieldOps F) (FL : FieldLaws F) (cs cs' deltas : list F),
    length cs' = length cs -> NoDup deltas -> (length cs <= length deltas)%nat ->
    (forall d, In d deltas -> re_fold d 0 cs' = re_fold d 0 cs) -> cs' = cs.
Proof. exact @re_forces_table. Qed.

Theorem C08_combo_pair_unique :
  forall (F : Type) (H : FieldOps F) (FL : FieldLaws F) (i o i' o' b b' : F),
    b <> b' -> i + b * o = i' + b * o' -> i + b' * o = i' + b' * o' -> i = i' /\ o = o'.
Proof. exact @combo_pair_unique. Qed.

(* Completeness, any number of tables. [compute_lookup_polys] is the model of the prover's function (arrays over
   all n rows, one pass per table); W r are the wires of row r. Layout as produced by add_all_lookups: every table has
   looking rows [last_lu, last_lut) and table rows [last_lut, first_lut] (region_ok), and the row ranges extended by
   the row after the table are pairwise disjoint (separated). For every table: its rows hold the declared table padded
   with its first entry; every looking pair is a slot of its table rows and the multiplicity wires are the hit counts.
   Then every table's running sum ends at zero and every constraint returned by [lookup_constraints] (the model of
   check_lookup_constraints) vanishes on every row of H, the row after the last wrapping around to row 0. *)
Theorem C08_lookup_complete :
  forall (F : Type) (H : FieldOps F) (FL : FieldLaws F) (n num_routed qdf : nat) (tabs : list (list (F * F)))
         (ch : challenges) (regions : list region) (gd : region) (W : nat -> list F) (P : list (list F)),
    compute_lookup_polys n num_routed qdf W ch regions = Some P ->
    ForallOrdPairs separated regions -> Forall region_ok regions ->
    length tabs = length regions -> (forall t, In t tabs -> t <> []) ->
    (1 <= num_routed / 3)%nat ->
    (forall r, (num_routed <= length (W r))%nat) ->
    (forall i, (i < length regions)%nat ->
       table_rows_hold_table num_routed (nth i tabs []) (nth i regions gd) W /\
       multiplicities_are_counts num_routed ch (nth i regions gd) W) ->
    (forall g, In g regions -> getv P (div_ceil (num_routed / 2) (qdf - 1)) (last_lu g) = 0) /\
    forall r, (r < n)%nat ->
      exists cs,
        lookup_constraints num_routed qdf tabs ch (W r) (zs_of num_routed qdf P r)
                           (zs_of num_routed qdf P ((r + 1) mod n)) (lookup_selectors_at regions r) = Some cs /\
        all_zero cs.
Proof. exact @lookup_complete_all. Qed.

(* Soundness direction, deterministic part. RE r and S k r are arbitrary values (the openings of the RE polynomial and
   of partial SLDC polynomial k on row r); zs_at npl RE S r = RE r :: [S 0 r; ..; S (npl-1) r]. If every constraint
   returned by [lookup_constraints] vanishes on every row of H (next row cyclic), then for the i-th table (region g):
   InitSre pins the start of the running sum, LastLdc its end, the balance equation of the logarithmic-derivative
   argument holds at alpha over the slots of the table rows (value t, multiplicity m) and the looking slots (value f),
   and the RE recurrence over the table rows equals the value demanded from the declared table.
   _partial: this is the consequence at ONE challenge tuple; see the file header for what is missing. *)
Theorem C08_lookup_sound_partial :
  forall (F : Type) (H : FieldOps F) (FL : FieldLaws F) (num_routed qdf npl : nat) (tabs : list (list (F * F)))
         (ch : challenges) (regions : list region) (gd : region) (W : nat -> list F) (RE : nat -> F) (S : nat -> nat -> F)
         (n i : nat),
    let g := nth i regions gd in
    (1 <= npl)%nat -> (1 <= qdf)%nat -> (1 <= num_routed / 3)%nat ->
    length tabs = length regions -> (forall t, In t tabs -> t <> []) -> (forall r, (num_routed <= length (W r))%nat) ->
    (forall r, (r < n)%nat ->
       exists cs, lookup_constraints num_routed qdf tabs ch (W r) (zs_at npl RE S r) (zs_at npl RE S ((r + 1) mod n))
                                     (lookup_selectors_at regions r) = Some cs /\ all_zero cs) ->
    (i < length regions)%nat -> (last_lu g < last_lut g)%nat /\ (last_lut g <= first_lut g)%nat -> (first_lut g + 1 < n)%nat ->
    (num_routed / 3 <= npl * div_ceil (num_routed / 3) npl)%nat -> (num_routed / 2 <= npl * (qdf - 1))%nat ->
    (forall r, In r (lut_rows g) -> lut_factors_ok num_routed ch W r) ->
    (forall r, In r (lu_rows g) -> lu_factors_ok num_routed ch W r) ->
    S (npl - 1)%nat (first_lut g + 1)%nat = 0 /\ S (npl - 1)%nat (last_lu g) = 0 /\
    fsum (map (fun tm : F * F => snd tm * finv (ch_alpha ch - fst tm)) (looked_flat num_routed ch g W)) =
    fsum (map (fun f => finv (ch_alpha ch - f)) (looking_flat num_routed ch g W)) /\
    re_fold (ch_delta ch) 0 (flat_map (fun r => map (looked_combo (ch_b ch) (W r)) (seq 0 (num_routed / 3))) (rev (lut_rows g))) =
    end_value num_routed (nth i tabs []) ch.
Proof. exact @lookup_sound. Qed.

(* distinct poles: sum_v c(v)/(X - v) vanishing at |poles| points that are not poles forces every c(v) = 0 *)
Theorem C08_poles_vanish :
  forall (F : Type) (H : FieldOps F) (FL : FieldLaws F) (c : F -> F) (vs alphas : list F),
    NoDup vs -> NoDup alphas -> (length vs <= length alphas)%nat ->
    (forall a, In a alphas -> (forall u, In u vs -> a <> u) /\ fsum (map (fun v => c v * finv (a - v)) vs) = 0) ->
    forall v, In v vs -> c v = 0.
Proof. exact @poles_vanish. Qed.

(* root-bound step of the argument: table slots (value, multiplicity) tms, looking values fs; multiplicities are
   arbitrary field elements. If the balance equation holds at |tms| + |fs| distinct non-pole alphas and 1..|fs| are
   non-zero in the field, every looking value is the value of a table slot. *)
Theorem C08_balance_forces_membership :
  forall (F : Type) (H : FieldOps F) (FL : FieldLaws F) (tms : list (F * F)) (fs alphas : list F),
    (forall k, (1 <= k <= length fs)%nat -> fofnat k <> 0) ->
    NoDup alphas -> (length tms + length fs <= length alphas)%nat ->
    (forall a, In a alphas ->
       (forall tm, In tm tms -> a <> fst tm) /\ (forall f, In f fs -> a <> f) /\
       fsum (map (fun tm => snd tm * finv (a - fst tm)) tms) = fsum (map (fun f => finv (a - f)) fs)) ->
    forall f, In f fs -> exists m, In (f, m) tms.
Proof. exact @balance_forces_membership. Qed.

(* composition of the two: the wires W and the challenges a, b, delta fixed, alpha ranging over enough values for each of
   which SOME openings RE, S make every lookup constraint of every row vanish: every looking combination of the i-th
   table is the combination of a slot of its table rows.
   _partial: combinations (for the one challenge a), not yet (input, output) pairs of the declared table. *)
Theorem C08_lookup_sound_membership_partial :
  forall (F : Type) (H : FieldOps F) (FL : FieldLaws F) (num_routed qdf npl : nat) (tabs : list (list (F * F))) (a b d : F)
         (regions : list region) (gd : region) (W : nat -> list F) (n i : nat) (alphas : list F),
    let g := nth i regions gd in
    (1 <= npl)%nat -> (1 <= qdf)%nat -> (1 <= num_routed / 3)%nat ->
    length tabs = length regions -> (forall t, In t tabs -> t <> []) -> (forall r, (num_routed <= length (W r))%nat) ->
    (i < length regions)%nat -> (last_lu g < last_lut g)%nat /\ (last_lut g <= first_lut g)%nat -> (first_lut g + 1 < n)%nat ->
    (num_routed / 3 <= npl * div_ceil (num_routed / 3) npl)%nat -> (num_routed / 2 <= npl * (qdf - 1))%nat ->
    (forall k, (1 <= k <= length (looking_slots num_routed a b d regions gd W i))%nat -> fofnat k <> 0) ->
    NoDup alphas ->
    (length (table_slots num_routed a b d regions gd W i) + length (looking_slots num_routed a b d regions gd W i) <= length alphas)%nat ->
    (forall alpha, In alpha alphas ->
       (forall r, In r (lut_rows g) -> lut_factors_ok num_routed (ch_with a b d alpha) W r) /\
       (forall r, In r (lu_rows g) -> lu_factors_ok num_routed (ch_with a b d alpha) W r) /\
       exists (RE : nat -> F) (S : nat -> nat -> F),
         forall r, (r < n)%nat ->
           exists cs, lookup_constraints num_routed qdf tabs (ch_with a b d alpha) (W r) (zs_at npl RE S r)
                                         (zs_at npl RE S ((r + 1) mod n)) (lookup_selectors_at regions r) = Some cs /\
                      all_zero cs) ->
    forall f, In f (looking_slots num_routed a b d regions gd W i) ->
      exists m, In (f, m) (table_slots num_routed a b d regions gd W i).
Proof. exact @sound_membership. Qed.

(* ---------------------------------------------------------------- a concrete table: 12 routed wires (6 looking
   slots, 4 table slots per row), quotient degree factor 3 (3 partial SLDC polynomials), rows: 0 looking,
   1 table, 2 the zero row after the table, 3 unused *)
Definition ex_tab : list (Fp * Fp) := [(toFp 1, toFp 10); (toFp 2, toFp 20)].
Definition ex_ch : @challenges Fp := {| ch_a := toFp 3; ch_b := toFp 5; ch_alpha := toFp 1000003; ch_delta := toFp 7 |}.
Definition ex_g : region := {| last_lu := 0; last_lut := 1; first_lut := 1 |}.
Definition fz (l : list Z) : list Fp := map toFp l.
(* looking pairs (2, out) and five padding pairs (1,10); multiplicities 5 for (1,10) and 1 for (2,20) *)
Definition ex_W (out : Z) (r : nat) : list Fp :=
  match r with
  | O => fz [2; out; 1; 10; 1; 10; 1; 10; 1; 10; 1; 10]%Z
  | S O => fz [1; 10; 5; 2; 20; 1; 1; 10; 0; 1; 10; 0]%Z
  | _ => fz [0; 0; 0; 0; 0; 0; 0; 0; 0; 0; 0; 0]%Z
  end.

Definition ex_rows_zero (W : nat -> list Fp) (P : list (list Fp)) : bool :=
  forallb (fun r => match lookup_constraints 12 3 [ex_tab] ex_ch (W r) (zs_of 12 3 P r) (zs_of 12 3 P ((r + 1) mod 4))
                                             (lookup_selectors_at [ex_g] r) with
                    | Some cs => forallb (fun c => (fval c =? 0)%Z) cs
                    | None => false
                    end) (seq 0 4).

Local Lemma ex_rows_zero_spec W P :
  ex_rows_zero W P = true ->
  forall r, (r < 4)%nat ->
    exists cs, lookup_constraints 12 3 [ex_tab] ex_ch (W r) (zs_of 12 3 P r) (zs_of 12 3 P ((r + 1) mod 4))
                                  (lookup_selectors_at [ex_g] r) = Some cs /\ all_zero cs.
Proof.
  intros Hz r Hr. unfold ex_rows_zero in Hz. rewrite forallb_forall in Hz.
  specialize (Hz r ltac:(apply in_seq; lia)).
  destruct (lookup_constraints 12 3 [ex_tab] ex_ch (W r) (zs_of 12 3 P r) (zs_of 12 3 P ((r + 1) mod 4))
                               (lookup_selectors_at [ex_g] r)) as [cs|]; [|discriminate].
  exists cs. split; [reflexivity|]. rewrite forallb_forall in Hz. apply Forall_forall. intros c Hc.
  apply Fp_ext. apply Z.eqb_eq. apply Hz. exact Hc.
Qed.

(* the polynomials an adversarial prover commits to: the honest computation, shifted by its end value *)
Definition ex_bad_polys : list (list Fp) :=
  match compute_lookup_polys 4 12 3 (ex_W 999) ex_ch [ex_g] with
  | Some P => sldc_shifted 3 ex_g P
  | None => []
  end.

(* Regression for the defect fixed in repo commit bfbd0f1: the forged assignment (looking pair (2, 999) against the
   table {(1,10),(2,20)}, running sums shifted so that they end at zero, hence a non-zero start value of partial
   polynomial 3 on row 2) no longer satisfies the lookup constraints: the InitSre constraint of row 2 (second entry of
   the constraint list) is non-zero. Under the old constraint `InitSre * z_x_lookup_sldcs[0]` every row vanished. *)
Example C08_forged_instance_now_rejected :
  (wire (ex_W 999 0%nat) 0, wire (ex_W 999 0%nat) 1) = (toFp 2, toFp 999) /\
  ~ In (toFp 2, toFp 999) ex_tab /\
  fval (getv ex_bad_polys 3 2) <> 0%Z /\
  ex_rows_zero (ex_W 999) ex_bad_polys = false /\
  option_map (fun cs : list Fp => negb (fval (nth 1 cs (toFp 0)) =? 0)%Z)
             (lookup_constraints 12 3 [ex_tab] ex_ch (ex_W 999 2%nat) (zs_of 12 3 ex_bad_polys 2) (zs_of 12 3 ex_bad_polys 3)
                                 (lookup_selectors_at [ex_g] 2)) = Some true.
Proof.
  split; [reflexivity|]. split; [|split; [|split]].
  - cbn. intros [E|[E|[]]]; apply (f_equal (fun p => fval (snd p))) in E; vm_compute in E; discriminate.
  - vm_compute. discriminate.
  - vm_compute. reflexivity.
  - vm_compute. reflexivity.
Qed.

(* the honest assignment (pair (2, 20)): hypotheses of C08_lookup_complete are satisfiable, and the honest polynomials
   satisfy all rows *)
Local Lemma map_fval_inj (l l' : list Fp) : map fval l = map fval l' -> l = l'.
Proof.
  revert l'. induction l as [|a l IH]; intros [|b l'] E; try discriminate; [reflexivity|].
  cbn [map] in E. injection E as E1 E2. f_equal; [apply Fp_ext; exact E1|apply IH; exact E2].
Qed.

Example C08_lookup_complete_example :
  (exists P, compute_lookup_polys 4 12 3 (ex_W 20) ex_ch [ex_g] = Some P /\ ex_rows_zero (ex_W 20) P = true) /\
  ForallOrdPairs separated [ex_g] /\ Forall region_ok [ex_g] /\
  table_rows_hold_table 12 ex_tab ex_g (ex_W 20) /\
  multiplicities_are_counts 12 ex_ch ex_g (ex_W 20).
Proof.
  split; [|split; [repeat constructor|split; [repeat constructor; cbn; lia|split]]].
  - assert (G : option_map (ex_rows_zero (ex_W 20)) (compute_lookup_polys 4 12 3 (ex_W 20) ex_ch [ex_g]) = Some true)
      by (vm_compute; reflexivity).
    destruct (compute_lookup_polys 4 12 3 (ex_W 20) ex_ch [ex_g]) as [P|]; [|discriminate].
    exists P. split; [reflexivity|]. cbn [option_map] in G. injection G as G. exact G.
  - reflexivity.
  - exists [1; 0; 0; 0; 0; 0]%nat. split; [|split].
    + intros e He. cbn in He. cbn. intuition lia.
    + reflexivity.
    + apply map_fval_inj. vm_compute. reflexivity.
Qed.

(* the transition algebra on concrete values: one slot, alpha - t = 2, multiplicity 3: z - prev = 3/2 *)
Example C08_sum_transition_example :
  let w := fz [5; 0; 3]%Z in
  toFp 7 - looked_combo (toFp 1) w 0 <> 0 /\
  fval (sum_transition (toFp 7) (toFp 1) w [0%nat] (toFp 3 * finv (toFp 2)) (toFp 0)) = 0%Z.
Proof.
  split; [intros E; apply (f_equal fval) in E; vm_compute in E; discriminate|vm_compute; reflexivity].
Qed.
