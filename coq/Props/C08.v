(* C08 - Table lookups are provable exactly for pairs contained in the table.
   Kernel theorems on Model/Lookup.v (lookup_constraints is tied to the implementation's
   check_lookup_constraints by the `lkc` correspondence of checks/c08.py):
     - transition algebra of the partial Sum / LDC (SLDC) polynomials;
     - telescoping over the rows of a table: end value - start value = Sum - LDC, from vanishing
       transition constraints alone (soundness direction);
     - the counting identity of the logarithmic-derivative argument (multiplicities = hit counts);
     - the RE recurrence ends at get_lut_poly's value when the table rows hold the declared table,
       and conversely pins the rows for all but fewer than #slots values of delta (root bound);
     - completeness of compute_lookup_polys for a circuit with one table: every lookup constraint
       of every row of H is zero and the running sum ends at zero.
   REFUTED on the faithful model (and on the implementation, see checks/c08.py c08replay): soundness
   of the running sum. The initial constraint `InitSre * z_x_lookup_sldcs[0]` pins the FIRST partial
   polynomial on the row after the table, but the transition of the first table row starts from the
   LAST partial polynomial of that row (`z_gx_lookup_sldcs[num_sldc_polys - 1]`). With more than one
   partial polynomial the start value of the sum is free, so any imbalance (a looked pair outside the
   table, a wrong multiplicity) can be absorbed: C08_lookup_sound_refuted exhibits an assignment with
   the looking pair (2, 999) against the table {(1,10),(2,20)} for which every lookup constraint of
   every row vanishes.
   NOT proved: lookup_sound (false as the code stands, see above); that the builder's add_all_lookups produces the
   layout assumed by C08_lookup_complete and that set_lookup_wires / the generators produce the assumed wires
   (exercised by the C08 corpus on the implementation). *)
From Coq Require Import List Arith ZArith Bool Lia.
From Verif Require Import Base.Field Base.Poly Model.Fp Proofs.FpFieldPrime Model.Permutation Proofs.Permutation
                          Model.Lookup Proofs.Lookup.
Import ListNotations.
Local Open Scope field_scope.

(* with non-zero factors alpha - t_i the Sum transition constraint of a chunk r of slots vanishes iff
   z - prev = sum_i m_i / (alpha - t_i) *)
Theorem C08_sum_transition_algebra :
  forall (F : Type) (H : FieldOps F) (FL : FieldLaws F) (alpha a : F) (w : list F) (r : list nat),
    NoDup r -> forall z prev : F,
    (forall j, In j r -> alpha - looked_combo a w j <> 0) ->
    (sum_transition alpha a w r z prev = 0 <->
     z - prev = fsum (map (fun i => multiplicity w i * finv (alpha - looked_combo a w i)) r)).
Proof. exact @sum_transition_algebra. Qed.

(* ... and the LDC transition constraint iff z - prev = - sum_j 1 / (alpha - f_j) *)
Theorem C08_ldc_transition_algebra :
  forall (F : Type) (H : FieldOps F) (FL : FieldLaws F) (alpha a : F) (w : list F) (r : list nat),
    NoDup r -> forall z prev : F,
    (forall j, In j r -> alpha - looking_combo a w j <> 0) ->
    (ldc_transition alpha a w r z prev = 0 <->
     z - prev = - fsum (map (fun i => finv (alpha - looking_combo a w i)) r)).
Proof. exact @ldc_transition_algebra. Qed.

(* S k r: value of partial SLDC polynomial k (k < npl) on row r; prevS: the value a transition starts from
   (previous partial polynomial of the row, or the last one of the next row).  If all transition constraints
   of the table rows [last_lut, first_lut] and looking rows [last_lu, last_lut) vanish, then
   S_last(last_lu) - S_last(first_lut + 1) = Sum - LDC. Nothing is assumed about the start value. *)
Theorem C08_sldc_chain_sound :
  forall (F : Type) (H : FieldOps F) (FL : FieldLaws F) (num_routed qdf npl : nat) (ch : challenges) (g : region)
         (W : nat -> list F) (S0 : nat -> nat -> F),
    (1 <= npl)%nat ->
    (num_routed / 3 <= npl * div_ceil (num_routed / 3) npl)%nat ->
    (num_routed / 2 <= npl * (qdf - 1))%nat ->
    (last_lu g < last_lut g)%nat /\ (last_lut g <= first_lut g)%nat ->
    (forall r, In r (lut_rows g) ->
       lut_factors_ok num_routed ch W r /\
       forall k, (k < npl)%nat ->
         sum_transition (ch_alpha ch) (ch_a ch) (W r) (slot_range k (div_ceil (num_routed / 3) npl) (num_routed / 3))
                        (S0 k r) (prevS npl S0 k r) = 0) ->
    (forall r, In r (lu_rows g) ->
       lu_factors_ok num_routed ch W r /\
       forall k, (k < npl)%nat ->
         ldc_transition (ch_alpha ch) (ch_a ch) (W r) (slot_range k (qdf - 1) (num_routed / 2))
                        (S0 k r) (prevS npl S0 k r) = 0) ->
    S0 (npl - 1)%nat (last_lu g) - S0 (npl - 1)%nat (first_lut g + 1)%nat =
    fsum (map (fun r => fsum (map (sum_term ch W r) (seq 0 (num_routed / 3)))) (lut_rows g))
    - fsum (map (fun r => fsum (map (ldc_term ch W r) (seq 0 (num_routed / 2)))) (lu_rows g)).
Proof. exact @sldc_chain_sound. Qed.

(* table values ts, hit list es (the table index of every looking value), multiplicity of index e = number of
   hits: sum_e m_e * g(t_e) = sum_j g(f_j) for every g, in particular g(v) = 1 / (alpha - v) *)
Theorem C08_logup_balance :
  forall (F : Type) (H : FieldOps F) (FL : FieldLaws F) (ts : list F) (es : list nat) (gf : F -> F),
    (forall e, In e es -> (e < length ts)%nat) ->
    fsum (map (fun e => fofnat (count_occ Nat.eq_dec es e) * gf (nth e ts 0)) (seq 0 (length ts))) =
    fsum (map gf (map (fun e => nth e ts 0) es)).
Proof. exact @logup_balance. Qed.

(* the value the verifier compares RE with is the RE recurrence run from 0 over the padded table *)
Theorem C08_lut_poly_eval_spec :
  forall (F : Type) (H : FieldOps F) (FL : FieldLaws F) (tab : list (F * F)) (ch : challenges) (nlut : nat),
    tab <> [] -> (1 <= nlut)%nat ->
    lut_poly_eval tab ch nlut = Some (re_fold (ch_delta ch) 0 (padded_combos tab (ch_b ch) nlut)).
Proof. exact @lut_poly_eval_spec. Qed.

(* deterministic direction of "RE forces the table": agreement for |cs| distinct deltas forces the slot values *)
Theorem C08_re_forces_table :
  forall (F : Type) (H : FieldOps F) (FL : FieldLaws F) (cs cs' deltas : list F),
    length cs' = length cs -> NoDup deltas -> (length cs <= length deltas)%nat ->
    (forall d, In d deltas -> re_fold d 0 cs' = re_fold d 0 cs) -> cs' = cs.
Proof. exact @re_forces_table. Qed.

Theorem C08_combo_pair_unique :
  forall (F : Type) (H : FieldOps F) (FL : FieldLaws F) (i o i' o' b b' : F),
    b <> b' -> i + b * o = i' + b * o' -> i + b' * o = i' + b' * o' -> i = i' /\ o = o'.
Proof. exact @combo_pair_unique. Qed.

(* Completeness, any number of tables. [compute_lookup_polys] is the model of the prover's function (arrays over
   all n rows, one pass per table); W r are the wires of row r. Layout as produced by add_all_lookups: every table has
   looking rows [last_lu, last_lut) and table rows [last_lut, first_lut] (region_ok), and the row ranges extended by
   the row after the table are pairwise disjoint (separated). For every table: its rows hold the declared table padded
   with its first entry; every looking pair is a slot of its table rows and the multiplicity wires are the hit counts.
   Then every table's running sum ends at zero and every constraint returned by [lookup_constraints] (the model of
   check_lookup_constraints) vanishes on every row of H, the row after the last wrapping around to row 0. *)
Theorem C08_lookup_complete :
  forall (F : Type) (H : FieldOps F) (FL : FieldLaws F) (n num_routed qdf : nat) (tabs : list (list (F * F)))
         (ch : challenges) (regions : list region) (gd : region) (W : nat -> list F) (P : list (list F)),
    compute_lookup_polys n num_routed qdf W ch regions = Some P ->
    ForallOrdPairs separated regions -> Forall region_ok regions ->
    length tabs = length regions -> (forall t, In t tabs -> t <> []) ->
    (1 <= num_routed / 3)%nat ->
    (forall r, (num_routed <= length (W r))%nat) ->
    (forall i, (i < length regions)%nat ->
       table_rows_hold_table num_routed (nth i tabs []) (nth i regions gd) W /\
       multiplicities_are_counts num_routed ch (nth i regions gd) W) ->
    (forall g, In g regions -> getv P (div_ceil (num_routed / 2) (qdf - 1)) (last_lu g) = 0) /\
    forall r, (r < n)%nat ->
      exists cs,
        lookup_constraints num_routed qdf tabs ch (W r) (zs_of num_routed qdf P r)
                           (zs_of num_routed qdf P ((r + 1) mod n)) (lookup_selectors_at regions r) = Some cs /\
        all_zero cs.
Proof. exact @lookup_complete_all. Qed.

(* ---------------------------------------------------------------- a concrete table: 12 routed wires (6 looking
   slots, 4 table slots per row), quotient degree factor 3 (3 partial SLDC polynomials), rows: 0 looking,
   1 table, 2 the zero row after the table, 3 unused *)
Definition ex_tab : list (Fp * Fp) := [(toFp 1, toFp 10); (toFp 2, toFp 20)].
Definition ex_ch : @challenges Fp := {| ch_a := toFp 3; ch_b := toFp 5; ch_alpha := toFp 1000003; ch_delta := toFp 7 |}.
Definition ex_g : region := {| last_lu := 0; last_lut := 1; first_lut := 1 |}.
Definition fz (l : list Z) : list Fp := map toFp l.
(* looking pairs (2, out) and five padding pairs (1,10); multiplicities 5 for (1,10) and 1 for (2,20) *)
Definition ex_W (out : Z) (r : nat) : list Fp :=
  match r with
  | O => fz [2; out; 1; 10; 1; 10; 1; 10; 1; 10; 1; 10]%Z
  | S O => fz [1; 10; 5; 2; 20; 1; 1; 10; 0; 1; 10; 0]%Z
  | _ => fz [0; 0; 0; 0; 0; 0; 0; 0; 0; 0; 0; 0]%Z
  end.

Definition ex_rows_zero (W : nat -> list Fp) (P : list (list Fp)) : bool :=
  forallb (fun r => match lookup_constraints 12 3 [ex_tab] ex_ch (W r) (zs_of 12 3 P r) (zs_of 12 3 P ((r + 1) mod 4))
                                             (lookup_selectors_at [ex_g] r) with
                    | Some cs => forallb (fun c => (fval c =? 0)%Z) cs
                    | None => false
                    end) (seq 0 4).

Local Lemma ex_rows_zero_spec W P :
  ex_rows_zero W P = true ->
  forall r, (r < 4)%nat ->
    exists cs, lookup_constraints 12 3 [ex_tab] ex_ch (W r) (zs_of 12 3 P r) (zs_of 12 3 P ((r + 1) mod 4))
                                  (lookup_selectors_at [ex_g] r) = Some cs /\ all_zero cs.
Proof.
  intros Hz r Hr. unfold ex_rows_zero in Hz. rewrite forallb_forall in Hz.
  specialize (Hz r ltac:(apply in_seq; lia)).
  destruct (lookup_constraints 12 3 [ex_tab] ex_ch (W r) (zs_of 12 3 P r) (zs_of 12 3 P ((r + 1) mod 4))
                               (lookup_selectors_at [ex_g] r)) as [cs|]; [|discriminate].
  exists cs. split; [reflexivity|]. rewrite forallb_forall in Hz. apply Forall_forall. intros c Hc.
  apply Fp_ext. apply Z.eqb_eq. apply Hz. exact Hc.
Qed.

(* the polynomials an adversarial prover commits to: the honest computation, shifted by its end value *)
Definition ex_bad_polys : list (list Fp) :=
  match compute_lookup_polys 4 12 3 (ex_W 999) ex_ch [ex_g] with
  | Some P => sldc_shifted 3 ex_g P
  | None => []
  end.

(* REFUTATION of lookup soundness on the faithful model: the looking pair (2, 999) is not an entry of the table,
   yet every lookup constraint of every row of H vanishes (the start value of the running sum on row 2,
   partial polynomial 3, is non-zero and unconstrained). *)
Theorem C08_lookup_sound_refuted :
  exists (W : nat -> list Fp) (P : list (list Fp)),
    (wire (W 0%nat) 0, wire (W 0%nat) 1) = (toFp 2, toFp 999) /\
    ~ In (toFp 2, toFp 999) ex_tab /\
    fval (getv P 3 2) <> 0%Z /\
    forall r, (r < 4)%nat ->
      exists cs, lookup_constraints 12 3 [ex_tab] ex_ch (W r) (zs_of 12 3 P r) (zs_of 12 3 P ((r + 1) mod 4))
                                    (lookup_selectors_at [ex_g] r) = Some cs /\ all_zero cs.
Proof.
  exists (ex_W 999), ex_bad_polys. split; [reflexivity|]. split; [|split].
  - cbn. intros [E|[E|[]]]; apply (f_equal (fun p => fval (snd p))) in E; vm_compute in E; discriminate.
  - vm_compute. discriminate.
  - apply ex_rows_zero_spec. vm_compute. reflexivity.
Qed.

(* the same adversarial shift is harmless on the honest assignment (pair (2, 20)): hypotheses of
   C08_lookup_complete are satisfiable, and the honest polynomials satisfy all rows *)
Local Lemma map_fval_inj (l l' : list Fp) : map fval l = map fval l' -> l = l'.
Proof.
  revert l'. induction l as [|a l IH]; intros [|b l'] E; try discriminate; [reflexivity|].
  cbn [map] in E. injection E as E1 E2. f_equal; [apply Fp_ext; exact E1|apply IH; exact E2].
Qed.

Example C08_lookup_complete_example :
  (exists P, compute_lookup_polys 4 12 3 (ex_W 20) ex_ch [ex_g] = Some P /\ ex_rows_zero (ex_W 20) P = true) /\
  ForallOrdPairs separated [ex_g] /\ Forall region_ok [ex_g] /\
  table_rows_hold_table 12 ex_tab ex_g (ex_W 20) /\
  multiplicities_are_counts 12 ex_ch ex_g (ex_W 20).
Proof.
  split; [|split; [repeat constructor|split; [repeat constructor; cbn; lia|split]]].
  - assert (G : option_map (ex_rows_zero (ex_W 20)) (compute_lookup_polys 4 12 3 (ex_W 20) ex_ch [ex_g]) = Some true)
      by (vm_compute; reflexivity).
    destruct (compute_lookup_polys 4 12 3 (ex_W 20) ex_ch [ex_g]) as [P|]; [|discriminate].
    exists P. split; [reflexivity|]. cbn [option_map] in G. injection G as G. exact G.
  - reflexivity.
  - exists [1; 0; 0; 0; 0; 0]%nat. split; [|split].
    + intros e He. cbn in He. cbn. intuition lia.
    + reflexivity.
    + apply map_fval_inj. vm_compute. reflexivity.
Qed.

(* the transition algebra on concrete values: one slot, alpha - t = 2, multiplicity 3: z - prev = 3/2 *)
Example C08_sum_transition_example :
  let w := fz [5; 0; 3]%Z in
  toFp 7 - looked_combo (toFp 1) w 0 <> 0 /\
  fval (sum_transition (toFp 7) (toFp 1) w [0%nat] (toFp 3 * finv (toFp 2)) (toFp 0)) = 0%Z.
Proof.
  split; [intros E; apply (f_equal fval) in E; vm_compute in E; discriminate|vm_compute; reflexivity].
Qed.
