(* C09 - STARK proofs are accepted exactly for traces that satisfy the constraints.
   Kernel theorems about the verifier's algebra (Model/Stark.v mirrors starky/src/verifier.rs,
   vanishing_poly.rs, constraint_consumer.rs), for every trace length n = 2^k and every field
   of characteristic <> 2. The end-to-end statement (FRI, Fiat-Shamir) is decided by the
   correspondence and fault-enumeration runs of checks/c09.py; these theorems are its algebra:

     trace satisfies the constraints
       <-> every filtered term vanishes on H                      (C09_trace_sat_iff_terms_zero_on_H,
                                                                   using C09_l0_llast_on_subgroup, C09_z_last_zero_iff_last_row)
     accumulator = sum_j alpha^(m-1-j) filter_j c_j              (C09_consumer_is_combination)
       zero for at most m-1 alphas unless every term is zero      (C09_alpha_bound)
     identity V(zeta) = Z_H(zeta) t(zeta) at enough points
       -> V = Z_H t -> V vanishes on H                            (C09_identity_at_zeta_bound,
                                                                   C09_quotient_chunks_recombine, C09_quotient_check_true) *)
From Coq Require Import ZArith List Bool Lia.
From Verif Require Import Base.Field Base.Poly Model.Stark Proofs.Stark Proofs.Quotient.
Import ListNotations.
Local Open Scope field_scope.

Section C09.
  Context {F : Type} {FO : FieldOps F} {FL : FieldLaws F}.
  Variable ofZ : Z -> F.

  (* L_0(g^i) = [i = 0], L_{n-1}(g^i) = [i = n-1] on the subgroup of order n = 2^k *)
  Theorem C09_l0_llast_on_subgroup : forall (k : nat) (g : F),
    (1 + 1 <> 0 :> F) -> prim_root g (2 ^ k) ->
    forall i, (i < 2 ^ k)%nat ->
      l0_poly k (fpow g i) = (if Nat.eqb i 0 then 1 else 0) /\
      llast_poly k g (fpow g i) = (if Nat.eqb (S i) (2 ^ k) then 1 else 0).
  Proof. exact l0_llast_on_subgroup. Qed.

  (* the closed forms evaluated by eval_l_0_and_l_last are those polynomials away from the two
     poles x = 1, x = g^-1, where the implementation panics (inverse of zero) *)
  Theorem C09_eval_l_0_and_l_last_closed_form : forall (k : nat) (g x : F),
    (1 + 1 <> 0 :> F) -> fpow g (2 ^ k) = 1 ->
    (x <> 1 -> g * x <> 1 ->
       eval_l_0_and_l_last k g x = Some (l0_poly k x, llast_poly k g x)) /\
    (x = 1 \/ g * x = 1 -> eval_l_0_and_l_last k g x = None).
  Proof. exact eval_l_0_and_l_last_closed_form. Qed.

  (* L_0 really is a polynomial of degree < n: n coefficients 1/n *)
  Theorem C09_l0_poly_coeffs : forall (k : nat) (x : F),
    l0_poly k x = peval (repeat (finv (two_pow_F k)) (2 ^ k)) x.
  Proof. exact l0_poly_coeffs. Qed.

  Theorem C09_z_last_zero_iff_last_row : forall (n : nat) (g : F) (i : nat),
    prim_root g n -> (i < n)%nat ->
    (z_last_at g (fpow g i) = 0 <-> S i = n).
  Proof. exact z_last_zero_iff_last_row. Qed.

  (* ConstraintConsumer: after the constraints c_0 .. c_(m-1) of kinds k_j were emitted in this
     order, the accumulator of alpha is sum_j alpha^(m-1-j) * c_j * filter(k_j) *)
  Theorem C09_consumer_is_combination : forall (alphas : list F) (zl l0 ll : F) (items : list (ckind * F)),
    c_accs (yield_all (consumer_new alphas zl l0 ll) items) =
    map (fun a => wsum a (map (filtered zl l0 ll) items)) alphas.
  Proof. exact consumer_is_combination. Qed.

  Theorem C09_vanishing_at_is_combination : forall log_n g zeta alphas cs pis lv nv van,
    vanishing_at ofZ log_n g zeta alphas cs pis lv nv = Some van ->
    exists l0 ll items,
      eval_l_0_and_l_last log_n g zeta = Some (l0, ll) /\
      ceval_all ofZ cs lv nv pis = Some items /\
      van = map (fun a => wsum a (map (filtered (z_last_at g zeta) l0 ll) items)) alphas.
  Proof. exact (vanishing_at_is_combination ofZ). Qed.

  (* A trace of length n = 2^k satisfies its constraints iff every filtered term vanishes at
     every point of H; transitions are exempt exactly on the wrap-around row (in [applies]). *)
  Theorem C09_trace_sat_iff_terms_zero_on_H : forall (k : nat) (g : F) (cs : list constr) (pis : list F)
      (rows : list (list F)),
    (1 + 1 <> 0 :> F) -> prim_root g (2 ^ k) -> length rows = (2 ^ k)%nat ->
    constraints_defined ofZ cs pis rows ->
    (trace_sat ofZ cs pis rows <->
     forall r, (r < 2 ^ k)%nat -> forall ke, In ke cs -> term_on_H ofZ k g pis rows r ke = Some 0).
  Proof. exact (trace_sat_iff_terms_zero_on_H ofZ). Qed.

  Theorem C09_trace_sat_b_spec : forall cs pis rows,
    trace_sat_b ofZ cs pis rows = true <-> trace_sat ofZ cs pis rows.
  Proof. exact (trace_sat_b_spec ofZ). Qed.

  (* all but at most m-1 values of alpha expose a non-zero filtered term *)
  Theorem C09_alpha_bound : forall (zl l0 ll : F) (items : list (ckind * F)) (bad : list F),
    Exists (fun kv => filtered zl l0 ll kv <> 0) items ->
    NoDup bad ->
    (forall a, In a bad -> wsum a (map (filtered zl l0 ll) items) = 0) ->
    (length bad <= length items - 1)%nat.
  Proof. exact alpha_bound_for_consumer. Qed.

  (* if V(z) = Z_H(z) t(z) at more points than the lengths involved, V = Z_H t and V vanishes on H *)
  Theorem C09_identity_at_zeta_bound : forall (n : nat) (v t : list F) (pts : list F),
    NoDup pts ->
    (forall z, In z pts -> peval v z = (fpow z n - 1) * peval t z) ->
    (length v <= length pts)%nat -> (S n + length t <= length pts)%nat ->
    (forall x, peval v x = (fpow x n - 1) * peval t x) /\
    (forall x, fpow x n = 1 -> peval v x = 0).
  Proof. exact identity_at_zeta_bound. Qed.

  Theorem C09_quotient_chunks_recombine : forall (n : nat) (cks : list (list F)) (z : F),
    Forall (fun ck => length ck = n) cks ->
    peval (concat cks) z = reduce_with_powers (map (fun ck => peval ck z) cks) (fpow z n).
  Proof. exact quotient_chunks_recombine. Qed.

  (* what acceptance by the verifier's loop means: every chunk of quotient openings matches its
     accumulator through Z_H(zeta) and powers of zeta^n *)
  Theorem C09_quotient_check_true : forall log_n qdf zeta van q,
    quotient_check log_n qdf zeta van (Some q) = Some true ->
    exists cks, chunks qdf q = Some cks /\
      forall j ck, nth_error cks j = Some ck ->
        exists v, nth_error van j = Some v /\
          v = (fpow zeta (2 ^ log_n) - 1) * peval ck (fpow zeta (2 ^ log_n)).
  Proof. exact quotient_check_true. Qed.

  (* completeness kernel: if the combined constraint polynomial (any number of coefficients)
     vanishes on every row g^i of the trace domain, the division by Z_H = X^n - 1 is exact and the
     quotient has at most  length p - n  coefficients (what compute_quotient_polys relies on) *)
  Theorem C09_quotient_exists : forall (g : F) (n : nat) (p : list F),
    (0 < n)%nat -> prim_root g n -> (forall i, (i < n)%nat -> peval p (fpow g i) = 0) ->
    exists q : list F, (length q <= length p - n)%nat /\ forall x, peval p x = (fpow x n - 1) * peval q x.
  Proof. exact prim_root_vanishing_divisible. Qed.
End C09.

(* ---------------------------------------------------------------------------------------------
   The hypotheses are satisfiable: Goldilocks, n = 8, g = primitive_root_of_unity(3), and the
   Fibonacci STARK of starky/src/fibonacci_stark.rs on its honest trace. *)
From Verif Require Import Gen.FieldConsts Model.Fp Proofs.FpField Proofs.FpFieldPrime Model.C09Run.

Definition g8 : Fp := match fp_root 3 with Some g => g | None => toFp 0 end.

Example C09_two_neq_zero_Fp : (1 + 1 <> 0 :> Fp)%F.
Proof. intros E. apply (f_equal fval) in E. vm_compute in E. discriminate. Qed.

Example C09_g8_prim_root : prim_root g8 (2 ^ 3).
Proof.
  split.
  - apply Fp_ext. vm_compute. reflexivity.
  - intros j Hj E. apply (f_equal fval) in E.
    assert (C : (j = 1 \/ j = 2 \/ j = 3 \/ j = 4 \/ j = 5 \/ j = 6 \/ j = 7)%nat) by (cbn in Hj; lia).
    repeat (destruct C as [->|C]; [vm_compute in E; discriminate|]).
    subst j. vm_compute in E. discriminate.
Qed.

Example C09_selectors_n8 :
  l0_poly 3 (fpow g8 0) = 1%F /\ l0_poly 3 (fpow g8 5) = 0%F /\
  llast_poly 3 g8 (fpow g8 7) = 1%F /\ llast_poly 3 g8 (fpow g8 0) = 0%F.
Proof.
  pose proof (@C09_l0_llast_on_subgroup Fp _ FpLaws 3 g8 C09_two_neq_zero_Fp C09_g8_prim_root) as H.
  destruct (H 0%nat ltac:(cbn; lia)) as [A0 B0].
  destruct (H 5%nat ltac:(cbn; lia)) as [A5 _].
  destruct (H 7%nat ltac:(cbn; lia)) as [_ B7].
  repeat split; assumption.
Qed.

Definition fib_cs : list constr :=
  [ (KFirst, ESub (ELocal 0) (EPub 0)); (KFirst, ESub (ELocal 1) (EPub 1));
    (KLast, ESub (ELocal 1) (EPub 2));
    (KTransition, ESub (ENext 0) (ELocal 1));
    (KTransition, ESub (ESub (ENext 1) (ELocal 0)) (ELocal 1)) ].
Definition fib_rows : list (list Fp) :=
  map (map toFp) [[0; 1]; [1; 1]; [1; 2]; [2; 3]; [3; 5]; [5; 8]; [8; 13]; [13; 21]]%Z.
Definition fib_pis : list Fp := map toFp [0; 1; 21]%Z.

(* the honest Fibonacci trace satisfies the constraints although the wrap-around instance
   (row 7 -> row 0) of the transition constraints does not hold; a corrupted cell does not *)
Example C09_fib_trace_sat : trace_sat fp_ofZ fib_cs fib_pis fib_rows.
Proof. apply (@C09_trace_sat_b_spec Fp _ FpLaws). vm_compute. reflexivity. Qed.

Example C09_fib_corrupted_not_sat :
  ~ trace_sat fp_ofZ fib_cs fib_pis (map (map toFp) [[0; 1]; [1; 1]; [1; 2]; [2; 3]; [3; 6]; [5; 8]; [8; 13]; [13; 21]]%Z).
Proof.
  intros H. apply (@C09_trace_sat_b_spec Fp _ FpLaws) in H. vm_compute in H. discriminate.
Qed.

Example C09_fib_terms_vanish_on_H :
  forall r, (r < 2 ^ 3)%nat -> forall ke, In ke fib_cs -> term_on_H fp_ofZ 3 g8 fib_pis fib_rows r ke = Some 0%F.
Proof.
  apply (@C09_trace_sat_iff_terms_zero_on_H Fp _ FpLaws fp_ofZ 3 g8 fib_cs fib_pis fib_rows
           C09_two_neq_zero_Fp C09_g8_prim_root eq_refl).
  - intros r Hr kd e Hin.
    assert (C : (r = 0 \/ r = 1 \/ r = 2 \/ r = 3 \/ r = 4 \/ r = 5 \/ r = 6 \/ r = 7)%nat)
      by (cbn in Hr; lia).
    cbn in Hin.
    repeat (destruct Hin as [Hin|Hin]; [inversion Hin; subst kd e;
      repeat (destruct C as [->|C]; [eexists; vm_compute; reflexivity|]); subst r; eexists; vm_compute; reflexivity|]).
    contradiction.
  - exact C09_fib_trace_sat.
Qed.
