(* C16 - Proof compression is lossless and verification-equivalent.
   Kernel: the first-insert-wins maps of compress / decompress return every query's own data
   exactly when queries with equal index (coset) carry equal data - which accepted proofs do,
   because equal indices are checked against the same Merkle root. *)
From Coq Require Import List.
From Verif Require Import Model.Dedup Proofs.Dedup.
Import ListNotations.

Theorem C16_decompress_compress_consistent : forall (V : Type) (l : list (nat * V)),
  consistent V l ->
  decompress V (compress V l) (map fst l) = map (fun kv => Some (snd kv)) l.
Proof. exact decompress_compress. Qed.

(* the hypothesis is necessary: on inconsistent query data compression is lossy (first wins) *)
Theorem C16_compress_first_wins : forall (V : Type) k (v1 v2 : V) l, v1 <> v2 ->
  decompress V (compress V ((k, v1) :: l ++ [(k, v2)])) [k] = [Some v1].
Proof. exact compress_first_wins. Qed.

Example C16_repeated_index :
  decompress nat (compress nat [(5, 10); (7, 20); (5, 10)]) [5; 7; 5] = [Some 10; Some 20; Some 10].
Proof. reflexivity. Qed.
