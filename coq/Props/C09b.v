(* C09 (also C18: "never success for anything but a valid proof") - the commitment side of the STARK verifier.

   The algebra of Props/C09.v speaks about the polynomials behind the openings; what ties the openings to
   polynomials fixed BEFORE zeta was drawn is (a) a Merkle cap per oracle, observed by the challenger before
   zeta, and (b) the FRI verifier checking every oracle's leaf against its cap.  The FRI verifier zips the
   per-oracle leaves with the list of caps it is given (Model/Fri.v verify_initial), and the STARK verifier
   builds that list from the parts that are PRESENT in the proof, so (b) holds only if the shape rules force
   one cap per oracle.  They do (C09_shape_caps_cover_oracles); before the repair recorded in
   known_findings.txt they did not (C09_cap_optional_rule_refuted): a proof without quotient_polys_cap was
   accepted, its quotient "openings" chosen after zeta - harness/src/c09.rs forge_uncommitted_quotient
   builds such proofs for violating traces and the unrepaired verifier accepted every one of them. *)
From Coq Require Import ZArith List Bool Lia.
From Verif Require Import Base.Field Model.Fp Model.Fri Model.StarkShape Proofs.StarkShape.
Import ListNotations.
Local Open Scope nat_scope.

(* an accepted shape has exactly one Merkle cap per oracle of Stark::fri_instance *)
Theorem C09_shape_caps_cover_oracles : forall s p,
  validate_proof_shape s p = true -> num_merkle_caps p = num_oracles s.
Proof. exact shape_caps_cover_oracles. Qed.

(* a STARK with constraints: the quotient commitment and all quotient openings are present *)
Theorem C09_shape_quotient_committed : forall s p,
  validate_proof_shape s p = true -> sd_num_quotient s <> 0 ->
  ps_quot_cap p = Some (2 ^ sd_cap_height s) /\ ps_quot p = Some (sd_num_quotient s).
Proof. exact shape_quotient_committed. Qed.

(* the openings at zeta are as many as the polynomials of the zeta batch *)
Theorem C09_shape_openings_cover_polys : forall s p,
  validate_proof_shape s p = true -> num_zeta_openings p = num_zeta_polys s.
Proof. exact shape_openings_cover_polys. Qed.

(* with one cap per oracle the initial check of a query round looks at every oracle ... *)
Theorem C09_initial_check_covers_every_oracle :
  forall (hash_or_noop : list Fp -> digest) (two_to_one : digest -> digest -> digest) initial caps round x oi,
    length initial = length caps -> verify_initial hash_or_noop two_to_one round x initial caps oi = ok tt ->
    Forall2 (fun ec cap => verify_merkle_proof_to_cap hash_or_noop two_to_one (fst ec) x cap (snd ec) = Some true)
            initial caps.
Proof. exact verify_initial_checks_all. Qed.

(* ... and with fewer caps the oracles beyond them are not looked at, whatever they contain *)
Theorem C09_initial_check_ignores_uncapped_oracles :
  forall (hash_or_noop : list Fp -> digest) (two_to_one : digest -> digest -> digest) initial caps round x oi extra,
    length initial = length caps ->
    verify_initial hash_or_noop two_to_one round x (initial ++ extra) caps oi
    = verify_initial hash_or_noop two_to_one round x initial caps oi.
Proof. exact verify_initial_ignores_uncapped. Qed.

(* the rule before the repair (quotient cap optional) accepts a proof with fewer caps than oracles *)
Theorem C09_cap_optional_rule_refuted :
  exists s p, validate_proof_shape_cap_optional s p = true /\ sd_num_quotient s <> 0 /\
              num_merkle_caps p < num_oracles s /\ validate_proof_shape s p = false.
Proof. exact cap_optional_rule_refuted. Qed.

(* non-vacuity: an accepted shape of a STARK with lookups and constraints *)
Example C09_shape_example :
  validate_proof_shape (mkStarkDesc 2 1 3 1 true false 4 2 0 0)
                       (mkProofShape 1 (Some 4) 4 (Some 4) (Some 4) 3 3 (Some 4) (Some 4) None (Some 2)) = true.
Proof. reflexivity. Qed.

(* with the quotient openings the shape rules demand (quotient_degree_factor * num_challenges of them), the loop
   of verify_stark_proof_with_challenges compares EVERY challenge's accumulator with a full chunk: none of the
   num_challenges identities is skipped *)
From Verif Require Import Model.Stark Proofs.Stark Base.Poly.
Theorem C09_every_identity_checked :
  forall {F : Type} {FO : FieldOps F} {FL : FieldLaws F} (log_n qdf nch : nat) (zeta : F) (van q : list F),
    qdf <> 0 -> length q = qdf * nch -> length van = nch ->
    quotient_check log_n qdf zeta van (Some q) = Some true ->
    exists cks, chunks qdf q = Some cks /\ length cks = nch /\
      forall j, j < nch ->
        exists ck v, nth_error cks j = Some ck /\ length ck = qdf /\ nth_error van j = Some v /\
          v = ((fpow zeta (2 ^ log_n) - 1) * peval ck (fpow zeta (2 ^ log_n)))%F.
Proof. exact (@every_identity_checked). Qed.

(* why the quotient commitment is indispensable: openings chosen after zeta satisfy the identity check for ANY
   accumulator values, i.e. for any trace; the forger of harness/src/c09.rs makes exactly this choice *)
From Verif Require Import Proofs.StarkForge.
Theorem C09_uncommitted_quotient_always_passes :
  forall {F : Type} {FO : FieldOps F} {FL : FieldLaws F} (log_n qdf : nat) (zeta : F) (van : list F),
    qdf <> 0 -> (exp_power_of_2 zeta log_n - 1 <> 0)%F ->
    let q := forged_quotient qdf (exp_power_of_2 zeta log_n - 1)%F van in
    length q = qdf * length van /\ quotient_check log_n qdf zeta van (Some q) = Some true.
Proof. exact @uncommitted_quotient_always_passes. Qed.
