(* C18 - Verifiers and proof decoders fail cleanly on malformed input.
   Model-level theorems (total decoders, no partial operation after shape validation) are added
   here as the verifier model grows; the implementation-level statement is decided by the fault
   enumeration of checks/c18.py. *)
From Coq Require Import ZArith List.
From Verif Require Import Base.Reader.
Import ListNotations.

(* the interchange reader never over-allocates: a length prefix larger than the remaining input
   is rejected before anything is built *)
Theorem C18_rd_list_length_bounded : forall A (r : R A) n rest,
  (Z.of_nat (length rest) < n)%Z -> rd_list r (n :: rest) = None.
Proof.
  intros A r n rest H. unfold rd_list.
  destruct (n <? 0)%Z eqn:E1; [reflexivity|].
  assert (E2 : (Z.of_nat (length rest) <? n)%Z = true) by (apply Z.ltb_lt; exact H).
  rewrite E2. reflexivity.
Qed.
