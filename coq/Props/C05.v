(* C05 - FRI opening proofs attest only true evaluations of low-degree polynomials.
   Property theorems only; each is closed by [exact] of a lemma of Proofs/Fri*.v.

   Model: Model/Fri.v (verify_fri_proof and everything below it, plonky2/src/fri/verifier.rs,
   validate_shape.rs, hash/merkle_proofs.rs, field/src/interpolation.rs), Model/FriStrategy.v
   (reduction_strategies.rs, FriConfig::fri_params), Model/FriProver.v (honest prover with given
   challenges).  The hash functions are abstract: [hash_or_noop] = H::hash_or_noop,
   [two_to_one] = H::two_to_one.  The field is Goldilocks (Fp) and its quadratic extension (Fp2).
   [res] = inl tt (Ok) or inr e, e naming the first failing check.

   Proved here, for EVERY proof size, number of oracles / batches / layers / query rounds:
     1. acceptance <-> shape /\ PoW /\ number of rounds /\ every zipped round passes; a round
        passes <-> all initial Merkle paths /\ every layer's consistency and Merkle check (state
        evolving as in the code) /\ the final-polynomial check;
     2. the Merkle check of the FRI model IS the C12 one; binding lifted to initial leaves /
        siblings and step evaluations / siblings: two accepted query rounds of the same index that
        differ there exhibit a collision (as a value);
     3. with all challenges fixed: one final-polynomial coefficient or one claimed opening cannot
        be changed (by d <> 0) without the same proof being rejected;
     4. the proof-of-work check is `leading_zeros >= bits`;
     5. interpolate / barycentric_weights are exact on polynomials with at most n coefficients
        (every n), and compute_evaluation folds honestly committed cosets correctly (every arity);
     6. the arity schedules (ConstantArityBits, Fixed, MinSize);
     7. completeness: the proof produced by the honest model prover (any number of oracles, batches,
        layers, arities, query rounds; no blinding) is accepted.
   NOT proved (not attempted): proximity soundness (a committed function far from every
   low-degree polynomial is rejected with high probability) - it is decided on the adversarial
   corpus of checks/c05.py only. *)
From Coq Require Import ZArith List Bool Lia Arith.
From Verif Require Import Base.Field Base.Poly Gen.FieldConsts Model.Fp Model.Fp2 Model.FieldGeneric Model.Fri.
From Verif Require Model.Merkle Proofs.Merkle Model.RecursionParts.
From Verif Require Import Model.FriStrategy Model.C05Run2 Model.FriProver.
From Verif Require Import Proofs.Fri Proofs.FriAlgebra Proofs.FriInterp Proofs.FriFold Proofs.FriStrategy Proofs.FriHonestAlg Proofs.FriHonest.
Import ListNotations.
Local Open Scope nat_scope.

Section C05.
  Variable hash_or_noop : list Fp -> digest.
  Variable two_to_one : digest -> digest -> digest.

  Notation vmp := (Fri.verify_merkle_proof_to_cap hash_or_noop two_to_one).
  Notation vinit := (Fri.verify_initial hash_or_noop two_to_one).
  Notation qsteps := (Fri.query_steps hash_or_noop two_to_one).
  Notation qround := (Fri.fri_verifier_query_round hash_or_noop two_to_one).
  Notation vfri := (Fri.verify_fri_proof hash_or_noop two_to_one).
  Notation steps_accept := (Proofs.Fri.steps_accept hash_or_noop two_to_one).
  Notation collision := (Proofs.Fri.fri_collision hash_or_noop two_to_one).

  (* ======================================================================================== *)
  (* 1. acceptance = all checks                                                               *)

  (* verify_fri_proof.  The query indices and the round proofs are zipped: the shorter list wins,
     as in the code (the number of rounds is compared with the CONFIG, not with the number of
     indices). *)
  Theorem C05_accept_iff_all_checks : forall inst openings ch caps pr p,
    vfri inst openings ch caps pr p = inl tt <->
    validate_fri_proof_shape inst p pr = true
    /\ pow_ok (fri_pow_response ch) (proof_of_work_bits (config p)) = true
    /\ num_query_rounds (config p) = length (fp_rounds pr)
    /\ (forall i x q, nth_error (fri_query_indices ch) i = Some x -> nth_error (fp_rounds pr) i = Some q ->
          qround inst ch (precomputed_reduced_openings openings (fri_alpha ch)) caps pr p i x q = inl tt).
  Proof. exact (accept_iff_all_checks hash_or_noop two_to_one). Qed.

  (* one query round: initial Merkle paths (oracles zipped with the caps), then the combined
     initial evaluation exists (no division by zero), the reduction loop accepts and ends in a
     state (sx, ev) with final_poly(sx) = ev *)
  Theorem C05_round_accept_iff : forall inst ch reduced caps pr p round x q,
    qround inst ch reduced caps pr p round x q = inl tt <->
    (forall k evals sibs cap, nth_error (qr_initial q) k = Some (evals, sibs) -> nth_error caps k = Some cap ->
       vmp evals x cap sibs = Some true)
    /\ exists old_eval sx ev,
        fri_combine_initial inst p (qr_initial q) (fri_alpha ch)
          (coset_shift * exp_u64 (primitive_root_of_unity (lde_bits p)) (N.of_nat (reverse_bits x (lde_bits p))))%F
          reduced = inl old_eval
        /\ steps_accept (fp_caps pr) (qr_steps q) (reduction_arity_bits p) (fri_betas ch) 0 x
             (coset_shift * exp_u64 (primitive_root_of_unity (lde_bits p)) (N.of_nat (reverse_bits x (lde_bits p))))%F
             old_eval (sx, ev)
        /\ peval2 (fp_final pr) (fp2_of_base sx) = ev.
  Proof. exact (round_accept_iff hash_or_noop two_to_one). Qed.

  (* the reduction loop accepts with final state r  <->  [steps_accept .. r]; the two equations
     below say what [steps_accept] is: no layer left - the state is returned; a layer of arity 2^a
     with step s - the challenge and the cap of this layer exist, evals[x_index mod 2^a] is the
     previous evaluation (consistency), the folded value ev is computed from the coset, the coset
     is authenticated at index x_index / 2^a, and the loop continues from
     (x_index / 2^a, subgroup_x^(2^a), ev) *)
  Theorem C05_query_steps_iff : forall arities steps round caps betas layer x sx oe r,
    qsteps round caps steps arities betas layer x sx oe = inl r <->
    steps_accept caps steps arities betas layer x sx oe r.
  Proof. exact (query_steps_iff hash_or_noop two_to_one). Qed.

  Theorem C05_steps_accept_nil : forall caps steps betas layer x sx oe r,
    steps_accept caps steps [] betas layer x sx oe r <-> r = (sx, oe).
  Proof. exact (steps_accept_nil hash_or_noop two_to_one). Qed.

  Theorem C05_steps_accept_cons : forall caps s st a at' betas layer x sx oe r,
    steps_accept caps (s :: st) (a :: at') betas layer x sx oe r <->
    exists beta cap ev,
      nth_error betas layer = Some beta /\ nth_error caps layer = Some cap
      /\ nth_error (fs_evals s) (x mod 2 ^ a) = Some oe
      /\ compute_evaluation sx (x mod 2 ^ a) a (fs_evals s) beta = inl ev
      /\ vmp (flatten2 (fs_evals s)) (x / 2 ^ a) cap (fs_siblings s) = Some true
      /\ steps_accept caps st at' betas (S layer) (x / 2 ^ a) (exp_power_of_2 sx a) ev r.
  Proof. exact (steps_accept_cons hash_or_noop two_to_one). Qed.

  Theorem C05_steps_accept_missing_step : forall caps a at' betas layer x sx oe r,
    ~ steps_accept caps [] (a :: at') betas layer x sx oe r.
  Proof. exact (steps_accept_missing_step hash_or_noop two_to_one). Qed.

  (* the point at which the final polynomial is evaluated *)
  Theorem C05_final_point : forall arities steps caps betas layer x sx oe r,
    steps_accept caps steps arities betas layer x sx oe r ->
    fst r = exp_power_of_2 sx (fold_right Nat.add 0 arities).
  Proof. exact (steps_accept_final_x hash_or_noop two_to_one). Qed.

  Theorem C05_initial_iff : forall initial caps round x oi,
    vinit round x initial caps oi = inl tt <->
    (forall k evals sibs cap, nth_error initial k = Some (evals, sibs) -> nth_error caps k = Some cap ->
       vmp evals x cap sibs = Some true).
  Proof. exact (verify_initial_iff hash_or_noop two_to_one). Qed.

  (* ======================================================================================== *)
  (* 4. proof of work                                                                         *)

  (* fri_pow_response.to_canonical_u64().leading_zeros() >= proof_of_work_bits (+ 64 - 64) *)
  Theorem C05_pow_ok_spec : forall (resp : Fp) (bits : nat),
    pow_ok resp bits = true <-> (Z.of_nat bits <= RecursionParts.leading_zeros64 (fval resp))%Z.
  Proof. exact pow_ok_spec. Qed.

  Theorem C05_pow_ok_lt : forall (resp : Fp) (bits : nat),
    pow_ok resp bits = true <-> (fval resp < 2 ^ (64 - Z.of_nat bits))%Z.
  Proof. exact pow_ok_lt. Qed.

  (* an insufficient witness is rejected, with the PoW error, by every well-shaped proof *)
  Theorem C05_bad_pow_rejected : forall inst openings ch caps pr p,
    validate_fri_proof_shape inst p pr = true ->
    (RecursionParts.leading_zeros64 (fval (fri_pow_response ch)) < Z.of_nat (proof_of_work_bits (config p)))%Z ->
    vfri inst openings ch caps pr p = inr EPow.
  Proof. exact (bad_pow_rejected_lz hash_or_noop two_to_one). Qed.

  (* ======================================================================================== *)
  (* 2. Merkle bridge and binding                                                             *)

  Theorem C05_merkle_walk_eq : forall sibs cur idx,
    Fri.merkle_walk two_to_one cur idx sibs = Merkle.verify_walk digest two_to_one cur idx sibs.
  Proof. exact (merkle_walk_eq two_to_one). Qed.

  Theorem C05_digest_eqb_spec : forall a b : digest, digest_eqb a b = true <-> a = b.
  Proof. exact digest_eqb_spec. Qed.

  Theorem C05_verify_merkle_bridge : forall leaf i cap sibs,
    vmp leaf i cap sibs = Some true <->
    Merkle.verify_merkle_proof_to_cap Fp digest hash_or_noop two_to_one digest_eqb leaf i cap sibs = true.
  Proof. exact (verify_merkle_bridge hash_or_noop two_to_one). Qed.

  (* [collision] = a pair of different leaves with equal hash_or_noop, or two different pairs of
     digests with equal two_to_one (Proofs/Merkle.v leaf_collision + node_collision), as a value *)
  Theorem C05_merkle_binding : forall (l l' : list Fp) (i : nat) (cap sibs sibs' : list digest),
    vmp l i cap sibs = Some true -> vmp l' i cap sibs' = Some true ->
    length sibs = length sibs' -> (l, sibs) <> (l', sibs') -> collision.
  Proof. exact (merkle_binding hash_or_noop two_to_one). Qed.

  (* two accepted query rounds of the same index against the same initial caps: a difference in
     an initial leaf value or an initial sibling of oracle k is a collision *)
  Theorem C05_round_binding_initial :
    forall inst inst' ch ch' reduced reduced' caps pr pr' p p' round round' x q q' k l sb l' sb',
    qround inst ch reduced caps pr p round x q = inl tt ->
    qround inst' ch' reduced' caps pr' p' round' x q' = inl tt ->
    k < length caps ->
    nth_error (qr_initial q) k = Some (l, sb) -> nth_error (qr_initial q') k = Some (l', sb') ->
    length sb = length sb' -> (l, sb) <> (l', sb') -> collision.
  Proof. exact (round_binding_initial hash_or_noop two_to_one). Qed.

  (* the same for a step evaluation or a step sibling of layer k (same commit-phase caps and
     arities; the challenges and everything else may differ) *)
  Theorem C05_round_binding_step :
    forall inst inst' ch ch' reduced reduced' caps caps' pr pr' p p' round round' x q q' k s s',
    qround inst ch reduced caps pr p round x q = inl tt ->
    qround inst' ch' reduced' caps' pr' p' round' x q' = inl tt ->
    fp_caps pr = fp_caps pr' -> reduction_arity_bits p = reduction_arity_bits p' ->
    k < length (reduction_arity_bits p) ->
    nth_error (qr_steps q) k = Some s -> nth_error (qr_steps q') k = Some s' ->
    length (fs_siblings s) = length (fs_siblings s') ->
    (fs_evals s, fs_siblings s) <> (fs_evals s', fs_siblings s') -> collision.
  Proof. exact (round_binding_step hash_or_noop two_to_one). Qed.

  Theorem C05_flatten_injective : forall l l' : list Fp2, flatten2 l = flatten2 l' -> l = l'.
  Proof. exact flatten2_inj. Qed.

  (* ======================================================================================== *)
  (* 3. fixed-challenge sensitivity of the algebraic positions                                *)

  (* final polynomial: coefficient j changed by d *)
  Theorem C05_final_coeff_value : forall j (fin : list Fp2) (d x : Fp2), j < length fin ->
    peval2 (upd_at (fun c => c + d)%F j fin) x = (peval2 fin x + d * fpow x j)%F.
  Proof. exact peval2_add_at. Qed.

  (* the points of the evaluation domain, hence the point of the final check, are non-zero *)
  Theorem C05_domain_point_nonzero : forall log_n x,
    (coset_shift * exp_u64 (primitive_root_of_unity log_n) (N.of_nat (reverse_bits x log_n)))%F <> 0%F.
  Proof. exact domain_point_nonzero. Qed.

  Theorem C05_final_coeff_round_sensitive : forall inst ch reduced caps pr p round x q j (d : Fp2),
    j < length (fp_final pr) -> d <> 0%F ->
    qround inst ch reduced caps pr p round x q = inl tt ->
    qround inst ch reduced caps (edit_final pr j d) p round x q = inl tt -> False.
  Proof. exact (final_coeff_round_sensitive hash_or_noop two_to_one). Qed.

  Theorem C05_final_coeff_sensitive : forall inst openings ch caps pr p j (d : Fp2),
    j < length (fp_final pr) -> d <> 0%F ->
    fri_query_indices ch <> [] -> fp_rounds pr <> [] ->
    vfri inst openings ch caps pr p = inl tt ->
    vfri inst openings ch caps (edit_final pr j d) p = inl tt -> False.
  Proof. exact (final_coeff_sensitive hash_or_noop two_to_one). Qed.

  (* claimed opening k of batch b changed by d: the reduced opening moves by alpha^k * d ... *)
  Theorem C05_reduce_affine : forall k (vals : list Fp2) (d alpha : Fp2), k < length vals ->
    Fri.reduce alpha (upd_at (fun c => c + d)%F k vals) = (Fri.reduce alpha vals + fpow alpha k * d)%F.
  Proof. exact reduce_add_at. Qed.

  (* ... and the combined initial evaluation moves by a non-zero amount *)
  Theorem C05_combine_initial_edit : forall inst p initial (alpha : Fp2) (sx : Fp) reduced b (e v : Fp2),
    alpha <> 0%F -> e <> 0%F ->
    fri_combine_initial inst p initial alpha sx reduced = inl v ->
    b < length (batches inst) -> b < length reduced ->
    exists v', v' <> v /\
      fri_combine_initial inst p initial alpha sx (upd_at (fun ro => ro + e)%F b reduced) = inl v'.
  Proof. exact combine_initial_edit. Qed.

  Theorem C05_opening_round_sensitive : forall inst ch openings caps pr p round x q b k (d : Fp2) vals,
    fri_alpha ch <> 0%F -> d <> 0%F ->
    nth_error openings b = Some vals -> k < length vals -> b < length (batches inst) ->
    qround inst ch (precomputed_reduced_openings openings (fri_alpha ch)) caps pr p round x q = inl tt ->
    qround inst ch (precomputed_reduced_openings (edit_opening openings b k d) (fri_alpha ch))
           caps pr p round x q = inl tt -> False.
  Proof. exact (opening_round_sensitive hash_or_noop two_to_one). Qed.

  Theorem C05_opening_sensitive : forall inst openings ch caps pr p b k (d : Fp2) vals,
    fri_alpha ch <> 0%F -> d <> 0%F ->
    nth_error openings b = Some vals -> k < length vals -> b < length (batches inst) ->
    fri_query_indices ch <> [] -> fp_rounds pr <> [] ->
    vfri inst openings ch caps pr p = inl tt ->
    vfri inst (edit_opening openings b k d) ch caps pr p = inl tt -> False.
  Proof. exact (opening_sensitive hash_or_noop two_to_one). Qed.
End C05.

(* ========================================================================================== *)
(* 5. interpolation and folding                                                               *)

(* interpolate(points, x, barycentric_weights(points)) for pairwise distinct abscissae:
   exact, at every x (node or not), on every polynomial with at most n = |points| coefficients *)
Theorem C05_interpolate_correct : forall (p xs : list Fp2) (x : Fp2),
  NoDup xs -> length p <= length xs ->
  Fri.interpolate xs (map (peval2 p) xs) x (Fri.barycentric_weights xs) = inl (peval2 p x).
Proof. exact interpolate_correct. Qed.

(* for arbitrary ordinates: the value of one and the same polynomial with at most n coefficients
   through all the points (unique by Base/Poly.v poly_eq_bound) *)
Theorem C05_interpolate_interpolant : forall xs ys : list Fp2,
  NoDup xs -> length ys = length xs ->
  exists q : list Fp2, length q <= length xs
    /\ (forall k, k < length xs -> peval2 q (nth k xs 0%F) = nth k ys 0%F)
    /\ forall x, Fri.interpolate xs ys x (Fri.barycentric_weights xs) = inl (peval2 q x).
Proof. exact interpolate_interpolant. Qed.

Theorem C05_interpolate_on_node : forall (xs ys ws : list Fp2) k,
  NoDup xs -> length ys = length xs -> k < length xs ->
  Fri.interpolate xs ys (nth k xs 0%F) ws = inl (nth k ys 0%F).
Proof. exact interpolate_on_node. Qed.

(* the same over any field (the model code is field generic) *)
Theorem C05_interpolate_generic : forall (F : Type) (FO : FieldOps F) (FL : FieldLaws F) (p xs : list F) (x : F),
  NoDup xs -> length p <= length xs ->
  g_interpolate xs (map (peval p) xs) x (g_barycentric_weights xs) = peval p x.
Proof. exact @interpolate_poly. Qed.

(* fold_complete, every arity 2^a with a <= TWO_ADICITY = 32: if the opened coset (in the stored,
   bit-reversed order) holds the values of the polynomial with coefficients [concat chunks]
   (chunks of 2^a coefficients) on the coset of x, compute_evaluation returns the value at
   x^(2^a) - the verifier's next point - of the folded polynomial
   [map (fun chunk => reduce_with_powers chunk beta) chunks] of fri_committed_trees *)
Theorem C05_fold_complete : forall (x : Fp) (within a : nat) (evals : list Fp2) (beta : Fp2)
    (chunks : list (list Fp2)),
  a <= two_adicity -> x <> 0%F -> length evals = 2 ^ a ->
  Forall (fun c : list Fp2 => length c = 2 ^ a) chunks ->
  (forall i, i < 2 ^ a ->
     nth i (reverse_index_bits evals 0%F a) 0%F
     = peval2 (concat chunks)
         (fp2_of_base (x * exp_u64 (primitive_root_of_unity a) (N.of_nat (2 ^ a - reverse_bits within a))
                       * fpow (primitive_root_of_unity a) i)%F)) ->
  compute_evaluation x within a evals beta
  = inl (peval2 (map (fun c => peval c beta) chunks) (fp2_of_base (exp_power_of_2 x a))).
Proof. exact fold_complete. Qed.

(* ========================================================================================== *)
(* 6. arity schedules (Model/FriStrategy.v)                                                    *)
(* [reduction_arity_bits_of s d r c nq] = FriReductionStrategy::reduction_arity_bits(degree_bits d,
   rate_bits r, cap_height c, num_queries nq): [Done l], [Panic] (assert / usize underflow) or
   [NoFuel] (the real loop does not terminate). *)

(* ConstantArityBits(a, f): every entry is a; the arities fit into degree_bits; when layer k is
   pushed the loop guard held (f < d - k a) and the Merkle tree committed for that layer, which has
   2^(d + r - (k+1) a) leaves, is at least as high as the cap (no layer is folded below the cap
   height); the loop stops because degree_bits <= f or because one more reduction would go below
   the cap height.  (Any fuel, any a: if the model returns Done, this holds.) *)
Theorem C05_arity_schedule_sound : forall fuel d r c a f l,
  constant_arity_loop fuel d r c a f = Done l ->
  l = repeat a (length l) /\ sum_list l = a * length l /\ a * length l <= d /\
  (forall k, k < length l ->
     f < d - k * a /\ (k + 1) * a <= d /\ (k + 1) * a <= d + r /\ c <= d + r - (k + 1) * a) /\
  (d - a * length l <= f \/ (a <= d - a * length l + r /\ d - a * length l + r - a < c)).
Proof. exact arity_schedule_sound. Qed.

(* the fuel used by the model (degree_bits + 1) is enough for a >= 1, and irrelevant *)
Theorem C05_constant_arity_fuel : forall d r c a f, 1 <= a ->
  (forall fuel, d < fuel -> constant_arity_loop fuel d r c a f <> NoFuel) /\
  (forall fuel1 fuel2, d < fuel1 -> d < fuel2 ->
     constant_arity_loop fuel1 d r c a f = constant_arity_loop fuel2 d r c a f).
Proof. exact constant_arity_fuel. Qed.

(* FriConfig::fri_params with ConstantArityBits *)
Theorem C05_constant_arity_fri_params : forall cfg a f d h p,
  reduction_strategy cfg = ConstantArityBits a f -> fri_params_of cfg d h = Done p ->
  let n := length (reduction_arity_bits p) in
  config p = cfg /\ degree_bits p = d /\ hiding p = h /\
  reduction_arity_bits p = repeat a n /\ total_arities p = a * n /\
  total_arities p <= degree_bits p /\ final_poly_len p = 2 ^ (d - a * n) /\
  (forall k, k < n -> f < d - k * a /\ (k + 1) * a <= d /\ cap_height cfg <= lde_bits p - (k + 1) * a) /\
  (d - a * n <= f \/ (a <= d - a * n + rate_bits cfg /\ d - a * n + rate_bits cfg - a < cap_height cfg)).
Proof. exact constant_arity_fri_params. Qed.

(* when the real code PANICS (a >= 1): at some layer k the guard holds but
   degree_bits + rate_bits - arity_bits underflows or assert!(degree_bits >= arity_bits) fails *)
Theorem C05_constant_arity_panic_iff : forall fuel d r c a f, 1 <= a -> d < fuel ->
  (constant_arity_loop fuel d r c a f = Panic <-> exists k, cab_panic_at d r c a f k).
Proof. exact constant_arity_panic_iff. Qed.

(* it never panics when arity_bits <= final_poly_bits + 1 (e.g. ConstantArityBits(4, 5)) ... *)
Theorem C05_constant_arity_done : forall fuel d r c a f,
  1 <= a -> a <= f + 1 -> d < fuel -> exists l, constant_arity_loop fuel d r c a f = Done l.
Proof. exact constant_arity_done. Qed.

(* ... and it does otherwise: ConstantArityBits(4, 2) on a degree-2^3 instance *)
Example C05_constant_arity_panics :
  fri_params_of {| rate_bits := 3; cap_height := 2; proof_of_work_bits := 16;
                   reduction_strategy := ConstantArityBits 4 2; num_query_rounds := 28 |} 3 false = Panic.
Proof. exact constant_arity_fri_params_panics. Qed.

(* ConstantArityBits(0, f): the loop never terminates when its guard holds *)
Theorem C05_constant_arity_zero : forall d r c f nq,
  reduction_arity_bits_of (ConstantArityBits 0 f) d r c nq =
  if (f <? d) && (c <=? d + r) then NoFuel else Done [].
Proof. exact constant_arity_zero_strategy. Qed.

(* Fixed(v) is returned as is; nothing checks that it fits the degree *)
Theorem C05_fixed_returned_as_is : forall v d r c nq, reduction_arity_bits_of (Fixed v) d r c nq = Done v.
Proof. exact fixed_returned_as_is. Qed.

(* total_arities > degree_bits is NOT rejected by fri_params (the real final_poly_bits() =
   degree_bits - total_arities() then underflows; the Coq final_poly_len truncates to 2^0) *)
Example C05_Fixed_not_validated : exists p,
  fri_params_of {| rate_bits := 3; cap_height := 4; proof_of_work_bits := 16;
                   reduction_strategy := Fixed [5]; num_query_rounds := 28 |} 3 false = Done p /\
  total_arities p > degree_bits p /\ final_poly_len p = 1.
Proof. exact Fixed_not_validated. Qed.

(* MinSize: the search terminates within the model's fuel, never panics, and returns a
   non-increasing schedule with entries in 1..max (max = 4 by default) that fits degree_bits and
   has the smallest estimated proof size among all such schedules *)
Theorem C05_min_size_terminates : forall d r nq opt_max, exists l,
  min_size_arity_bits d r nq opt_max = Done l /\ sum_list l <= d /\
  Forall (fun x => 1 <= x <= min_size_max opt_max) l /\ nonincreasing l /\
  relative_proof_size d r nq l = Some (rps_value d r nq l) /\
  (rps_value d r nq l <= rps_value d r nq [])%Z /\
  (forall l', Forall (fun x => 1 <= x <= min_size_max opt_max) l' -> nonincreasing l' ->
              sum_list l' <= d -> (rps_value d r nq l <= rps_value d r nq l')%Z).
Proof. exact min_size_terminates. Qed.

Theorem C05_min_size_helper_fuel : forall fuel1 fuel2 d r nq gmax prefix,
  d - sum_list prefix < fuel1 -> d - sum_list prefix < fuel2 ->
  min_size_arity_bits_helper fuel1 d r nq gmax prefix = min_size_arity_bits_helper fuel2 d r nq gmax prefix.
Proof. exact min_size_helper_fuel. Qed.

(* relative_proof_size: defined exactly when the schedule fits, with a closed form *)
Theorem C05_relative_proof_size_some_iff : forall d r nq l,
  (exists s, relative_proof_size d r nq l = Some s) <-> sum_list l <= d.
Proof. exact relative_proof_size_some_iff. Qed.

(* the unmodelled usize overflow of the estimates cannot occur on the practical domain *)
Theorem C05_relative_proof_size_small : forall d r nq l,
  sum_list l <= d -> Forall (fun x => 1 <= x) l -> d + r <= 40 -> (0 <= nq <= 2 ^ 16)%Z ->
  exists s, relative_proof_size d r nq l = Some s /\ (0 <= s < 2 ^ 64)%Z.
Proof. exact relative_proof_size_small. Qed.

(* all strategies together *)
Theorem C05_reduction_arity_bits_sound : forall s d r c nq l,
  reduction_arity_bits_of s d r c nq = Done l ->
  match s with
  | Fixed v => l = v
  | ConstantArityBits a f =>
    l = repeat a (length l) /\ sum_list l = a * length l /\ sum_list l <= d /\
    (forall k, k < length l -> f < d - k * a /\ (k + 1) * a <= d /\ c <= d + r - (k + 1) * a) /\
    (d - sum_list l <= f \/ (a <= d - sum_list l + r /\ d - sum_list l + r - a < c))
  | MinSize opt_max =>
    sum_list l <= d /\ Forall (fun x => 1 <= x <= min_size_max opt_max) l /\ nonincreasing l /\
    relative_proof_size d r nq l = Some (rps_value d r nq l) /\
    (forall l', Forall (fun x => 1 <= x <= min_size_max opt_max) l' -> nonincreasing l' ->
                sum_list l' <= d -> (rps_value d r nq l <= rps_value d r nq l')%Z)
  end.
Proof. exact reduction_arity_bits_sound. Qed.

Theorem C05_fri_params_sound : forall cfg d h p, fri_params_of cfg d h = Done p ->
  config p = cfg /\ degree_bits p = d /\ hiding p = h /\
  reduction_arity_bits_of (reduction_strategy cfg) d (rate_bits cfg) (cap_height cfg)
                          (Z.of_nat (num_query_rounds cfg)) = Done (reduction_arity_bits p) /\
  (match reduction_strategy cfg with
   | Fixed v => reduction_arity_bits p = v
   | _ => total_arities p <= degree_bits p /\ final_poly_len p * 2 ^ total_arities p = 2 ^ degree_bits p
   end).
Proof. exact fri_params_sound. Qed.

Example C05_ex_schedules :
  run_arity_bits [1; 4; 5; 12; 3; 4; 28]%Z = Some [2; 4; 4]%Z          (* standard_recursion_config, 2^12 *)
  /\ run_arity_bits [2; 0; 12; 3; 4; 28]%Z = Some [1; 4]%Z            (* MinSize(None) *)
  /\ run_arity_bits [2; 1; 3; 12; 3; 4; 28]%Z = Some [1; 3]%Z.        (* MinSize(Some(3)) *)
Proof. repeat split; vm_compute; reflexivity. Qed.

(* ========================================================================================== *)
(* 7. completeness: the honest model prover is accepted                                       *)
(* Model/FriProver.v [honest_prove]: PolynomialBatch leaves, prove_openings' combined quotient
   polynomial, fri_committed_trees' folding, fri_prover_query_round, with the challenges given and
   without blinding; Merkle caps and paths are those of the C12 model.  Tied to the real prover by
   the correspondence op `friprove` (Model/C05Run3.v).
   For EVERY number of oracles / polynomials / batches / query rounds, every arity schedule that
   fits the degree and leaves the last tree at least as high as the cap, every cap height. *)
Section C05_honest.
  Variable hash_or_noop : list Fp -> digest.
  Variable two_to_one : digest -> digest -> digest.

  (* the model prover does not fail *)
  Theorem C05_honest_prove_some : forall inst p oracles ch pow_witness,
    total_arities p + cap_height (config p) <= lde_bits p ->
    (forall x, In x (fri_query_indices ch) -> x < 2 ^ lde_bits p) ->
    exists out, honest_prove hash_or_noop two_to_one inst p oracles ch pow_witness = Some out.
  Proof. exact (honest_prove_some hash_or_noop two_to_one). Qed.

  (* and its output is accepted by verify_fri_proof *)
  Theorem C05_honest_accepts : forall inst p oracles ch pow_witness out,
    honest_prove hash_or_noop two_to_one inst p oracles ch pow_witness = Some out ->
    (* parameters: no blinding; the LDE domain exists in the field; the schedule fits the degree and
       never folds below the cap height (what reduction_arity_bits guarantees, section 6) *)
    hiding p = false ->
    lde_bits p <= two_adicity ->
    total_arities p <= degree_bits p ->
    total_arities p + cap_height (config p) <= lde_bits p ->
    (* the instance describes the oracles; every polynomial has at most 2^degree_bits coefficients *)
    Forall2 (fun o polys => num_polys o = length polys) (Fri.oracles inst) oracles ->
    (forall pi, length (poly_of oracles pi) <= 2 ^ degree_bits p) ->
    (* challenges: one beta per layer, the configured number of in-range query indices, a valid
       grinding response, no opening point inside the evaluation domain *)
    length (reduction_arity_bits p) <= length (fri_betas ch) ->
    length (fri_query_indices ch) = num_query_rounds (config p) ->
    (forall x, In x (fri_query_indices ch) -> x < 2 ^ lde_bits p) ->
    pow_ok (fri_pow_response ch) (proof_of_work_bits (config p)) = true ->
    (forall x b, In x (fri_query_indices ch) -> In b (batches inst) ->
                 fp2_of_base (layer_point 0 (lde_bits p) x) <> point b) ->
    Fri.verify_fri_proof hash_or_noop two_to_one inst (ho_openings out) ch (ho_caps out) (ho_proof out) p
    = inl tt.
  Proof. exact (honest_accepts hash_or_noop two_to_one). Qed.

  (* the two algebraic facts behind it: (i) on honest leaves and honest openings
     fri_combine_initial is the value of prove_openings' final_poly ... *)
  Theorem C05_combine_initial_honest : forall inst p initial oracles (alpha : Fp2) (x : Fp),
    hiding p = false ->
    (forall oi, fst (nth oi initial ([], [])) = map (fun f => peval f x) (nth oi oracles [])) ->
    (forall b, In b (batches inst) -> fp2_of_base x <> point b) ->
    fri_combine_initial inst p initial alpha x
      (precomputed_reduced_openings (honest_openings oracles (batches inst)) alpha)
    = inl (peval (combined_poly oracles alpha (batches inst)) (fp2_of_base x)).
  Proof. exact combine_initial_honest. Qed.

  (* ... (ii) one honest layer: the opened coset has 2^a values, contains the current value at
     position x mod 2^a, and folds to the next layer's value at the next point *)
  Theorem C05_honest_fold_step : forall coeffs s n a x (beta : Fp2),
    a <= n -> n <= two_adicity -> length coeffs = 2 ^ n -> x < 2 ^ n ->
    let evals := nth (x / 2 ^ a) (layer_cosets coeffs s n a) [] in
    length evals = 2 ^ a
    /\ nth_error evals (x mod 2 ^ a) = Some (peval2 coeffs (fp2_of_base (layer_point s n x)))
    /\ compute_evaluation (layer_point s n x) (x mod 2 ^ a) a evals beta
       = inl (peval2 (fold_poly coeffs a beta) (fp2_of_base (layer_point (s + a) (n - a) (x / 2 ^ a)))).
  Proof. exact honest_fold_step. Qed.
End C05_honest.

(* ========================================================================================== *)
(* Examples: a concrete instance with a toy (injective, non-cryptographic) hash                *)
Definition toyH (l : list Fp) : digest := l.
Definition toyT (a b : digest) : digest := a ++ b.

Definition ex_cfg : fri_config :=
  {| rate_bits := 1; cap_height := 1; proof_of_work_bits := 3; reduction_strategy := Fixed [1];
     num_query_rounds := 2 |}.
Definition ex_p : fri_params :=
  {| config := ex_cfg; hiding := false; degree_bits := 2; reduction_arity_bits := [1] |}.
(* two oracles (2 + 1 polynomials with 4 coefficients), two opening points *)
Definition ex_oracles : list (list (list Fp)) :=
  [ [ map toFp [3; 1; 4; 1]%Z; map toFp [5; 9; 2; 6]%Z ]; [ map toFp [2; 7; 1; 8]%Z ] ].
Definition ex_inst : fri_instance :=
  {| oracles := [ {| num_polys := 2; blinding := false |}; {| num_polys := 1; blinding := false |} ];
     batches := [ {| point := (toFp 11, toFp 13);
                     polynomials := [ {| oracle_index := 0; polynomial_index := 0 |};
                                      {| oracle_index := 0; polynomial_index := 1 |};
                                      {| oracle_index := 1; polynomial_index := 0 |} ] |};
                  {| point := (toFp 17, toFp 19);
                     polynomials := [ {| oracle_index := 1; polynomial_index := 0 |} ] |} ] |}.
Definition ex_ch : fri_challenges :=
  {| fri_alpha := (toFp 21, toFp 22); fri_betas := [ (toFp 31, toFp 32) ]; fri_pow_response := toFp 12345;
     fri_query_indices := [5; 2] |}.
Definition ex_out := honest_prove toyH toyT ex_inst ex_p ex_oracles ex_ch (toFp 0).

Definition ex_verdict (f : honest_output -> res unit) : option (res unit) := option_map f ex_out.

(* the honest proof is accepted (hypotheses of C05_honest_accepts / C05_accept_iff_all_checks) *)
Example C05_ex_honest_accepted :
  ex_verdict (fun o => Fri.verify_fri_proof toyH toyT ex_inst (ho_openings o) ex_ch (ho_caps o) (ho_proof o) ex_p)
  = Some (inl tt).
Proof. vm_compute. reflexivity. Qed.

(* fixed challenges, one claimed opening changed by 1: the first consistency check fails
   (C05_opening_sensitive) *)
Example C05_ex_wrong_opening_rejected :
  ex_verdict (fun o => Fri.verify_fri_proof toyH toyT ex_inst (edit_opening (ho_openings o) 0 1 1%F) ex_ch
                                            (ho_caps o) (ho_proof o) ex_p)
  = Some (inr (EConsistency 0 0)).
Proof. vm_compute. reflexivity. Qed.

(* fixed challenges, one final-polynomial coefficient changed by 1: the final check fails
   (C05_final_coeff_sensitive) *)
Example C05_ex_wrong_final_rejected :
  ex_verdict (fun o => Fri.verify_fri_proof toyH toyT ex_inst (ho_openings o) ex_ch (ho_caps o)
                                            (edit_final (ho_proof o) 1 1%F) ex_p)
  = Some (inr (EFinal 0)).
Proof. vm_compute. reflexivity. Qed.

(* a grinding response with too few leading zeros (C05_bad_pow_rejected; 2^62 has one) *)
Example C05_ex_bad_pow_rejected :
  ex_verdict (fun o => Fri.verify_fri_proof toyH toyT ex_inst (ho_openings o)
                         {| fri_alpha := fri_alpha ex_ch; fri_betas := fri_betas ex_ch;
                            fri_pow_response := toFp (2 ^ 62); fri_query_indices := fri_query_indices ex_ch |}
                         (ho_caps o) (ho_proof o) ex_p)
  = Some (inr EPow)
  /\ pow_ok (toFp 12345) 3 = true /\ pow_ok (toFp (2 ^ 62)) 3 = false.
Proof. split; [|split]; vm_compute; reflexivity. Qed.

(* binding needs collision resistance: with a constant hash two different leaves are accepted at
   the same position, and C05_merkle_binding hands back the collision *)
Definition constH (l : list Fp) : digest := [].
Definition constT (a b : digest) : digest := [].
Example C05_ex_binding_collision :
  Fri.verify_merkle_proof_to_cap constH constT [toFp 1] 0 [[]] [] = Some true
  /\ Fri.verify_merkle_proof_to_cap constH constT [toFp 2] 0 [[]] [] = Some true
  /\ inhabited (Proofs.Fri.fri_collision constH constT).
Proof.
  assert (V1 : Fri.verify_merkle_proof_to_cap constH constT [toFp 1] 0 [[]] [] = Some true) by reflexivity.
  assert (V2 : Fri.verify_merkle_proof_to_cap constH constT [toFp 2] 0 [[]] [] = Some true) by reflexivity.
  split; [exact V1|]. split; [exact V2|]. constructor.
  apply (merkle_binding constH constT [toFp 1] [toFp 2] 0 [[]] [] [] V1 V2 eq_refl).
  intros E. assert (E' : fval (toFp 1) = fval (toFp 2)) by congruence. vm_compute in E'. discriminate E'.
Qed.

(* interpolation on concrete values: the line 3 + 2 X through (2, 7), (5, 13), evaluated at 11 and
   at the node 5 (NoDup [2; 5], two coefficients: the hypotheses of C05_interpolate_correct) *)
Example C05_ex_interpolate :
  let xs := [fp2_of_base (toFp 2); fp2_of_base (toFp 5)] in
  let ys := map (peval2 [fp2_of_base (toFp 3); fp2_of_base (toFp 2)]) xs in
  let value r := match r with inl v => Some (fval (fst v), fval (snd v)) | inr _ => None end in
  value (Fri.interpolate xs ys (fp2_of_base (toFp 11)) (Fri.barycentric_weights xs)) = Some (25, 0)%Z
  /\ value (Fri.interpolate xs ys (fp2_of_base (toFp 5)) (Fri.barycentric_weights xs)) = Some (13, 0)%Z.
Proof. split; vm_compute; reflexivity. Qed.
