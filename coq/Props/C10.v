(* C10 - STARK lookups and cross-table lookups hold iff the looked-up values are present.
   Kernel theorems about Model/StarkLookup.v (which mirrors starky/src/lookup.rs and
   cross_table_lookup.rs and is tied to them by the lkcols / psums / lkeval / ctleval / ctlsum
   correspondence runs of checks/c10.py), for every trace length and every field.

     helper constraint = 0  <->  h = sum of filter_i / (x + f_i)         (C10_helper_algebra, _one)
     Z constraints on ALL rows (wrap-around included)
        -> sum_rows (sum h - m / (t + x)) = 0                            (C10_lookup_Z_sum)
     that sum = 0 -> the prover's running sum satisfies them            (C10_lookup_Z_complete,
                                                                          C10_lookup_helper_columns_Z)
     multiset equality -> the sums of reciprocals agree                  (C10_logup_complete, C10_ctl_complete)
     CTL reverse running sum: first-row opening = total                  (C10_ctl_Z_first_is_total, C10_ctl_Z_honest)
     repeated looking tables are counted once                            (C10_ctl_looking_tables_once)

   NOT proved (stated here as the missing half): from "the sums of reciprocals agree for more
   challenges x than there are entries" to multiset equality (the logUp lemma in
   characteristic larger than the number of entries). *)
From Coq Require Import ZArith List Bool Lia Permutation.
From Verif Require Import Base.Field Model.Stark Model.StarkLookup Proofs.Stark Proofs.StarkLookup.
Import ListNotations.
Local Open Scope field_scope.

Section C10.
  Context {F : Type} {FO : FieldOps F} {FL : FieldLaws F}.

  (* batch of two looking columns: combin_i = x + f_i (non-zero), filters p_i, helper value h;
     the left side is literally the constraint emitted by eval_helper_columns *)
  Theorem C10_helper_algebra : forall c0 c1 p0 p1 h : F,
    c0 <> 0 -> c1 <> 0 ->
    (c1 * c0 * h - p0 * c1 - p1 * c0 = 0 <-> h = p0 * finv c0 + p1 * finv c1).
  Proof. exact helper_algebra. Qed.

  Theorem C10_helper_algebra_one : forall c0 p0 h : F,
    c0 <> 0 -> (c0 * h - p0 = 0 <-> h = p0 * finv c0).
  Proof. exact helper_algebra_one. Qed.

  (* all Z constraints zero on all n rows (next row cyclic) => the row contributions sum to 0 *)
  Theorem C10_lookup_Z_sum : forall (n : nat) (x : F) (Z hs m t : nat -> F),
    (0 < n)%nat ->
    (forall i, (i < n)%nat -> t i + x <> 0) ->
    (forall i, (i < n)%nat -> (Z (S i mod n) - Z i) * (t i + x) - (hs i * (t i + x) - m i) = 0) ->
    sumn (fun i => hs i - m i * finv (t i + x)) n = 0.
  Proof. exact lookup_Z_sum. Qed.

  (* contributions summing to 0 => the honest running sum (Z_0 = 0, Z_(i+1) = Z_i + step_i)
     satisfies the first-row constraint and the Z constraint on every row incl. the wrap-around *)
  Theorem C10_lookup_Z_complete : forall (n : nat) (x : F) (hs m t : nat -> F),
    (0 < n)%nat ->
    (forall i, (i < n)%nat -> t i + x <> 0) ->
    let step := fun i => hs i - m i * finv (t i + x) in
    sumn step n = 0 ->
    let Z := fun i => nth i (z_honest n step) 0 in
    Z 0%nat = 0 /\
    forall i, (i < n)%nat -> (Z (S i mod n) - Z i) * (t i + x) - (hs i * (t i + x) - m i) = 0.
  Proof. exact lookup_Z_complete. Qed.

  (* the model of lookup_helper_columns produces exactly that running sum *)
  Theorem C10_lookup_helper_columns_Z : forall (lk : lookup) (rows : list (list F)) (ch : F) (d : nat) cols,
    lookup_helper_columns lk rows ch d = Some cols ->
    exists helpers table freqs,
      length table = length rows /\ length freqs = length rows /\
      (forall i, (i < length rows)%nat -> nth i table 0 + ch <> 0) /\
      cols = helpers ++
             [z_honest (length rows)
                (fun i => nth_col helpers i - nth i freqs 0 * finv (nth i table 0 + ch))].
  Proof. exact lookup_helper_columns_Z. Qed.

  (* honest frequencies: the filtered looking values are the table values repeated by their
     frequencies => both sides of the logUp identity agree, for every challenge *)
  Theorem C10_logup_complete : forall (x : F) (looking : list F) (tm : list (F * nat)),
    Permutation looking (concat (map (fun p => repeat (fst p) (snd p)) tm)) ->
    inv_sum x looking = table_sum x tm.
  Proof. exact logup_complete. Qed.

  Theorem C10_ctl_complete : forall (x : F) (looking extra looked : list F),
    Permutation (looking ++ extra) looked ->
    inv_sum x looking + inv_sum x extra = inv_sum x looked.
  Proof. exact ctl_complete. Qed.

  (* CTL: last-row and transition constraints force the first-row opening to be the total *)
  Theorem C10_ctl_Z_first_is_total : forall (n : nat) (Z hs : nat -> F),
    (0 < n)%nat ->
    Z (n - 1)%nat - hs (n - 1)%nat = 0 ->
    (forall i, (S i < n)%nat -> Z i - Z (S i) - hs i = 0) ->
    Z 0%nat = sumn hs n.
  Proof. exact ctl_Z_first_is_total. Qed.

  (* and the reverse running sum of partial_sums satisfies them *)
  Theorem C10_ctl_Z_honest : forall (hs : list F),
    let Z := suffix_sums hs in
    hd 0 Z = fsum_list hs /\
    length Z = length hs /\
    (forall i, (S i < length hs)%nat -> nth i Z 0 - nth (S i) Z 0 - nth i hs 0 = 0) /\
    (forall i, S i = length hs -> nth i Z 0 - nth i hs 0 = 0).
  Proof. exact ctl_Z_honest. Qed.

  Theorem C10_ctl_looking_tables_once : forall l,
    NoDup (dedup_nat l []) /\ forall t, In t (dedup_nat l []) <-> In t l.
  Proof. exact ctl_looking_tables_once. Qed.
End C10.

(* ---------------------------------------------------------------------------------------------
   Non-trivial instances over Goldilocks: a 4-row permutation lookup (looking column 0 into
   table column 1 with frequencies in column 2), challenge 5, constraint degree 2. *)
From Verif Require Import Model.Fp Proofs.FpField Proofs.FpFieldPrime.

Definition ex_lookup : @lookup Fp :=
  mkLookup [mkColumn [(0%nat, toFp 1)] [] (toFp 0)]
           (mkColumn [(1%nat, toFp 1)] [] (toFp 0))
           (mkColumn [(2%nat, toFp 1)] [] (toFp 0))
           [mkFilter [] [mkColumn [] [] (toFp 1)]].
Definition ex_rows : list (list Fp) := map (map toFp) [[7; 9; 2]; [9; 7; 2]; [7; 3; 0]; [9; 4; 0]]%Z.

Example C10_example_prover_columns :
  option_map (map (map fval)) (lookup_helper_columns ex_lookup ex_rows (toFp 5) 2)
  = Some [[16909515396963368961; 1317624576386756023; 16909515396963368961; 1317624576386756023];
          [0; 14274266244189856915; 219604096064459337; 17129119493027828298]]%Z.
Proof. vm_compute. reflexivity. Qed.

(* the looking values {7,9,7,9} are the table values 9,7,3,4 with frequencies 2,2,0,0 *)
Example C10_example_logup :
  inv_sum (toFp 5) (map toFp [7; 9; 7; 9]%Z)
  = table_sum (toFp 5) [(toFp 9, 2%nat); (toFp 7, 2%nat); (toFp 3, 0%nat); (toFp 4, 0%nat)].
Proof.
  apply (@C10_logup_complete Fp _ FpLaws). cbn [map concat repeat fst snd app].
  eapply perm_trans; [apply perm_swap|]. apply perm_skip.
  eapply perm_trans; [apply perm_skip; apply perm_swap|]. apply perm_swap.
Qed.

Example C10_example_helper :
  forall h : Fp, (toFp 12 * h - toFp 1 = 0 <-> h = toFp 1 * finv (toFp 12))%F.
Proof.
  intros h. apply (@C10_helper_algebra_one Fp _ FpLaws).
  intros E. apply (f_equal fval) in E. vm_compute in E. discriminate.
Qed.
