(* C04 - Fiat-Shamir challenges depend on the whole statement and prior transcript.
   Statements about the transcript of the verifier model Model/Plonk.v, whose get_challenges is
   DEFINED as the interpretation of the operation list [plonk_ops] and is tied to the implementation
   by the challenge correspondence of checks/c04.py (`challenges` lines).
   The literal "altering a message changes all later challenges" is a statement about the hash as a
   random oracle; it is decided empirically by the sensitivity sweep of the same check. *)
From Coq Require Import List.
From Verif Require Import Model.Fp Model.Fp2 Model.Fri Model.Plonk Proofs.Transcript.
Import ListNotations.

(* every component of the statement and every prover message is observed, in this order, and the
   challenges are drawn at these points (the transcript is data, readable here) *)
Theorem C04_transcript_order : forall cd vo pr h,
  observations (plonk_ops cd vo pr h) =
  [ fri_params_elements (cd_fri_params cd); circuit_digest vo; h; concat (wires_cap pr);
    concat (zs_pp_cap pr); concat (quotient_cap pr) ]
  ++ map flatten2 (to_fri_openings (openings pr))
  ++ map (@concat Fp) (fp_caps (opening_proof pr))
  ++ [ flatten2 (fp_final (opening_proof pr)); [fp_pow_witness (opening_proof pr)] ].
Proof.
  intros. unfold plonk_ops, fri_ops. repeat rewrite observations_app.
  rewrite observations_flat_map_caps, observations_map_observe.
  destruct (negb (Nat.eqb (num_lookup_polys cd) 0)); reflexivity.
Qed.

(* the encoding is injective: equal observed segments force equal digest, public-input hash, caps,
   openings, commit-phase caps, final polynomial and proof-of-work witness *)
Theorem C04_transcript_injective : forall cd vo1 pr1 h1 vo2 pr2 h2,
  digests_ok vo1 pr1 h1 -> digests_ok vo2 pr2 h2 -> same_cap_shape pr1 pr2 ->
  observations (plonk_ops cd vo1 pr1 h1) = observations (plonk_ops cd vo2 pr2 h2) ->
  circuit_digest vo1 = circuit_digest vo2 /\ h1 = h2 /\
  wires_cap pr1 = wires_cap pr2 /\ zs_pp_cap pr1 = zs_pp_cap pr2 /\ quotient_cap pr1 = quotient_cap pr2 /\
  to_fri_openings (openings pr1) = to_fri_openings (openings pr2) /\
  fp_caps (opening_proof pr1) = fp_caps (opening_proof pr2) /\
  fp_final (opening_proof pr1) = fp_final (opening_proof pr2) /\
  fp_pow_witness (opening_proof pr1) = fp_pow_witness (opening_proof pr2).
Proof. exact plonk_transcript_injective. Qed.

(* a challenge is a function of the operations before it: whatever the prover sends later cannot
   influence it (no message can be chosen after seeing a challenge it is supposed to precede) *)
Theorem C04_challenges_ignore_later_messages : forall c a b1 b2,
  firstn (length (run_ops c a)) (run_ops c (a ++ b1)) = firstn (length (run_ops c a)) (run_ops c (a ++ b2)).
Proof. exact challenges_ignore_later_messages. Qed.

(* no stale challenge: outputs are only ever served with no observed element pending *)
Theorem C04_no_stale_output_observe : forall c es, ch_inv c -> ch_inv (observe_elements c es).
Proof. intros c es. apply observe_elements_inv. Qed.

Theorem C04_no_stale_output_squeeze : forall c x c', ch_inv c -> get_challenge c = (x, c') ->
  input_buffer c' = [] /\ ch_inv c'.
Proof. exact get_challenge_fresh. Qed.

Example C04_initial_state_ok : ch_inv ch_new.
Proof. left. reflexivity. Qed.
