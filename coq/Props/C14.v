(* C14 - Field arithmetic is exact modular arithmetic on every representation.
   Property theorems only; each is closed by [exact] of a lemma proved in Proofs/.
   The functions gl_* / ext*_mul are REGENERATED from /repo on every run (tools/rs2v.py), in the
   checked monad: [= Some r] also says that no checked operation overflowed and no assume failed. *)
From Coq Require Import ZArith List.
From Coq Require Import Znumtheory.
From Verif Require Import Base.Mach Base.Field Gen.FieldConsts Gen.GoldilocksImpl Proofs.Goldilocks
  Proofs.GoldilocksExt Proofs.GoldilocksInv Model.Fp Proofs.FpFieldPrime.
Open Scope Z_scope.

Theorem C14_add_correct : forall x y, u64 x -> u64 y ->
  exists r, gl_add x y = Some r /\ u64 r /\ r mod ORDER = (x + y) mod ORDER.
Proof. exact add_correct. Qed.

Theorem C14_sub_correct : forall x y, u64 x -> u64 y ->
  exists r, gl_sub x y = Some r /\ u64 r /\ r mod ORDER = (x - y) mod ORDER.
Proof. exact sub_correct. Qed.

Theorem C14_neg_correct : forall x, u64 x ->
  exists r, gl_neg x = Some r /\ u64 r /\ r mod ORDER = (- x) mod ORDER.
Proof. exact neg_correct. Qed.

Theorem C14_mul_correct : forall x y, u64 x -> u64 y ->
  exists r, gl_mul x y = Some r /\ u64 r /\ r mod ORDER = (x * y) mod ORDER.
Proof. exact mul_correct. Qed.

Theorem C14_square_correct : forall x, u64 x ->
  exists r, gl_square x = Some r /\ u64 r /\ r mod ORDER = (x * x) mod ORDER.
Proof. exact square_correct. Qed.

Theorem C14_mac_correct : forall a x y, u64 a -> u64 x -> u64 y ->
  exists r, gl_multiply_accumulate a x y = Some r /\ u64 r /\ r mod ORDER = (a + x * y) mod ORDER.
Proof. exact mac_correct. Qed.

Theorem C14_reduce96_correct : forall lo hi, u64 lo -> u32 hi ->
  exists r, gl_reduce96 (lo, hi) = Some r /\ u64 r /\ r mod ORDER = (lo + 2 ^ 64 * hi) mod ORDER.
Proof. exact reduce96_correct. Qed.

Theorem C14_reduce128_correct : forall x, u128 x ->
  exists r, gl_reduce128 x = Some r /\ u64 r /\ r mod ORDER = x mod ORDER.
Proof. exact reduce128_correct. Qed.

(* under exactly the documented bound x < 2^160 - 2^128 + 2^96 *)
Theorem C14_reduce160_correct : forall xl xh, u128 xl -> u32 xh ->
  xl + 2 ^ 128 * xh < 2 ^ 160 - 2 ^ 128 + 2 ^ 96 ->
  exists r, gl_reduce160 xl xh = Some r /\ u64 r /\ r mod ORDER = (xl + 2 ^ 128 * xh) mod ORDER.
Proof. exact reduce160_correct. Qed.

Theorem C14_to_canonical : forall x, u64 x -> gl_to_canonical_u64 x = Some (x mod ORDER).
Proof. exact to_canonical_spec. Qed.

Theorem C14_add_canonical_u64_correct : forall x y, u64 x -> 0 <= y < ORDER ->
  exists r, gl_add_canonical_u64 x y = Some r /\ u64 r /\ r mod ORDER = (x + y) mod ORDER.
Proof. exact add_canonical_u64_correct. Qed.

Theorem C14_sub_canonical_u64_correct : forall x y, u64 x -> 0 <= y < ORDER ->
  exists r, gl_sub_canonical_u64 x y = Some r /\ u64 r /\ r mod ORDER = (x - y) mod ORDER.
Proof. exact sub_canonical_u64_correct. Qed.

(* the canonical-operand precondition of the two unsafe helpers is necessary, not decorative *)
Theorem C14_add_canonical_u64_refuted_without_precondition :
  exists x y, u64 x /\ u64 y /\ gl_add_canonical_u64 x y = None.
Proof. exact add_canonical_u64_refuted_without_precondition. Qed.

Theorem C14_sub_canonical_u64_refuted_without_precondition :
  exists x y, u64 x /\ u64 y /\ gl_sub_canonical_u64 x y = None.
Proof. exact sub_canonical_u64_refuted_without_precondition. Qed.

Theorem C14_from_noncanonical_i64_correct : forall n, i64 n ->
  exists r, gl_from_noncanonical_i64 n = Some r /\ 0 <= r < ORDER /\ r mod ORDER = n mod ORDER.
Proof. exact from_noncanonical_i64_correct. Qed.


(* ---- inversion: the 72-multiplication addition chain is x^(P-2); with primality of P
   (Proofs/Primality.v: Lucas certificate, witness 7) it is the inverse *)
Theorem C14_order_prime : prime ORDER.
Proof. exact P_prime. Qed.

Theorem C14_try_inverse_is_pow : forall x, u64 x -> x mod ORDER <> 0 ->
  exists r, gl_try_inverse x = Some (Some r) /\ u64 r /\ r mod ORDER = (x ^ (ORDER - 2)) mod ORDER.
Proof. exact try_inverse_is_pow. Qed.

Theorem C14_inverse_correct : forall x, u64 x -> x mod ORDER <> 0 ->
  exists r, gl_try_inverse x = Some (Some r) /\ u64 r /\ (r * x) mod ORDER = 1.
Proof. exact inverse_correct. Qed.

Theorem C14_try_inverse_zero : forall x, u64 x -> x mod ORDER = 0 -> gl_try_inverse x = Some None.
Proof. exact try_inverse_zero. Qed.

(* the canonical-residue instance used by every protocol-level model is a field *)
Theorem C14_Fp_field : FieldLaws Fp.
Proof. exact FpLaws. Qed.

(* ---- extension fields: delayed-reduction products = schoolbook product mod X^D - W, for every
   representation; Some also says: the u32 high limb never overflows, u160_times_7's borrow
   subtraction never underflows, reduce160's precondition holds at every call site *)
Theorem C14_ext2_mul_correct : forall a0 a1 b0 b1, u64 a0 -> u64 a1 -> u64 b0 -> u64 b1 ->
  exists c0 c1, ext2_mul (a0, a1) (b0, b1) = Some (c0, c1) /\
    u64 c0 /\ c0 mod ORDER = (a0 * b0 + EXT2_W * (a1 * b1)) mod ORDER /\
    u64 c1 /\ c1 mod ORDER = (a0 * b1 + a1 * b0) mod ORDER.
Proof. exact ext2_mul_correct. Qed.

Theorem C14_ext4_mul_correct : forall a0 a1 a2 a3 b0 b1 b2 b3, u64 a0 -> u64 a1 -> u64 a2 -> u64 a3 -> u64 b0 -> u64 b1 -> u64 b2 -> u64 b3 ->
  exists c0 c1 c2 c3, ext4_mul (a0, a1, a2, a3) (b0, b1, b2, b3) = Some (c0, c1, c2, c3) /\
    u64 c0 /\ c0 mod ORDER = (a0 * b0 + EXT4_W * (a1 * b3 + a2 * b2 + a3 * b1)) mod ORDER /\
    u64 c1 /\ c1 mod ORDER = (a0 * b1 + a1 * b0 + EXT4_W * (a2 * b3 + a3 * b2)) mod ORDER /\
    u64 c2 /\ c2 mod ORDER = (a0 * b2 + a1 * b1 + a2 * b0 + EXT4_W * (a3 * b3)) mod ORDER /\
    u64 c3 /\ c3 mod ORDER = (a0 * b3 + a1 * b2 + a2 * b1 + a3 * b0) mod ORDER.
Proof. exact ext4_mul_correct. Qed.

Theorem C14_ext5_mul_correct : forall a0 a1 a2 a3 a4 b0 b1 b2 b3 b4, u64 a0 -> u64 a1 -> u64 a2 -> u64 a3 -> u64 a4 -> u64 b0 -> u64 b1 -> u64 b2 -> u64 b3 -> u64 b4 ->
  exists c0 c1 c2 c3 c4, ext5_mul (a0, a1, a2, a3, a4) (b0, b1, b2, b3, b4) = Some (c0, c1, c2, c3, c4) /\
    u64 c0 /\ c0 mod ORDER = (a0 * b0 + EXT5_W * (a1 * b4 + a2 * b3 + a3 * b2 + a4 * b1)) mod ORDER /\
    u64 c1 /\ c1 mod ORDER = (a0 * b1 + a1 * b0 + EXT5_W * (a2 * b4 + a3 * b3 + a4 * b2)) mod ORDER /\
    u64 c2 /\ c2 mod ORDER = (a0 * b2 + a1 * b1 + a2 * b0 + EXT5_W * (a3 * b4 + a4 * b3)) mod ORDER /\
    u64 c3 /\ c3 mod ORDER = (a0 * b3 + a1 * b2 + a2 * b1 + a3 * b0 + EXT5_W * (a4 * b4)) mod ORDER /\
    u64 c4 /\ c4 mod ORDER = (a0 * b4 + a1 * b3 + a2 * b2 + a3 * b1 + a4 * b0) mod ORDER.
Proof. exact ext5_mul_correct. Qed.

(* non-vacuity: a double-carry operand pair reaches the assume branch of Add and satisfies it *)
Example C14_add_double_carry :
  gl_add (2 ^ 64 - 1) (2 ^ 64 - 1) = Some ((2 ^ 64 - 1 + (2 ^ 64 - 1)) mod ORDER).
Proof. vm_compute. reflexivity. Qed.
Example C14_sub_double_borrow : gl_sub 0 (2 ^ 64 - 1) = Some ((0 - (2 ^ 64 - 1)) mod ORDER + 0).
Proof. vm_compute. reflexivity. Qed.
