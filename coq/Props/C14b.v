(* C14b - The generic (trait-default) field code of field/src/types.rs and
   field/src/extension/{mod,quadratic,quartic,quintic}.rs, as modelled in Model/FieldGeneric.v
   (tied to the implementation by the C14 correspondence run), computes what it should over EVERY
   field: exponentiation, the Powers iterator, batch inversion (all lengths), the extension rings
   F[X]/(X^D - W) for D in {2,4,5} with their Frobenius maps and inversion chains, the facts about the
   Goldilocks constants these theorems need, and inverse_2exp for all exponents.
   Property theorems only; each is closed by [exact] of a lemma proved in Proofs/. *)
From Coq Require Import ZArith NArith List Zpow_facts.
From Verif Require Import Base.Field Gen.FieldConsts Model.Fp Model.FieldGeneric
  Proofs.FpFieldPrime Proofs.FieldGeneric Proofs.FieldGenericExt Proofs.FieldGenericFp.
Import ListNotations.

Section AnyField.
  Context {F : Type} `{FL : FieldLaws F}.

  (* ---------------- 1. exponentiation ---------------- *)

  (* exp_u64 (square-and-multiply over the bits_u64(n) low bits) is x^n, for every n *)
  Theorem C14b_exp_u64_correct : forall (x : F) (n : N), exp_u64 x n = fpow x (N.to_nat n).
  Proof. exact exp_u64_correct. Qed.

  (* k squarings give x^(2^k) *)
  Theorem C14b_exp_power_of_2_correct : forall k (x : F), exp_power_of_2 x k = fpow x (2 ^ k).
  Proof. exact exp_power_of_2_correct. Qed.

  (* base.powers().take(n) = [1, base, base^2, ..] *)
  Theorem C14b_powers_correct : forall (base : F) n,
    length (powers base n) = n /\
    forall i, (i < n)%nat -> nth i (powers base n) 0%F = fpow base i.
  Proof. exact powers_correct. Qed.

  (* ---------------- 2. batch inversion ---------------- *)

  (* batch_multiplicative_inverse (special cases n = 0..3, four interleaved Montgomery chains for
     n >= 4, any n mod 4): on non-zero inputs of ANY length, every output is the inverse of the
     corresponding input *)
  Theorem C14b_batch_inverse_correct : forall xs : list F,
    Forall (fun x => x <> 0%F) xs ->
    length (batch_multiplicative_inverse xs) = length xs /\
    forall i, (i < length xs)%nat ->
      (nth i (batch_multiplicative_inverse xs) 0 * nth i xs 0 = 1)%F.
  Proof. exact batch_inverse_correct. Qed.

  (* ---------------- 3. F[X]/(X^D - W) is a commutative ring, D in {2,4,5} ---------------- *)

  Theorem C14b_ext_mul_length : forall D (W : F) a b, length (ext_mul D W a b) = D.
  Proof. exact ext_mul_length. Qed.

  Theorem C14b_ext_mul_comm : forall D (W : F) a b, (D = 2 \/ D = 4 \/ D = 5)%nat ->
    length a = D -> length b = D -> ext_mul D W a b = ext_mul D W b a.
  Proof. exact ext_mul_comm. Qed.

  Theorem C14b_ext_mul_assoc : forall D (W : F) a b c, (D = 2 \/ D = 4 \/ D = 5)%nat ->
    length a = D -> length b = D -> length c = D ->
    ext_mul D W a (ext_mul D W b c) = ext_mul D W (ext_mul D W a b) c.
  Proof. exact ext_mul_assoc. Qed.

  Theorem C14b_ext_mul_add_distr_l : forall D (W : F) a b c, (D = 2 \/ D = 4 \/ D = 5)%nat ->
    length a = D -> length b = D -> length c = D ->
    ext_mul D W a (ext_add b c) = ext_add (ext_mul D W a b) (ext_mul D W a c).
  Proof. exact ext_mul_add_distr_l. Qed.

  Theorem C14b_ext_mul_add_distr_r : forall D (W : F) a b c, (D = 2 \/ D = 4 \/ D = 5)%nat ->
    length a = D -> length b = D -> length c = D ->
    ext_mul D W (ext_add a b) c = ext_add (ext_mul D W a c) (ext_mul D W b c).
  Proof. exact ext_mul_add_distr_r. Qed.

  Theorem C14b_ext_mul_1_l : forall D (W : F) a, (D = 2 \/ D = 4 \/ D = 5)%nat ->
    length a = D -> ext_mul D W (ext_of_base D 1%F) a = a.
  Proof. exact ext_mul_1_l. Qed.

  Theorem C14b_ext_mul_1_r : forall D (W : F) a, (D = 2 \/ D = 4 \/ D = 5)%nat ->
    length a = D -> ext_mul D W a (ext_of_base D 1%F) = a.
  Proof. exact ext_mul_1_r. Qed.

  (* additive group (coefficientwise) *)
  Theorem C14b_ext_add_comm : forall D (a b : list F), (D = 2 \/ D = 4 \/ D = 5)%nat ->
    length a = D -> length b = D -> ext_add a b = ext_add b a.
  Proof. exact ext_add_comm. Qed.

  Theorem C14b_ext_add_assoc : forall D (a b c : list F), (D = 2 \/ D = 4 \/ D = 5)%nat ->
    length a = D -> length b = D -> length c = D ->
    ext_add a (ext_add b c) = ext_add (ext_add a b) c.
  Proof. exact ext_add_assoc. Qed.

  Theorem C14b_ext_add_0_l : forall D (a : list F), (D = 2 \/ D = 4 \/ D = 5)%nat ->
    length a = D -> ext_add (ext_zero D) a = a.
  Proof. exact ext_add_0_l. Qed.

  Theorem C14b_ext_add_neg_r : forall D (a : list F), (D = 2 \/ D = 4 \/ D = 5)%nat ->
    length a = D -> ext_add a (ext_neg a) = ext_zero D.
  Proof. exact ext_add_neg_r. Qed.

  Theorem C14b_ext_sub_def : forall D (a b : list F), (D = 2 \/ D = 4 \/ D = 5)%nat ->
    length a = D -> length b = D -> ext_sub a b = ext_add a (ext_neg b).
  Proof. exact ext_sub_def. Qed.

  (* the base field is a subring; scalar_mul is multiplication by an embedded base element *)
  Theorem C14b_ext_of_base_mul : forall D (W x y : F), (D = 2 \/ D = 4 \/ D = 5)%nat ->
    ext_mul D W (ext_of_base D x) (ext_of_base D y) = ext_of_base D (x * y)%F.
  Proof. exact ext_of_base_mul. Qed.

  Theorem C14b_ext_scalar_mul_eq : forall D (W : F) a s, (D = 2 \/ D = 4 \/ D = 5)%nat ->
    length a = D -> ext_scalar_mul a s = ext_mul D W a (ext_of_base D s).
  Proof. exact ext_scalar_mul_eq. Qed.

  (* the three specialised Square impls agree with the product *)
  Theorem C14b_ext2_square_eq_mul : forall (W : F) a, length a = 2%nat ->
    ext2_square W a = ext_mul 2 W a a.
  Proof. exact ext2_square_eq_mul. Qed.

  Theorem C14b_ext4_square_eq_mul : forall (W : F) a, length a = 4%nat ->
    ext4_square W a = ext_mul 4 W a a.
  Proof. exact ext4_square_eq_mul. Qed.

  Theorem C14b_ext5_square_eq_mul : forall (W : F) a, length a = 5%nat ->
    ext5_square W a = ext_mul 5 W a a.
  Proof. exact ext5_square_eq_mul. Qed.

  (* ---------------- 4. Frobenius ---------------- *)

  (* The map a_i -> a_i z^i respects X^D = W, i.e. is multiplicative, exactly when z^D = 1
     (for W <> 0). *)
  Theorem C14b_ext_twist_mul_iff : forall D (W z : F), (D = 2 \/ D = 4 \/ D = 5)%nat -> W <> 0%F ->
    ((forall a b, length a = D -> length b = D ->
       ext_twist D z (ext_mul D W a b) = ext_mul D W (ext_twist D z a) (ext_twist D z b))
     <-> fpow z D = 1%F).
  Proof. exact ext_twist_mul_iff. Qed.

  (* repeated_frobenius(k) is that map for z = DTH_ROOT^(k mod D) *)
  Theorem C14b_erf_twist : forall D (DTH : F) a k, (D = 2 \/ D = 4 \/ D = 5)%nat -> length a = D ->
    ext_repeated_frobenius D DTH a k = ext_twist D (fpow DTH (k mod D)) a.
  Proof. exact erf_twist. Qed.

  (* hence, if DTH_ROOT^D = 1, repeated_frobenius is a ring homomorphism fixing the base field,
     counts add up, and D applications give the identity *)
  Theorem C14b_ext_frobenius_mul : forall D (W DTH : F) a b k, (D = 2 \/ D = 4 \/ D = 5)%nat ->
    fpow DTH D = 1%F -> length a = D -> length b = D ->
    ext_repeated_frobenius D DTH (ext_mul D W a b) k =
    ext_mul D W (ext_repeated_frobenius D DTH a k) (ext_repeated_frobenius D DTH b k).
  Proof. exact ext_frobenius_mul. Qed.

  Theorem C14b_ext_frobenius_add : forall D (DTH : F) a b k, (D = 2 \/ D = 4 \/ D = 5)%nat ->
    length a = D -> length b = D ->
    ext_repeated_frobenius D DTH (ext_add a b) k =
    ext_add (ext_repeated_frobenius D DTH a k) (ext_repeated_frobenius D DTH b k).
  Proof. exact ext_frobenius_add. Qed.

  Theorem C14b_ext_frobenius_of_base : forall D (DTH x : F) k, (D = 2 \/ D = 4 \/ D = 5)%nat ->
    ext_repeated_frobenius D DTH (ext_of_base D x) k = ext_of_base D x.
  Proof. exact ext_frobenius_of_base. Qed.

  Theorem C14b_ext_frobenius_compose : forall D (DTH : F) a j k, (D = 2 \/ D = 4 \/ D = 5)%nat ->
    fpow DTH D = 1%F -> length a = D ->
    ext_repeated_frobenius D DTH (ext_repeated_frobenius D DTH a j) k =
    ext_repeated_frobenius D DTH a (j + k).
  Proof. exact ext_frobenius_compose. Qed.

  Theorem C14b_ext_frobenius_order : forall D (DTH : F) a, (D = 2 \/ D = 4 \/ D = 5)%nat ->
    fpow DTH D = 1%F -> length a = D -> ext_repeated_frobenius D DTH a D = a.
  Proof. exact ext_frobenius_order. Qed.

  (* ---------------- 5. try_inverse ---------------- *)

  (* In all three theorems DTH_ROOT is only assumed to be a primitive D-th root of unity; that the
     "norm" a^r lies in the base field (higher coefficients vanish) is DERIVED, not assumed.  The
     remaining hypothesis is that the norm (the value the code inverts in the base field) is
     non-zero; for a <> 0 this holds iff X^D - W is irreducible, see C14b_ext2_norm_nonzero. *)
  Theorem C14b_ext2_try_inverse_correct : forall (W DTH : F) a,
    length a = 2%nat -> fpow DTH 2 = 1%F -> DTH <> 1%F ->
    nthF (ext_mul 2 W (ext_frobenius 2 DTH a) a) 0 <> 0%F ->
    exists r, ext2_try_inverse W DTH a = Some r /\ length r = 2%nat /\
              ext_mul 2 W a r = ext_of_base 2 1%F.
  Proof. exact ext2_try_inverse_correct. Qed.

  Theorem C14b_ext4_try_inverse_correct : forall (W DTH : F) a,
    length a = 4%nat -> fpow DTH 4 = 1%F -> fpow DTH 2 <> 1%F ->
    (let a_pow_p := ext_frobenius 4 DTH a in
     let a_pow_p_plus_1 := ext_mul 4 W a_pow_p a in
     let a_pow_p3_plus_p2 := ext_repeated_frobenius 4 DTH a_pow_p_plus_1 2 in
     let a_pow_r_minus_1 := ext_mul 4 W a_pow_p3_plus_p2 a_pow_p in
     nthF (ext_mul 4 W a_pow_r_minus_1 a) 0) <> 0%F ->
    exists r, ext4_try_inverse W DTH a = Some r /\ length r = 4%nat /\
              ext_mul 4 W a r = ext_of_base 4 1%F.
  Proof. exact ext4_try_inverse_correct. Qed.

  Theorem C14b_ext5_try_inverse_correct : forall (W DTH : F) a,
    length a = 5%nat -> fpow DTH 5 = 1%F -> DTH <> 1%F ->
    (let d := ext_frobenius 5 DTH a in
     let e := ext_mul 5 W d (ext_frobenius 5 DTH d) in
     let f := ext_mul 5 W e (ext_repeated_frobenius 5 DTH e 2) in
     nthF a 0 * nthF f 0
     + W * (nthF a 1 * nthF f 4 + nthF a 2 * nthF f 3 + nthF a 3 * nthF f 2 + nthF a 4 * nthF f 1))%F
      <> 0%F ->
    exists r, ext5_try_inverse W DTH a = Some r /\ length r = 5%nat /\
              ext_mul 5 W a r = ext_of_base 5 1%F.
  Proof. exact ext5_try_inverse_correct. Qed.

  (* None is returned exactly for the all-zero coefficient vector *)
  Theorem C14b_ext_try_inverse_none : forall (W DTH : F) a,
    (ext2_try_inverse W DTH a = None <-> ext_is_zero a = true) /\
    (ext4_try_inverse W DTH a = None <-> ext_is_zero a = true) /\
    (ext5_try_inverse W DTH a = None <-> ext_is_zero a = true).
  Proof. exact ext_try_inverse_none. Qed.

  (* D = 2: the norm a0^2 - W a1^2 of a non-zero element is non-zero when W is not a square *)
  Theorem C14b_ext2_norm_nonzero : forall (W : F) a,
    (forall s, (s * s)%F <> W) -> length a = 2%nat -> ext_is_zero a = false ->
    nthF (ext_mul 2 W (ext_frobenius 2 (- (1))%F a) a) 0 <> 0%F.
  Proof. exact ext2_norm_nonzero. Qed.
End AnyField.

(* ---------------- 6. the Goldilocks constants (regenerated from /repo) ---------------- *)
Open Scope Z_scope.

(* POWER_OF_TWO_GENERATOR has order exactly 2^32 = 2^TWO_ADICITY *)
Theorem C14b_power_of_two_generator_order :
  TWO_ADICITY = 32 /\
  exp_power_of_2 (toFp POWER_OF_TWO_GENERATOR) 32 = 1%F /\
  exp_power_of_2 (toFp POWER_OF_TWO_GENERATOR) 31 <> 1%F.
Proof.
  exact (conj two_adicity_val (conj power_of_two_generator_order power_of_two_generator_primitive)).
Qed.

Theorem C14b_power_of_two_generator_fpow :
  fpow (toFp POWER_OF_TWO_GENERATOR) (2 ^ 32) = 1%F /\
  fpow (toFp POWER_OF_TWO_GENERATOR) (2 ^ 31) <> 1%F.
Proof. exact power_of_two_generator_fpow. Qed.

Theorem C14b_P_minus_1_two_adic :
  P - 1 = 2 ^ TWO_ADICITY * (2 ^ 32 - 1) /\ Z.odd (2 ^ 32 - 1) = true.
Proof. exact P_minus_1_two_adic. Qed.

Theorem C14b_power_of_two_generator_def :
  POWER_OF_TWO_GENERATOR = Zpow_mod MULTIPLICATIVE_GROUP_GENERATOR ((P - 1) / 2 ^ 32) P.
Proof. exact power_of_two_generator_def. Qed.

(* DTH_ROOT = W^((P-1)/D), a primitive D-th root of unity: the hypotheses of the Frobenius and
   try_inverse theorems hold for the three Goldilocks extensions *)
Theorem C14b_dth_root_def :
  EXT2_DTH_ROOT = Zpow_mod EXT2_W ((P - 1) / 2) P /\
  EXT4_DTH_ROOT = Zpow_mod EXT4_W ((P - 1) / 4) P /\
  EXT5_DTH_ROOT = Zpow_mod EXT5_W ((P - 1) / 5) P.
Proof. exact (conj ext2_dth_root_def (conj ext4_dth_root_def ext5_dth_root_def)). Qed.

Theorem C14b_dth_root_order :
  (fpow (toFp EXT2_DTH_ROOT) 2 = 1%F /\ toFp EXT2_DTH_ROOT <> 1%F) /\
  (fpow (toFp EXT4_DTH_ROOT) 4 = 1%F /\ fpow (toFp EXT4_DTH_ROOT) 2 <> 1%F) /\
  (fpow (toFp EXT5_DTH_ROOT) 5 = 1%F /\ toFp EXT5_DTH_ROOT <> 1%F).
Proof.
  exact (conj (conj ext2_dth_root_order ext2_dth_root_neq_1)
        (conj (conj ext4_dth_root_order ext4_dth_root_sq_neq_1)
              (conj ext5_dth_root_order ext5_dth_root_neq_1))).
Qed.

Theorem C14b_goldilocks_frobenius_mul :
  (forall a b k, length a = 2%nat -> length b = 2%nat ->
     ext_repeated_frobenius 2 (toFp EXT2_DTH_ROOT) (ext_mul 2 (toFp EXT2_W) a b) k =
     ext_mul 2 (toFp EXT2_W) (ext_repeated_frobenius 2 (toFp EXT2_DTH_ROOT) a k)
                             (ext_repeated_frobenius 2 (toFp EXT2_DTH_ROOT) b k)) /\
  (forall a b k, length a = 4%nat -> length b = 4%nat ->
     ext_repeated_frobenius 4 (toFp EXT4_DTH_ROOT) (ext_mul 4 (toFp EXT4_W) a b) k =
     ext_mul 4 (toFp EXT4_W) (ext_repeated_frobenius 4 (toFp EXT4_DTH_ROOT) a k)
                             (ext_repeated_frobenius 4 (toFp EXT4_DTH_ROOT) b k)) /\
  (forall a b k, length a = 5%nat -> length b = 5%nat ->
     ext_repeated_frobenius 5 (toFp EXT5_DTH_ROOT) (ext_mul 5 (toFp EXT5_W) a b) k =
     ext_mul 5 (toFp EXT5_W) (ext_repeated_frobenius 5 (toFp EXT5_DTH_ROOT) a k)
                             (ext_repeated_frobenius 5 (toFp EXT5_DTH_ROOT) b k)).
Proof. exact goldilocks_frobenius_mul. Qed.

(* W = 7 is a quadratic non-residue mod P, so the Goldilocks quadratic extension inverts EVERY
   non-zero element (no norm hypothesis left) *)
Theorem C14b_ext2_W_nonsquare : forall s : Fp, (s * s)%F <> toFp EXT2_W.
Proof. exact ext2_W_nonsquare. Qed.

Theorem C14b_goldilocks_ext2_inverse : forall a : list Fp,
  length a = 2%nat -> ext_is_zero a = false ->
  exists r, ext2_try_inverse (toFp EXT2_W) (toFp EXT2_DTH_ROOT) a = Some r /\ length r = 2%nat /\
            ext_mul 2 (toFp EXT2_W) a r = ext_of_base 2 1%F.
Proof. exact goldilocks_ext2_inverse. Qed.

(* EXT_POWER_OF_TWO_GENERATOR has order exactly 2^33 / 2^34 / 2^32 (repeated squaring reaches -1
   one step before 1) *)
Theorem C14b_ext_power_of_two_generator_order :
  (map fval (Nat.iter 33 (ext_sq 2 EXT2_W) (map toFp EXT2_EXT_POWER_OF_TWO_GENERATOR)) = [1; 0] /\
   map fval (Nat.iter 32 (ext_sq 2 EXT2_W) (map toFp EXT2_EXT_POWER_OF_TWO_GENERATOR)) = [P - 1; 0]) /\
  (map fval (Nat.iter 34 (ext_sq 4 EXT4_W) (map toFp EXT4_EXT_POWER_OF_TWO_GENERATOR)) = [1; 0; 0; 0] /\
   map fval (Nat.iter 33 (ext_sq 4 EXT4_W) (map toFp EXT4_EXT_POWER_OF_TWO_GENERATOR)) = [P - 1; 0; 0; 0]) /\
  (map fval (Nat.iter 32 (ext_sq 5 EXT5_W) (map toFp EXT5_EXT_POWER_OF_TWO_GENERATOR)) = [1; 0; 0; 0; 0] /\
   map fval (Nat.iter 31 (ext_sq 5 EXT5_W) (map toFp EXT5_EXT_POWER_OF_TWO_GENERATOR)) = [P - 1; 0; 0; 0; 0]).
Proof.
  exact (conj ext2_power_of_two_generator_order
        (conj ext4_power_of_two_generator_order ext5_power_of_two_generator_order)).
Qed.

(* ---------------- 7. inverse_2exp ---------------- *)

(* inverse_2exp(k) is the inverse of 2^k for EVERY k (direct formula for k <= 32, the
   inverse_2_pow_adicity loop beyond) *)
Theorem C14b_inverse_2exp_correct : forall k : nat,
  (fval (inverse_2exp toFp ORDER 32 k) * 2 ^ Z.of_nat k) mod P = 1.
Proof. exact inverse_2exp_correct. Qed.

Theorem C14b_inverse_2exp_field : forall k : nat,
  (inverse_2exp toFp ORDER 32 k * fpow (toFp 2) k)%F = 1%F.
Proof. exact inverse_2exp_field. Qed.

(* ---------------- non-vacuity ---------------- *)

(* a non-zero list of length 7 (= 3 mod 4) exercises the general batch-inversion path *)
Example C14b_batch_inverse_example :
  let xs := map toFp [3; 5; 7; 11; 13; 17; P - 1] in
  Forall (fun x => x <> 0%F) xs /\
  map (fun p => fval (fst p * snd p)%F) (combine (batch_multiplicative_inverse xs) xs) = repeat 1 7.
Proof.
  split.
  - repeat constructor; intros E; apply (f_equal fval) in E; vm_compute in E; discriminate E.
  - vm_compute. reflexivity.
Qed.

Example C14b_exp_u64_example : fval (exp_u64 (toFp 3) (N.of_nat 1000)) = Zpow_mod 3 1000 P.
Proof. vm_compute. reflexivity. Qed.

(* the norm hypotheses of the quartic / quintic inverse theorems hold for concrete elements, and
   the computed inverses multiply back to one *)
Example C14b_ext4_inverse_example :
  let a := map toFp [1; 2; 3; 4] in
  let W := toFp EXT4_W in let DTH := toFp EXT4_DTH_ROOT in
  ext4_norm W DTH a <> 0%F /\
  option_map (fun r => map fval (ext_mul 4 W a r)) (ext4_try_inverse W DTH a) = Some [1; 0; 0; 0].
Proof.
  split.
  - intros E; apply (f_equal fval) in E; vm_compute in E; discriminate E.
  - vm_compute. reflexivity.
Qed.

Example C14b_ext5_inverse_example :
  let a := map toFp [1; 2; 3; 4; 5] in
  let W := toFp EXT5_W in let DTH := toFp EXT5_DTH_ROOT in
  ext5_norm W DTH a <> 0%F /\
  option_map (fun r => map fval (ext_mul 5 W a r)) (ext5_try_inverse W DTH a) = Some [1; 0; 0; 0; 0].
Proof.
  split.
  - intros E; apply (f_equal fval) in E; vm_compute in E; discriminate E.
  - vm_compute. reflexivity.
Qed.

Example C14b_inverse_2exp_example :
  fval (inverse_2exp toFp ORDER 32 100) * Zpow_mod 2 100 P mod P = 1.
Proof. vm_compute. reflexivity. Qed.
