(* C12 - Merkle commitments open only to the committed leaf at the committed position.
   Property theorems only; each is closed by [exact] of a lemma of Proofs/Merkle.v.
   The model (Model/Merkle.v) mirrors hash/merkle_tree.rs, merkle_proofs.rs; the hash is abstract:
   [hash_leaf] = H::hash_or_noop, [two_to_one] = H::two_to_one, [digest_eqb] = equality of H::Hash.
   All statements hold for EVERY tree size 2^k, cap height h <= k and position (no bound).
   [merkle_cap leaves h] / [merkle_prove leaves h i] are MerkleTree::new(leaves, h).cap and
   .prove(i), computed through the code-shaped fill_subtree / fill_digests_buf / merkle_tree_prove
   ([None] would be a panic or an unwritten MaybeUninit slot). *)
From Coq Require Import List Arith Bool ZArith Permutation.
From Verif Require Import Base.Field Model.Fp Model.Merkle Model.MerklePoseidonInst Proofs.Merkle
  Proofs.MerkleCompression Proofs.MerkleInst.
Import ListNotations.
Local Open Scope nat_scope.

Section C12.
  Variable F : Type.
  Variable digest : Type.
  Variable hash_leaf : list F -> digest.
  Variable two_to_one : digest -> digest -> digest.
  Variable digest_eqb : digest -> digest -> bool.
  Hypothesis digest_eqb_spec : forall a b, digest_eqb a b = true <-> a = b.

  Notation verify := (verify_merkle_proof_to_cap F digest hash_leaf two_to_one digest_eqb).
  Notation cap_of := (merkle_cap F digest hash_leaf two_to_one).
  Notation prove := (merkle_prove F digest hash_leaf two_to_one).

  (* the proof produced for position i verifies against the tree's cap together with leaf i *)
  Theorem C12_prove_verify : forall (leaves : list (list F)) (k h i : nat),
    length leaves = 2 ^ k -> h <= k -> i < 2 ^ k ->
    exists cap proof,
      cap_of leaves h = Some cap /\ prove leaves h i = Some proof
      /\ verify (nth i leaves []) i cap proof = true.
  Proof. exact (prove_verify F digest hash_leaf two_to_one digest_eqb digest_eqb_spec). Qed.

  (* the cap computed by the code equals pairwise level-by-level hashing *)
  Theorem C12_cap_is_spec : forall (leaves : list (list F)) (k h : nat),
    length leaves = 2 ^ k -> h <= k ->
    cap_of leaves h = Some (merkle_cap_spec F digest hash_leaf two_to_one leaves h).
  Proof. exact (cap_is_spec F digest hash_leaf two_to_one). Qed.

  (* MerkleTree::new: no panic, no unwritten slot behind set_len *)
  Theorem C12_tree_new_total : forall (leaves : list (list F)) (k h : nat),
    length leaves = 2 ^ k -> h <= k ->
    exists t, merkle_tree_new F digest hash_leaf two_to_one leaves h = Some t
              /\ mt_leaves t = leaves
              /\ length (mt_digests t) = 2 * (2 ^ k - 2 ^ h)
              /\ mt_cap t = merkle_cap_spec F digest hash_leaf two_to_one leaves h.
  Proof. exact (merkle_tree_new_total F digest hash_leaf two_to_one). Qed.

  (* write set of fill_digests_buf: exactly [0, 2(2^k - 2^h)) and [0, 2^h), each slot once *)
  Theorem C12_layout_total_disjoint : forall (leaves : list (list F)) (k h : nat),
    length leaves = 2 ^ k -> h <= k ->
    exists dw cw : list (nat * digest),
      fill_digests_buf F digest hash_leaf two_to_one 0 (2 * (2 ^ k - 2 ^ h)) (2 ^ h) leaves h
      = Some (dw, cw)
      /\ Permutation (map fst dw) (seq 0 (2 * (2 ^ k - 2 ^ h)))
      /\ Permutation (map fst cw) (seq 0 (2 ^ h))
      /\ NoDup (map fst dw) /\ NoDup (map fst cw)
      /\ (forall i, In i (map fst dw) <-> i < 2 * (2 ^ k - 2 ^ h))
      /\ (forall i, In i (map fst cw) <-> i < 2 ^ h).
  Proof. exact (layout_total_disjoint F digest hash_leaf two_to_one). Qed.

  (* the two branches of [join] in fill_subtree write disjoint windows *)
  Theorem C12_join_branches_disjoint : forall (k fuel off : nat) (leaves : list (list F)),
    length leaves = 2 ^ S k -> S k < fuel ->
    exists ld lw rd rw,
      fill_subtree F digest hash_leaf two_to_one fuel off (2 * (2 ^ k - 1)) (firstn (2 ^ k) leaves)
      = Some (ld, lw)
      /\ fill_subtree F digest hash_leaf two_to_one fuel (off + 2 * (2 ^ k - 1) + 2)
                      (2 * (2 ^ k - 1)) (skipn (2 ^ k) leaves) = Some (rd, rw)
      /\ (forall i, In i (map fst lw) <-> off <= i < off + 2 * (2 ^ k - 1))
      /\ (forall i, In i (map fst rw) <-> off + 2 * (2 ^ k - 1) + 2 <= i < off + 2 * (2 ^ S k - 1))
      /\ (forall i, In i (map fst lw) -> In i (map fst rw) -> False).
  Proof. exact (fill_subtree_halves_disjoint F digest hash_leaf two_to_one). Qed.

  (* writes to distinct slots commute: every schedule of the tasks yields the same buffer *)
  Theorem C12_schedule_independent : forall (ws ws' : list (nat * digest)),
    Permutation ws ws' -> NoDup (map fst ws) ->
    forall buf, apply_writes digest ws buf = apply_writes digest ws' buf.
  Proof. exact (apply_writes_perm digest). Qed.

  (* binding, with the collision exhibited as a value *)
  Theorem C12_verify_binding : forall (l l' : list F) (i : nat) (cap p p' : list digest),
    verify l i cap p = true -> verify l' i cap p' = true ->
    length p = length p' -> (l, p) <> (l', p') ->
    { x : list F * list F | fst x <> snd x /\ hash_leaf (fst x) = hash_leaf (snd x) }
    + { x : (digest * digest) * (digest * digest)
      | fst x <> snd x
        /\ two_to_one (fst (fst x)) (snd (fst x)) = two_to_one (fst (snd x)) (snd (snd x)) }.
  Proof. exact (verify_binding F digest hash_leaf two_to_one digest_eqb digest_eqb_spec). Qed.

  Theorem C12_verify_binding_ex : forall (l l' : list F) (i : nat) (cap p p' : list digest),
    verify l i cap p = true -> verify l' i cap p' = true ->
    length p = length p' -> (l, p) <> (l', p') ->
    (exists x y, x <> y /\ hash_leaf x = hash_leaf y)
    \/ (exists a b a' b', (a, b) <> (a', b') /\ two_to_one a b = two_to_one a' b').
  Proof. exact (verify_binding_ex F digest hash_leaf two_to_one digest_eqb digest_eqb_spec). Qed.

  (* a leaf other than the committed one at position i (any i: also "the same leaf at another
     position where it is not committed") is rejected or exhibits a collision *)
  Theorem C12_other_leaf_collision : forall (leaves : list (list F)) (k h i : nat) (cap : list digest)
      (l' : list F) (p' : list digest),
    length leaves = 2 ^ k -> h <= k -> i < 2 ^ k ->
    cap_of leaves h = Some cap ->
    verify l' i cap p' = true -> length p' = k - h -> l' <> nth i leaves [] ->
    { x : list F * list F | fst x <> snd x /\ hash_leaf (fst x) = hash_leaf (snd x) }
    + { x : (digest * digest) * (digest * digest)
      | fst x <> snd x
        /\ two_to_one (fst (fst x)) (snd (fst x)) = two_to_one (fst (snd x)) (snd (snd x)) }.
  Proof. exact (other_leaf_collision F digest hash_leaf two_to_one digest_eqb digest_eqb_spec). Qed.

  (* an altered sibling is rejected or exhibits a collision *)
  Theorem C12_altered_sibling_collision : forall (leaves : list (list F)) (k h i : nat)
      (cap pr p' : list digest),
    length leaves = 2 ^ k -> h <= k -> i < 2 ^ k ->
    cap_of leaves h = Some cap -> prove leaves h i = Some pr ->
    verify (nth i leaves []) i cap p' = true -> length p' = length pr -> p' <> pr ->
    { x : list F * list F | fst x <> snd x /\ hash_leaf (fst x) = hash_leaf (snd x) }
    + { x : (digest * digest) * (digest * digest)
      | fst x <> snd x
        /\ two_to_one (fst (fst x)) (snd (fst x)) = two_to_one (fst (snd x)) (snd (snd x)) }.
  Proof. exact (altered_sibling_collision F digest hash_leaf two_to_one digest_eqb digest_eqb_spec). Qed.

  (* an altered cap entry on the path is rejected *)
  Theorem C12_altered_cap_rejected : forall (leaves : list (list F)) (k h i : nat)
      (cap pr cap' : list digest),
    length leaves = 2 ^ k -> h <= k -> i < 2 ^ k ->
    cap_of leaves h = Some cap -> prove leaves h i = Some pr ->
    nth_error cap' (i / 2 ^ (k - h)) <> nth_error cap (i / 2 ^ (k - h)) ->
    verify (nth i leaves []) i cap' pr = false.
  Proof. exact (altered_cap_rejected F digest hash_leaf two_to_one digest_eqb digest_eqb_spec). Qed.

  (* a position whose cap index is out of range is not accepted: the Rust code panics on
     merkle_cap.0[leaf_index] (an unclean failure, reported under C18) *)
  Theorem C12_verify_out_of_range_panics : forall (l : list F) (i : nat) (cap p : list digest),
    length cap <= i / 2 ^ length p ->
    verify_merkle_proof_to_cap_res F digest hash_leaf two_to_one digest_eqb l i cap p = VPanic.
  Proof. exact (verify_out_of_range_panics F digest hash_leaf two_to_one digest_eqb). Qed.

  (* ---- path compression: compressed multi-proofs of one tree decompress to the original
     openings, for every non-empty list of positions (a multiset: duplicates, any order) ---- *)
  Theorem C12_decompress_compress : forall (leaves : list (list F)) (k h : nat)
      (indices : list nat) (proofs : list (list digest)),
    length leaves = 2 ^ k -> h <= k ->
    indices <> [] -> (forall i, In i indices -> i < 2 ^ k) ->
    Forall2 (fun i p => prove leaves h i = Some p) indices proofs ->
    exists cps,
      compress_merkle_proofs digest h indices proofs = Some cps
      /\ decompress_merkle_proofs F digest hash_leaf two_to_one
           (map (fun i => nth i leaves []) indices) indices cps k h = Some proofs.
  Proof. exact (decompress_compress_tree F digest hash_leaf two_to_one). Qed.

  (* ---- batch trees (BatchMerkleTree): layers of 2^k0 > 2^k1 > .. rows, cap height h ---- *)
  Variable digest_to_vec : digest -> list F.

  (* remaining layers (matrix, height) below a stage of height kc: 2^kn rows each, strictly
     decreasing heights, all at least the cap height (the asserts of BatchMerkleTree::new) *)
  Fixpoint batch_shape_ok (kc : nat) (rest : list (list (list F) * nat)) (h : nat) : Prop :=
    match rest with
    | [] => h <= kc
    | (nxt, kn) :: rest' => length nxt = 2 ^ kn /\ kn < kc /\ batch_shape_ok kn rest' h
    end.

  (* open_batch(i) verifies against the batch cap together with values(i), in debug and release *)
  Theorem C12_batch_prove_verify : forall (dbg : bool) (first : list (list F)) (k0 : nat)
      (rest : list (list (list F) * nat)) (h i : nat),
    length first = 2 ^ k0 -> batch_shape_ok k0 rest h -> i < 2 ^ k0 ->
    exists t proof vals,
      batch_merkle_tree_new F digest hash_leaf two_to_one digest_to_vec (first :: map fst rest) h = Some t
      /\ open_batch F digest dbg t i = Some proof
      /\ batch_values F digest t i = Some vals
      /\ verify_batch_merkle_proof_to_cap F digest hash_leaf two_to_one digest_eqb digest_to_vec dbg
           vals (bt_leaf_heights t) i (bt_cap t) proof = VOk.
  Proof. exact (batch_prove_verify F digest hash_leaf two_to_one digest_eqb digest_to_vec digest_eqb_spec). Qed.
End C12.

(* hash_or_noop of a HashOut hasher (Poseidon; Keccak-25 has the same shape with 3 elements):
   injective on leaves of one width <= 4, whatever hash_no_pad is ... *)
Theorem C12_hash_or_noop_injective_same_width : forall (hnp : list Fp -> list Fp) (a b : list Fp),
  length a = length b -> length a <= 4 -> hash_or_noop hnp a = hash_or_noop hnp b -> a = b.
Proof. exact hash_or_noop_injective_same_width. Qed.

(* ... and NOT injective across widths: "same width" in the property is necessary *)
Theorem C12_hash_or_noop_pads : forall (hnp : list Fp -> list Fp) (a : list Fp),
  length a < 4 -> hash_or_noop hnp a = hash_or_noop hnp (a ++ [toFp 0]).
Proof. exact hash_or_noop_pads. Qed.

(* ---- non-vacuity: concrete instances (ToyHash runs inside Coq) ---- *)
Definition toy_leaves : list (list Fp) :=
  map (fun j => map (fun c => toFp (Z.of_nat (7 * j + c))) (seq 0 5)) (seq 0 8).

Fixpoint all_some {A} (l : list (option A)) : option (list A) :=
  match l with
  | [] => Some []
  | Some a :: r => option_map (cons a) (all_some r)
  | None :: _ => None
  end.

Definition digests_eqb (a b : list (list Fp)) : bool :=
  (length a =? length b) && forallb (fun p => digest_eqb (fst p) (snd p)) (combine a b).
Example C12_example_tree :
  match merkle_cap Fp (list Fp) toy_hash_or_noop toy_two_to_one toy_leaves 1,
        merkle_prove Fp (list Fp) toy_hash_or_noop toy_two_to_one toy_leaves 1 5 with
  | Some cap, Some proof =>
    digests_eqb cap (merkle_cap_spec Fp (list Fp) toy_hash_or_noop toy_two_to_one toy_leaves 1)
    && (length cap =? 2) && (length proof =? 2)
    && verify_merkle_proof_to_cap Fp (list Fp) toy_hash_or_noop toy_two_to_one digest_eqb
         (nth 5 toy_leaves []) 5 cap proof
    && negb (verify_merkle_proof_to_cap Fp (list Fp) toy_hash_or_noop toy_two_to_one digest_eqb
         (nth 4 toy_leaves []) 5 cap proof)
  | _, _ => false
  end = true.
Proof. vm_compute. reflexivity. Qed.

Example C12_example_batch :
  let first := toy_leaves in
  let second := map (fun j => [toFp (Z.of_nat (100 + j))]) (seq 0 2) in
  match batch_merkle_tree_new Fp (list Fp) toy_hash_or_noop toy_two_to_one (fun d => d) [first; second] 0 with
  | Some t =>
    match open_batch Fp (list Fp) false t 6, batch_values Fp (list Fp) t 6 with
    | Some proof, Some vals =>
      (length proof =? 3) && (length vals =? 2)
      && match verify_batch_merkle_proof_to_cap Fp (list Fp) toy_hash_or_noop toy_two_to_one digest_eqb
                 (fun d => d) false vals (bt_leaf_heights t) 6 (bt_cap t) proof with VOk => true | _ => false end
    | _, _ => false
    end
  | None => false
  end = true.
Proof. vm_compute. reflexivity. Qed.

Example C12_example_compression :
  let idx := [5; 1; 5; 4; 0] in
  match all_some (map (merkle_prove Fp (list Fp) toy_hash_or_noop toy_two_to_one toy_leaves 1) idx) with
  | Some proofs =>
    match compress_merkle_proofs (list Fp) 1 idx proofs with
    | Some cps =>
      (* 10 siblings shrink to 2 *)
      (fold_left (fun a p => a + length p) proofs 0 =? 10)
      && (fold_left (fun a p => a + length p) cps 0 =? 2)
      && match decompress_merkle_proofs Fp (list Fp) toy_hash_or_noop toy_two_to_one
                 (map (fun i => nth i toy_leaves []) idx) idx cps 3 1 with
         | Some back => forallb (fun pq => digests_eqb (fst pq) (snd pq)) (combine back proofs)
                        && (length back =? length proofs)
         | None => false
         end
    | None => false
    end
  | None => false
  end = true.
Proof. vm_compute. reflexivity. Qed.

(* the hypotheses of the binding theorem are satisfiable by two DIFFERENT accepted openings:
   ToyHash is not collision resistant, and the theorem's conclusion is then a real collision *)
Example C12_example_binding_hypotheses :
  let z := toFp 0 in
  let l := [z; z; z; z] in let p := [[z; toFp 31; toFp 1; toFp 1]] in
  let l' := [toFp 17; z; z; z] in let p' := [[z; z; toFp 1; z]] in
  let cap := [toy_two_to_one l (hd [] p)] in
  verify_merkle_proof_to_cap Fp (list Fp) toy_hash_or_noop toy_two_to_one digest_eqb l 0 cap p = true
  /\ verify_merkle_proof_to_cap Fp (list Fp) toy_hash_or_noop toy_two_to_one digest_eqb l' 0 cap p' = true
  /\ length p = length p' /\ (l, p) <> (l', p').
Proof.
  cbv zeta. split; [vm_compute; reflexivity|]. split; [vm_compute; reflexivity|]. split; [reflexivity|].
  intros E. apply (f_equal (fun x => fval (hd (toFp 0) (fst x)))) in E. vm_compute in E. discriminate E.
Qed.

(* the Poseidon instance: one compression, evaluated by the kernel *)
Example C12_example_poseidon_root :
  map fval (poseidon_two_to_one (map toFp [1; 2; 3; 4]%Z) (map toFp [5; 6; 7; 8]%Z))
  = [15064728126975588673; 10314245681893968020; 11300930272442645327; 2830815762300183090]%Z.
Proof. vm_compute. reflexivity. Qed.
