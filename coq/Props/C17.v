(* C17 - Binary encodings round-trip.
   Byte-level codecs of plonky2/src/util/serialization/mod.rs (Model/Codec.v): for ALL values that
   satisfy the guard the WRITER needs (range of the integer type, canonical field representations,
   lengths equal to those the reader takes from the common data, at most 255 Merkle siblings),
       read_X (write_X x ++ rest) = Some (x, rest)      for every continuation `rest`,
   i.e. decoding returns the original value and consumes exactly the bytes that were written.
   The guards are necessary; the boundary facts are stated next to the round trips:
   non-canonical field bytes are accepted (no range check in read_field), a bool byte other than
   0/1 is rejected, a Merkle path of more than 255 siblings can neither be written (panic) nor be
   the result of any decoding, a cap whose length is not a power of two makes the verifier-data
   writer panic.
   Tie to the code: Model/C17Run.v replays `enc_* / dec_*` lines produced by the real writers and
   readers byte for byte (checks/c17.py).  The gate / generator registries and CircuitData are NOT
   modelled; they are covered by the implementation-level round trips of harness/src/c17.rs. *)
From Coq Require Import ZArith List Bool Lia.
From Verif Require Import Base.Reader Gen.FieldConsts Model.Codec Proofs.Codec.
Import ListNotations.
Open Scope Z_scope.

(* ------------------------------------------------------------------ integers and bool *)
Theorem C17_read_u8_write_u8 : forall x rest, 0 <= x < 256 -> read_u8 (write_u8 x ++ rest) = Some (x, rest).
Proof. exact read_u8_write_u8. Qed.
Theorem C17_read_u32_write_u32 : forall x rest, 0 <= x < 4294967296 ->
  read_u32 (write_u32 x ++ rest) = Some (x, rest).
Proof. exact read_u32_write_u32. Qed.
(* usize is written as u64, little endian, 8 bytes *)
Theorem C17_read_usize_write_usize : forall x rest, 0 <= x < 18446744073709551616 ->
  read_usize (write_usize x ++ rest) = Some (x, rest).
Proof. exact read_usize_write_usize. Qed.
Theorem C17_write_usize_is_8_bytes : forall x, length (write_usize x) = 8%nat.
Proof. exact write_usize_length. Qed.
Theorem C17_read_bool_write_bool : forall b rest, read_bool (write_bool b ++ rest) = Some (b, rest).
Proof. exact read_bool_write_bool. Qed.
Theorem C17_read_bool_rejects_other_bytes : forall x rest, 0 <= x < 256 -> x <> 0 -> x <> 1 ->
  read_bool (write_u8 x ++ rest) = None.
Proof. exact read_bool_rejects. Qed.
(* decoding determines the consumed bytes (re-encoding the decoded value gives them back) *)
Theorem C17_read_usize_inv : forall s x rest, Forall (fun b => 0 <= b < 256) s ->
  read_usize s = Some (x, rest) -> s = write_usize x ++ rest /\ 0 <= x < 18446744073709551616.
Proof. exact read_usize_inv. Qed.
Theorem C17_read_short_input_fails : forall n s, (length s < n)%nat -> read_exact n s = None.
Proof. exact read_exact_short. Qed.

(* ------------------------------------------------------------------ field elements *)
Theorem C17_read_field_write_field : forall x rest, 0 <= x < ORDER ->
  read_field (write_field x ++ rest) = Some (x, rest).
Proof. exact read_field_write_field. Qed.
(* for an arbitrary u64 representation the round trip canonicalises *)
Theorem C17_read_field_write_field_any_representation : forall x rest,
  read_field (write_field x ++ rest) = Some (x mod ORDER, rest).
Proof. exact read_field_write_field_repr. Qed.
(* read_field has no range check: the 2^32 - 1 non-canonical encodings are accepted, each decodes to
   the same field element as a different, canonical, encoding *)
Theorem C17_read_field_noncanonical_accepted : forall x rest, ORDER <= x < 2 ^ 64 ->
  read_field (le_bytes 8 x ++ rest) = Some (x, rest)
  /\ le_bytes 8 x <> write_field x
  /\ read_field (write_field x ++ rest) = Some (x - ORDER, rest).
Proof. exact read_field_noncanonical_accepted. Qed.
(* decode-then-encode reproduces the input bytes exactly when the decoded value is canonical *)
Theorem C17_read_field_reencode : forall s x rest, Forall (fun b => 0 <= b < 256) s ->
  read_field s = Some (x, rest) -> (0 <= x < ORDER <-> s = write_field x ++ rest).
Proof. exact read_field_reencode. Qed.
Theorem C17_read_ext_write_ext : forall e rest, wf_ext e -> read_ext (write_ext e ++ rest) = Some (e, rest).
Proof. exact read_ext_write_ext. Qed.
Theorem C17_read_hash_write_hash : forall h rest, length h = 4%nat /\ Forall (fun x => 0 <= x < ORDER) h ->
  read_hash (write_hash h ++ rest) = Some (h, rest).
Proof. exact read_hash_write_hash. Qed.

(* ------------------------------------------------------------------ composition over lists *)
Theorem C17_vector_roundtrip : forall (A : Type) (w : A -> list Z) (r : R A) (Q : A -> Prop),
  (forall x rest, Q x -> r (w x ++ rest) = Some (x, rest)) ->
  forall l rest, Forall Q l -> rd_n (length l) r (concat (map w l) ++ rest) = Some (l, rest).
Proof. exact @rd_n_concat. Qed.
Theorem C17_vector_roundtrip_partial_writer : forall (A : Type) (w : A -> W) (r : R A) (Q : A -> Prop),
  (forall x bs rest, Q x -> w x = Some bs -> r (bs ++ rest) = Some (x, rest)) ->
  forall l bs rest, Forall Q l -> wconcat w l = Some bs -> rd_n (length l) r (bs ++ rest) = Some (l, rest).
Proof. exact @rd_n_wconcat. Qed.
Theorem C17_shaped_vector_roundtrip : forall (A : Type) (w : A -> W) (r : nat -> R A) (Q : nat -> A -> Prop),
  (forall n x bs rest, Q n x -> w x = Some bs -> r n (bs ++ rest) = Some (x, rest)) ->
  forall ns l bs rest, Forall2 Q ns l -> wconcat w l = Some bs -> read_each r ns (bs ++ rest) = Some (l, rest).
Proof. exact @read_each_wconcat. Qed.
Theorem C17_read_usize_vec_write : forall v rest,
  Forall (fun x => 0 <= x < 18446744073709551616) v /\ 0 <= Z.of_nat (length v) < 18446744073709551616 ->
  read_usize_vec (write_usize_vec v ++ rest) = Some (v, rest).
Proof. exact read_usize_vec_write. Qed.
Theorem C17_read_field_vec_write : forall v rest, Forall (fun x => 0 <= x < ORDER) v ->
  read_field_vec (length v) (write_field_vec v ++ rest) = Some (v, rest).
Proof. exact read_field_vec_write. Qed.

(* ------------------------------------------------------------------ caps and Merkle paths *)
(* the cap length is not in the bytes: it must be 2^cap_height of the configuration *)
Theorem C17_read_merkle_cap_write : forall h c rest, wf_cap h c ->
  read_merkle_cap h (write_merkle_cap c ++ rest) = Some (c, rest).
Proof. exact read_merkle_cap_write. Qed.
Theorem C17_read_merkle_cap_length : forall h s c rest, read_merkle_cap h s = Some (c, rest) ->
  length c = (2 ^ h)%nat.
Proof. exact read_merkle_cap_length. Qed.
Theorem C17_read_merkle_proof_write : forall p bs rest, wf_merkle_proof p -> write_merkle_proof p = Some bs ->
  read_merkle_proof (bs ++ rest) = Some (p, rest).
Proof. exact read_merkle_proof_write. Qed.
Theorem C17_write_merkle_proof_defined_up_to_255 : forall p, (length p <= 255)%nat ->
  write_merkle_proof p = Some (write_u8 (Z.of_nat (length p)) ++ concat (map write_hash p)).
Proof. exact write_merkle_proof_some. Qed.
(* boundary: a path of 256 or more siblings is not round-trippable - the writer panics ... *)
Theorem C17_write_merkle_proof_panics_above_255 : forall p, (255 < length p)%nat -> write_merkle_proof p = None.
Proof. exact write_merkle_proof_too_long. Qed.
(* ... and no byte string decodes to one *)
Theorem C17_read_merkle_proof_at_most_255 : forall s p rest, Forall (fun b => 0 <= b < 256) s ->
  read_merkle_proof s = Some (p, rest) -> (length p <= 255)%nat.
Proof. exact read_merkle_proof_at_most_255. Qed.

(* ------------------------------------------------------------------ configuration records *)
Theorem C17_read_fri_reduction_strategy_write : forall s rest, wf_strategy s ->
  read_fri_reduction_strategy (write_fri_reduction_strategy s ++ rest) = Some (s, rest).
Proof. exact read_strategy_write. Qed.
Theorem C17_read_fri_config_write : forall c rest, wf_fri_config c ->
  read_fri_config (write_fri_config c ++ rest) = Some (c, rest).
Proof. exact read_fri_config_write. Qed.
Theorem C17_read_fri_params_write : forall p rest, wf_fri_params p ->
  read_fri_params (write_fri_params p ++ rest) = Some (p, rest).
Proof. exact read_fri_params_write. Qed.
Theorem C17_read_circuit_config_write : forall c rest, wf_circuit_config c ->
  read_circuit_config (write_circuit_config c ++ rest) = Some (c, rest).
Proof. exact read_circuit_config_write. Qed.
Theorem C17_read_verifier_only_write : forall v bs rest, wf_verifier_only v -> write_verifier_only v = Some bs ->
  read_verifier_only (bs ++ rest) = Some (v, rest).
Proof. exact read_verifier_only_write. Qed.
Theorem C17_write_verifier_only_panics : forall v, (forall k, length (vo_cap v) <> (2 ^ k)%nat) ->
  write_verifier_only v = None.
Proof. exact write_verifier_only_panics. Qed.

(* ------------------------------------------------------------------ proofs *)
Theorem C17_read_opening_set_write : forall sh o rest, wf_openings sh o ->
  read_opening_set sh (write_opening_set o ++ rest) = Some (o, rest).
Proof. exact read_opening_set_write. Qed.
Theorem C17_read_fri_initial_proof_write : forall sh p bs rest, wf_initial sh p ->
  write_fri_initial_proof p = Some bs -> read_fri_initial_proof sh (bs ++ rest) = Some (p, rest).
Proof. exact read_fri_initial_proof_write. Qed.
Theorem C17_read_fri_query_step_write : forall ab s bs rest, wf_step ab s -> write_fri_query_step s = Some bs ->
  read_fri_query_step ab (bs ++ rest) = Some (s, rest).
Proof. exact read_fri_query_step_write. Qed.
Theorem C17_read_fri_proof_write : forall sh p bs rest, wf_fri_proof sh p -> write_fri_proof p = Some bs ->
  read_fri_proof sh (bs ++ rest) = Some (p, rest).
Proof. exact read_fri_proof_write. Qed.
Theorem C17_read_proof_write : forall sh p bs rest, wf_proof sh p -> write_proof p = Some bs ->
  read_proof sh (bs ++ rest) = Some (p, rest).
Proof. exact read_proof_write. Qed.

(* ProofWithPublicInputs: a well-formed proof (shape of the common data, canonical field elements,
   Merkle paths of at most 255 siblings) is written without panic, and what was written decodes to
   the same proof, consuming exactly the written bytes *)
Theorem C17_proof_with_public_inputs_roundtrip : forall sh p, wf_pwpi sh p ->
  exists bs, write_proof_with_public_inputs p = Some bs /\
    forall rest, read_proof_with_public_inputs sh (bs ++ rest) = Some (p, rest).
Proof. exact pwpi_roundtrip. Qed.
(* from_bytes ignores whatever follows the encoding *)
Theorem C17_proof_from_bytes_to_bytes : forall sh p bs junk, wf_pwpi sh p ->
  write_proof_with_public_inputs p = Some bs -> proof_from_bytes sh (bs ++ junk) = Some p.
Proof. exact proof_from_bytes_to_bytes. Qed.
Theorem C17_write_proof_panics_on_long_path : forall p q s,
  In q (fr_query_round_proofs (pr_opening_proof (pw_proof p))) -> In s (qr_steps q) ->
  (255 < length (qs_proof s))%nat -> write_proof_with_public_inputs p = None.
Proof. exact write_pwpi_panics_on_long_path. Qed.
(* the reader returns a true suffix of its input: it never looks at or alters what follows *)
Theorem C17_read_proof_consumes_a_prefix : forall sh s x rest,
  read_proof_with_public_inputs sh s = Some (x, rest) -> exists c, s = c ++ rest.
Proof. exact prefix_read_pwpi. Qed.

(* ------------------------------------------------------------------ examples *)
Example C17_ex_integers :
  read_u32 (write_u32 305419896 ++ [7]) = Some (305419896, [7]) /\ write_u32 305419896 = [120; 86; 52; 18]
  /\ write_usize 258 = [2; 1; 0; 0; 0; 0; 0; 0] /\ read_bool [2] = None /\ read_usize [1; 2; 3] = None.
Proof. vm_compute. repeat split. Qed.

(* ORDER + 5 = 0xFFFFFFFF00000006: accepted, and equal as a field element to 5 = [5;0;..] *)
Example C17_ex_noncanonical_field :
  read_field [6; 0; 0; 0; 255; 255; 255; 255] = Some (18446744069414584326, [])
  /\ write_field 18446744069414584326 = [5; 0; 0; 0; 0; 0; 0; 0]
  /\ read_field [5; 0; 0; 0; 0; 0; 0; 0] = Some (5, []).
Proof. vm_compute. repeat split. Qed.

Example C17_ex_strategy_and_config :
  let c := mkFriConfig 3 4 28 16 (MinSize (Some 5)) in
  wf_fri_config c /\ read_fri_config (write_fri_config c ++ [1; 2]) = Some (c, [1; 2])
  /\ read_fri_reduction_strategy [3] = None /\ read_fri_reduction_strategy [2; 2] = None.
Proof.
  cbv zeta. split; [|vm_compute; repeat split].
  unfold wf_fri_config, wf_strategy, u64, u32. cbn. lia.
Qed.

Definition ex_h : HashOut := [1; 2; 3; 18446744069414584320].
Definition ex_shape : Shape := mkShape 0 1 1 1 1 0 0 1 0 [1%nat] 1 1.
Definition ex_proof : ProofWithPublicInputs :=
  mkPwpi
    (mkProof [ex_h] [ex_h] [ex_h]
       (mkOpeningSet [(1, 2)] [(3, 4)] [(5, 6)] [(7, 8)] [(9, 10)] [] [(11, 12)] [] [])
       (mkFriProof [[ex_h]]
          [mkFriQueryRound [([1; 2], [ex_h]); ([3], []); ([4], [ex_h; ex_h]); ([5], [])]
                           [mkFriQueryStep [(1, 1); (2, 2)] [ex_h]]]
          [(0, 18446744069414584320)] 7))
    [42; 0].

Example C17_ex_proof_wf : wf_pwpi ex_shape ex_proof.
Proof.
  unfold wf_pwpi, wf_proof, wf_openings, wf_fri_proof, wf_round, wf_initial, wf_cap, wf_ext_vec, u64.
  cbn.
  assert (Hh : wf_hash ex_h) by (unfold wf_hash, ex_h, fcanon, ORDER; split; [reflexivity|repeat constructor; lia]).
  assert (He : forall a b, 0 <= a < ORDER -> 0 <= b < ORDER -> wf_ext (a, b)) by (intros; split; assumption).
  unfold ORDER in He.
  repeat match goal with
         | |- _ /\ _ => split
         | |- Forall _ _ => constructor
         | |- Forall2 _ _ _ => constructor
         | |- wf_hash ex_h => exact Hh
         | |- wf_ext _ => apply He; lia
         | |- fcanon _ => unfold fcanon, ORDER; lia
         | |- wf_eval_proof _ _ => unfold wf_eval_proof, wf_merkle_proof; cbn
         | |- wf_step _ _ => unfold wf_step, wf_merkle_proof, wf_ext_vec; cbn
         | |- @eq nat _ _ => reflexivity
         | |- (_ <= _)%nat => lia
         | |- _ <= _ < _ => lia
         | |- _ <= _ => lia
         | |- _ < _ => lia
         end.
Qed.

Example C17_ex_proof_roundtrip :
  exists bs, write_proof_with_public_inputs ex_proof = Some bs /\ length bs = 477%nat
    /\ read_proof_with_public_inputs ex_shape (bs ++ [1; 2; 3]) = Some (ex_proof, [1; 2; 3]).
Proof. eexists. split; [vm_compute; reflexivity|]. split; vm_compute; reflexivity. Qed.
