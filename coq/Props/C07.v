(* C07 - Every value a gate computes is pinned by that gate's constraints.
   Property theorems only (each closed by [exact] of a lemma of Proofs/Gates*.v), for ALL gates of
   Model/Gates.v and ALL parameter values (num_ops, limb count and base, bits / copies / extra
   constants, subgroup bits / degree / weights, power bits, num_coeffs; extension degree D = 2).
   Model/Gates.v is tied to plonky2/src/gates/*.rs by the C07 correspondence run.

   Vocabulary:
     gate_generate g consts row = Some row'   the gate's own SimpleGenerators completed the row
     gate_written g                            the wires those generators write
     gate_input_ok g consts row pi             conditions on the wires they do NOT write, which the
                                               rest of the circuit provides (routed constants equal the
                                               gate constants, public-input wires equal the hash, power
                                               bits / swap boolean, BaseSum sum fits in the limbs)
     gate_side p g                             parameter side conditions: 1 <= B < p (BaseSum),
                                               bits, copies >= 1 and 2 < p (RandomAccess),
                                               num_power_bits >= 1, ReducingGate num_coeffs >= 1
     zero_all / nonzero_some                   all constraints zero / some constraint non-zero
   K is any field (FieldLaws) with an embedding of the integers that is injective below p
   (BaseLaws K p); the *_goldilocks theorems instantiate K := Fp, p := P = 2^64 - 2^32 + 1.

   NOT proved here (listed in the report): a formal statement that evaluation commutes with the
   embedding of the base field into the extension (the model is one polymorphic function used at both
   types), and a syntactic degree bound (no constraint AST; see gate_abs_degree in Model/C07Run.v,
   checked by computation for the parameter grid, and the measured degrees of the harness).
   LookupGate / LookupTableGate have no gate constraints; their generators belong to C08. *)
From Coq Require Import ZArith List.
From Verif Require Import Base.Field Gen.FieldConsts Model.Fp Model.FieldGeneric Model.Gates Model.C07Run
  Proofs.FpFieldPrime Proofs.GatesLib Proofs.GatesSimple Proofs.GatesBaseSum Proofs.Gates.
Import ListNotations.
Local Open Scope nat_scope.

(* the evaluator returns exactly as many constraints as the gate declares *)
Theorem C07_count : forall (K : Type) (FO : FieldOps K) (OB : OfBase K)
    (g : gate) (consts wires pi : list K),
  length (gate_eval_unfiltered g consts wires pi) = gate_num_constraints g.
Proof. exact @count. Qed.

(* a row completed by the gate's own generators satisfies every constraint of the gate *)
Theorem C07_gen_sat : forall (K : Type) (FO : FieldOps K) (FL : FieldLaws K) (OB : OfBase K) (TC : ToCanon K)
    (p : Z) (BL : BaseLaws K p) (g : gate) (consts row pi row' : list K),
  gate_side p g -> gate_num_wires g <= length row -> gate_input_ok g consts row pi ->
  gate_generate g consts row = Some row' ->
  zero_all (gate_eval_unfiltered g consts row' pi).
Proof. exact @gen_sat. Qed.

(* replacing any single generator-written wire by any other value violates some constraint *)
Theorem C07_gen_pinned : forall (K : Type) (FO : FieldOps K) (FL : FieldLaws K) (OB : OfBase K) (TC : ToCanon K)
    (p : Z) (BL : BaseLaws K p) (g : gate) (consts row pi row' : list K) (w : nat) (v : K),
  gate_side p g -> gate_num_wires g <= length row -> gate_input_ok g consts row pi ->
  gate_generate g consts row = Some row' ->
  In w (gate_written g) -> v <> nthF row' w ->
  nonzero_some (gate_eval_unfiltered g consts (upd row' w v) pi).
Proof. exact @gen_pinned. Qed.

(* Goldilocks: all hypotheses about the field discharged (FpLaws, Fp_BaseLaws) *)
Theorem C07_gen_sat_goldilocks : forall (g : gate) (consts row pi row' : list Fp),
  gate_side P g -> gate_num_wires g <= length row -> gate_input_ok g consts row pi ->
  gate_generate g consts row = Some row' ->
  zero_all (gate_eval_unfiltered g consts row' pi).
Proof. exact (@gen_sat Fp _ FpLaws _ _ P Fp_BaseLaws). Qed.

Theorem C07_gen_pinned_goldilocks : forall (g : gate) (consts row pi row' : list Fp) (w : nat) (v : Fp),
  gate_side P g -> gate_num_wires g <= length row -> gate_input_ok g consts row pi ->
  gate_generate g consts row = Some row' ->
  In w (gate_written g) -> v <> nthF row' w ->
  nonzero_some (gate_eval_unfiltered g consts (upd row' w v) pi).
Proof. exact (@gen_pinned Fp _ FpLaws _ _ P Fp_BaseLaws). Qed.

(* the degenerate ReducingGate { num_coeffs: 0 } (excluded by gate_side) really is unpinned: its
   generator writes the output wires, the gate has no constraint *)
Theorem C07_reducing_zero_coeffs_unpinned : forall (K : Type) (FO : FieldOps K) (OB : OfBase K) (TC : ToCanon K)
    (consts row pi : list K) (v : K),
  6 <= length row ->
  exists row', gate_generate (ReducingGate 0) consts row = Some row' /\
    In 0 (gate_written (ReducingGate 0)) /\ nthF row' 0 = nthF row 4 /\
    gate_eval_unfiltered (ReducingGate 0) consts (upd row' 0 v) pi = [].
Proof. exact @reducing_zero_unpinned. Qed.

(* filters (gate.rs compute_filter): zero on the other indices of the group and on UNUSED_SELECTOR,
   non-zero on the gate's own index *)
Theorem C07_filter_zero_other : forall (K : Type) (FO : FieldOps K) (FL : FieldLaws K) (OB : OfBase K)
    (row lo hi : nat) (many : bool) (j : nat),
  lo <= j < hi -> j <> row -> compute_filter row lo hi (of_base (Z.of_nat j)) many = fzero.
Proof. exact @filter_zero_other. Qed.

Theorem C07_filter_zero_unused : forall (K : Type) (FO : FieldOps K) (FL : FieldLaws K) (OB : OfBase K)
    (row lo hi : nat),
  compute_filter row lo hi (of_base UNUSED_SELECTOR) true = fzero.
Proof. exact @filter_zero_unused. Qed.

Theorem C07_filter_nonzero_own : forall (K : Type) (FO : FieldOps K) (FL : FieldLaws K) (OB : OfBase K) (TC : ToCanon K)
    (p : Z) (BL : BaseLaws K p) (row lo hi : nat) (many : bool),
  (Z.of_nat hi <= UNUSED_SELECTOR)%Z -> (UNUSED_SELECTOR < p)%Z -> lo <= row < hi ->
  compute_filter row lo hi (of_base (Z.of_nat row)) many <> fzero.
Proof. exact @filter_nonzero_own. Qed.

Theorem C07_filter_nonzero_own_goldilocks : forall (row lo hi : nat) (many : bool),
  (Z.of_nat hi <= UNUSED_SELECTOR)%Z -> lo <= row < hi ->
  compute_filter (K := Fp) row lo hi (of_base (Z.of_nat row)) many <> fzero.
Proof.
  intros row lo hi many Hhi. exact (@filter_nonzero_own Fp _ FpLaws _ _ P Fp_BaseLaws row lo hi many Hhi eq_refl).
Qed.

(* ---- the hypotheses are satisfiable by concrete non-trivial values (Goldilocks) *)
Open Scope Z_scope.
Definition ex_fps (l : list Z) : list Fp := map toFp l.

(* BaseSumGate<4> with 3 limbs on sum = 27 = 3 + 2*4 + 1*16: generated limbs 3, 2, 1; all constraints 0 *)
Example C07_example_base_sum :
  gate_side P (BaseSumGate 4 3) /\ gate_input_ok (BaseSumGate 4 3) [] (ex_fps [27; 0; 0; 0]) [] /\
  option_map (map fval) (gate_generate (BaseSumGate 4 3) [] (ex_fps [27; 0; 0; 0])) = Some [27; 3; 2; 1] /\
  map fval (gate_eval_unfiltered (BaseSumGate 4 3) [] (ex_fps [27; 3; 2; 1]) []) = [0; 0; 0; 0] /\
  (* limb 1 replaced by another in-range value: the sum constraint fails *)
  map fval (gate_eval_unfiltered (BaseSumGate 4 3) [] (upd (ex_fps [27; 3; 2; 1]) 2%nat (toFp 1)) []) <> [0; 0; 0; 0].
Proof.
  split; [split; [auto | reflexivity]|]. split; [vm_compute; reflexivity|].
  split; [vm_compute; reflexivity|]. split; [vm_compute; reflexivity|].
  vm_compute. discriminate.
Qed.

(* ArithmeticGate with two operations, constants (3, 5): outputs 1*2*3 + 3*5 = 21 and 4*5*3 + 6*5 = 90 *)
Example C07_example_arithmetic :
  option_map (map fval) (gate_generate (ArithmeticGate 2) (ex_fps [3; 5]) (ex_fps [1; 2; 3; 0; 4; 5; 6; 0]))
  = Some [1; 2; 3; 21; 4; 5; 6; 90] /\
  In 3%nat (gate_written (ArithmeticGate 2)) /\ In 7%nat (gate_written (ArithmeticGate 2)).
Proof. split; [vm_compute; reflexivity | split; vm_compute; tauto]. Qed.

(* RandomAccessGate with bits = 2, one copy: index 2 selects the third list item; bits 0, 1 *)
Example C07_example_random_access :
  gate_side P (RandomAccessGate 2 1 0) /\
  option_map (map fval) (gate_generate (RandomAccessGate 2 1 0) [] (ex_fps [2; 0; 10; 11; 12; 13; 9; 9]))
  = Some [2; 12; 10; 11; 12; 13; 0; 1].
Proof. split; [cbn; repeat split; auto with zarith; reflexivity | vm_compute; reflexivity]. Qed.

(* filter of index 5 in the group 3..8 with several selector polynomials: (3-5)(4-5)(6-5)(7-5)(U-5) <> 0 *)
Example C07_example_filter :
  fval (compute_filter (K := Fp) 5 3 8 (toFp 5) true) = (4 * (4294967295 - 5)) mod P /\
  fval (compute_filter (K := Fp) 5 3 8 (toFp 6) true) = 0.
Proof. split; vm_compute; reflexivity. Qed.

(* abstract degrees (Model/C07Run.v) of a sample of parameterisations stay within the declared degree *)
Example C07_example_abstract_degrees :
  forallb (fun g => Nat.leb (gate_abs_degree g) (gate_degree g))
    [ArithmeticGate 20; ArithmeticExtensionGate 10; MulExtensionGate 13; BaseSumGate 2 63; BaseSumGate 7 5;
     ConstantGate 2; coset_gate_new 4; CosetInterpolationGate 4 6 (repeat 1 16); ExponentiationGate 13;
     PoseidonGate; PoseidonMdsGate; PublicInputGate; RandomAccessGate 4 4 2; ReducingGate 43;
     ReducingExtensionGate 32; NoopGate] = true.
Proof. vm_compute. reflexivity. Qed.
