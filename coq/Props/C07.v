(* C07 - Every value a gate computes is pinned by that gate's constraints.
   Property theorems only (each closed by [exact] of a lemma of Proofs/Gates*.v), for ALL gates of
   Model/Gates.v and ALL parameter values (num_ops, limb count and base, bits / copies / extra
   constants, subgroup bits / degree / weights, power bits, num_coeffs; extension degree D = 2).
   Model/Gates.v is tied to plonky2/src/gates/*.rs by the C07 correspondence run.

   Vocabulary:
     gate_generate g consts row = Some row'   the gate's own SimpleGenerators completed the row
     gate_written g                            the wires those generators write
     gate_input_ok g consts row pi             conditions on the wires they do NOT write, which the
                                               rest of the circuit provides (routed constants equal the
                                               gate constants, public-input wires equal the hash, power
                                               bits / swap boolean, BaseSum sum fits in the limbs)
     gate_side p g                             parameter side conditions: 1 <= B < p (BaseSum),
                                               bits, copies >= 1 and 2 < p (RandomAccess),
                                               num_power_bits >= 1, ReducingGate num_coeffs >= 1
     zero_all / nonzero_some                   all constraints zero / some constraint non-zero
   K is any field (FieldLaws) with an embedding of the integers that is injective below p
   (BaseLaws K p); the *_goldilocks theorems instantiate K := Fp, p := P = 2^64 - 2^32 + 1.

   The evaluator is ONE polymorphic function; its relational parametricity (Proofs/GatesParam.v) gives
     C07_eval_hom / C07_eval_embed_goldilocks   the base-field and extension-field evaluators agree
     C07_constraints_are_polynomials            the constraints are polynomial maps of the row
     C07_degree_bound                           of degree at most the declared gate degree
   (the packed and in-circuit Rust evaluators are tied to the same model by the correspondence run).
   LookupGate / LookupTableGate have no gate constraints; their generators belong to C08. *)
From Coq Require Import ZArith List.
From Verif Require Import Base.Field Gen.FieldConsts Model.Fp Model.FieldGeneric Model.Gates Model.C07Run
  Base.Poly Model.Fp2 Proofs.FpFieldPrime Proofs.GatesLib Proofs.GatesSimple Proofs.GatesBaseSum Proofs.Gates
  Proofs.GatesParamInst Proofs.GatesDegree.
Import ListNotations.
Local Open Scope nat_scope.

(* the evaluator returns exactly as many constraints as the gate declares *)
Theorem C07_count : forall (K : Type) (FO : FieldOps K) (OB : OfBase K)
    (g : gate) (consts wires pi : list K),
  length (gate_eval_unfiltered g consts wires pi) = gate_num_constraints g.
Proof. exact @count. Qed.

(* a row completed by the gate's own generators satisfies every constraint of the gate *)
Theorem C07_gen_sat : forall (K : Type) (FO : FieldOps K) (FL : FieldLaws K) (OB : OfBase K) (TC : ToCanon K)
    (p : Z) (BL : BaseLaws K p) (g : gate) (consts row pi row' : list K),
  gate_side p g -> gate_num_wires g <= length row -> gate_input_ok g consts row pi ->
  gate_generate g consts row = Some row' ->
  zero_all (gate_eval_unfiltered g consts row' pi).
Proof. exact @gen_sat. Qed.

(* replacing any single generator-written wire by any other value violates some constraint *)
Theorem C07_gen_pinned : forall (K : Type) (FO : FieldOps K) (FL : FieldLaws K) (OB : OfBase K) (TC : ToCanon K)
    (p : Z) (BL : BaseLaws K p) (g : gate) (consts row pi row' : list K) (w : nat) (v : K),
  gate_side p g -> gate_num_wires g <= length row -> gate_input_ok g consts row pi ->
  gate_generate g consts row = Some row' ->
  In w (gate_written g) -> v <> nthF row' w ->
  nonzero_some (gate_eval_unfiltered g consts (upd row' w v) pi).
Proof. exact @gen_pinned. Qed.

(* Goldilocks: all hypotheses about the field discharged (FpLaws, Fp_BaseLaws) *)
Theorem C07_gen_sat_goldilocks : forall (g : gate) (consts row pi row' : list Fp),
  gate_side P g -> gate_num_wires g <= length row -> gate_input_ok g consts row pi ->
  gate_generate g consts row = Some row' ->
  zero_all (gate_eval_unfiltered g consts row' pi).
Proof. exact (@gen_sat Fp _ FpLaws _ _ P Fp_BaseLaws). Qed.

Theorem C07_gen_pinned_goldilocks : forall (g : gate) (consts row pi row' : list Fp) (w : nat) (v : Fp),
  gate_side P g -> gate_num_wires g <= length row -> gate_input_ok g consts row pi ->
  gate_generate g consts row = Some row' ->
  In w (gate_written g) -> v <> nthF row' w ->
  nonzero_some (gate_eval_unfiltered g consts (upd row' w v) pi).
Proof. exact (@gen_pinned Fp _ FpLaws _ _ P Fp_BaseLaws). Qed.

(* the degenerate ReducingGate { num_coeffs: 0 } (excluded by gate_side) really is unpinned: its
   generator writes the output wires, the gate has no constraint *)
Theorem C07_reducing_zero_coeffs_unpinned : forall (K : Type) (FO : FieldOps K) (OB : OfBase K) (TC : ToCanon K)
    (consts row pi : list K) (v : K),
  6 <= length row ->
  exists row', gate_generate (ReducingGate 0) consts row = Some row' /\
    In 0 (gate_written (ReducingGate 0)) /\ nthF row' 0 = nthF row 4 /\
    gate_eval_unfiltered (ReducingGate 0) consts (upd row' 0 v) pi = [].
Proof. exact @reducing_zero_unpinned. Qed.

(* filters (gate.rs compute_filter): zero on the other indices of the group and on UNUSED_SELECTOR,
   non-zero on the gate's own index *)
Theorem C07_filter_zero_other : forall (K : Type) (FO : FieldOps K) (FL : FieldLaws K) (OB : OfBase K)
    (row lo hi : nat) (many : bool) (j : nat),
  lo <= j < hi -> j <> row -> compute_filter row lo hi (of_base (Z.of_nat j)) many = fzero.
Proof. exact @filter_zero_other. Qed.

Theorem C07_filter_zero_unused : forall (K : Type) (FO : FieldOps K) (FL : FieldLaws K) (OB : OfBase K)
    (row lo hi : nat),
  compute_filter row lo hi (of_base UNUSED_SELECTOR) true = fzero.
Proof. exact @filter_zero_unused. Qed.

Theorem C07_filter_nonzero_own : forall (K : Type) (FO : FieldOps K) (FL : FieldLaws K) (OB : OfBase K) (TC : ToCanon K)
    (p : Z) (BL : BaseLaws K p) (row lo hi : nat) (many : bool),
  (Z.of_nat hi <= UNUSED_SELECTOR)%Z -> (UNUSED_SELECTOR < p)%Z -> lo <= row < hi ->
  compute_filter row lo hi (of_base (Z.of_nat row)) many <> fzero.
Proof. exact @filter_nonzero_own. Qed.

Theorem C07_filter_nonzero_own_goldilocks : forall (row lo hi : nat) (many : bool),
  (Z.of_nat hi <= UNUSED_SELECTOR)%Z -> lo <= row < hi ->
  compute_filter (K := Fp) row lo hi (of_base (Z.of_nat row)) many <> fzero.
Proof.
  intros row lo hi many Hhi. exact (@filter_nonzero_own Fp _ FpLaws _ _ P Fp_BaseLaws row lo hi many Hhi eq_refl).
Qed.

(* ---- identical values from the base-field and extension-field evaluators; polynomial degree *)

(* evaluation commutes with every ring homomorphism that respects the embedding of constants *)
Theorem C07_eval_hom : forall (K1 K2 : Type) (F1 : FieldOps K1) (F2 : FieldOps K2) (O1 : OfBase K1) (O2 : OfBase K2)
    (phi : K1 -> K2),
  phi fzero = fzero -> phi fone = fone ->
  (forall a b, phi (fadd a b) = fadd (phi a) (phi b)) ->
  (forall a b, phi (fsub a b) = fsub (phi a) (phi b)) ->
  (forall a b, phi (fmul a b) = fmul (phi a) (phi b)) ->
  (forall z, phi (of_base z) = of_base z) ->
  forall (g : gate) (cs ws pi : list K1),
  gate_eval_unfiltered g (map phi cs) (map phi ws) (map phi pi) = map phi (gate_eval_unfiltered g cs ws pi).
Proof. exact @eval_hom. Qed.

(* on a base-field row, eval_unfiltered (over Fp2) returns the embedded values of eval_unfiltered_base (over Fp) *)
Theorem C07_eval_embed_goldilocks : forall (g : gate) (cs ws pi : list Fp),
  gate_eval_unfiltered g (map emb_fp2 cs) (map emb_fp2 ws) (map emb_fp2 pi)
  = map emb_fp2 (gate_eval_unfiltered g cs ws pi).
Proof. exact eval_embed_fp2. Qed.

(* running the evaluator on wire / constant POLYNOMIALS (coefficient lists) yields constraint polynomials
   whose value at every point x is the constraint value of the row of values at x *)
Theorem C07_constraints_are_polynomials : forall (K : Type) (FO : FieldOps K) (FL : FieldLaws K) (OB : OfBase K)
    (x : K) (g : gate) (cs ws pi : list (list K)),
  map (fun p => peval p x) (eval_polys g cs ws pi)
  = gate_eval_unfiltered g (map (fun p => peval p x) cs) (map (fun p => peval p x) ws) (map (fun p => peval p x) pi).
Proof. exact @eval_poly. Qed.

(* ... and, for wire / constant polynomials with at most delta + 1 coefficients (degree <= delta) and a
   constant public-input hash, every constraint polynomial has at most gate_degree * delta + 1 coefficients.
   deg_side: BaseSum B >= 1, RandomAccess bits >= 1, CosetInterpolation degree >= 2. *)
Theorem C07_degree_bound : forall (K : Type) (FO : FieldOps K) (FL : FieldLaws K) (OB : OfBase K)
    (delta : nat) (g : gate) (cs ws pi : list (list K)),
  deg_side g ->
  length cs = gate_num_constants g -> length ws = Nat.max (gate_eval_wires g) (gate_num_wires g) -> length pi = 4 ->
  Forall (fun p => length p <= delta + 1) cs -> Forall (fun p => length p <= delta + 1) ws ->
  Forall (fun p => length p <= 1) pi ->
  Forall (fun p => length p <= gate_degree g * delta + 1) (eval_polys g cs ws pi).
Proof. exact @constraint_degree_bound. Qed.

(* ---- the hypotheses are satisfiable by concrete non-trivial values (Goldilocks) *)
Open Scope Z_scope.
Definition ex_fps (l : list Z) : list Fp := map toFp l.

(* BaseSumGate<4> with 3 limbs on sum = 27 = 3 + 2*4 + 1*16: generated limbs 3, 2, 1; all constraints 0 *)
Example C07_example_base_sum :
  gate_side P (BaseSumGate 4 3) /\ gate_input_ok (BaseSumGate 4 3) [] (ex_fps [27; 0; 0; 0]) [] /\
  option_map (map fval) (gate_generate (BaseSumGate 4 3) [] (ex_fps [27; 0; 0; 0])) = Some [27; 3; 2; 1] /\
  map fval (gate_eval_unfiltered (BaseSumGate 4 3) [] (ex_fps [27; 3; 2; 1]) []) = [0; 0; 0; 0] /\
  (* limb 1 replaced by another in-range value: the sum constraint fails *)
  map fval (gate_eval_unfiltered (BaseSumGate 4 3) [] (upd (ex_fps [27; 3; 2; 1]) 2%nat (toFp 1)) []) <> [0; 0; 0; 0].
Proof.
  split; [split; [auto | reflexivity]|]. split; [vm_compute; reflexivity|].
  split; [vm_compute; reflexivity|]. split; [vm_compute; reflexivity|].
  vm_compute. discriminate.
Qed.

(* ArithmeticGate with two operations, constants (3, 5): outputs 1*2*3 + 3*5 = 21 and 4*5*3 + 6*5 = 90 *)
Example C07_example_arithmetic :
  option_map (map fval) (gate_generate (ArithmeticGate 2) (ex_fps [3; 5]) (ex_fps [1; 2; 3; 0; 4; 5; 6; 0]))
  = Some [1; 2; 3; 21; 4; 5; 6; 90] /\
  In 3%nat (gate_written (ArithmeticGate 2)) /\ In 7%nat (gate_written (ArithmeticGate 2)).
Proof. split; [vm_compute; reflexivity | split; vm_compute; tauto]. Qed.

(* RandomAccessGate with bits = 2, one copy: index 2 selects the third list item; bits 0, 1 *)
Example C07_example_random_access :
  gate_side P (RandomAccessGate 2 1 0) /\
  option_map (map fval) (gate_generate (RandomAccessGate 2 1 0) [] (ex_fps [2; 0; 10; 11; 12; 13; 9; 9]))
  = Some [2; 12; 10; 11; 12; 13; 0; 1].
Proof. split; [cbn; repeat split; auto with zarith; reflexivity | vm_compute; reflexivity]. Qed.

(* filter of index 5 in the group 3..8 with several selector polynomials: (3-5)(4-5)(6-5)(7-5)(U-5) <> 0 *)
Example C07_example_filter :
  fval (compute_filter (K := Fp) 5 3 8 (toFp 5) true) = (4 * (4294967295 - 5)) mod P /\
  fval (compute_filter (K := Fp) 5 3 8 (toFp 6) true) = 0.
Proof. split; vm_compute; reflexivity. Qed.

(* the Poseidon gate on polynomial wires X, X, ..: 123 constraint polynomials, the longest has 7 * 1 + 1 coefficients *)
Example C07_example_degree_poseidon :
  let ws := repeat [toFp 0; toFp 1] 135 in
  length (eval_polys PoseidonGate [] ws (repeat [toFp 5] 4)) = 123%nat /\
  fold_right Nat.max 0%nat (map (@length Fp) (eval_polys PoseidonGate [] ws (repeat [toFp 5] 4))) = 8%nat.
Proof. split; vm_compute; reflexivity. Qed.

(* abstract degrees (Model/C07Run.v) of a sample of parameterisations stay within the declared degree *)
Example C07_example_abstract_degrees :
  forallb (fun g => Nat.leb (gate_abs_degree g) (gate_degree g))
    [ArithmeticGate 20; ArithmeticExtensionGate 10; MulExtensionGate 13; BaseSumGate 2 63; BaseSumGate 7 5;
     ConstantGate 2; coset_gate_new 4; CosetInterpolationGate 4 6 (repeat 1 16); ExponentiationGate 13;
     PoseidonGate; PoseidonMdsGate; PublicInputGate; RandomAccessGate 4 4 2; ReducingGate 43;
     ReducingExtensionGate 32; NoopGate] = true.
Proof. vm_compute. reflexivity. Qed.
