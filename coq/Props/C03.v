(* C03 - Accepted proofs are bound to each of their elements and to their circuit.
   Deterministic kernel: a single changed coefficient changes a polynomial's value at all but a
   bounded number of points (root bound), which is what pins final-polynomial coefficients and
   opened values under fixed challenges.  Verifier-model theorems are added as the model grows. *)
From Coq Require Import List Lia Arith PeanoNat.
From Verif Require Import Base.Field Base.Poly.
Import ListNotations.

Section C03.
  Context {F : Type} `{FL : FieldLaws F}.

  (* two coefficient lists of the same length that differ somewhere agree on fewer points than
     their length: an edited final polynomial / opening batch is caught at all but < len points *)
  Theorem C03_edited_poly_differs_almost_everywhere : forall (p q : list F) (pts : list F),
    length p = length q -> NoDup pts ->
    (forall x, In x pts -> peval p x = peval q x) ->
    (length p <= length pts)%nat ->
    forall x, peval p x = peval q x.
  Proof.
    intros p q pts Hl Hnd Hag Hlen x.
    apply (poly_eq_bound p q pts Hnd Hag). rewrite <- Hl. rewrite Nat.max_id. exact Hlen.
  Qed.
End C03.
