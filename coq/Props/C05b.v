(* C05 (part b) - the batched variant over polynomials of different degrees: theorems about the
   model of verify_batch_fri_proof (Model/BatchFri.v, plonky2/src/batch_fri/verifier.rs), which is
   tied to the implementation by replaying honest and tampered batch proofs (op batchfriverify of
   harness/src/c05b.rs).  Property theorems only; each closed by [exact] of a lemma of
   Proofs/BatchFri.v.  The hash functions are abstract. *)
From Coq Require Import ZArith List Bool Arith.
From Verif Require Import Base.Field Base.Poly Model.Fp Model.Fp2 Model.FieldGeneric Model.PoseidonSpec Model.Fri
  Model.BatchFri Proofs.Fp2Field Proofs.BatchFri.
Import ListNotations.
Local Open Scope nat_scope.

(* acceptance = shape /\ proof of work /\ number of rounds /\ every zipped query round accepts *)
Theorem C05_batch_accept_iff_all_checks :
  forall (hash_or_noop : list Fp -> digest) (two_to_one : digest -> digest -> digest)
         degree_bits insts openings ch caps pr p,
    verify_batch_fri_proof hash_or_noop two_to_one degree_bits insts openings ch caps pr p = inl tt <->
    validate_batch_shape insts p pr = true
    /\ pow_ok (fri_pow_response ch) (proof_of_work_bits (config p)) = true
    /\ num_query_rounds (config p) = length (fp_rounds pr)
    /\ (forall i x q, nth_error (fri_query_indices ch) i = Some x -> nth_error (fp_rounds pr) i = Some q ->
          bquery_round hash_or_noop two_to_one (map (fun d => d + rate_bits (config p)) degree_bits) insts ch
                 (map (fun o => precomputed_reduced_openings o (fri_alpha ch)) openings) caps pr p i x q = inl tt).
Proof. exact batch_accept_iff_all_checks. Qed.

Theorem C05_batch_bad_pow_rejected :
  forall hash_or_noop two_to_one degree_bits insts openings ch caps pr p,
    validate_batch_shape insts p pr = true ->
    pow_ok (fri_pow_response ch) (proof_of_work_bits (config p)) = false ->
    verify_batch_fri_proof hash_or_noop two_to_one degree_bits insts openings ch caps pr p = inr EPow.
Proof. exact batch_bad_pow_rejected. Qed.

Theorem C05_batch_bad_shape_rejected :
  forall hash_or_noop two_to_one degree_bits insts openings ch caps pr p,
    validate_batch_shape insts p pr = false ->
    verify_batch_fri_proof hash_or_noop two_to_one degree_bits insts openings ch caps pr p = inr (EShape 0).
Proof. exact batch_bad_shape_rejected. Qed.

(* once every instance has been injected, the batch reduction loop is the plain FRI loop (to which
   the theorems of Props/C05.v apply) *)
Theorem C05_batch_steps_after_last_instance :
  forall hash_or_noop two_to_one round degree_bits insts reduced alpha p initial caps betas
         arities steps layer x n bi sx oe,
    length degree_bits <= bi ->
    bquery_steps hash_or_noop two_to_one round degree_bits insts reduced alpha p initial caps steps arities betas layer x n bi sx oe =
    match Fri.query_steps hash_or_noop two_to_one round caps steps arities betas layer x sx oe with
    | inl (sx', ev) => inl (sx', ev, bi)
    | inr e => inr e
    end.
Proof. exact bquery_steps_no_more_instances. Qed.

(* the layer at which instance [bi] is injected: the value handed on is  folded * beta + incoming *)
Theorem C05_batch_inject_layer :
  forall hash_or_noop two_to_one round degree_bits insts reduced alpha p initial caps betas
         a at' s st layer x n bi sx oe e beta cap ev inst red ev2,
    nth_error (fs_evals s) (x mod 2 ^ a) = Some e -> nth_error betas layer = Some beta ->
    nth_error caps layer = Some cap -> e = oe ->
    compute_evaluation sx (x mod 2 ^ a) a (fs_evals s) beta = inl ev ->
    Fri.verify_merkle_proof_to_cap hash_or_noop two_to_one (flatten2 (fs_evals s)) (x / 2 ^ a) cap (fs_siblings s) = Some true ->
    bi < length degree_bits -> n - a = nth bi degree_bits 0 ->
    nth_error insts bi = Some inst -> nth_error reduced bi = Some red ->
    fri_combine_initial inst p initial alpha (subgroup_point (n - a) (x / 2 ^ a)) red = inl ev2 ->
    bquery_steps hash_or_noop two_to_one round degree_bits insts reduced alpha p initial caps (s :: st) (a :: at') betas layer x n bi sx oe =
    bquery_steps hash_or_noop two_to_one round degree_bits insts reduced alpha p initial caps st at' betas (S layer) (x / 2 ^ a) (n - a) (S bi)
           (exp_power_of_2 sx a) (ev * beta + ev2)%F.
Proof. exact bquery_steps_inject. Qed.

(* why the order matters: with folded = f_e + beta * f_o (the fold that has just used beta), the
   rule  folded * beta + incoming  weighs the three deviations with beta, beta^2 and 1: a non-zero
   triple vanishes for at most two beta ... *)
Theorem C05_batch_inject_rule_binding : forall fe fo v : Fp2,
  (fe, fo, v) <> (0, 0, 0)%F ->
  forall bad : list Fp2, NoDup bad ->
    (forall beta, In beta bad -> ((fe + beta * fo) * beta + v = 0)%F) -> length bad <= 2.
Proof. exact (@inject_rule_binding Fp2 _ Fp2Laws). Qed.

(* ... while the swapped rule  folded + incoming * beta  lets f_o = - incoming cancel for EVERY beta *)
Theorem C05_batch_swapped_rule_refuted :
  exists fe fo v : Fp2, fo <> 0%F /\ v <> 0%F /\ forall beta : Fp2, ((fe + beta * fo) + v * beta = 0)%F.
Proof. exact (@swapped_rule_not_binding Fp2 _ Fp2Laws). Qed.
