(* C18 (part b) - after shape validation no partial operation of the verifier models can fail.
   Models: Model/Fri.v (FRI verifier; [EPanic site] marks where the real code would panic) and
   Model/Plonk.v (PLONK verifier; [eval_vanishing_poly = None] where zip_eq would panic, verdict
   [Panic site]); both tied to the implementation by replaying honest and tampered proofs.
   All statements are for ALL inputs; the hash functions are arbitrary ([H], [T]); the challenges
   of verify_with_challenges are an arbitrary value of the right lengths.  Property theorems only,
   each closed by [exact] of a lemma of Proofs/FriShape.v, Proofs/PlonkVerifier.v, Proofs/PlonkShape.v.

   What remains after validation is ONE panic site: the inverse of a vanishing denominator
   [subgroup_x - point] in fri_combine_initial ("Tried to invert zero" in the real code), reached
   only if an opening point (zeta or g*zeta) coincides with a queried point of the LDE coset; it
   is an explicit hypothesis ([denominators_nonzero]) and is shown to be reached when it fails. *)
From Coq Require Import ZArith List Bool Arith.
From Verif Require Import Base.Field Model.Fp Model.Fp2 Model.FieldGeneric Model.PoseidonSpec
  Model.Fri Model.Gates Model.Plonk Proofs.FriShape Proofs.PlonkVerifier Proofs.PlonkShape
  Proofs.PlonkExamples.
Import ListNotations.
Local Open Scope nat_scope.

(* ------------------------------------------------------------------ 1. Merkle walk *)
(* the cap index compared against is what remains of the leaf index after the walk *)
Theorem C18_merkle_walk_index :
  forall (T : digest -> digest -> digest) (cur : digest) (idx : nat) (sibs : list digest),
    snd (merkle_walk T cur idx sibs) = idx / 2 ^ length sibs.
Proof. exact merkle_walk_index. Qed.

(* verify_merkle_proof_to_cap panics (cap index out of range) exactly when that index is not
   below the cap length; in particular it never panics when it is *)
Theorem C18_merkle_panic_iff :
  forall (H : list Fp -> digest) (T : digest -> digest -> digest) leaf idx cap sibs,
    verify_merkle_proof_to_cap H T leaf idx cap sibs = None <-> length cap <= idx / 2 ^ length sibs.
Proof. exact verify_merkle_panic_iff. Qed.

Theorem C18_merkle_no_panic :
  forall (H : list Fp -> digest) (T : digest -> digest -> digest) leaf idx cap sibs,
    idx / 2 ^ length sibs < length cap ->
    exists b, verify_merkle_proof_to_cap H T leaf idx cap sibs = Some b.
Proof. exact verify_merkle_no_panic. Qed.

(* ------------------------------------------------------------------ 2. FRI verifier *)
Theorem C18_fri_validated_no_panic :
  forall (H : list Fp -> digest) (T : digest -> digest -> digest)
         (inst : fri_instance) (openings : list (list Fp2)) (ch : fri_challenges)
         (initial_caps : list (list digest)) (pr : fri_proof) (p : fri_params),
    validate_fri_proof_shape inst p pr = true ->
    length (fri_betas ch) = length (reduction_arity_bits p) ->
    Forall (fun x => x < 2 ^ lde_bits p) (fri_query_indices ch) ->
    Forall (fun c : list digest => length c = 2 ^ cap_height (config p)) initial_caps ->
    denominators_nonzero inst p (fri_query_indices ch) ->
    forall s, verify_fri_proof H T inst openings ch initial_caps pr p <> inr (EPanic s).
Proof. exact fri_validated_no_panic. Qed.

(* verify_fri_proof validates the shape itself, so the hypothesis can be dropped when the folding
   challenges are counted against the commit-phase caps of the proof (one is drawn per cap) *)
Theorem C18_verify_fri_proof_no_panic :
  forall (H : list Fp -> digest) (T : digest -> digest -> digest)
         (inst : fri_instance) (openings : list (list Fp2)) (ch : fri_challenges)
         (initial_caps : list (list digest)) (pr : fri_proof) (p : fri_params),
    length (fri_betas ch) = length (fp_caps pr) ->
    Forall (fun x => x < 2 ^ lde_bits p) (fri_query_indices ch) ->
    Forall (fun c : list digest => length c = 2 ^ cap_height (config p)) initial_caps ->
    denominators_nonzero inst p (fri_query_indices ch) ->
    forall s, verify_fri_proof H T inst openings ch initial_caps pr p <> inr (EPanic s).
Proof. exact verify_fri_proof_no_panic. Qed.

(* the remaining site: a vanishing denominator in the first query round (whose initial Merkle
   proofs pass) makes the model report the real code's panic *)
Theorem C18_fri_zero_denominator_panics :
  forall (H : list Fp -> digest) (T : digest -> digest -> digest)
         (inst : fri_instance) (openings : list (list Fp2)) (ch : fri_challenges)
         (initial_caps : list (list digest)) (pr : fri_proof) (p : fri_params)
         (x : nat) (it : list nat) (q : fri_query_round) (qt : list fri_query_round),
    validate_fri_proof_shape inst p pr = true ->
    pow_ok (fri_pow_response ch) (proof_of_work_bits (config p)) = true ->
    num_query_rounds (config p) = length (fp_rounds pr) ->
    fri_query_indices ch = x :: it -> fp_rounds pr = q :: qt ->
    verify_initial H T 0 x (qr_initial q) initial_caps 0 = inl tt ->
    length (batches inst) <= length openings ->
    (exists b, In b (batches inst) /\ (fp2_of_base (subgroup_point p x) - point b =? 0)%F = true) ->
    verify_fri_proof H T inst openings ch initial_caps pr p = inr (EPanic 1).
Proof. exact verify_fri_proof_zero_denominator_panics. Qed.

(* the positions fri_combine_initial reads (oracle, polynomial within the unsalted leaf) are in
   range for a well-formed instance and a shape-valid round: the model's default values are never
   used; the instance built by the PLONK verifier is well formed *)
Theorem C18_fri_combine_accesses_in_range :
  forall (inst : fri_instance) (p : fri_params) (q : fri_query_round),
    inst_wf inst -> round_shape_ok inst p q = true ->
    forall b pi, In b (batches inst) -> In pi (polynomials b) ->
      oracle_index pi < length (oracles inst)
      /\ oracle_index pi < length (qr_initial q)
      /\ polynomial_index pi
         < length (unsalted_evals (qr_initial q) (oracle_index pi)
                     (hiding p && blinding (nth (oracle_index pi) (oracles inst)
                                                {| num_polys := 0; blinding := false |}))).
Proof. exact combine_accesses_in_range. Qed.

Theorem C18_plonk_fri_instance_wf : forall cd zeta, inst_wf (get_fri_instance cd zeta).
Proof. exact get_fri_instance_wf. Qed.

(* ------------------------------------------------------------------ 3. vanishing polynomial *)
(* no length hypothesis on the challenges is needed for the zip_eq of check_partial_products *)
Theorem C18_vanishing_no_panic :
  forall cd pr (x : Fp2) (pi_hash : list Fp2) (ch : proof_challenges),
    cd_wf cd -> validate_proof_shape cd pr = true ->
    eval_vanishing_poly cd x (openings pr) pi_hash ch <> None.
Proof. exact vanishing_no_panic. Qed.

(* ... and with beta/gamma(/delta) vectors of the right lengths every indexed read is in range *)
Theorem C18_vanishing_accesses_in_range :
  forall cd pr (ch : proof_challenges),
    cd_wf cd -> validate_proof_shape cd pr = true ->
    length (plonk_betas ch) = num_challenges (cd_config cd) ->
    length (plonk_gammas ch) = num_challenges (cd_config cd) ->
    (num_lookup_polys cd <> 0 ->
     length (plonk_deltas ch) = NUM_COINS_LOOKUP * num_challenges (cd_config cd)) ->
    vanishing_accesses_in_range cd (openings pr) ch.
Proof. exact vanishing_accesses_ok. Qed.

(* the well-formedness premise is needed: common data whose num_partial_products is not
   ceil(num_routed_wires / quotient_degree_factor) - 1 make every shape-valid proof panic *)
Theorem C18_vanishing_panics_for_ill_formed_cd :
  forall cd (x : Fp2) os (pi_hash : list Fp2) (ch : proof_challenges),
    1 <= quotient_degree_factor cd -> 1 <= num_challenges (cd_config cd) ->
    length (os_partial_products os) = num_challenges (cd_config cd) * num_partial_products cd ->
    num_partial_products cd + 1
    <> div_ceil (num_routed_wires (cd_config cd)) (quotient_degree_factor cd) ->
    eval_vanishing_poly cd x os pi_hash ch = None.
Proof. exact eval_vanishing_poly_none. Qed.

(* vanishing_polys_zeta[i] for each quotient chunk i is in range (one alpha per challenge) *)
Theorem C18_quotient_index_in_range :
  forall cd pr (x : Fp2) (pih : list Fp2) (ch : proof_challenges) van,
    cd_wf cd -> validate_proof_shape cd pr = true ->
    length (plonk_alphas ch) = num_challenges (cd_config cd) ->
    eval_vanishing_poly cd x (openings pr) pih ch = Some van ->
    length (qchunks cd pr) = num_challenges (cd_config cd)
    /\ forall i chunk, nth_error (qchunks cd pr) i = Some chunk -> i < length van.
Proof. exact quotient_index_in_range. Qed.

(* the challenges the verifier derives have exactly these lengths *)
Theorem C18_derived_challenge_lengths :
  forall cd vo pr (pih : digest),
    let ch := get_challenges cd vo pr pih in
    let nch := num_challenges (cd_config cd) in
    length (plonk_betas ch) = nch /\ length (plonk_gammas ch) = nch /\ length (plonk_alphas ch) = nch
    /\ (num_lookup_polys cd <> 0 -> length (plonk_deltas ch) = NUM_COINS_LOOKUP * nch).
Proof. exact challenges_plonk_lengths. Qed.

Theorem C18_derived_fri_challenge_shape :
  forall cd vo pr (pih : digest),
    length (fri_betas (pc_fri (get_challenges cd vo pr pih))) = length (fp_caps (opening_proof pr))
    /\ Forall (fun x => x < 2 ^ (degree_bits (cd_fri_params cd) + rate_bits (cfg_fri (cd_config cd))))
              (fri_query_indices (pc_fri (get_challenges cd vo pr pih))).
Proof. intros. split; [apply challenges_fri_betas_length|apply challenges_indices_in_range]. Qed.

Theorem C18_verify_vanishing_accesses_in_range :
  forall cd vo pr,
    cd_wf cd -> validate_proof_shape cd pr = true ->
    vanishing_accesses_in_range cd (openings pr)
      (get_challenges cd vo pr (p_hash_no_pad (public_inputs pr))).
Proof. exact verify_vanishing_accesses_in_range. Qed.

(* ------------------------------------------------------------------ 4. the PLONK verifier *)
Theorem C18_verify_no_panic :
  forall cd vo pr (pih : digest) (ch : proof_challenges),
    cd_wf cd -> vo_wf cd vo -> validate_proof_shape cd pr = true ->
    length (fri_betas (pc_fri ch)) = length (fp_caps (opening_proof pr)) ->
    Forall (fun x => x < 2 ^ lde_bits (cd_fri_params cd)) (fri_query_indices (pc_fri ch)) ->
    denominators_nonzero (get_fri_instance cd (plonk_zeta ch)) (cd_fri_params cd)
                         (fri_query_indices (pc_fri ch)) ->
    forall s, verify_with_challenges cd vo pr pih ch <> Panic s.
Proof. exact verify_no_panic. Qed.

(* the entry point itself, with the challenges it derives: total up to the zero denominator *)
Theorem C18_verify_total_up_to_zero_denominator :
  forall cd vo pr,
    cd_wf cd -> vo_wf cd vo ->
    (let ch := get_challenges cd vo pr (p_hash_no_pad (public_inputs pr)) in
     denominators_nonzero (get_fri_instance cd (plonk_zeta ch)) (cd_fri_params cd)
                          (fri_query_indices (pc_fri ch))) ->
    forall s, verify cd vo pr <> Panic s.
Proof. exact verify_total_up_to_zero_denominator. Qed.

(* the denominators cannot vanish when the opening points lie outside the base field (the query
   points are base-field elements) *)
Theorem C18_denominators_nonzero_outside_base_field :
  forall (inst : fri_instance) (p : fri_params) (idxs : list nat),
    (forall b, In b (batches inst) -> snd (point b) <> toFp 0) ->
    denominators_nonzero inst p idxs.
Proof. exact denominators_nonzero_outside_base_field. Qed.

Theorem C18_plonk_denominators_nonzero :
  forall cd (zeta : Fp2) (idxs : list nat),
    snd zeta <> toFp 0 ->
    snd (ext_primitive_root_of_unity (degree_bits (cd_fri_params cd)) * zeta)%F <> toFp 0 ->
    denominators_nonzero (get_fri_instance cd zeta) (cd_fri_params cd) idxs.
Proof. exact plonk_denominators_nonzero. Qed.

(* the subgroup generator g lies in the base field for degree_bits <= 32 (the two-adicity), so
   g*zeta is outside the base field whenever zeta is: one condition on zeta suffices *)
Theorem C18_plonk_denominators_nonzero_zeta :
  forall cd (zeta : Fp2) (idxs : list nat),
    degree_bits (cd_fri_params cd) <= 32 -> snd zeta <> toFp 0 ->
    denominators_nonzero (get_fri_instance cd zeta) (cd_fri_params cd) idxs.
Proof. exact plonk_denominators_nonzero_zeta. Qed.

(* verify_total for the plain entry point, outside the exceptional set "zeta in the base field" *)
Theorem C18_verify_total_zeta_outside_base :
  forall cd vo pr,
    cd_wf cd -> vo_wf cd vo -> degree_bits (cd_fri_params cd) <= 32 ->
    snd (plonk_zeta (get_challenges cd vo pr (p_hash_no_pad (public_inputs pr)))) <> toFp 0 ->
    forall s, verify cd vo pr <> Panic s.
Proof. exact verify_total_zeta_outside_base. Qed.

(* ------------------------------------------------------------------ examples *)
(* a well-formed common data record, verifier data, a proof of valid shape, challenges of the
   right lengths with non-vanishing denominators: all hypotheses of C18_verify_no_panic hold *)
Example C18_hypotheses_satisfiable :
  cd_wf ex_cd /\ vo_wf ex_cd ex_vo /\ validate_proof_shape ex_cd ex_pr = true
  /\ (forall zeta, validate_fri_proof_shape (get_fri_instance ex_cd zeta) ex_params (opening_proof ex_pr) = true)
  /\ length (fri_betas (pc_fri ex_ch)) = length (fp_caps (opening_proof ex_pr))
  /\ Forall (fun x => x < 2 ^ lde_bits (cd_fri_params ex_cd)) (fri_query_indices (pc_fri ex_ch))
  /\ denominators_nonzero (get_fri_instance ex_cd (plonk_zeta ex_ch)) (cd_fri_params ex_cd)
                          (fri_query_indices (pc_fri ex_ch))
  /\ forall pih s, verify_with_challenges ex_cd ex_vo ex_pr pih ex_ch <> Panic s.
Proof.
  split; [exact ex_cd_wf|]. split; [exact ex_vo_wf|]. split; [exact ex_shape_valid|].
  split; [exact ex_fri_shape_valid|]. split; [exact (proj1 ex_challenge_lengths)|].
  split; [exact (proj1 (proj2 (proj2 ex_challenge_lengths)))|].
  split; [exact ex_denominators_nonzero|exact ex_verify_no_panic].
Qed.

(* the shape check is what prevents the panic: the same proof with its partial products dropped
   fails validation, and verify_with_challenges entered without validation panics (site 10) *)
Example C18_unvalidated_proof_panics :
  validate_proof_shape ex_cd ex_pr_short = false
  /\ forall pih, verify_with_challenges ex_cd ex_vo ex_pr_short pih ex_ch = Panic 10.
Proof. split; [exact ex_short_rejected_by_shape|exact ex_short_would_panic]. Qed.

(* the remaining panic site is reachable in the model *)
Example C18_zero_denominator_reached : forall p x alpha r,
  fri_combine_initial {| oracles := []; batches := [ {| point := fp2_of_base (subgroup_point p x); polynomials := [] |} ] |}
                      p [] alpha (subgroup_point p x) [r] = inr (EPanic 1).
Proof. exact ex_zero_denominator_reached. Qed.
