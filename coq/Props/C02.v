(* C02 - No accepted proof exists for an assignment that violates the circuit.
   Kernel theorems on Model/Permutation.v (tied to the implementation by the check_partial_products
   correspondence, checks/c02.py):
     - the chunked partial-product checks telescope over all rows of H, wrap-around included
       (soundness direction of the permutation argument, any n, any chunking);
     - the prover's Z / partial products satisfy every check when the wires respect sigma
       (completeness; Z(1) = 1 and the wrap-around closes because sigma permutes the positions);
     - reduce_with_powers_multi is Horner evaluation, hence a non-zero vanishing term survives all
       but #terms - 1 challenges alpha; the identity vanishing = Z_H * t fails at all but fewer than
       max(|V|, n + |t|) points zeta when it fails at one point; t(zeta) is recombined from chunks.
   NOT formalised (the end-to-end statement is decided by the adversarial correspondence of
   checks/c02.py): the composition of these pieces with FRI proximity and the random-oracle model
   into "no accepted proof"; the implication "product equality for many (beta, gamma) => the wires
   respect sigma" (perm_sound, Schwartz-Zippel in two variables); gate filters (C07). *)
From Coq Require Import List Arith ZArith Lia Permutation.
From Verif Require Import Base.Field Base.Poly Model.Fp Proofs.FpFieldPrime Model.Permutation Proofs.Permutation.
Import ListNotations.
Local Open Scope field_scope.

(* [row_ok md r znext]: check_partial_products on row r (numerators, denominators, partial products, Z(x))
   with Z(gx) = znext returns terms that are all zero. [next_zs rows]: Z of the next row, the last row wraps
   around to the first. *)
Theorem C02_partial_products_sound :
  forall (F : Type) (H : FieldOps F) (FL : FieldLaws F) (md : nat) (rows : list prow),
    rows <> [] ->
    Forall2 (row_ok md) rows (next_zs rows) ->
    hd 1 (map r_z rows) = 1 ->
    fprod (concat (map r_nums rows)) = fprod (concat (map r_dens rows)).
Proof. exact @partial_products_sound. Qed.

(* the L_0 term on the first row of H (where L_0 = 1) pins Z to one *)
Theorem C02_z1_term_first_row :
  forall (F : Type) (H : FieldOps F) (FL : FieldLaws F) (z : F), z1_term 1 z = 0 -> z = 1.
Proof. exact @z1_term_first_row. Qed.

(* one row: all terms of check_partial_products zero => Z(x) * prod numerators = Z(gx) * prod denominators *)
Theorem C02_row_sound :
  forall (F : Type) (H : FieldOps F) (FL : FieldLaws F) (nums dens partials : list F) (z_x z_gx : F) (md : nat) (ts : list F),
    check_partial_products nums dens partials z_x z_gx md = Some ts -> all_zero ts ->
    z_x * fprod nums = z_gx * fprod dens.
Proof. exact @row_sound. Qed.

(* positions (i, j), i < n rows, j < m routed columns; identity value k_j * x_i; sigma permutes the positions
   and the wire values respect it; no denominator vanishes. Then the model of
   wires_permutation_partial_products_and_zs (row_chunk_products per row, then prover_rows from Z = 1) succeeds,
   ends at Z = 1 again, and every check_partial_products term of every row is zero, with Z(first row) = 1. *)
Theorem C02_perm_complete :
  forall (F : Type) (H : FieldOps F) (FL : FieldLaws F) (n m : nat) (w : nat -> nat -> F) (k x : nat -> F)
         (sigma : nat * nat -> nat * nat) (beta gamma : F),
    Permutation (map sigma (positions n m)) (positions n m) ->
    (forall p, In p (positions n m) -> wv w (sigma p) = wv w p) ->
    (forall p, In p (positions n m) -> den_at w k x sigma beta gamma p <> 0) ->
    forall md np : nat,
      (1 <= md)%nat -> (1 <= m)%nat -> (1 <= n)%nat -> S np = length (chunks md (seq 0 m)) ->
      exists (qcps : list (list F)) (rows : list (list F * F)),
        Forall2 (fun i qcp => row_chunk_products beta gamma (x i) (row_ks m k) (row_sigmas m k x sigma i) (row_wires m w i) md = Some qcp)
                (seq 0 n) qcps /\
        prover_rows np 1 qcps = Some (rows, 1) /\
        (let prs := map (fun '(i, pz) => mk_prow (row_nd m w k x sigma beta gamma i) pz) (combine (seq 0 n) rows) in
         length prs = n /\ hd 1 (map r_z prs) = 1 /\ Forall2 (row_ok md) prs (next_zs prs)).
Proof. exact @perm_complete. Qed.

(* the grand products agree when sigma permutes the positions and the wires respect it *)
Theorem C02_sigma_products_equal :
  forall (F : Type) (H : FieldOps F) (FL : FieldLaws F) (n m : nat) (w : nat -> nat -> F) (k x : nat -> F)
         (sigma : nat * nat -> nat * nat) (beta gamma : F),
    Permutation (map sigma (positions n m)) (positions n m) ->
    (forall p, In p (positions n m) -> wv w (sigma p) = wv w p) ->
    fprod (map (den_at w k x sigma beta gamma) (positions n m)) = fprod (map (num_at w k x beta gamma) (positions n m)).
Proof. exact @sigma_products_equal. Qed.

Theorem C02_reduce_with_powers_multi_is_horner :
  forall (F : Type) (H : FieldOps F) (FL : FieldLaws F) (terms alphas : list F),
    reduce_with_powers_multi terms alphas = map (peval terms) alphas.
Proof. exact @reduce_with_powers_multi_spec. Qed.

Theorem C02_alpha_combination_bound :
  forall (F : Type) (H : FieldOps F) (FL : FieldLaws F) (terms : list F),
    Exists (fun t => t <> 0) terms ->
    forall bad : list F, NoDup bad ->
      (forall a, In a bad -> reduce_with_powers_multi terms [a] = [0]) ->
      (length bad <= length terms - 1)%nat.
Proof. exact @alpha_combination_bound_multi. Qed.

Theorem C02_identity_at_zeta_bound :
  forall (F : Type) (H : FieldOps F) (FL : FieldLaws F) (v t : list F) (n : nat) (z0 : F),
    (1 <= n)%nat -> t <> [] ->
    peval v z0 <> (fpow z0 n - 1) * peval t z0 ->
    forall good : list F, NoDup good ->
      (forall z, In z good -> peval v z = (fpow z n - 1) * peval t z) ->
      (length good < Nat.max (length v) (n + length t))%nat.
Proof. exact @identity_at_zeta_bound. Qed.

Theorem C02_quotient_chunks_recombine :
  forall (F : Type) (H : FieldOps F) (FL : FieldLaws F) (chs : list (list F)) (n : nat) (z : F),
    Forall (fun c => length c = n) chs ->
    reduce_with_powers (map (fun c => peval c z) chs) (fpow z n) = peval (concat chs) z.
Proof. exact @quotient_chunks_recombine. Qed.

(* ---------------------------------------------------------------- examples: the hypotheses are satisfiable *)
Local Lemma all_zero_of_fval (o : option (list Fp)) :
  option_map (map fval) o = Some (map (fun _ => 0%Z) (match o with Some l => l | None => [] end)) ->
  o <> None -> exists ts, o = Some ts /\ all_zero ts.
Proof.
  destruct o as [ts|]; [|congruence]. intros E _. exists ts. split; [reflexivity|].
  cbn [option_map] in E. injection E as E. unfold all_zero.
  induction ts as [|t ts IH]; [constructor|]. cbn [map] in E. injection E as E1 E2.
  constructor; [apply Fp_ext; rewrite E1; reflexivity|apply IH; exact E2].
Qed.

Definition ex_rows : list (@prow Fp) :=
  [ {| r_nums := map toFp [2; 3; 4]%Z; r_dens := map toFp [1; 1; 1]%Z; r_partials := [toFp 6]; r_z := toFp 1 |};
    {| r_nums := map toFp [1; 1; 1]%Z; r_dens := map toFp [2; 3; 4]%Z; r_partials := [toFp 4]; r_z := toFp 24 |} ].

(* two rows, three columns in chunks of two: Z runs 1 -> 24 -> 1 *)
Example C02_partial_products_example :
  ex_rows <> [] /\ Forall2 (row_ok 2) ex_rows (next_zs ex_rows) /\ hd 1 (map r_z ex_rows) = 1 /\
  fval (fprod (concat (map r_nums ex_rows))) = 24%Z.
Proof.
  split; [discriminate|]. split; [|split; [reflexivity|vm_compute; reflexivity]].
  repeat constructor; unfold row_ok; apply all_zero_of_fval; try (vm_compute; reflexivity); vm_compute; discriminate.
Qed.

(* two rows, two columns; sigma swaps (0,0) and (1,1), whose wires carry the same value *)
Definition ex_sigma (p : nat * nat) : nat * nat :=
  match p with (0, 0)%nat => (1, 1)%nat | (1, 1)%nat => (0, 0)%nat | q => q end.
Definition ex_w (i j : nat) : Fp :=
  match i, j with 0%nat, 0%nat => toFp 5 | 1%nat, 1%nat => toFp 5 | 0%nat, _ => toFp 7 | _, _ => toFp 9 end.
Definition ex_k (j : nat) : Fp := match j with 0%nat => toFp 1 | _ => toFp 7 end.
Definition ex_x (i : nat) : Fp := match i with 0%nat => toFp 1 | _ => toFp 3 end.

Example C02_perm_complete_example :
  Permutation (map ex_sigma (positions 2 2)) (positions 2 2) /\
  (forall p, In p (positions 2 2) -> wv ex_w (ex_sigma p) = wv ex_w p) /\
  (forall p, In p (positions 2 2) -> den_at ex_w ex_k ex_x ex_sigma (toFp 11) (toFp 13) p <> 0).
Proof.
  split; [|split].
  - apply NoDup_Permutation.
    + cbn. repeat constructor; cbn; intuition discriminate.
    + cbn. repeat constructor; cbn; intuition discriminate.
    + intros [a b]. cbn. tauto.
  - intros p Hp. cbn in Hp. destruct Hp as [<-|[<-|[<-|[<-|[]]]]]; reflexivity.
  - intros p Hp. cbn in Hp.
    destruct Hp as [<-|[<-|[<-|[<-|[]]]]]; intros E; apply (f_equal fval) in E; vm_compute in E; discriminate.
Qed.

Example C02_alpha_combination_example :
  Exists (fun t : Fp => t <> 0) [toFp 0; toFp 5; toFp 0] /\
  map fval (reduce_with_powers_multi [toFp 0; toFp 5; toFp 0] [toFp 0; toFp 2]) = [0; 10]%Z.
Proof.
  split; [|vm_compute; reflexivity].
  apply Exists_cons_tl. apply Exists_cons_hd. intros E. apply (f_equal fval) in E. vm_compute in E. discriminate.
Qed.

(* V = 1, t = 1, n = 1: V(0) = 1 <> (0 - 1) * 1 *)
Example C02_identity_at_zeta_example :
  peval [toFp 1] (toFp 0) <> (fpow (toFp 0) 1 - 1) * peval [toFp 1] (toFp 0).
Proof. intros E. apply (f_equal fval) in E. vm_compute in E. discriminate. Qed.
