(* C03 (part b) - accepted proofs are bound to their shape and to their circuit: theorems about
   the PLONK verifier model Model/Plonk.v (tied to the implementation by replaying honest and
   tampered proofs).  All statements are for ALL inputs; [verify_with_challenges] is taken with an
   ARBITRARY challenge value, [verify] with the challenges it derives itself.  Property theorems
   only, each closed by [exact] of a lemma of Proofs/PlonkVerifier.v, Proofs/PlonkShape.v,
   Proofs/PlonkCircuitBinding.v (which uses the Merkle bridge of Proofs/Fri.v).  Value-binding of query-round data under fixed challenges is
   C05 (Proofs/Fri.v), transcript binding is C04 (Proofs/Transcript.v). *)
From Coq Require Import ZArith List Bool Arith.
From Verif Require Import Model.Merkle Proofs.Merkle.
From Verif Require Import Base.Field Model.Fp Model.Fp2 Model.FieldGeneric Model.PoseidonSpec
  Model.Fri Model.Gates Model.Plonk Proofs.FriShape Proofs.PlonkVerifier Proofs.PlonkShape
  Proofs.PlonkCircuitBinding Proofs.PlonkExamples.
Import ListNotations.
Local Open Scope nat_scope.

(* ------------------------------------------------------------------ 5. what acceptance is *)
(* [qchunks cd pr]: the quotient openings in chunks of quotient_degree_factor;
   [zeta_pow_deg cd ch] = zeta^(2^degree_bits); [z_h_zeta] = zeta^n - 1;
   [fri_verdict] = verify_fri_proof on (get_fri_instance cd zeta, to_fri_openings (openings pr),
   [constants_sigmas_cap vo; wires_cap pr; zs_pp_cap pr; quotient_cap pr]). *)
Theorem C03_accept_iff :
  forall cd vo pr (pih : digest) (ch : proof_challenges),
    verify_with_challenges cd vo pr pih ch = Accept
    <-> exists van,
          eval_vanishing_poly cd (plonk_zeta ch) (openings pr) (map of_fp pih) ch = Some van
          /\ (forall i chunk, nth_error (qchunks cd pr) i = Some chunk ->
                nth2 van i = (z_h_zeta cd ch * reduce_with_powers2 chunk (zeta_pow_deg cd ch))%F)
          /\ fri_verdict cd vo pr ch = inl tt.
Proof. exact accept_iff. Qed.

Theorem C03_accept_implies_shape :
  forall cd vo pr, verify cd vo pr = Accept -> validate_proof_shape cd pr = true.
Proof. exact verify_accept_shape. Qed.

Theorem C03_accept_unfolds :
  forall cd vo pr, verify cd vo pr = Accept ->
    verify_with_challenges cd vo pr (p_hash_no_pad (public_inputs pr))
                           (get_challenges cd vo pr (p_hash_no_pad (public_inputs pr))) = Accept.
Proof. exact verify_accept_with_challenges. Qed.

(* the reported chunk is the first one on which the identity fails *)
Theorem C03_reject_quotient_iff :
  forall cd vo pr (pih : digest) (ch : proof_challenges) i,
    verify_with_challenges cd vo pr pih ch = RejectQuotient i
    <-> exists van chunk,
          eval_vanishing_poly cd (plonk_zeta ch) (openings pr) (map of_fp pih) ch = Some van
          /\ nth_error (qchunks cd pr) i = Some chunk
          /\ nth2 van i <> (z_h_zeta cd ch * reduce_with_powers2 chunk (zeta_pow_deg cd ch))%F
          /\ (forall j c, j < i -> nth_error (qchunks cd pr) j = Some c ->
                nth2 van j = (z_h_zeta cd ch * reduce_with_powers2 c (zeta_pow_deg cd ch))%F).
Proof. exact reject_quotient_iff. Qed.

(* ------------------------------------------------------------------ 6. acceptance pins every length *)
(* [proof_shape cd pr] is [proof_sig pr = expected_sig cd]: the record of ALL vector lengths of the
   proof (3 caps, 9 opening vectors, public inputs, every commit-phase cap, per query round: per
   oracle leaf and path length, per step evaluations and path length, final polynomial) equals the
   record computed from the common data alone. *)
Theorem C03_shape_pins_lengths :
  forall cd vo pr, verify cd vo pr = Accept -> proof_shape cd pr.
Proof. exact shape_pins_lengths. Qed.

(* the same under arbitrary challenges *)
Theorem C03_shape_pins_lengths_with_challenges :
  forall cd vo pr (pih : digest) (ch : proof_challenges),
    validate_proof_shape cd pr = true -> verify_with_challenges cd vo pr pih ch = Accept ->
    proof_shape cd pr.
Proof. exact accept_proof_shape. Qed.

(* read back vector by vector *)
Theorem C03_proof_shape_explicit :
  forall cd pr, proof_shape cd pr -> proof_shape_facts cd pr.
Proof. exact proof_shape_explicit. Qed.

(* any edit that changes the length of any vector (drop last, empty, append, duplicate an
   element, drop or add a query round / step / cap ...) changes [proof_sig]; the edited proof is
   rejected, even under other verifier data *)
Corollary C03_truncated_or_extended_rejected :
  forall cd vo vo' pr pr',
    verify cd vo pr = Accept -> proof_sig pr' <> proof_sig pr -> verify cd vo' pr' <> Accept.
Proof. exact truncated_or_extended_rejected. Qed.

(* instances for representative vectors, top level and nested *)
Corollary C03_wires_cap_length_edit_rejected :
  forall cd vo vo' pr (c : list digest),
    verify cd vo pr = Accept -> length c <> length (wires_cap pr) ->
    verify cd vo' (set_wires_cap pr c) <> Accept.
Proof. exact wires_cap_length_edit_rejected. Qed.

Corollary C03_os_wires_length_edit_rejected :
  forall cd vo vo' pr (w : list Fp2),
    verify cd vo pr = Accept -> length w <> length (os_wires (openings pr)) ->
    verify cd vo' (set_os_wires pr w) <> Accept.
Proof. exact os_wires_length_edit_rejected. Qed.

Corollary C03_final_poly_length_edit_rejected :
  forall cd vo vo' pr (f : list Fp2),
    verify cd vo pr = Accept -> length f <> length (fp_final (opening_proof pr)) ->
    verify cd vo' (set_final_poly pr f) <> Accept.
Proof. exact final_poly_length_edit_rejected. Qed.

Corollary C03_num_rounds_edit_rejected :
  forall cd vo vo' pr (rs : list fri_query_round),
    verify cd vo pr = Accept -> length rs <> length (fp_rounds (opening_proof pr)) ->
    verify cd vo' (set_rounds pr rs) <> Accept.
Proof. exact num_rounds_edit_rejected. Qed.

Corollary C03_step_evals_length_edit_rejected :
  forall cd vo vo' pr r j q s (ev : list Fp2),
    verify cd vo pr = Accept ->
    nth_error (fp_rounds (opening_proof pr)) r = Some q -> nth_error (qr_steps q) j = Some s ->
    length ev <> length (fs_evals s) ->
    verify cd vo' (set_step_evals pr r j ev) <> Accept.
Proof. exact step_evals_length_edit_rejected. Qed.

Corollary C03_initial_path_length_edit_rejected :
  forall cd vo vo' pr r k q lp (path : list digest),
    verify cd vo pr = Accept ->
    nth_error (fp_rounds (opening_proof pr)) r = Some q -> nth_error (qr_initial q) k = Some lp ->
    length path <> length (snd lp) ->
    verify cd vo' (set_initial_path pr r k path) <> Accept.
Proof. exact initial_path_length_edit_rejected. Qed.

(* the list operations of the property text change a length *)
Theorem C03_list_edits_change_length :
  forall (A : Type) (l : list A) (x : A),
    (l <> [] -> length (removelast l) <> length l)
    /\ (l <> [] -> length (@nil A) <> length l)
    /\ length (l ++ [x]) <> length l.
Proof.
  intros A l x. split; [apply length_removelast_neq|]. split; [apply length_nil_neq|apply length_app1_neq].
Qed.

(* ------------------------------------------------------------------ 7. openings vs FRI instance *)
(* [zeta_segments cd pr] / [next_segments cd pr]: the explicit decomposition
     constants -> oracle 0, indices 0..;  sigmas -> oracle 0, after the constants;
     wires -> oracle 1;  Zs -> oracle 2, 0..nch;  partial products -> oracle 2, nch..nch(1+npp);
     quotient chunks -> oracle 3;  lookup polynomials -> oracle 2, after the Z/partial-product range;
   next batch: Zs -> oracle 2, 0..nch;  lookup polynomials -> oracle 2, same range as above. *)
Theorem C03_openings_align_with_instance :
  forall cd pr (zeta : Fp2),
    validate_proof_shape cd pr = true ->
    exists b0 b1 v0 v1,
      batches (get_fri_instance cd zeta) = [b0; b1] /\ to_fri_openings (openings pr) = [v0; v1]
      /\ point b0 = zeta
      /\ point b1 = (ext_primitive_root_of_unity (degree_bits (cd_fri_params cd)) * zeta)%F
      /\ length v0 = length (polynomials b0) /\ length v1 = length (polynomials b1)
      /\ Forall (fun s => length (fst s) = length (snd s)) (zeta_segments cd pr)
      /\ Forall (fun s => length (fst s) = length (snd s)) (next_segments cd pr)
      /\ polynomials b0 = concat (map fst (zeta_segments cd pr))
      /\ v0 = concat (map snd (zeta_segments cd pr))
      /\ polynomials b1 = concat (map fst (next_segments cd pr))
      /\ v1 = concat (map snd (next_segments cd pr))
      /\ combine (polynomials b0) v0
         = concat (map (fun s => combine (fst s) (snd s)) (zeta_segments cd pr))
      /\ combine (polynomials b1) v1
         = concat (map (fun s => combine (fst s) (snd s)) (next_segments cd pr)).
Proof. exact openings_align_with_instance. Qed.

Theorem C03_segments_are_as_documented :
  forall cd pr,
    let c := cd_config cd in let os := openings pr in
    let nch := num_challenges c in let nc := cd_num_constants cd in let nr := num_routed_wires c in
    let nzp := nch * (1 + num_partial_products cd) in let nlk := nch * num_lookup_polys cd in
    zeta_segments cd pr
    = [ (range_polys 0 0 nc, os_constants os);
        (range_polys 0 nc (nc + nr), os_sigmas os);
        (range_polys 1 0 (num_wires c), os_wires os);
        (range_polys 2 0 nch, os_zs os);
        (range_polys 2 nch nzp, os_partial_products os);
        (range_polys 3 0 (nch * quotient_degree_factor cd), os_quotient os);
        (range_polys 2 nzp (nzp + nlk), os_lookup_zs os) ]
    /\ next_segments cd pr
       = [ (range_polys 2 0 nch, os_zs_next os);
           (range_polys 2 nzp (nzp + nlk), os_lookup_zs_next os) ].
Proof. intros. split; reflexivity. Qed.

(* the claim lists of the next theorem are exactly the instance's batches zipped with the openings
   handed to the FRI verifier *)
Theorem C03_claims_are_instance_vs_openings :
  forall cd pr (zeta : Fp2),
    validate_proof_shape cd pr = true ->
    map (fun bv : batch_info * list Fp2 => combine (polynomials (fst bv)) (snd bv))
        (combine (batches (get_fri_instance cd zeta)) (to_fri_openings (openings pr)))
    = [zeta_claims cd pr; next_claims cd pr].
Proof. exact claims_are_instance_vs_openings. Qed.

(* position by position: the k-th value of each opening vector is the claimed evaluation of the
   polynomial (oracle_index, polynomial_index) at the stated position of the batch *)
Theorem C03_opening_positions :
  forall cd pr,
    validate_proof_shape cd pr = true ->
    let c := cd_config cd in let os := openings pr in
    let nch := num_challenges c in let nc := cd_num_constants cd in let nr := num_routed_wires c in
    let nw := num_wires c in let npp := num_partial_products cd in
    let nzp := nch * (1 + npp) in let nq := nch * quotient_degree_factor cd in
    let claim (l : list (poly_info * Fp2)) pos oi pidx v :=
        nth_error l pos = Some ({| oracle_index := oi; polynomial_index := pidx |}, v) in
    (forall k v, nth_error (os_constants os) k = Some v -> claim (zeta_claims cd pr) k 0 k v)
    /\ (forall k v, nth_error (os_sigmas os) k = Some v -> claim (zeta_claims cd pr) (nc + k) 0 (nc + k) v)
    /\ (forall k v, nth_error (os_wires os) k = Some v -> claim (zeta_claims cd pr) (nc + nr + k) 1 k v)
    /\ (forall k v, nth_error (os_zs os) k = Some v -> claim (zeta_claims cd pr) (nc + nr + nw + k) 2 k v)
    /\ (forall k v, nth_error (os_partial_products os) k = Some v ->
          claim (zeta_claims cd pr) (nc + nr + nw + nch + k) 2 (nch + k) v)
    /\ (forall k v, nth_error (os_quotient os) k = Some v ->
          claim (zeta_claims cd pr) (nc + nr + nw + nch + nch * npp + k) 3 k v)
    /\ (forall k v, nth_error (os_lookup_zs os) k = Some v ->
          claim (zeta_claims cd pr) (nc + nr + nw + nch + nch * npp + nq + k) 2 (nzp + k) v)
    /\ (forall k v, nth_error (os_zs_next os) k = Some v -> claim (next_claims cd pr) k 2 k v)
    /\ (forall k v, nth_error (os_lookup_zs_next os) k = Some v ->
          claim (next_claims cd pr) (nch + k) 2 (nzp + k) v).
Proof. exact opening_positions. Qed.

(* ------------------------------------------------------------------ 8. the circuit's commitment *)
(* The constants/sigmas cap is taken from the verifier data.  (a) The same proof accepted under
   two verifier data, with a query round that uses the same index in both runs: the two caps agree
   at the entry that index selects - caps that differ at a queried entry cannot both accept. *)
Theorem C03_other_cap_rejected :
  forall cd vo1 vo2 pr (pih1 pih2 : digest) (ch1 ch2 : proof_challenges) r x q lp,
    verify_with_challenges cd vo1 pr pih1 ch1 = Accept ->
    verify_with_challenges cd vo2 pr pih2 ch2 = Accept ->
    nth_error (fri_query_indices (pc_fri ch1)) r = Some x ->
    nth_error (fri_query_indices (pc_fri ch2)) r = Some x ->
    nth_error (fp_rounds (opening_proof pr)) r = Some q ->
    nth_error (qr_initial q) 0 = Some lp ->
    nth_error (constants_sigmas_cap vo1) (x / 2 ^ length (snd lp))
    = nth_error (constants_sigmas_cap vo2) (x / 2 ^ length (snd lp)).
Proof. exact other_cap_rejected. Qed.

(* (b) The verifier data commits (Merkle cap of the C12 model) to the rows [leaves] of a circuit;
   an accepted proof that opens, at a queried index, a constants/sigmas row different from the
   committed one exhibits a collision of the leaf hash or of the compression function. *)
Theorem C03_other_circuit_data_rejected_or_collision :
  forall cd vo pr (pih : digest) (ch : proof_challenges) (leaves : list (list Fp)) r x q lp,
    let p := cd_fri_params cd in
    verify_with_challenges cd vo pr pih ch = Accept ->
    length leaves = 2 ^ lde_bits p ->
    Merkle.merkle_cap Fp Fri.digest p_hash_or_noop p_two_to_one leaves (cap_height (config p))
    = Some (constants_sigmas_cap vo) ->
    nth_error (fri_query_indices (pc_fri ch)) r = Some x -> x < 2 ^ lde_bits p ->
    nth_error (fp_rounds (opening_proof pr)) r = Some q ->
    nth_error (qr_initial q) 0 = Some lp ->
    fst lp <> nth x leaves [] ->
    leaf_collision p_hash_or_noop + node_collision p_two_to_one.
Proof. exact other_circuit_data_rejected_or_collision. Qed.

Theorem C03_verify_other_circuit_data_rejected_or_collision :
  forall cd vo pr (leaves : list (list Fp)) r x q lp,
    let p := cd_fri_params cd in
    let ch := get_challenges cd vo pr (p_hash_no_pad (public_inputs pr)) in
    verify cd vo pr = Accept ->
    length leaves = 2 ^ lde_bits p ->
    Merkle.merkle_cap Fp Fri.digest p_hash_or_noop p_two_to_one leaves (cap_height (config p))
    = Some (constants_sigmas_cap vo) ->
    nth_error (fri_query_indices (pc_fri ch)) r = Some x -> x < 2 ^ lde_bits p ->
    nth_error (fp_rounds (opening_proof pr)) r = Some q ->
    nth_error (qr_initial q) 0 = Some lp ->
    fst lp <> nth x leaves [] ->
    leaf_collision p_hash_or_noop + node_collision p_two_to_one.
Proof. exact verify_other_circuit_data_rejected_or_collision. Qed.

(* ------------------------------------------------------------------ examples *)
(* a proof whose signature is the one its common data determines (accepted proofs themselves are
   exhibited by the correspondence replays, not inside Coq: a model run costs minutes of vm_compute) *)
Example C03_shape_satisfiable : proof_shape ex_cd ex_pr /\ validate_proof_shape ex_cd ex_pr = true.
Proof. split; [exact ex_proof_shape|exact ex_shape_valid]. Qed.

(* the alignment theorem on the example: 4 + 4 + 4 + 4 claims in the zeta batch, 2 in the next *)
Example C03_alignment_example :
  length (zeta_claims ex_cd ex_pr) = 16 /\ length (next_claims ex_cd ex_pr) = 2
  /\ nth_error (map fst (zeta_claims ex_cd ex_pr)) 10 = Some {| oracle_index := 2; polynomial_index := 2 |}.
Proof. repeat split; reflexivity. Qed.

(* the Merkle check against the verifier data's cap can succeed, whatever the hash functions *)
Example C03_merkle_check_satisfiable :
  forall (H : list Fp -> Fri.digest) (T : Fri.digest -> Fri.digest -> Fri.digest) l0 l1,
    Fri.verify_merkle_proof_to_cap H T l0 0 [T (H l0) (H l1)] [H l1] = Some true.
Proof. exact ex_merkle_accepts. Qed.
