(* C13 - Optimised hashing and the transcript sponge equal their specification.
   Property theorems only; each is closed by [exact] of a lemma proved in Proofs/.
   Constants (Gen/PoseidonConsts.v) and the integer primitives gl_*, add_u160_u128, reduce_u160,
   mds_multiply_freq (Gen/GoldilocksImpl.v, Gen/PoseidonImpl.v) are REGENERATED from /repo on every
   run; in the checked monad [= Some r] also says that no checked operation overflowed. *)
From Coq Require Import ZArith List Lia.
From Verif Require Import Base.Mach Base.Field Gen.FieldConsts Gen.PoseidonConsts Gen.PoseidonImpl
  Model.Fp Model.Poseidon Model.PoseidonImplModel Model.Sponge Model.Challenger
  Proofs.Poseidon Proofs.PoseidonMds Proofs.PoseidonImpl Proofs.Sponge Proofs.Challenger
  Proofs.PoseidonSpecBridge.
From Verif Require Model.PoseidonSpec.
Import ListNotations.
Open Scope Z_scope.

(* ------------------------------------------------------------------ the permutation, field level *)

(* flagship: the optimised structure (fast partial rounds with the precomputed FAST_PARTIAL_*
   tables) computes the textbook permutation on EVERY state *)
Theorem C13_poseidon_fast_eq_spec : forall s : list Fp, length s = 12%nat ->
  poseidon_fast toFp s = poseidon_spec toFp s.
Proof. exact poseidon_fast_eq_spec. Qed.

Theorem C13_partial_rounds_fast_eq_naive : forall x : list Fp, length x = 12%nat ->
  partial_rounds toFp x = partial_rounds_spec toFp x.
Proof. exact partial_rounds_fast_eq_naive. Qed.

(* poseidon_naive of poseidon.rs is the textbook permutation (the reference the crate's own
   consistency test compares with) *)
Theorem C13_poseidon_naive_eq_spec : forall s : list Fp, poseidon_naive toFp s = poseidon_spec toFp s.
Proof. exact poseidon_naive_eq_spec. Qed.

(* ------------------------------------------------------------------ raw u64 level *)

(* every table entry is a canonical residue (the side condition of add_canonical_u64) *)
Theorem C13_constants_canonical :
  Forall (fun c => 0 <= c < ORDER) ALL_ROUND_CONSTANTS /\
  Forall (fun c => 0 <= c < ORDER) FAST_PARTIAL_FIRST_ROUND_CONSTANT /\
  Forall (fun c => 0 <= c < ORDER) FAST_PARTIAL_ROUND_CONSTANTS /\
  Forall (Forall (fun c => 0 <= c < ORDER)) FAST_PARTIAL_ROUND_VS /\
  Forall (Forall (fun c => 0 <= c < ORDER)) FAST_PARTIAL_ROUND_W_HATS /\
  Forall (Forall (fun c => 0 <= c < ORDER)) FAST_PARTIAL_ROUND_INITIAL_MATRIX.
Proof. exact constants_canonical. Qed.

(* frequency-domain MDS multiplication: for all 12 values in [0, 2^32) no signed 64-bit
   intermediate overflows and the result is exactly the circulant product (integers) *)
Theorem C13_mds_freq_correct : forall s : list Z, length s = 12%nat -> Forall (fun x => 0 <= x < 2 ^ 32) s ->
  mds_multiply_freq_list s
  = Some (map (fun r => fold_right Z.add 0
                 (map (fun i => nth ((i + r) mod 12) s 0 * nth i MDS_MATRIX_CIRC 0) (seq 0 12))) (seq 0 12)).
Proof. exact mds_freq_correct. Qed.

(* mds_layer of poseidon_goldilocks.rs on all u64 representations *)
Theorem C13_mds_layer_impl_correct : forall s : list Z, length s = 12%nat -> Forall u64 s ->
  exists o, mds_layer_impl s = Some o /\ length o = 12%nat /\ Forall u64 o /\
    forall r, (r < 12)%nat ->
      nth r o 0 mod ORDER
      = (fold_right Z.add 0 (map (fun i => nth ((i + r) mod 12) s 0 * nth i MDS_MATRIX_CIRC 0) (seq 0 12))
         + nth r MDS_MATRIX_DIAG 0 * nth r s 0) mod ORDER.
Proof. exact mds_layer_impl_correct. Qed.

(* the trait-default mds_layer of poseidon.rs (u128 accumulation in mds_row_shf; overridden for
   Goldilocks): no overflow, the sum stays below 2^96 so that `(sum >> 64) as u32` does not
   truncate, and the result is MDS * state - a property of the regenerated MDS constants *)
Theorem C13_mds_layer_generic_correct : forall s : list Z, length s = 12%nat -> Forall u64 s ->
  exists o, mds_layer_generic_impl s = Some o /\ length o = 12%nat /\ Forall u64 o /\
    forall r, (r < 12)%nat ->
      nth r o 0 mod ORDER
      = (fold_right Z.add 0 (map (fun i => nth ((i + r) mod 12) s 0 * nth i MDS_MATRIX_CIRC 0) (seq 0 12))
         + nth r MDS_MATRIX_DIAG 0 * nth r s 0) mod ORDER.
Proof. exact mds_layer_generic_correct. Qed.

(* the whole implementation-level permutation, on every 12-tuple of u64 representations
   (canonical or not): it never fails and its canonicalised output is the textbook permutation
   of the canonicalised input *)
Theorem C13_poseidon_impl_eq_spec : forall s : list Z, length s = 12%nat -> Forall u64 s ->
  exists o, poseidon_impl s = Some o /\ Forall u64 o /\
            map (fun z => z mod ORDER) o = poseidon_Z (map (fun z => z mod ORDER) s).
Proof. exact poseidon_impl_eq_spec. Qed.

(* ------------------------------------------------------------------ the shared specification *)
(* Model/PoseidonSpec.v (the executable permutation and Poseidon sponge used by the Merkle / FRI /
   PLONK verifier models) is the same function as the C13 textbook permutation, so the
   implementation-level permutation computes exactly PoseidonSpec.poseidon *)
Theorem C13_shared_spec_is_poseidon_fp : forall s : list Fp,
  Verif.Model.PoseidonSpec.poseidon s = poseidon_fp s.
Proof. exact poseidonspec_eq_poseidon_fp. Qed.

Theorem C13_poseidon_impl_eq_shared_spec : forall s : list Z, length s = 12%nat -> Forall u64 s ->
  exists o, poseidon_impl s = Some o /\ Forall u64 o /\
            map toFp o = Verif.Model.PoseidonSpec.poseidon (map toFp s).
Proof. exact poseidon_impl_eq_poseidonspec. Qed.

Theorem C13_shared_sponge_is_sponge :
  (forall l, Verif.Model.PoseidonSpec.p_hash_no_pad l = poseidon_hash_no_pad l) /\
  (forall x y, Verif.Model.PoseidonSpec.p_two_to_one x y = poseidon_two_to_one x y) /\
  (forall l, Verif.Model.PoseidonSpec.p_hash_or_noop l = poseidon_hash_or_noop l) /\
  (forall l, Verif.Model.PoseidonSpec.p_hash_pad l = poseidon_hash_pad l).
Proof. exact (conj p_hash_no_pad_eq (conj p_two_to_one_eq (conj p_hash_or_noop_eq p_hash_pad_eq))). Qed.

(* ------------------------------------------------------------------ sponge *)
Section WithPermutation.
  Context {F : Type} {FO : FieldOps F}.

  Theorem C13_hash_no_pad_is_overwrite_sponge : forall (permute : list F -> list F),
    (forall s, length (permute s) = 12%nat) ->
    forall inputs m, m <> 0%nat ->
      hash_n_to_m_no_pad permute inputs m = Some (overwrite_sponge permute inputs m).
  Proof. exact hash_no_pad_is_overwrite_sponge. Qed.

  Theorem C13_compress_is_sponge_on_8 : forall (permute : list F -> list F) x y,
    length x = 4%nat -> length y = 4%nat ->
    compress permute x y = Some (hash_n_to_hash_no_pad permute (x ++ y))
    /\ compress permute x y = Some (two_to_one permute x y).
  Proof. exact compress_is_sponge_on_8. Qed.

  (* ---------------------------------------------------------------- challenger *)
  (* both challengers return the same challenges for every interleaving of observe / squeeze:
     the recursive one absorbs its whole buffer in RATE-chunks, the native one duplexes eagerly *)
  Theorem C13_recursive_challenger_eq_native : forall (permute : list F -> list F),
    (forall s, length (permute s) = 12%nat) ->
    forall ops, run_native permute ops = run_recursive permute ops.
  Proof. exact recursive_challenger_eq_native. Qed.

  (* splitting the observed elements into observe_elements calls in any way changes nothing *)
  Theorem C13_observe_chunking_irrelevant : forall (permute : list F -> list F) chunks ops s,
    run_native_from permute s (map Observe chunks ++ ops)
    = run_native_from permute s (Observe (concat chunks) :: ops).
  Proof. exact observe_chunking_irrelevant. Qed.

  (* no stale output: (1) observe_element does not depend on the buffered outputs and leaves a
     state whose buffered outputs, if any, come from the permutation that absorbed that element;
     (2) every challenge is read from the rate part of the CURRENT sponge state, with no input
     pending *)
  Theorem C13_no_stale_output : forall (permute : list F -> list F),
    (forall s, length (permute s) = 12%nat) ->
    (forall st ib ob1 ob2 x,
        observe_element permute (mkCh st ib ob1) x = observe_element permute (mkCh st ib ob2) x) /\
    (forall (s : chstate F) x, ch_wf s -> ch_fresh (observe_element permute s x)) /\
    (forall s : chstate F, ch_fresh s ->
       let '(c, s') := get_challenge permute s in
       ch_fresh s' /\ input_buffer s' = [] /\
       exists k, (k < SPONGE_RATE)%nat /\ output_buffer s' = firstn k (sponge_state s') /\
                 c = nth k (sponge_state s') fzero).
  Proof.
    intros permute Hp. split; [exact (observe_element_ignores_output permute)|].
    split; [exact (observe_element_fresh permute Hp) | exact (get_challenge_fresh permute Hp)].
  Qed.

  (* the assert of duplexing and the expect of get_challenge cannot fire in a well-formed state,
     and well-formedness is preserved by every public operation (it holds for Challenger::new) *)
  Theorem C13_challenger_never_panics : forall (permute : list F -> list F),
    (forall s, length (permute s) = 12%nat) ->
    ch_wf (@ch_new F FO) /\
    (forall (s : chstate F) x, ch_wf s -> ch_wf (observe_element permute s x)) /\
    (forall s : chstate F, ch_wf s -> ch_wf (snd (get_challenge permute s))) /\
    (forall (s : chstate F) x, ch_wf s -> duplexing_assert (mkCh (sponge_state s) (input_buffer s ++ [x]) []) = true) /\
    (forall s : chstate F, ch_wf s -> duplexing_assert s = true) /\
    (forall s : chstate F, ch_wf s ->
       output_buffer (if (negb (is_nil (input_buffer s)) || is_nil (output_buffer s))%bool
                      then duplexing permute s else s) <> []).
  Proof.
    intros permute Hp. split; [exact ch_new_wf|].
    split; [exact (observe_element_wf permute Hp)|]. split; [exact (get_challenge_wf permute Hp)|].
    split; [exact duplexing_assert_in_observe|]. split; [exact duplexing_assert_in_get_challenge|].
    exact (get_challenge_pops_nonempty permute Hp).
  Qed.

  (* after observing xs and compacting, the challenger state is the sponge's absorb state *)
  Theorem C13_challenger_state_is_sponge : forall (permute : list F -> list F),
    (forall s, length (permute s) = 12%nat) ->
    forall xs, fst (compact permute (observe_elements permute ch_new xs)) = absorb permute zero_state xs.
  Proof. exact challenger_state_is_sponge. Qed.
End WithPermutation.

(* ------------------------------------------------------------------ non-vacuity *)
(* the published all-zero test vector of poseidon_goldilocks.rs through the implementation-level
   model: hypotheses of C13_poseidon_impl_eq_spec are met and the output is the expected one *)
Example C13_test_vector_zero :
  option_map (fun o => nth 0 o 0) (poseidon_impl (repeat 0 12)) = Some 0x3c18a9786cb0b359.
Proof. vm_compute. reflexivity. Qed.

(* a non-canonical state (every limb 2^64 - 1) *)
Example C13_noncanonical_state :
  length (repeat (2 ^ 64 - 1) 12) = 12%nat /\ Forall u64 (repeat (2 ^ 64 - 1) 12) /\
  option_map (map (fun z => z mod ORDER)) (mds_layer_impl (repeat (2 ^ 64 - 1) 12))
  = Some (map fval (mds_layer toFp (map toFp (repeat (2 ^ 64 - 1) 12)))).
Proof.
  split; [reflexivity|]. split; [repeat constructor; unfold u64; lia|]. vm_compute. reflexivity.
Qed.

(* the Poseidon permutation satisfies the width hypothesis of the sponge / challenger theorems *)
Example C13_poseidon_width : forall s, length (poseidon_fp s) = 12%nat.
Proof. exact poseidon_fp_length. Qed.

(* an interleaving that exercises the eager duplexing of the native challenger (9 elements) *)
Example C13_challenger_example :
  map fval (poseidon_run_native [Observe (map toFp [1; 2; 3; 4; 5; 6; 7; 8; 9]); Squeeze 2])
  = map fval (poseidon_run_recursive [Observe (map toFp [1; 2; 3; 4; 5; 6; 7; 8; 9]); Squeeze 2])
  /\ length (poseidon_run_native [Observe (map toFp [1; 2; 3; 4; 5; 6; 7; 8; 9]); Squeeze 2]) = 2%nat.
Proof. split; vm_compute; reflexivity. Qed.
