(* C19 - Circuit keys and verdicts do not depend on schedule, hash seeds or SIMD build.
   Logical content of why the order-dependent spots of /repo are order independent
   (code citations: see the header of Model/OrderIndep.v):
   (a) HashMap / HashSet contents are sorted by a key that is injective on the collection
       (circuit_builder.rs: constants_to_targets sorted_by_key to_canonical_u64; gates
       sort_unstable_by_key (degree, id)): ANY correct sort, stable or not, returns one list;
   (b) chunked parallel map + indexed collect (maybe_rayon par_iter / par_chunks) = map;
   (c) proof-of-work grinding (fri/prover.rs find_any): whichever witness the schedule finds is
       accepted by the verifier, and success does not depend on the schedule;
   (d) parallel tasks writing disjoint slots (merkle_tree.rs fill_digests_buf / fill_subtree)
       leave the same buffer under every interleaving. *)
From Coq Require Import List ZArith Bool Permutation Sorted.
From Verif Require Import Model.OrderIndep Proofs.OrderIndep.
Import ListNotations.

(* ---------- (a) sort by a unique key ---------- *)

(* the model sort is a correct sort *)
Theorem C19_isort_by_sorted : forall (A K : Type) (leb : K -> K -> bool) (key : A -> K),
  (forall a b, leb a b = true \/ leb b a = true) ->
  forall l, Sorted (fun a b => leb (key a) (key b) = true) (isort_by leb key l).
Proof. exact @isort_by_sorted. Qed.

Theorem C19_isort_by_perm : forall (A K : Type) (leb : K -> K -> bool) (key : A -> K) (l : list A),
  Permutation l (isort_by leb key l).
Proof. exact @isort_by_perm. Qed.

(* algorithm independent: two sorted arrangements of the same elements with pairwise distinct
   keys are equal - covers slice::sort_unstable_by_key (pdqsort) and itertools::sorted_by_key *)
Theorem C19_sorted_perm_unique : forall (A K : Type) (leb : K -> K -> bool) (key : A -> K),
  (forall a b c, leb a b = true -> leb b c = true -> leb a c = true) ->
  (forall a b, leb a b = true -> leb b a = true -> a = b) ->
  forall l1 l2 : list A,
    Sorted (fun a b => leb (key a) (key b) = true) l1 ->
    Sorted (fun a b => leb (key a) (key b) = true) l2 ->
    Permutation l1 l2 -> NoDup (map key l1) -> l1 = l2.
Proof. exact @sorted_perm_unique. Qed.

Theorem C19_strongly_sorted_perm_unique :
  forall (A K : Type) (leb : K -> K -> bool) (key : A -> K),
  (forall a b, leb a b = true -> leb b a = true -> a = b) ->
  forall l1 l2 : list A,
    StronglySorted (fun a b => leb (key a) (key b) = true) l1 ->
    StronglySorted (fun a b => leb (key a) (key b) = true) l2 ->
    Permutation l1 l2 -> NoDup (map key l1) -> l1 = l2.
Proof. exact @strongly_sorted_perm_unique. Qed.

(* whatever a correct sort returns on (any iteration order of) the collection is the model sort *)
Theorem C19_any_sort_is_isort_by : forall (A K : Type) (leb : K -> K -> bool) (key : A -> K),
  (forall a b, leb a b = true \/ leb b a = true) ->
  (forall a b c, leb a b = true -> leb b c = true -> leb a c = true) ->
  (forall a b, leb a b = true -> leb b a = true -> a = b) ->
  forall l s : list A,
    Sorted (fun a b => leb (key a) (key b) = true) s ->
    Permutation l s -> NoDup (map key l) -> s = isort_by leb key l.
Proof. exact @any_sort_is_isort_by. Qed.

Theorem C19_sorted_by_unique_key_perm_invariant :
  forall (A K : Type) (leb : K -> K -> bool) (key : A -> K),
  (forall a b, leb a b = true \/ leb b a = true) ->
  (forall a b c, leb a b = true -> leb b c = true -> leb a c = true) ->
  (forall a b, leb a b = true -> leb b a = true -> a = b) ->
  forall l l' : list A, Permutation l l' -> NoDup (map key l) ->
    isort_by leb key l = isort_by leb key l'.
Proof. exact @sorted_by_unique_key_perm_invariant. Qed.

(* the hypotheses on leb are satisfiable: u64 order (to_canonical_u64 key) ... *)
Theorem C19_Zleb_order :
  (forall a b : Z, Z.leb a b = true \/ Z.leb b a = true) /\
  (forall a b c : Z, Z.leb a b = true -> Z.leb b c = true -> Z.leb a c = true) /\
  (forall a b : Z, Z.leb a b = true -> Z.leb b a = true -> a = b).
Proof. exact (conj Zleb_total (conj Zleb_trans Zleb_antisym)). Qed.

(* ... String order (bytes, lexicographic) ... *)
Theorem C19_list_leb_order :
  (forall a b, list_leb a b = true \/ list_leb b a = true) /\
  (forall a b c, list_leb a b = true -> list_leb b c = true -> list_leb a c = true) /\
  (forall a b, list_leb a b = true -> list_leb b a = true -> a = b).
Proof. exact (conj list_leb_total (conj list_leb_trans list_leb_antisym)). Qed.

(* ... and tuple order over components that satisfy them *)
Theorem C19_lex_leb_total : forall (K1 K2 : Type) (leb1 eqb1 : K1 -> K1 -> bool)
    (leb2 : K2 -> K2 -> bool),
  (forall a b, eqb1 a b = true <-> a = b) ->
  (forall a b, leb1 a b = true \/ leb1 b a = true) ->
  (forall a b, leb2 a b = true \/ leb2 b a = true) ->
  forall a b, lex_leb leb1 eqb1 leb2 a b = true \/ lex_leb leb1 eqb1 leb2 b a = true.
Proof. exact @lex_leb_total. Qed.

Theorem C19_lex_leb_trans : forall (K1 K2 : Type) (leb1 eqb1 : K1 -> K1 -> bool)
    (leb2 : K2 -> K2 -> bool),
  (forall a b, eqb1 a b = true <-> a = b) ->
  (forall a b c, leb1 a b = true -> leb1 b c = true -> leb1 a c = true) ->
  (forall a b, leb1 a b = true -> leb1 b a = true -> a = b) ->
  (forall a b c, leb2 a b = true -> leb2 b c = true -> leb2 a c = true) ->
  forall a b c, lex_leb leb1 eqb1 leb2 a b = true -> lex_leb leb1 eqb1 leb2 b c = true ->
                lex_leb leb1 eqb1 leb2 a c = true.
Proof. exact @lex_leb_trans. Qed.

Theorem C19_lex_leb_antisym : forall (K1 K2 : Type) (leb1 eqb1 : K1 -> K1 -> bool)
    (leb2 : K2 -> K2 -> bool),
  (forall a b, eqb1 a b = true <-> a = b) ->
  (forall a b, leb1 a b = true -> leb1 b a = true -> a = b) ->
  (forall a b, leb2 a b = true -> leb2 b a = true -> a = b) ->
  forall a b, lex_leb leb1 eqb1 leb2 a b = true -> lex_leb leb1 eqb1 leb2 b a = true -> a = b.
Proof. exact @lex_leb_antisym. Qed.

(* the (degree, id) key order used for the gates *)
Theorem C19_gate_key_leb_order :
  (forall a b, gate_key_leb a b = true \/ gate_key_leb b a = true) /\
  (forall a b c, gate_key_leb a b = true -> gate_key_leb b c = true -> gate_key_leb a c = true) /\
  (forall a b, gate_key_leb a b = true -> gate_key_leb b a = true -> a = b).
Proof. exact (conj gate_key_leb_total (conj gate_key_leb_trans gate_key_leb_antisym)). Qed.

(* five "gates" (degree, id bytes, payload) in two iteration orders; two share a degree and two
   ids share a prefix *)
Definition ex_gates1 : list (Z * list Z * nat) :=
  [ (3, [78; 111; 111; 112], 0%nat);            (* "Noop"  *)
    (7, [80; 111; 115], 1%nat);                 (* "Pos"   *)
    (3, [65; 114; 105], 2%nat);                 (* "Ari"   *)
    (1, [67; 111; 110; 115; 116], 3%nat);       (* "Const" *)
    (3, [65; 114; 105; 50], 4%nat) ]%Z.         (* "Ari2"  *)
Definition ex_gates2 : list (Z * list Z * nat) :=
  [ (3, [65; 114; 105; 50], 4%nat);
    (1, [67; 111; 110; 115; 116], 3%nat);
    (7, [80; 111; 115], 1%nat);
    (3, [78; 111; 111; 112], 0%nat);
    (3, [65; 114; 105], 2%nat) ]%Z.

Example C19_sort_two_orders :
  isort_by gate_key_leb fst ex_gates1 = isort_by gate_key_leb fst ex_gates2
  /\ isort_by gate_key_leb fst ex_gates1 =
     [ (1, [67; 111; 110; 115; 116], 3%nat);
       (3, [65; 114; 105], 2%nat);
       (3, [65; 114; 105; 50], 4%nat);
       (3, [78; 111; 111; 112], 0%nat);
       (7, [80; 111; 115], 1%nat) ]%Z.
Proof. split; vm_compute; reflexivity. Qed.

(* the hypotheses of C19_sorted_by_unique_key_perm_invariant hold for this instance *)
Example C19_sort_hypotheses :
  NoDup (map fst ex_gates1) /\ Permutation ex_gates1 ex_gates2.
Proof.
  split.
  - unfold ex_gates1. cbn [map fst].
    repeat (constructor; [cbn [In]; intuition discriminate|]). constructor.
  - unfold ex_gates1, ex_gates2.
    apply (Permutation_trans (l' := isort_by gate_key_leb fst ex_gates1)).
    + apply isort_by_perm.
    + replace (isort_by gate_key_leb fst ex_gates1) with (isort_by gate_key_leb fst ex_gates2)
        by (vm_compute; reflexivity).
      apply Permutation_sym, isort_by_perm.
Qed.

(* constants_to_targets: (canonical value, target) pairs sorted by the value *)
Example C19_sort_constants :
  isort_by Z.leb fst [(18446744069414584320, 5); (0, 9); (7, 2); (1, 4)]%Z
  = isort_by Z.leb fst [(1, 4); (7, 2); (18446744069414584320, 5); (0, 9)]%Z.
Proof. vm_compute. reflexivity. Qed.

(* ---------- (b) chunked map + collect ---------- *)

Theorem C19_concat_chunks_by : forall (A : Type) (sizes : list nat) (l : list A),
  concat (chunks_by sizes l) = l.
Proof. exact concat_chunks_by. Qed.

Theorem C19_par_map_is_map : forall (A B : Type) (f : A -> B) (sizes : list nat) (l : list A),
  par_map f sizes l = map f l.
Proof. exact par_map_is_map. Qed.

Example C19_par_map_chunks :
  chunks_by [2; 0; 3]%nat [10; 11; 12; 13; 14; 15; 16]%Z
    = [[10; 11]; []; [12; 13; 14]; [15; 16]]%Z
  /\ par_map (fun x => x * x)%Z [2; 0; 3]%nat [10; 11; 12; 13; 14; 15; 16]%Z
    = [100; 121; 144; 169; 196; 225; 256]%Z.
Proof. split; reflexivity. Qed.

(* ---------- (c) proof of work ---------- *)

(* whichever candidate order / schedule the search explores, what it returns is accepted *)
Theorem C19_grinding_any_witness_ok : forall (h : Z -> Z) (k : Z) (cands cands' : list Z) (x : Z),
  Permutation cands cands' -> find_first (pow_ok h k) cands' = Some x ->
  verify_pow h k x = true /\ In x cands.
Proof. exact grinding_any_witness_ok. Qed.

(* success of the search is schedule independent *)
Theorem C19_grinding_exists_iff : forall (h : Z -> Z) (k : Z) (cands cands' : list Z),
  Permutation cands cands' ->
  ((exists x, In x cands /\ pow_ok h k x = true) <->
   (exists x, find_first (pow_ok h k) cands' = Some x)).
Proof. exact grinding_exists_iff. Qed.

(* acceptance is a function of the witness (and the transcript function h) alone *)
Theorem C19_grinding_accept_depends_only_on_witness : forall (h : Z -> Z) (k x1 x2 : Z),
  pow_ok h k x1 = true -> pow_ok h k x2 = true ->
  verify_pow h k x1 = true /\ verify_pow h k x2 = true.
Proof. exact grinding_accept_depends_only_on_witness. Qed.

(* the predicate is the usual one: response < 2^(64 - k) *)
Theorem C19_leading_zeros64_ge_iff : forall x k : Z, (0 <= x < 2 ^ 64)%Z -> (0 <= k <= 64)%Z ->
  ((k <= leading_zeros64 x)%Z <-> (x < 2 ^ (64 - k))%Z).
Proof. exact leading_zeros64_ge_iff. Qed.

(* toy transcript hash; forward and backward exploration find different witnesses, both verify *)
Definition ex_h (x : Z) : Z := ((x * 11400714819323198485) mod 2 ^ 64)%Z.
Definition ex_cands : list Z := [1; 2; 3; 4; 5; 6; 7; 8; 9; 10; 11; 12; 13; 14; 15; 16]%Z.

Example C19_grinding_two_schedules :
  find_first (pow_ok ex_h 3) ex_cands = Some 5%Z
  /\ find_first (pow_ok ex_h 3) (rev ex_cands) = Some 13%Z
  /\ verify_pow ex_h 3 5 = true /\ verify_pow ex_h 3 13 = true
  /\ verify_pow ex_h 3 1 = false.
Proof. vm_compute. repeat split; reflexivity. Qed.

(* ---------- (d) disjoint writes ---------- *)

Theorem C19_disjoint_writes_commute : forall (A : Type) (ws1 ws2 ws : list (nat * A)) (l : list A),
  (forall i, In i (map fst ws1) -> ~ In i (map fst ws2)) ->
  interleave ws1 ws2 ws ->
  apply_writes ws l = apply_writes (ws1 ++ ws2) l.
Proof. exact disjoint_writes_commute. Qed.

Theorem C19_disjoint_writes_schedule_independent :
  forall (A : Type) (ws1 ws2 ws ws' : list (nat * A)) (l : list A),
  (forall i, In i (map fst ws1) -> ~ In i (map fst ws2)) ->
  interleave ws1 ws2 ws -> interleave ws1 ws2 ws' ->
  apply_writes ws l = apply_writes ws' l.
Proof. exact disjoint_writes_schedule_independent. Qed.

Theorem C19_distinct_writes_perm_invariant : forall (A : Type) (ws ws' : list (nat * A)) (l : list A),
  NoDup (map fst ws) -> Permutation ws ws' -> apply_writes ws l = apply_writes ws' l.
Proof. exact distinct_writes_perm_invariant. Qed.

(* task 1 writes slots 0, 2 (slot 0 twice: its own order matters and is kept), task 2 slots 1, 3 *)
Definition ex_ws1 : list (nat * nat) := [(0, 100); (2, 102); (0, 200)].
Definition ex_ws2 : list (nat * nat) := [(3, 103); (1, 101)].

Example C19_two_interleavings :
  interleave ex_ws1 ex_ws2 [(3, 103); (0, 100); (2, 102); (1, 101); (0, 200)]
  /\ interleave ex_ws1 ex_ws2 [(0, 100); (3, 103); (1, 101); (2, 102); (0, 200)]
  /\ apply_writes [(3, 103); (0, 100); (2, 102); (1, 101); (0, 200)] [0; 0; 0; 0; 0]
     = [200; 101; 102; 103; 0]
  /\ apply_writes [(0, 100); (3, 103); (1, 101); (2, 102); (0, 200)] [0; 0; 0; 0; 0]
     = [200; 101; 102; 103; 0]
  /\ (forall i, In i (map fst ex_ws1) -> ~ In i (map fst ex_ws2)).
Proof.
  unfold ex_ws1, ex_ws2. repeat split.
  - apply interleave_right. apply interleave_left. apply interleave_left.
    apply interleave_right. apply interleave_left. apply interleave_nil.
  - apply interleave_left. apply interleave_right. apply interleave_right.
    apply interleave_left. apply interleave_left. apply interleave_nil.
  - cbn [map fst In]. intros i H1 H2.
    repeat (destruct H1 as [H1|H1]; [subst i; intuition discriminate|]). exact H1.
Qed.

(* ---------- (e) sigma does not depend on the order of the classes ---------- *)

(* permutation_argument.rs: the classes come out of a HashMap (`into_values`) in an order that
   depends on the hash state; the classes are pairwise disjoint (they partition the routed wires),
   so the neighbour map and hence sigma are the same for every such order *)
Theorem C19_sigma_partition_order_invariant : forall degree num_routed_wires partition partition',
  Permutation partition partition' -> NoDup (concat partition) ->
  get_sigma_map degree num_routed_wires partition = get_sigma_map degree num_routed_wires partition'.
Proof. exact sigma_partition_order_invariant. Qed.

Theorem C19_sigma_entry_defined : forall degree partition w, In w (concat partition) ->
  exists n, sigma_entry degree partition w = Some n.
Proof. exact sigma_entry_defined. Qed.

(* degree 2, 2 routed wires; classes {(0,0),(1,1)} {(1,0)} {(0,1)} in two orders *)
Example C19_sigma_two_orders :
  get_sigma_map 2 2 [[(0, 0); (1, 1)]; [(1, 0)]; [(0, 1)]] = [Some 3; Some 1; Some 2; Some 0]
  /\ get_sigma_map 2 2 [[(0, 1)]; [(0, 0); (1, 1)]; [(1, 0)]] = [Some 3; Some 1; Some 2; Some 0].
Proof. split; vm_compute; reflexivity. Qed.
