(* C16, part b - FRI proof compression is lossless: the full model of FriProof::compress,
   CompressedFriProof::decompress and get_inferred_elements (Model/FriCompress.v; tied to the real
   functions by the correspondence ops fricompress / fridecompress / friinferred, Model/C16Run2.v).

   The round trip  decompress (compress p) = p  is proved for EVERY number of queries, oracles,
   layers, every arity schedule and cap height and ANY list of query indices (repeated indices,
   indices sharing a coset at some layer), under hypotheses that honest proofs satisfy:
   (b) [round_opens]: every query round is what fri_prover_query_round produces, at the round's
       index, from ONE leaf vector per oracle and ONE coset vector per commit-phase layer
       ([trees_ok]: 2^lde_bits leaves; per layer 2^(height) cosets of 2^arity_bits evaluations; the
       cap height does not exceed the last height).  Repeated indices / shared cosets then carry
       identical data, and the Merkle paths are openings of one tree (what path compression needs);
   (c) [round_fold_ok]: the verifier's fold-consistency equations evals[x_index_within_coset] =
       old_eval hold at every layer (old_eval = fri_combine_initial, then compute_evaluation): this is
       what makes the element removed by compress equal to the element inferred by
       get_inferred_elements.  Accepted proofs satisfy it (C16b_accepted_fold_consistent).
   Shape validity (validate_fri_proof_shape) is not needed separately: (b) and (c) imply the part of
   it that compression uses.

   ACCEPTED proofs (C16b_accepted_round_trip_or_collision): a proof accepted by verify_fri_proof need
   not come from complete trees (a verifier only sees paths; siblings need not have known
   preimages), but all its openings are checked against one cap per oracle / per layer.  Then either
   a collision of hash_or_noop / two_to_one is EXHIBITED AS A VALUE (Proofs.Fri.fri_collision), or
   the openings are those of one partial Merkle tree per cap (Proofs/MerkleOpeningsConsistent.v), on
   which path compression is invertible (Proofs/MerkleCompressionPartial.v), and the round trip
   holds.  Side conditions: well-formed instance, one index per round, indices in the domain, a cap
   for every oracle (verify_initial zips oracles with caps and would leave further oracles
   unchecked), and a schedule that does not fold below the cap height. *)
From Coq Require Import List ZArith Bool.
From Verif Require Import Base.Field Model.Fp Model.Fp2 Model.Fri Model.FriProver Model.FriCompress
  Model.C16Run2 Proofs.Fri Proofs.FriCompress Proofs.FriCompressAcc.
Import ListNotations.
Local Open Scope nat_scope.

Section C16b.
  Variable hash_or_noop : list Fp -> digest.
  Variable two_to_one : digest -> digest -> digest.

  (* compress, then the inferred elements computed FROM THE COMPRESSED PROOF, then decompress:
     the identical proof *)
  Theorem C16b_decompress_compress : forall inst openings ch pr p its layers,
    fri_query_indices ch <> [] ->
    (forall x, In x (fri_query_indices ch) -> x < 2 ^ lde_bits p) ->
    trees_ok p its layers ->
    Forall2 (round_opens hash_or_noop two_to_one p its layers) (fri_query_indices ch) (fp_rounds pr) ->
    Forall2 (round_fold_ok inst openings ch p) (fri_query_indices ch) (fp_rounds pr) ->
    exists cp inferred,
      compress pr (fri_query_indices ch) p = Some cp
      /\ get_inferred_elements inst openings ch cp p = Some inferred
      /\ decompress hash_or_noop two_to_one cp (fri_query_indices ch) inferred p = Some pr.
  Proof. exact (fri_decompress_compress hash_or_noop two_to_one). Qed.

  (* hypothesis (c) holds for every proof accepted by verify_fri_proof (instance well formed:
     every polynomial of a batch names an existing oracle and one of its polynomials) *)
  Theorem C16b_accepted_fold_consistent : forall inst openings ch caps pr p,
    inst_wf inst ->
    verify_fri_proof hash_or_noop two_to_one inst openings ch caps pr p = inl tt ->
    length (fri_query_indices ch) = length (fp_rounds pr) ->
    Forall2 (round_fold_ok inst openings ch p) (fri_query_indices ch) (fp_rounds pr).
  Proof. exact (accepted_fold_ok hash_or_noop two_to_one). Qed.

  Theorem C16b_accepted_decompress_compress : forall inst openings ch caps pr p its layers,
    inst_wf inst ->
    verify_fri_proof hash_or_noop two_to_one inst openings ch caps pr p = inl tt ->
    length (fri_query_indices ch) = length (fp_rounds pr) ->
    fri_query_indices ch <> [] ->
    (forall x, In x (fri_query_indices ch) -> x < 2 ^ lde_bits p) ->
    trees_ok p its layers ->
    Forall2 (round_opens hash_or_noop two_to_one p its layers) (fri_query_indices ch) (fp_rounds pr) ->
    exists cp inferred,
      compress pr (fri_query_indices ch) p = Some cp
      /\ get_inferred_elements inst openings ch cp p = Some inferred
      /\ decompress hash_or_noop two_to_one cp (fri_query_indices ch) inferred p = Some pr.
  Proof. exact (accepted_decompress_compress hash_or_noop two_to_one). Qed.

  (* ANY accepted proof: the round trip, or an explicit hash collision *)
  Theorem C16b_accepted_round_trip_or_collision : forall inst openings ch caps pr p,
    verify_fri_proof hash_or_noop two_to_one inst openings ch caps pr p = inl tt ->
    inst_wf inst ->
    length (fri_query_indices ch) = length (fp_rounds pr) ->
    fri_query_indices ch <> [] ->
    (forall x, In x (fri_query_indices ch) -> x < 2 ^ lde_bits p) ->
    length (oracles inst) <= length caps ->
    total_arities p + cap_height (config p) <= lde_bits p ->
    fri_collision hash_or_noop two_to_one
    + {exists cp inferred,
         compress pr (fri_query_indices ch) p = Some cp
         /\ get_inferred_elements inst openings ch cp p = Some inferred
         /\ decompress hash_or_noop two_to_one cp (fri_query_indices ch) inferred p = Some pr}.
  Proof. exact (accepted_round_trip_or_collision hash_or_noop two_to_one). Qed.

  (* hypothesis (b) holds for every proof of the honest prover model (tied to the real prover by
     op friprove, C05) ... *)
  Theorem C16b_honest_opens_trees : forall inst p oracles ch w out,
    honest_prove hash_or_noop two_to_one inst p oracles ch w = Some out ->
    total_arities p + cap_height (config p) <= lde_bits p ->
    length (reduction_arity_bits p) <= length (fri_betas ch) ->
    trees_ok p (honest_its p oracles) (honest_layers inst p oracles ch)
    /\ Forall2 (round_opens hash_or_noop two_to_one p (honest_its p oracles) (honest_layers inst p oracles ch))
               (fri_query_indices ch) (fp_rounds (ho_proof out)).
  Proof. exact (honest_prove_opens hash_or_noop two_to_one). Qed.

  (* ... so every honest proof round-trips, with no hypothesis on the proof itself: the hypotheses
     are those of C05_honest_accepts (parameters, challenges) and the well-formed instance *)
  Theorem C16b_honest_decompress_compress : forall inst p oracles ch w out,
    honest_prove hash_or_noop two_to_one inst p oracles ch w = Some out ->
    inst_wf inst -> fri_query_indices ch <> [] ->
    hiding p = false ->
    lde_bits p <= two_adicity ->
    total_arities p <= degree_bits p ->
    total_arities p + cap_height (config p) <= lde_bits p ->
    Forall2 (fun o polys => num_polys o = length polys) (Fri.oracles inst) oracles ->
    (forall pi, length (poly_of oracles pi) <= 2 ^ degree_bits p) ->
    length (reduction_arity_bits p) <= length (fri_betas ch) ->
    length (fri_query_indices ch) = num_query_rounds (config p) ->
    (forall x, In x (fri_query_indices ch) -> x < 2 ^ lde_bits p) ->
    pow_ok (fri_pow_response ch) (proof_of_work_bits (config p)) = true ->
    (forall x b, In x (fri_query_indices ch) -> In b (batches inst) ->
                 fp2_of_base (layer_point 0 (lde_bits p) x) <> point b) ->
    exists cp inferred,
      compress (ho_proof out) (fri_query_indices ch) p = Some cp
      /\ get_inferred_elements inst (ho_openings out) ch cp p = Some inferred
      /\ decompress hash_or_noop two_to_one cp (fri_query_indices ch) inferred p = Some (ho_proof out).
  Proof. exact (honest_decompress_compress hash_or_noop two_to_one). Qed.

  (* decompress: what is outside the query rounds is carried verbatim, on every input *)
  Theorem C16b_decompress_carries : forall cp idx inferred p pr,
    decompress hash_or_noop two_to_one cp idx inferred p = Some pr ->
    fp_caps pr = cfp_caps cp /\ fp_final pr = cfp_final cp /\ fp_pow_witness pr = cfp_pow_witness cp.
  Proof. exact (decompress_carries hash_or_noop two_to_one). Qed.
End C16b.

(* compress: caps, final polynomial, grinding witness and the index list are carried verbatim *)
Theorem C16b_compress_carries : forall pr idx p cp,
  compress pr idx p = Some cp ->
  cfp_caps cp = fp_caps pr /\ cfp_final cp = fp_final pr /\ cfp_pow_witness cp = fp_pow_witness pr
  /\ cq_indices (cfp_rounds cp) = idx.
Proof. exact compress_carries. Qed.

(* ========================================================================================== *)
(* Example: a concrete honest proof (toy hash) with a REPEATED index (5, 5), two indices sharing a
   coset at layer 0 (5 and 4: 5 >> 1 = 4 >> 1) and two more sharing one at layer 1 only (2 and 5:
   (2 >> 1) >> 2 = (5 >> 1) >> 2); 16 leaves, arities [1; 2], cap height 1, two oracles.          *)
Definition xH (l : list Fp) : digest := l.
Definition xT (a b : digest) : digest := a ++ b.

Definition x_cfg : fri_config :=
  {| rate_bits := 1; cap_height := 1; proof_of_work_bits := 3; reduction_strategy := Fixed [1; 2];
     num_query_rounds := 5 |}.
Definition x_p : fri_params :=
  {| config := x_cfg; hiding := false; degree_bits := 3; reduction_arity_bits := [1; 2] |}.
Definition x_oracles : list (list (list Fp)) :=
  [ [ map toFp [3; 1; 4; 1; 5; 9; 2; 6]%Z; map toFp [5; 3; 5; 8; 9; 7; 9; 3]%Z ];
    [ map toFp [2; 7; 1; 8; 2; 8; 1; 8]%Z ] ].
Definition x_inst : fri_instance :=
  {| oracles := [ {| num_polys := 2; blinding := false |}; {| num_polys := 1; blinding := false |} ];
     batches := [ {| point := (toFp 11, toFp 13);
                     polynomials := [ {| oracle_index := 0; polynomial_index := 0 |};
                                      {| oracle_index := 0; polynomial_index := 1 |};
                                      {| oracle_index := 1; polynomial_index := 0 |} ] |};
                  {| point := (toFp 17, toFp 19);
                     polynomials := [ {| oracle_index := 1; polynomial_index := 0 |} ] |} ] |}.
Definition x_ch : fri_challenges :=
  {| fri_alpha := (toFp 21, toFp 22); fri_betas := [ (toFp 31, toFp 32); (toFp 41, toFp 42) ];
     fri_pow_response := toFp 12345; fri_query_indices := [5; 2; 5; 4; 13] |}.
Definition x_out := honest_prove xH xT x_inst x_p x_oracles x_ch (toFp 0).

(* the round trip, computed: 5 queries are stored as 4 initial entries, 3 cosets at layer 0 and
   2 cosets at layer 1; 5 elements are inferred; decompression returns the proof *)
Example C16b_example_round_trip :
  match x_out with
  | Some o =>
    match compress (ho_proof o) (fri_query_indices x_ch) x_p with
    | Some cp =>
      match get_inferred_elements x_inst (ho_openings o) x_ch cp x_p with
      | Some inferred =>
        (map (@length _) (cq_steps (cfp_rounds cp)), length (cq_initial (cfp_rounds cp)), length inferred,
         option_map e_fri_proof (decompress xH xT cp (fri_query_indices x_ch) inferred x_p))
        = ([3; 2], 4, 5, Some (e_fri_proof (ho_proof o)))
      | None => False
      end
    | None => False
    end
  | None => False
  end.
Proof. vm_compute. reflexivity. Qed.

(* the hypotheses of C16b_accepted_decompress_compress and of C16b_accepted_round_trip_or_collision
   hold for it (so their conclusions do) *)
Example C16b_example_hypotheses :
  exists o, x_out = Some o
    /\ inst_wf x_inst
    /\ verify_fri_proof xH xT x_inst (ho_openings o) x_ch (ho_caps o) (ho_proof o) x_p = inl tt
    /\ length (fri_query_indices x_ch) = length (fp_rounds (ho_proof o))
    /\ fri_query_indices x_ch <> []
    /\ (forall x, In x (fri_query_indices x_ch) -> x < 2 ^ lde_bits x_p)
    /\ trees_ok x_p (honest_its x_p x_oracles) (honest_layers x_inst x_p x_oracles x_ch)
    /\ Forall2 (round_opens xH xT x_p (honest_its x_p x_oracles) (honest_layers x_inst x_p x_oracles x_ch))
               (fri_query_indices x_ch) (fp_rounds (ho_proof o))
    /\ length (oracles x_inst) <= length (ho_caps o)
    /\ total_arities x_p + cap_height (config x_p) <= lde_bits x_p.
Proof.
  destruct x_out as [o|] eqn:Eo; [|vm_compute in Eo; discriminate Eo].
  exists o. split; [reflexivity|].
  assert (Hop := honest_prove_opens xH xT x_inst x_p x_oracles x_ch (toFp 0) o Eo
                   ltac:(vm_compute; repeat constructor) ltac:(vm_compute; repeat constructor)).
  destruct Hop as [Htr Hop].
  split.
  { intros b Hb pi Hpi. cbn [x_inst batches] in Hb.
    destruct Hb as [<-|[<-|[]]]; cbn [polynomials] in Hpi;
      repeat (destruct Hpi as [<-|Hpi]; [eexists; split; [reflexivity|cbn; repeat constructor]|]); destruct Hpi. }
  split.
  { assert (E : option_map (fun o => verify_fri_proof xH xT x_inst (ho_openings o) x_ch (ho_caps o) (ho_proof o) x_p) x_out
                = Some (inl tt)) by (vm_compute; reflexivity).
    rewrite Eo in E. cbn [option_map] in E. injection E as E. exact E. }
  split.
  { clear -Hop. induction Hop; cbn [length]; congruence. }
  split; [discriminate|].
  split.
  { intros x Hx. cbn [x_ch fri_query_indices] in Hx. change (2 ^ lde_bits x_p) with 16.
    repeat (destruct Hx as [<-|Hx]; [repeat constructor|]). destruct Hx. }
  split; [assumption|]. split; [assumption|]. split.
  { assert (E : option_map (fun o => length (ho_caps o)) x_out = Some 2) by (vm_compute; reflexivity).
    rewrite Eo in E. cbn [option_map] in E. injection E as ->. cbn. repeat constructor. }
  vm_compute. repeat constructor.
Qed.
