(* C11 - variable-degree mode: the circuit's bound on the final polynomial of a shorter proof.

   The native verifier demands final_poly.len() = 2^final_bits for a proof of the actual degree
   (validate_fri_proof_shape); the circuit, sized for the maximal degree, has 2^max_final_bits coefficient targets.
   Before the repair d58b66f nothing constrained the targets above 2^final_bits, and for most degrees the final
   polynomial then had at least as many coefficients as the last FRI domain has points (forged proofs of false
   statements were accepted in-circuit - known_findings.txt, DESIGN 11.3).  The repaired circuit asserts
   final_poly[j] * (1 - allowed_k) = 0; this file proves that those assertions say exactly "no coefficient at or
   above 2^final_bits", for every final_bits <= max_final_bits and over every field. *)
From Coq Require Import List Arith.
From Verif Require Import Base.Field Model.FinalPolyMask Proofs.FinalPolyMask.
Import ListNotations.

Theorem C11_final_poly_mask_is_the_native_length_bound :
  forall {F : Type} {FO : FieldOps F} {FL : FieldLaws F} (final_bits max_final_bits : nat) (coeffs : list F),
    (final_bits <= max_final_bits)%nat ->
    (mask_constraints final_bits max_final_bits coeffs <-> length_bound final_bits max_final_bits coeffs).
Proof. exact @mask_constraints_iff_length_bound. Qed.

(* the accumulator of the loop is the comparison it is commented to be *)
Theorem C11_allowed_is_comparison :
  forall {F : Type} {FO : FieldOps F} {FL : FieldLaws F} (final_bits max_final_bits k : nat),
    (final_bits <= max_final_bits)%nat -> (k < max_final_bits)%nat ->
    allowed (F := F) final_bits max_final_bits k = (if (k <? final_bits)%nat then 1 else 0)%F.
Proof. exact @allowed_spec. Qed.

(* non-vacuity over the integers-mod-nothing is not available generically; an instance over Fp: a length-8
   coefficient list with final_bits = 2, max_final_bits = 3 satisfies the bound iff positions 4..7 are zero *)
From Coq Require Import ZArith Lia.
From Verif Require Import Model.Fp.
Example C11_mask_example :
  length_bound (F := Fp) 2 3 (map toFp [5; 6; 7; 8; 0; 0; 0; 0])%Z.
Proof.
  intros j [Hlo Hhi]. cbn in Hlo, Hhi.
  do 4 (destruct j as [|j]; [exfalso; apply (Nat.lt_irrefl 0); lia|]).
  do 4 (destruct j as [|j]; [reflexivity|]). lia.
Qed.
