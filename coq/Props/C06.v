(* C06 - The in-circuit verifier accepts exactly what the native verifier accepts.
   Component theorems (the monolithic circuit = native statement is NOT proved; it is decided per
   case by the three-way correspondence of harness/src/c06.rs):
   - bit decomposition of split_le / low_bits: when the advice is unique, and the exact set of
     alternatives the code documents for FRI query indices;
   - the in-circuit proof-of-work range check = the native leading-zeros check;
   - ReducingFactorTarget (arithmetic gates / chunked reducing gates) = ReducingFactor. *)
From Coq Require Import ZArith List Lia.
From Verif Require Import Base.Field Model.Fp Model.RecursionParts Proofs.RecursionParts.
Import ListNotations.
Local Open Scope Z_scope.

(* ---- split_le(x, 64): the satisfying advice vectors --------------------------------------- *)
(* A vector of 64 boolean limbs satisfies the field equation sum b_i 2^i = x (x canonical) iff
   its integer value is x, or it is x + P and x < 2^32 - 1 (= 2^64 - P). *)
Theorem C06_split_le_64_decompositions : forall x bits,
  0 <= x < P -> length bits = 64%nat -> is_bits bits ->
  (le_sum bits mod P = x <-> le_sum bits = x \/ (x < 2 ^ 32 - 1 /\ le_sum bits = x + P)).
Proof. exact split64_iff. Qed.

(* the field equation checked by the circuit is the integer sum modulo P *)
Theorem C06_le_sum_field_eq : forall bits x, 0 <= x < P ->
  (le_sum_F bits = toFp x <-> le_sum bits mod P = x).
Proof. exact le_sum_F_eq. Qed.

(* Two different advice vectors for split_le(x, 64) exist exactly when x < 2^32 - 1. *)
Theorem C06_two_decompositions_iff : forall x, 0 <= x < P ->
  ((exists b1 b2, b1 <> b2 /\ split_le_ok x 64 b1 /\ split_le_ok x 64 b2) <-> x < 2 ^ 32 - 1).
Proof. exact two_decompositions_iff. Qed.

(* low_bits(x, k, 64): the kept bits encode x mod 2^k, or - only for x < 2^32 - 1 - (x + P) mod 2^k *)
Theorem C06_low_bits_eq_mod : forall x bits k, 0 <= x < P -> split_le_ok x 64 bits ->
  le_sum (low_bits_of k bits) = x mod 2 ^ Z.of_nat k \/
  (x < 2 ^ 32 - 1 /\ le_sum (low_bits_of k bits) = (x + P) mod 2 ^ Z.of_nat k).
Proof. exact low_bits_eq_mod. Qed.

Theorem C06_low_bits_eq_mod_unique : forall x bits k, 2 ^ 32 - 1 <= x < P -> split_le_ok x 64 bits ->
  le_sum (low_bits_of k bits) = x mod 2 ^ Z.of_nat k.
Proof. exact low_bits_eq_mod_unique. Qed.

(* the alternative is a genuinely different index as soon as one bit is kept *)
Theorem C06_alt_low_bits_differ : forall x k, (1 <= k)%nat ->
  (x + P) mod 2 ^ Z.of_nat k <> x mod 2 ^ Z.of_nat k.
Proof. exact alt_low_bits_differ. Qed.

(* fewer than 64 limbs (every range check below the field size): satisfiable iff x < 2^n *)
Theorem C06_split_le_range : forall n x, (n <= 64)%nat -> 0 <= x < P ->
  ((exists bits, split_le_ok x n bits) <-> x < 2 ^ Z.of_nat n).
Proof. exact split_le_range. Qed.

Example C06_ex_decompositions :
  split_le_ok 5 64 (to_bits 64 5) /\ split_le_ok 5 64 (to_bits 64 (5 + P)) /\
  le_sum (low_bits_of 3 (to_bits 64 5)) = 5 /\ le_sum (low_bits_of 3 (to_bits 64 (5 + P))) = 6.
Proof.
  split; [apply split_le_ok_canonical; unfold P, Gen.FieldConsts.ORDER; lia|].
  split; [apply split_le_ok_alternative; lia|]. split; vm_compute; reflexivity.
Qed.

(* ---- proof of work ------------------------------------------------------------------------ *)
Theorem C06_pow_leading_zeros_eq : forall k x, (k <= 64)%nat -> 0 <= x < P ->
  (pow_circuit_ok k x <-> pow_native_ok k x = true).
Proof. exact pow_leading_zeros_eq. Qed.

Theorem C06_pow_circuit_iff : forall k x, (k <= 64)%nat -> 0 <= x < P ->
  (pow_circuit_ok k x <-> x < 2 ^ (64 - Z.of_nat k)).
Proof. exact pow_circuit_iff. Qed.

Theorem C06_pow_native_iff : forall k x, (k <= 64)%nat -> 0 <= x < P ->
  (pow_native_ok k x = true <-> x < 2 ^ (64 - Z.of_nat k)).
Proof. exact pow_native_iff. Qed.

Example C06_ex_pow :
  pow_native_ok 3 (2 ^ 61 - 1) = true /\ pow_native_ok 3 (2 ^ 61) = false /\
  pow_circuit_ok 3 (2 ^ 61 - 1) /\ ~ pow_circuit_ok 3 (2 ^ 61).
Proof.
  split; [reflexivity|]. split; [reflexivity|].
  assert (R1 : 0 <= 2 ^ 61 - 1 < P) by (unfold P, Gen.FieldConsts.ORDER; lia).
  assert (R2 : 0 <= 2 ^ 61 < P) by (unfold P, Gen.FieldConsts.ORDER; lia).
  split.
  - apply (pow_leading_zeros_eq 3 _ ltac:(lia) R1). reflexivity.
  - intros H. apply (pow_leading_zeros_eq 3 _ ltac:(lia) R2) in H. discriminate.
Qed.

(* ---- reducing factors --------------------------------------------------------------------- *)
(* ReducingFactor::reduce = sum_i alpha^i x_i *)
Theorem C06_reduce_eq : forall (F : Type) (FO : FieldOps F) (FL : FieldLaws F) (alpha : F) (xs : list F),
  reduce alpha xs = wsum_pow alpha 0 xs.
Proof. exact @reduce_eq_sum. Qed.

(* ReducingFactorTarget::reduce (threshold t for the arithmetic-gate path, chunk size m of the
   reducing gates) computes the native value, for all t and all m > 0 *)
Theorem C06_reduce_target_eq : forall (F : Type) (FO : FieldOps F) (FL : FieldLaws F) t m (alpha : F) xs,
  (0 < m)%nat -> reduce_target t m alpha xs = reduce alpha xs.
Proof. exact @reduce_target_eq. Qed.

(* ReducingFactorTarget::reduce_base (base-field terms embedded by emb, padded with the base zero) *)
Theorem C06_reduce_base_target_eq : forall (F : Type) (FO : FieldOps F) (FL : FieldLaws F) (B : Type)
    (emb : B -> F) (bzero : B) t m (alpha : F) ts,
  (0 < m)%nat -> emb bzero = fzero ->
  reduce_base_target emb bzero t m alpha ts = reduce alpha (map emb ts).
Proof. exact @reduce_base_target_eq. Qed.

Example C06_ex_reduce :
  fval (reduce (toFp 3) [toFp 1; toFp 2; toFp 5]) = 52 /\
  fval (reduce_target 1 2 (toFp 3) [toFp 1; toFp 2; toFp 5]) = 52 /\
  fval (reduce_base_target toFp 0 0 2 (toFp 3) [1; 2; 5]) = 52.
Proof. repeat split; vm_compute; reflexivity. Qed.
