(* C11 - The in-circuit STARK verifier agrees with the native STARK verifier.
   Component theorem for the variable-degree mode: the transcript stays in sync.
   (The verdict agreement itself is decided per case by harness/src/c11.rs.) *)
From Coq Require Import List.
From Verif Require Import Model.RecursionParts Proofs.RecursionParts.
Import ListNotations.

(* A circuit sized for max_steps FRI reductions and final_len final coefficients reads targets that
   set_fri_proof_target padded with zero caps / zero coefficients. Its challenger operations are
   exactly those of the native verifier (Challenger::fri_challenges with the two padding
   arguments), which are those of the prover (fri_committed_trees with the same arguments). *)
Theorem C11_padding_keeps_transcripts_equal : forall (A : Type) (z : A) cap_height D
    (caps : list (list (list A))) (final : list (list A)) max_steps final_len,
  circuit_ops (pad_caps z cap_height caps max_steps) (pad_final z D final final_len)
  = native_ops z cap_height D caps final (Some final_len) (Some max_steps).
Proof. exact @padding_keeps_transcripts_equal. Qed.

Theorem C11_prover_native_ops_eq : forall (A : Type) (z : A) cap_height D
    (caps : list (list (list A))) (final : list (list A)) final_len max_steps,
  prover_ops z cap_height D caps final final_len max_steps
  = native_ops z cap_height D caps final final_len max_steps.
Proof. exact @prover_native_ops_eq. Qed.

(* plain recursion (no padding requested): nothing is added on either side *)
Theorem C11_no_padding_ops : forall (A : Type) (z : A) cap_height D
    (caps : list (list (list A))) (final : list (list A)),
  circuit_ops caps final = native_ops z cap_height D caps final None None.
Proof. exact @no_padding_ops. Qed.

Example C11_ex_padding :
  circuit_ops (pad_caps 0 0 [[[1; 2; 3; 4]]] 2) (pad_final 0 2 [[5; 6]] 2)
  = [Obs 1; Obs 2; Obs 3; Obs 4; GetExt; Obs 0; Obs 0; Obs 0; Obs 0; GetExt; Obs 5; Obs 6; Obs 0; Obs 0]
  /\ prover_ops 0 0 2 [[[1; 2; 3; 4]]] [[5; 6]] (Some 2) (Some 2)
  = [Obs 1; Obs 2; Obs 3; Obs 4; GetExt; Obs 0; Obs 0; Obs 0; Obs 0; GetExt; Obs 5; Obs 6; Obs 0; Obs 0].
Proof. split; reflexivity. Qed.
