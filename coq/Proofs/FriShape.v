(* C18 (FRI part): after shape validation no partial operation of the FRI verifier model
   (Model/Fri.v) can fail.  The only remaining [EPanic] site is the inversion of a vanishing
   denominator [subgroup_x - point] in fri_combine_initial ("Tried to invert zero" in the real
   code), which is isolated as an explicit hypothesis and shown to be reached when it fails.
   Hash functions are abstract section variables and are never unfolded. *)
From Coq Require Import ZArith List Bool Lia Arith PeanoNat.
From Verif Require Import Base.Field Model.Fp Model.Fp2 Model.FieldGeneric Model.Fri.
Import ListNotations.
Local Open Scope nat_scope.

(* ------------------------------------------------------------------ arithmetic *)
Lemma fs_pow2_pos k : 0 < 2 ^ k.
Proof. induction k; cbn [Nat.pow]; lia. Qed.

Lemma fs_pow2_neq0 k : 2 ^ k <> 0.
Proof. pose proof (fs_pow2_pos k). lia. Qed.

Lemma fs_pow2_le a b : a <= b -> 2 ^ a <= 2 ^ b.
Proof. intros. apply Nat.pow_le_mono_r; lia. Qed.

Lemma fs_div_lt_pow i a b : i < 2 ^ (a + b) -> i / 2 ^ a < 2 ^ b.
Proof.
  intros Hi. apply Nat.div_lt_upper_bound; [apply fs_pow2_neq0|].
  rewrite <- Nat.pow_add_r. exact Hi.
Qed.

(* truncated subtraction, as in [steps_shape_ok]: the quotient stays below 2^(cw - a) *)
Lemma fs_div_lt_pow_sub x a cw : x < 2 ^ cw -> x / 2 ^ a < 2 ^ (cw - a).
Proof.
  intros Hx. destruct (le_lt_dec a cw) as [Hle|Hgt].
  - apply fs_div_lt_pow. replace (a + (cw - a)) with cw by lia. exact Hx.
  - replace (cw - a) with 0 by lia. cbn [Nat.pow].
    assert (Hp : 2 ^ cw <= 2 ^ a) by (apply fs_pow2_le; lia).
    rewrite Nat.div_small by lia. lia.
Qed.

Lemma fs_mod_lt x a : x mod 2 ^ a < 2 ^ a.
Proof. apply Nat.mod_upper_bound. apply fs_pow2_neq0. Qed.

(* ------------------------------------------------------------------ list helpers *)
Lemma forallb_combine_fst {A B} (f : A * B -> bool) (l : list A) (m : list B) :
  length l = length m -> forallb f (combine l m) = true ->
  forall k a, nth_error l k = Some a -> exists b, nth_error m k = Some b /\ f (a, b) = true.
Proof.
  revert m. induction l as [|x l IH]; intros [|y m] Hl Hf k a Hk; cbn in *; try discriminate.
  - destruct k; discriminate.
  - apply andb_true_iff in Hf. destruct Hf as [Hxy Hf]. destruct k as [|k]; cbn in *.
    + inversion Hk; subst. exists y. auto.
    + apply (IH m); auto.
Qed.

Lemma Forall_nth_error {A} (P : A -> Prop) l : Forall P l -> forall k a, nth_error l k = Some a -> P a.
Proof. intros HF k a Hk. apply nth_error_In in Hk. rewrite Forall_forall in HF. auto. Qed.

Lemma nth_error_Some_lt {A} (l : list A) k : k < length l -> exists a, nth_error l k = Some a.
Proof.
  intros Hk. destruct (nth_error l k) eqn:E; [eauto|]. apply nth_error_None in E. lia.
Qed.

(* ------------------------------------------------------------------ shape facts as propositions *)
Definition step_lens (s : fri_query_step) : nat * nat := (length (fs_evals s), length (fs_siblings s)).

(* codeword bits after the first j reduction layers (truncated subtraction, as in the model) *)
Definition cw_after (p : fri_params) (j : nat) : nat :=
  lde_bits p - fold_right Nat.add 0 (firstn j (reduction_arity_bits p)).

Lemma steps_shape_ok_inv steps : forall arities cw ch,
  steps_shape_ok steps arities cw ch = true ->
  length steps = length arities /\
  forall j s a, nth_error steps j = Some s -> nth_error arities j = Some a ->
    length (fs_evals s) = 2 ^ a /\
    length (fs_siblings s) + ch = cw - fold_right Nat.add 0 (firstn (S j) arities).
Proof.
  induction steps as [|s st IH]; intros [|a at'] cw ch Hs; cbn [steps_shape_ok] in Hs; try discriminate.
  - split; [reflexivity|]. intros [|j] s0 a0 E; discriminate.
  - apply andb_true_iff in Hs. destruct Hs as [Hs H3]. apply andb_true_iff in Hs. destruct Hs as [H1 H2].
    apply Nat.eqb_eq in H1. apply Nat.eqb_eq in H2.
    destruct (IH _ _ _ H3) as [Hl Hj]. split; [cbn [length]; lia|].
    intros [|j] s0 a0 E1 E2; cbn [nth_error] in E1, E2.
    + inversion E1; inversion E2; subst. cbn [firstn fold_right]. split; [exact H1|lia].
    + destruct (Hj j s0 a0 E1 E2) as [Ha Hb]. split; [exact Ha|].
      rewrite Hb. cbn [firstn fold_right]. lia.
Qed.

Section FriNoPanic.
  Variable H : list Fp -> digest.
  Variable T : digest -> digest -> digest.

  Ltac disc := unfold ok, err in *; discriminate.

  (* ---------------------------------------------------------------- 1. Merkle walk *)
  Lemma merkle_walk_index (cur : digest) (idx : nat) (sibs : list digest) :
    snd (merkle_walk T cur idx sibs) = (idx / 2 ^ length sibs)%nat.
  Proof.
    revert cur idx. induction sibs as [|s t IH]; intros cur idx; cbn [merkle_walk length].
    - cbn [snd Nat.pow]. rewrite Nat.div_1_r. reflexivity.
    - rewrite IH. rewrite Nat.div2_div. rewrite Nat.div_div by (try apply fs_pow2_neq0; lia).
      rewrite Nat.pow_succ_r'. reflexivity.
  Qed.

  (* the real function panics (cap index out of range) exactly when the remaining index is not
     below the cap length *)
  Lemma verify_merkle_panic_iff leaf idx cap sibs :
    verify_merkle_proof_to_cap H T leaf idx cap sibs = None
    <-> (length cap <= idx / 2 ^ length sibs)%nat.
  Proof.
    unfold verify_merkle_proof_to_cap.
    pose proof (merkle_walk_index (H leaf) idx sibs) as Hi.
    destruct (merkle_walk T (H leaf) idx sibs) as [d ci]. cbn [snd] in Hi. subst ci.
    destruct (nth_error cap (idx / 2 ^ length sibs)) eqn:E.
    - split; [disc|]. intros Hle. apply nth_error_None in Hle. congruence.
    - split; [intros _; apply nth_error_None; exact E | reflexivity].
  Qed.

  Lemma verify_merkle_no_panic leaf idx cap sibs :
    (idx / 2 ^ length sibs < length cap)%nat ->
    exists b, verify_merkle_proof_to_cap H T leaf idx cap sibs = Some b.
  Proof.
    intros Hlt. destruct (verify_merkle_proof_to_cap H T leaf idx cap sibs) eqn:E; [eauto|].
    apply verify_merkle_panic_iff in E. lia.
  Qed.

  (* the form used by the verifiers: path length + cap height = number of index bits *)
  Lemma verify_merkle_no_panic_bits leaf idx cap sibs ch bits :
    (length sibs + ch = bits)%nat -> length cap = (2 ^ ch)%nat -> (idx < 2 ^ bits)%nat ->
    exists b, verify_merkle_proof_to_cap H T leaf idx cap sibs = Some b.
  Proof.
    intros Hb Hc Hi. apply verify_merkle_no_panic. rewrite Hc. apply fs_div_lt_pow.
    rewrite Hb. exact Hi.
  Qed.

  (* ---------------------------------------------------------------- 2. combine_initial *)
  Lemma combine_batches_no_panic inst p initial alpha sx : forall bs reduced sum,
    (forall b, In b bs -> (sx - point b =? 0)%F = false) ->
    exists v, combine_batches inst p initial alpha sx bs reduced sum = inl v.
  Proof.
    induction bs as [|b bt IH]; intros reduced sum Hnz; cbn [combine_batches].
    - eexists; reflexivity.
    - destruct reduced as [|ro rt]; [eexists; reflexivity|].
      rewrite (Hnz b (or_introl eq_refl)). apply IH. intros b' Hb'. apply Hnz. right. exact Hb'.
  Qed.

  (* the remaining panic site: the first batch whose denominator vanishes is reached *)
  Lemma combine_batches_zero_denominator_panics inst p initial alpha sx : forall bs reduced sum,
    (length bs <= length reduced)%nat ->
    (exists b, In b bs /\ (sx - point b =? 0)%F = true) ->
    combine_batches inst p initial alpha sx bs reduced sum = inr (EPanic 1).
  Proof.
    induction bs as [|b bt IH]; intros reduced sum Hl [b' [Hin Hz]]; [destruct Hin|].
    destruct reduced as [|ro rt]; [cbn in Hl; lia|]. cbn [combine_batches].
    destruct (sx - point b =? 0)%F eqn:E; [reflexivity|].
    apply IH; [cbn in Hl; lia|]. destruct Hin as [Hin | Hin]; [subst b'; congruence|]. exists b'. auto.
  Qed.

  (* ---------------------------------------------------------------- compute_evaluation is total *)
  Lemma compute_evaluation_total x w a evals beta :
    exists v, compute_evaluation x w a evals beta = inl v.
  Proof.
    unfold compute_evaluation, interpolate.
    match goal with |- context [find ?f ?l] => destruct (find f l) end; eexists; reflexivity.
  Qed.

  (* ---------------------------------------------------------------- query_steps *)
  Lemma query_steps_no_panic round caps betas ch : forall arities steps layer x_index sx old cw,
    steps_shape_ok steps arities cw ch = true ->
    (x_index < 2 ^ cw)%nat ->
    (layer + length arities <= length betas)%nat ->
    (layer + length arities <= length caps)%nat ->
    Forall (fun c : list digest => length c = (2 ^ ch)%nat) caps ->
    forall s, query_steps H T round caps steps arities betas layer x_index sx old <> inr (EPanic s).
  Proof.
    induction arities as [|a at' IH]; intros steps layer x_index sx old cw Hs Hx Hb Hc Hcaps site.
    { destruct steps; cbn [query_steps]; disc. }
    destruct steps as [|s st]; [cbn [steps_shape_ok] in Hs; disc|].
    cbn [query_steps].
    cbn [steps_shape_ok] in Hs.
    apply andb_true_iff in Hs. destruct Hs as [Hs H3]. apply andb_true_iff in Hs. destruct Hs as [H1 H2].
    apply Nat.eqb_eq in H1. apply Nat.eqb_eq in H2. cbn [length] in Hb, Hc.
    destruct (nth_error_Some_lt (fs_evals s) (x_index mod 2 ^ a)) as [e He];
      [rewrite H1; apply fs_mod_lt|].
    destruct (nth_error_Some_lt betas layer) as [beta Hbeta]; [lia|].
    destruct (nth_error_Some_lt caps layer) as [cap Hcap]; [lia|].
    rewrite He, Hbeta, Hcap.
    unfold ensure. destruct (e =? old)%F; [|cbn [rbindr err]; disc].
    cbn [rbindr ok].
    destruct (compute_evaluation_total sx (x_index mod 2 ^ a) a (fs_evals s) beta) as [ev Hev].
    rewrite Hev. cbn [rbindr].
    pose proof (Forall_nth_error _ _ Hcaps _ _ Hcap) as Hcl. cbv beta in Hcl.
    assert (Hq : (x_index / 2 ^ a < 2 ^ (cw - a))%nat) by (apply fs_div_lt_pow_sub; exact Hx).
    destruct (verify_merkle_no_panic_bits (flatten2 (fs_evals s)) (x_index / 2 ^ a) cap (fs_siblings s)
                                          ch (cw - a) H2 Hcl Hq) as [b Hm].
    rewrite Hm. destruct b; [|disc].
    apply (IH st (S layer) _ _ _ (cw - a)); auto; lia.
  Qed.

  (* ---------------------------------------------------------------- initial Merkle proofs *)
  Lemma verify_initial_no_panic round x_index ch bits : forall initial caps oi,
    Forall (fun pr : list Fp * list digest => (length (snd pr) + ch = bits)%nat) initial ->
    Forall (fun c : list digest => length c = (2 ^ ch)%nat) caps ->
    (x_index < 2 ^ bits)%nat ->
    forall s, verify_initial H T round x_index initial caps oi <> inr (EPanic s).
  Proof.
    induction initial as [|[evals sibs] it IH]; intros caps oi Hi Hc Hx site; cbn [verify_initial];
      [disc|].
    destruct caps as [|cap ct]; [disc|].
    apply Forall_cons_iff in Hi; destruct Hi as [Hi1 Hi2]. apply Forall_cons_iff in Hc; destruct Hc as [Hc1 Hc2]. cbn [snd] in Hi1.
    destruct (verify_merkle_no_panic_bits evals x_index cap sibs ch bits Hi1 Hc1 Hx) as [b Hm].
    rewrite Hm. destruct b; [|disc]. apply IH; auto.
  Qed.

  (* ---------------------------------------------------------------- shape of one round *)
  Lemma round_shape_ok_inv inst p q :
    round_shape_ok inst p q = true ->
    length (qr_initial q) = length (oracles inst)
    /\ (forall k lp, nth_error (qr_initial q) k = Some lp ->
          exists n, nth_error (leaf_lens inst p) k = Some n /\ length (fst lp) = n
                    /\ (length (snd lp) + cap_height (config p) = lde_bits p)%nat)
    /\ length (qr_steps q) = length (reduction_arity_bits p)
    /\ steps_shape_ok (qr_steps q) (reduction_arity_bits p) (lde_bits p) (cap_height (config p)) = true.
  Proof.
    unfold round_shape_ok. intros Hr.
    apply andb_true_iff in Hr. destruct Hr as [Hr H4]. apply andb_true_iff in Hr. destruct Hr as [Hr H3].
    apply andb_true_iff in Hr. destruct Hr as [H1 H2].
    apply Nat.eqb_eq in H1. apply Nat.eqb_eq in H3.
    split; [exact H1|]. split; [|split; [exact H3|exact H4]].
    intros k lp Hk.
    assert (Hll : length (qr_initial q) = length (leaf_lens inst p))
      by (unfold leaf_lens; rewrite map_length; exact H1).
    destruct (forallb_combine_fst _ _ _ Hll H2 k lp Hk) as [n [Hn Hf]].
    cbn [fst snd] in Hf. apply andb_true_iff in Hf. destruct Hf as [Hf1 Hf2].
    apply Nat.eqb_eq in Hf1. apply Nat.eqb_eq in Hf2. exists n. auto.
  Qed.

  Lemma round_shape_paths inst p q :
    round_shape_ok inst p q = true ->
    Forall (fun pr : list Fp * list digest =>
              (length (snd pr) + cap_height (config p) = lde_bits p)%nat) (qr_initial q).
  Proof.
    intros Hr. destruct (round_shape_ok_inv _ _ _ Hr) as [_ [Hk _]].
    apply Forall_forall. intros lp Hin. apply In_nth_error in Hin. destruct Hin as [k Hk'].
    destruct (Hk k lp Hk') as [n [_ [_ Hn]]]. exact Hn.
  Qed.

  (* ---------------------------------------------------------------- the query points *)
  Definition subgroup_point (p : fri_params) (x_index : nat) : Fp :=
    (coset_shift * exp_u64 (primitive_root_of_unity (lde_bits p))
                           (N.of_nat (reverse_bits x_index (lde_bits p))))%F.

  (* no query point coincides with an opening point *)
  Definition denominators_nonzero (inst : fri_instance) (p : fri_params) (idxs : list nat) : Prop :=
    forall x b, In x idxs -> In b (batches inst) ->
      (fp2_of_base (subgroup_point p x) - point b =? 0)%F = false.

  Lemma fri_combine_initial_no_panic inst p initial alpha x reduced :
    (forall b, In b (batches inst) -> (fp2_of_base (subgroup_point p x) - point b =? 0)%F = false) ->
    exists v, fri_combine_initial inst p initial alpha (subgroup_point p x) reduced = inl v.
  Proof. intros Hnz. unfold fri_combine_initial. apply combine_batches_no_panic. exact Hnz. Qed.

  (* ---------------------------------------------------------------- one query round *)
  Lemma query_round_no_panic inst ch reduced initial_caps pr p round x_index q :
    round_shape_ok inst p q = true ->
    length (fp_caps pr) = length (reduction_arity_bits p) ->
    Forall (fun c : list digest => length c = (2 ^ cap_height (config p))%nat) (fp_caps pr) ->
    length (fri_betas ch) = length (reduction_arity_bits p) ->
    Forall (fun c : list digest => length c = (2 ^ cap_height (config p))%nat) initial_caps ->
    (x_index < 2 ^ lde_bits p)%nat ->
    (forall b, In b (batches inst) -> (fp2_of_base (subgroup_point p x_index) - point b =? 0)%F = false) ->
    forall s, fri_verifier_query_round H T inst ch reduced initial_caps pr p round x_index q
              <> inr (EPanic s).
  Proof.
    intros Hr Hcl Hcaps Hbetas Hic Hx Hnz site. unfold fri_verifier_query_round.
    pose proof (round_shape_paths _ _ _ Hr) as Hpaths.
    destruct (round_shape_ok_inv _ _ _ Hr) as [_ [_ [_ Hsteps]]].
    destruct (verify_initial H T round x_index (qr_initial q) initial_caps 0) as [[]|e] eqn:Ei.
    2:{ cbn [rbindr]. intros E. inversion E; subst.
        exact (verify_initial_no_panic round x_index _ _ _ _ 0 Hpaths Hic Hx site Ei). }
    cbn [rbindr]. fold (subgroup_point p x_index).
    destruct (fri_combine_initial_no_panic inst p (qr_initial q) (fri_alpha ch) x_index reduced Hnz)
      as [old Hold].
    rewrite Hold. cbn [rbindr].
    destruct (query_steps H T round (fp_caps pr) (qr_steps q) (reduction_arity_bits p) (fri_betas ch) 0
                          x_index (subgroup_point p x_index) old) as [[sx ev]|e] eqn:Eq.
    - cbn [rbindr]. unfold ensure. destruct (_ =? _)%F; disc.
    - cbn [rbindr]. intros E. inversion E; subst.
      refine (query_steps_no_panic round (fp_caps pr) (fri_betas ch) (cap_height (config p))
                (reduction_arity_bits p) (qr_steps q) 0 x_index _ old (lde_bits p)
                Hsteps Hx _ _ Hcaps site Eq); cbn [Nat.add]; lia.
  Qed.

  (* if the Merkle proofs of the round pass and a denominator vanishes, the model reports the
     panic of the real code ("Tried to invert zero", site 1) *)
  Lemma query_round_zero_denominator_panics inst ch reduced initial_caps pr p round x_index q :
    verify_initial H T round x_index (qr_initial q) initial_caps 0 = inl tt ->
    (length (batches inst) <= length reduced)%nat ->
    (exists b, In b (batches inst) /\ (fp2_of_base (subgroup_point p x_index) - point b =? 0)%F = true) ->
    fri_verifier_query_round H T inst ch reduced initial_caps pr p round x_index q = inr (EPanic 1).
  Proof.
    intros Hi Hl Hz. unfold fri_verifier_query_round. rewrite Hi. cbn [rbindr].
    fold (subgroup_point p x_index). unfold fri_combine_initial.
    rewrite (combine_batches_zero_denominator_panics inst p (qr_initial q) (fri_alpha ch)
               (fp2_of_base (subgroup_point p x_index)) (batches inst) reduced 0%F Hl Hz).
    reflexivity.
  Qed.

  (* ---------------------------------------------------------------- all rounds *)
  Lemma verify_rounds_no_panic inst ch reduced initial_caps pr p :
    length (fp_caps pr) = length (reduction_arity_bits p) ->
    Forall (fun c : list digest => length c = (2 ^ cap_height (config p))%nat) (fp_caps pr) ->
    length (fri_betas ch) = length (reduction_arity_bits p) ->
    Forall (fun c : list digest => length c = (2 ^ cap_height (config p))%nat) initial_caps ->
    forall idxs rounds round,
    Forall (fun q => round_shape_ok inst p q = true) rounds ->
    Forall (fun x => (x < 2 ^ lde_bits p)%nat) idxs ->
    denominators_nonzero inst p idxs ->
    forall s, verify_rounds H T inst ch reduced initial_caps pr p round idxs rounds <> inr (EPanic s).
  Proof.
    intros Hcl Hcaps Hbetas Hic.
    induction idxs as [|i it IH]; intros rounds round Hr Hi Hnz site; cbn [verify_rounds]; [disc|].
    destruct rounds as [|q qt]; [disc|].
    apply Forall_cons_iff in Hr; destruct Hr as [Hr1 Hr2]. apply Forall_cons_iff in Hi; destruct Hi as [Hi1 Hi2].
    destruct (fri_verifier_query_round H T inst ch reduced initial_caps pr p round i q) as [[]|e] eqn:E.
    - cbn [rbindr]. apply IH; auto. intros x b Hx Hb. apply Hnz; [right; exact Hx|exact Hb].
    - cbn [rbindr]. intros E2. inversion E2; subst.
      refine (query_round_no_panic inst ch reduced initial_caps pr p round i q Hr1 Hcl Hcaps Hbetas Hic
                Hi1 _ site E).
      intros b Hb. apply Hnz; [left; reflexivity|exact Hb].
  Qed.

  (* ---------------------------------------------------------------- validate_fri_proof_shape *)
  Lemma validate_fri_proof_shape_inv inst p pr :
    validate_fri_proof_shape inst p pr = true ->
    length (fp_caps pr) = length (reduction_arity_bits p)
    /\ Forall (fun c : list digest => length c = (2 ^ cap_height (config p))%nat) (fp_caps pr)
    /\ Forall (fun q => round_shape_ok inst p q = true) (fp_rounds pr)
    /\ length (fp_final pr) = final_poly_len p.
  Proof.
    unfold validate_fri_proof_shape. intros Hv.
    apply andb_true_iff in Hv. destruct Hv as [Hv H4]. apply andb_true_iff in Hv. destruct Hv as [Hv H3].
    apply andb_true_iff in Hv. destruct Hv as [H1 H2].
    apply Nat.eqb_eq in H1. apply Nat.eqb_eq in H4.
    split; [exact H1|]. split; [|split; [|exact H4]].
    - apply Forall_forall. intros c Hc. rewrite forallb_forall in H2. apply Nat.eqb_eq. auto.
    - apply Forall_forall. intros q Hq. rewrite forallb_forall in H3. auto.
  Qed.

  (* ---------------------------------------------------------------- 2. the FRI verifier *)
  Theorem fri_validated_no_panic inst openings ch initial_caps pr p :
    validate_fri_proof_shape inst p pr = true ->
    length (fri_betas ch) = length (reduction_arity_bits p) ->
    Forall (fun x => (x < 2 ^ lde_bits p)%nat) (fri_query_indices ch) ->
    Forall (fun c : list digest => length c = (2 ^ cap_height (config p))%nat) initial_caps ->
    denominators_nonzero inst p (fri_query_indices ch) ->
    forall s, verify_fri_proof H T inst openings ch initial_caps pr p <> inr (EPanic s).
  Proof.
    intros Hv Hbetas Hidx Hic Hnz site. unfold verify_fri_proof. rewrite Hv. cbn [ensure rbindr ok].
    destruct (pow_ok _ _); cbn [rbindr ok err]; [|disc].
    destruct (Nat.eqb _ _); cbn [rbindr ok err]; [|disc].
    destruct (validate_fri_proof_shape_inv _ _ _ Hv) as [Hcl [Hcaps [Hrounds _]]].
    apply verify_rounds_no_panic; auto.
  Qed.

  (* the shape check is the first thing verify_fri_proof does, so the hypothesis can be dropped;
     the folding challenges are counted against the commit-phase caps of the proof (one beta is
     drawn per cap), which the shape check then ties to the number of reduction layers *)
  Corollary verify_fri_proof_no_panic inst openings ch initial_caps pr p :
    length (fri_betas ch) = length (fp_caps pr) ->
    Forall (fun x => (x < 2 ^ lde_bits p)%nat) (fri_query_indices ch) ->
    Forall (fun c : list digest => length c = (2 ^ cap_height (config p))%nat) initial_caps ->
    denominators_nonzero inst p (fri_query_indices ch) ->
    forall s, verify_fri_proof H T inst openings ch initial_caps pr p <> inr (EPanic s).
  Proof.
    intros Hbetas Hidx Hic Hnz site.
    destruct (validate_fri_proof_shape inst p pr) eqn:Hv.
    - apply fri_validated_no_panic; auto.
      destruct (validate_fri_proof_shape_inv _ _ _ Hv) as [Hcl _]. congruence.
    - unfold verify_fri_proof. rewrite Hv. cbn [ensure rbindr err]. disc.
  Qed.

  (* the remaining panic: a vanishing denominator in the first query round whose Merkle proofs
     pass is reached and reported as site 1 ("Tried to invert zero") *)
  Lemma verify_fri_proof_zero_denominator_panics inst openings ch initial_caps pr p x it q qt :
    validate_fri_proof_shape inst p pr = true ->
    pow_ok (fri_pow_response ch) (proof_of_work_bits (config p)) = true ->
    num_query_rounds (config p) = length (fp_rounds pr) ->
    fri_query_indices ch = x :: it -> fp_rounds pr = q :: qt ->
    verify_initial H T 0 x (qr_initial q) initial_caps 0 = inl tt ->
    (length (batches inst) <= length openings)%nat ->
    (exists b, In b (batches inst) /\ (fp2_of_base (subgroup_point p x) - point b =? 0)%F = true) ->
    verify_fri_proof H T inst openings ch initial_caps pr p = inr (EPanic 1).
  Proof.
    intros Hv Hp Hn Hi Hr Hini Hl Hz. unfold verify_fri_proof.
    rewrite Hv, Hp. cbn [ensure rbindr ok]. rewrite Hn, Nat.eqb_refl. cbn [rbindr ok].
    rewrite Hi, Hr. cbn [verify_rounds].
    rewrite (query_round_zero_denominator_panics inst ch _ initial_caps pr p 0 x q Hini); auto.
    unfold precomputed_reduced_openings. rewrite map_length. exact Hl.
  Qed.

  (* ---------------------------------------------------------------- accesses of combine_batches *)
  (* The model reads oracle / polynomial positions of the instance with a default value; for a
     well-formed instance and a shape-valid round every such access is in range. *)
  Definition inst_wf (inst : fri_instance) : Prop :=
    forall b pi, In b (batches inst) -> In pi (polynomials b) ->
      exists o, nth_error (oracles inst) (oracle_index pi) = Some o
                /\ (polynomial_index pi < num_polys o)%nat.

  Lemma combine_accesses_in_range inst p q :
    inst_wf inst -> round_shape_ok inst p q = true ->
    forall b pi, In b (batches inst) -> In pi (polynomials b) ->
      (oracle_index pi < length (oracles inst))%nat
      /\ (oracle_index pi < length (qr_initial q))%nat
      /\ (polynomial_index pi
          < length (unsalted_evals (qr_initial q) (oracle_index pi)
                      (hiding p && blinding (nth (oracle_index pi) (oracles inst)
                                                 {| num_polys := 0; blinding := false |}))))%nat.
  Proof.
    intros Hwf Hr b pi Hb Hpi. destruct (Hwf b pi Hb Hpi) as [o [Ho Hlt]].
    destruct (round_shape_ok_inv _ _ _ Hr) as [Hlen [Hk _]].
    assert (Hoi : (oracle_index pi < length (oracles inst))%nat)
      by (apply nth_error_Some; congruence).
    split; [exact Hoi|]. split; [lia|].
    destruct (nth_error_Some_lt (qr_initial q) (oracle_index pi)) as [lp Hlp]; [lia|].
    destruct (Hk _ _ Hlp) as [n [Hn [Hfl _]]].
    unfold leaf_lens in Hn. rewrite nth_error_map, Ho in Hn. cbn [option_map] in Hn.
    assert (Hn' : n = (num_polys o + salt_size (blinding o && hiding p))%nat) by congruence.
    rewrite Hn' in Hfl.
    unfold unsalted_evals. rewrite (nth_error_nth _ _ _ Hlp), (nth_error_nth _ _ _ Ho).
    rewrite firstn_length, Hfl, (andb_comm (hiding p)). lia.
  Qed.

  (* acceptance implies the shape check and the round count (used for C03) *)
  Lemma verify_fri_proof_accept_shape inst openings ch initial_caps pr p :
    verify_fri_proof H T inst openings ch initial_caps pr p = inl tt ->
    validate_fri_proof_shape inst p pr = true
    /\ pow_ok (fri_pow_response ch) (proof_of_work_bits (config p)) = true
    /\ length (fp_rounds pr) = num_query_rounds (config p)
    /\ verify_rounds H T inst ch (precomputed_reduced_openings openings (fri_alpha ch)) initial_caps pr p 0
                     (fri_query_indices ch) (fp_rounds pr) = inl tt.
  Proof.
    unfold verify_fri_proof. intros E.
    destruct (validate_fri_proof_shape inst p pr); cbn [ensure rbindr ok err] in E; [|disc].
    destruct (pow_ok _ _); cbn [rbindr ok err] in E; [|disc].
    destruct (Nat.eqb _ _) eqn:En; cbn [rbindr ok err] in E; [|disc].
    apply Nat.eqb_eq in En. auto.
  Qed.

  (* acceptance implies every zipped query round passes *)
  Lemma verify_rounds_accept inst ch reduced initial_caps pr p : forall idxs rounds round,
    verify_rounds H T inst ch reduced initial_caps pr p round idxs rounds = inl tt ->
    forall k x q, nth_error idxs k = Some x -> nth_error rounds k = Some q ->
      fri_verifier_query_round H T inst ch reduced initial_caps pr p (round + k) x q = inl tt.
  Proof.
    induction idxs as [|i it IH]; intros rounds round E k x q Hx Hq; [destruct k; disc|].
    destruct rounds as [|q0 qt]; [destruct k; disc|].
    cbn [verify_rounds] in E.
    destruct (fri_verifier_query_round H T inst ch reduced initial_caps pr p round i q0) as [[]|e] eqn:E0;
      cbn [rbindr] in E; [|disc].
    destruct k as [|k]; cbn [nth_error] in Hx, Hq.
    - inversion Hx; inversion Hq; subst. rewrite Nat.add_0_r. exact E0.
    - replace (round + S k)%nat with (S round + k)%nat by lia. apply (IH qt (S round) E k x q Hx Hq).
  Qed.

  Lemma query_round_accept_initial inst ch reduced initial_caps pr p round x q :
    fri_verifier_query_round H T inst ch reduced initial_caps pr p round x q = inl tt ->
    verify_initial H T round x (qr_initial q) initial_caps 0 = inl tt.
  Proof.
    unfold fri_verifier_query_round. intros E.
    destruct (verify_initial H T round x (qr_initial q) initial_caps 0) as [[]|e]; [reflexivity|].
    cbn [rbindr] in E. disc.
  Qed.

  Lemma verify_initial_accept round x : forall initial caps oi,
    verify_initial H T round x initial caps oi = inl tt ->
    forall k lp cap, nth_error initial k = Some lp -> nth_error caps k = Some cap ->
      verify_merkle_proof_to_cap H T (fst lp) x cap (snd lp) = Some true.
  Proof.
    induction initial as [|[evals sibs] it IH]; intros caps oi E k lp cap Hl Hc; [destruct k; disc|].
    destruct caps as [|c0 ct]; [destruct k; disc|].
    cbn [verify_initial] in E.
    destruct (verify_merkle_proof_to_cap H T evals x c0 sibs) as [[|]|] eqn:Em; try disc.
    destruct k as [|k]; cbn [nth_error] in Hl, Hc.
    - inversion Hl; inversion Hc; subst. exact Em.
    - apply (IH ct (S oi) E k lp cap Hl Hc).
  Qed.
End FriNoPanic.
