From Coq Require Import List ZArith Bool Lia Permutation Sorted.
From Verif Require Import Model.OrderIndep.
Import ListNotations.

(* ---------- order laws ---------- *)

Lemma Zleb_total : forall a b : Z, Z.leb a b = true \/ Z.leb b a = true.
Proof. intros a b. rewrite !Z.leb_le. lia. Qed.

Lemma Zleb_trans : forall a b c : Z, Z.leb a b = true -> Z.leb b c = true -> Z.leb a c = true.
Proof. intros a b c. rewrite !Z.leb_le. lia. Qed.

Lemma Zleb_antisym : forall a b : Z, Z.leb a b = true -> Z.leb b a = true -> a = b.
Proof. intros a b. rewrite !Z.leb_le. lia. Qed.

Lemma list_leb_total : forall a b, list_leb a b = true \/ list_leb b a = true.
Proof.
  induction a as [|x a IH]; intros [|y b]; cbn [list_leb]; auto.
  rewrite (Z.eqb_sym y x).
  destruct (Z.eqb_spec x y) as [E|E]; [apply IH|apply Zleb_total].
Qed.

Lemma list_leb_trans : forall a b c,
  list_leb a b = true -> list_leb b c = true -> list_leb a c = true.
Proof.
  induction a as [|x a IH]; intros [|y b] [|z c]; cbn [list_leb]; try congruence.
  destruct (Z.eqb_spec x y) as [Exy|Exy]; destruct (Z.eqb_spec y z) as [Eyz|Eyz];
    destruct (Z.eqb_spec x z) as [Exz|Exz]; rewrite ?Z.leb_le; try lia.
  apply IH.
Qed.

Lemma list_leb_antisym : forall a b, list_leb a b = true -> list_leb b a = true -> a = b.
Proof.
  induction a as [|x a IH]; intros [|y b]; cbn [list_leb]; try congruence.
  rewrite (Z.eqb_sym y x).
  destruct (Z.eqb_spec x y) as [E|E]; rewrite ?Z.leb_le.
  - intros H1 H2. subst y. f_equal. apply IH; assumption.
  - lia.
Qed.

Section Lex.
  Context {K1 K2 : Type}.
  Variable leb1 : K1 -> K1 -> bool.
  Variable eqb1 : K1 -> K1 -> bool.
  Variable leb2 : K2 -> K2 -> bool.
  Hypothesis eqb1_spec : forall a b, eqb1 a b = true <-> a = b.

  Lemma eqb1_false a b : a <> b -> eqb1 a b = false.
  Proof.
    intros Hne. destruct (eqb1 a b) eqn:E; [|reflexivity].
    apply eqb1_spec in E. contradiction.
  Qed.

  Lemma eqb1_refl a : eqb1 a a = true.
  Proof. apply eqb1_spec. reflexivity. Qed.

  Lemma lex_leb_total :
    (forall a b, leb1 a b = true \/ leb1 b a = true) ->
    (forall a b, leb2 a b = true \/ leb2 b a = true) ->
    forall a b, lex_leb leb1 eqb1 leb2 a b = true \/ lex_leb leb1 eqb1 leb2 b a = true.
  Proof.
    intros T1 T2 [a1 a2] [b1 b2]. unfold lex_leb. cbn [fst snd].
    destruct (eqb1 a1 b1) eqn:E.
    - apply eqb1_spec in E. subst b1. rewrite eqb1_refl. apply T2.
    - destruct (eqb1 b1 a1) eqn:E'.
      + apply eqb1_spec in E'. subst b1. rewrite eqb1_refl in E. discriminate.
      + apply T1.
  Qed.

  Lemma lex_leb_trans :
    (forall a b c, leb1 a b = true -> leb1 b c = true -> leb1 a c = true) ->
    (forall a b, leb1 a b = true -> leb1 b a = true -> a = b) ->
    (forall a b c, leb2 a b = true -> leb2 b c = true -> leb2 a c = true) ->
    forall a b c, lex_leb leb1 eqb1 leb2 a b = true -> lex_leb leb1 eqb1 leb2 b c = true ->
                  lex_leb leb1 eqb1 leb2 a c = true.
  Proof.
    intros Tr1 As1 Tr2 [a1 a2] [b1 b2] [c1 c2]. unfold lex_leb. cbn [fst snd].
    destruct (eqb1 a1 b1) eqn:Eab.
    - apply eqb1_spec in Eab. subst b1.
      destruct (eqb1 a1 c1) eqn:Eac; [apply Tr2|tauto].
    - destruct (eqb1 b1 c1) eqn:Ebc.
      + apply eqb1_spec in Ebc. subst c1. rewrite Eab. tauto.
      + intros Hab Hbc. destruct (eqb1 a1 c1) eqn:Eac.
        * apply eqb1_spec in Eac. subst c1.
          assert (a1 = b1) as Heq by (apply As1; assumption).
          subst b1. rewrite eqb1_refl in Eab. discriminate.
        * eapply Tr1; eassumption.
  Qed.

  Lemma lex_leb_antisym :
    (forall a b, leb1 a b = true -> leb1 b a = true -> a = b) ->
    (forall a b, leb2 a b = true -> leb2 b a = true -> a = b) ->
    forall a b, lex_leb leb1 eqb1 leb2 a b = true -> lex_leb leb1 eqb1 leb2 b a = true -> a = b.
  Proof.
    intros As1 As2 [a1 a2] [b1 b2]. unfold lex_leb. cbn [fst snd].
    destruct (eqb1 a1 b1) eqn:E.
    - apply eqb1_spec in E. subst b1. rewrite eqb1_refl.
      intros H1 H2. f_equal. apply As2; assumption.
    - destruct (eqb1 b1 a1) eqn:E'.
      + apply eqb1_spec in E'. subst b1. rewrite eqb1_refl in E. discriminate.
      + intros H1 H2. assert (a1 = b1) as Heq by (apply As1; assumption).
        subst b1. rewrite eqb1_refl in E. discriminate.
  Qed.
End Lex.

(* the (degree, id) key order of gates.sort_unstable_by_key satisfies the three laws *)
Lemma gate_key_leb_total : forall a b, gate_key_leb a b = true \/ gate_key_leb b a = true.
Proof.
  apply lex_leb_total; [exact Z.eqb_eq|exact Zleb_total|exact list_leb_total].
Qed.

Lemma gate_key_leb_trans : forall a b c,
  gate_key_leb a b = true -> gate_key_leb b c = true -> gate_key_leb a c = true.
Proof.
  apply lex_leb_trans;
    [exact Z.eqb_eq|exact Zleb_trans|exact Zleb_antisym|exact list_leb_trans].
Qed.

Lemma gate_key_leb_antisym : forall a b,
  gate_key_leb a b = true -> gate_key_leb b a = true -> a = b.
Proof.
  apply lex_leb_antisym; [exact Z.eqb_eq|exact Zleb_antisym|exact list_leb_antisym].
Qed.

(* ---------- (a) sorting by a unique key ---------- *)

Section SortProofs.
  Context {A K : Type}.
  Variable leb : K -> K -> bool.
  Variable key : A -> K.

  Local Notation R := (fun a b : A => leb (key a) (key b) = true).

  Lemma insert_by_perm x l : Permutation (x :: l) (insert_by leb key x l).
  Proof.
    induction l as [|y t IH]; cbn [insert_by]; [apply Permutation_refl|].
    destruct (leb (key x) (key y)); [apply Permutation_refl|].
    eapply perm_trans; [apply perm_swap|]. apply perm_skip. exact IH.
  Qed.

  Lemma isort_by_perm : forall l, Permutation l (isort_by leb key l).
  Proof.
    induction l as [|x t IH]; cbn [isort_by]; [apply perm_nil|].
    eapply perm_trans; [apply perm_skip; exact IH|]. apply insert_by_perm.
  Qed.

  Lemma insert_by_hdrel a x l :
    R a x -> HdRel R a l -> HdRel R a (insert_by leb key x l).
  Proof.
    intros Hax Hal. destruct l as [|y t]; cbn [insert_by]; [constructor; exact Hax|].
    destruct (leb (key x) (key y)); constructor; [exact Hax|].
    inversion Hal; assumption.
  Qed.

  Lemma insert_by_sorted :
    (forall a b, leb a b = true \/ leb b a = true) ->
    forall x l, Sorted R l -> Sorted R (insert_by leb key x l).
  Proof.
    intros Htot x l Hs. induction Hs as [|y t Hst IH Hhd]; cbn [insert_by].
    - repeat constructor.
    - destruct (leb (key x) (key y)) eqn:E.
      + constructor; [constructor; assumption|constructor; exact E].
      + constructor; [exact IH|]. apply insert_by_hdrel; [|exact Hhd].
        destruct (Htot (key x) (key y)) as [H1|H1]; [congruence|exact H1].
  Qed.

  Lemma isort_by_sorted :
    (forall a b, leb a b = true \/ leb b a = true) ->
    forall l, Sorted (fun a b => leb (key a) (key b) = true) (isort_by leb key l).
  Proof.
    intros Htot l. induction l as [|x t IH]; cbn [isort_by]; [constructor|].
    apply insert_by_sorted; assumption.
  Qed.

  Lemma isort_by_strongly_sorted :
    (forall a b, leb a b = true \/ leb b a = true) ->
    (forall a b c, leb a b = true -> leb b c = true -> leb a c = true) ->
    forall l, StronglySorted (fun a b => leb (key a) (key b) = true) (isort_by leb key l).
  Proof.
    intros Htot Htr l. apply Sorted_StronglySorted; [|apply isort_by_sorted; exact Htot].
    intros a b c. apply Htr.
  Qed.

  (* two strongly sorted lists with the same elements and pairwise distinct keys are equal *)
  Lemma strongly_sorted_perm_unique :
    (forall a b, leb a b = true -> leb b a = true -> a = b) ->
    forall l1 l2,
      StronglySorted (fun a b => leb (key a) (key b) = true) l1 ->
      StronglySorted (fun a b => leb (key a) (key b) = true) l2 ->
      Permutation l1 l2 -> NoDup (map key l1) -> l1 = l2.
  Proof.
    intros Has. induction l1 as [|a t1 IH]; intros l2 Hs1 Hs2 Hp Hnd.
    - apply Permutation_nil in Hp. symmetry. exact Hp.
    - destruct l2 as [|b t2].
      + apply Permutation_sym, Permutation_nil in Hp. discriminate.
      + inversion Hs1 as [|a' t1' Hst1 Hall1]; subst.
        inversion Hs2 as [|b' t2' Hst2 Hall2]; subst.
        cbn [map] in Hnd. inversion Hnd as [|k ks Hnotin Hnd']; subst.
        assert (a = b) as Hab.
        { assert (In a (b :: t2)) as Ha
            by (eapply Permutation_in; [exact Hp|left; reflexivity]).
          assert (In b (a :: t1)) as Hb
            by (eapply Permutation_in; [apply Permutation_sym; exact Hp|left; reflexivity]).
          destruct Ha as [Ha|Ha]; [symmetry; exact Ha|].
          destruct Hb as [Hb|Hb]; [exact Hb|].
          exfalso. apply Hnotin.
          rewrite Forall_forall in Hall1, Hall2.
          assert (key a = key b) as Hk by (apply Has; [apply Hall1|apply Hall2]; assumption).
          rewrite Hk. apply in_map. exact Hb. }
        subst b. f_equal. apply IH; try assumption.
        eapply Permutation_cons_inv. exact Hp.
  Qed.

  (* algorithm-independent form: ANY correct sort (stable or not) returns the same list *)
  Lemma sorted_perm_unique :
    (forall a b c, leb a b = true -> leb b c = true -> leb a c = true) ->
    (forall a b, leb a b = true -> leb b a = true -> a = b) ->
    forall l1 l2,
      Sorted (fun a b => leb (key a) (key b) = true) l1 ->
      Sorted (fun a b => leb (key a) (key b) = true) l2 ->
      Permutation l1 l2 -> NoDup (map key l1) -> l1 = l2.
  Proof.
    intros Htr Has l1 l2 Hs1 Hs2 Hp Hnd.
    assert (Relations_1.Transitive (fun a b : A => leb (key a) (key b) = true)) as HT
      by (intros a b c; apply Htr).
    apply strongly_sorted_perm_unique; try assumption;
      apply Sorted_StronglySorted; assumption.
  Qed.

  (* every sorted arrangement of l is the one computed by the model sort *)
  Lemma any_sort_is_isort_by :
    (forall a b, leb a b = true \/ leb b a = true) ->
    (forall a b c, leb a b = true -> leb b c = true -> leb a c = true) ->
    (forall a b, leb a b = true -> leb b a = true -> a = b) ->
    forall l s,
      Sorted (fun a b => leb (key a) (key b) = true) s ->
      Permutation l s -> NoDup (map key l) -> s = isort_by leb key l.
  Proof.
    intros Htot Htr Has l s Hs Hp Hnd.
    apply sorted_perm_unique; try assumption.
    - apply isort_by_sorted; exact Htot.
    - eapply perm_trans; [apply Permutation_sym; exact Hp|apply isort_by_perm].
    - eapply Permutation_NoDup; [apply Permutation_map; exact Hp|exact Hnd].
  Qed.

  Lemma sorted_by_unique_key_perm_invariant :
    (forall a b, leb a b = true \/ leb b a = true) ->
    (forall a b c, leb a b = true -> leb b c = true -> leb a c = true) ->
    (forall a b, leb a b = true -> leb b a = true -> a = b) ->
    forall l l', Permutation l l' -> NoDup (map key l) ->
      isort_by leb key l = isort_by leb key l'.
  Proof.
    intros Htot Htr Has l l' Hp Hnd. symmetry.
    apply any_sort_is_isort_by; try assumption.
    - apply isort_by_sorted; exact Htot.
    - eapply perm_trans; [exact Hp|apply isort_by_perm].
  Qed.
End SortProofs.

(* ---------- (b) chunked map ---------- *)

Lemma concat_chunks_by : forall (A : Type) (sizes : list nat) (l : list A),
  concat (chunks_by sizes l) = l.
Proof.
  intros A sizes. induction sizes as [|n t IH]; intros l; cbn [chunks_by concat].
  - apply app_nil_r.
  - rewrite IH. apply firstn_skipn.
Qed.

Lemma par_map_is_map : forall (A B : Type) (f : A -> B) (sizes : list nat) (l : list A),
  par_map f sizes l = map f l.
Proof.
  intros A B f sizes l. unfold par_map.
  rewrite <- concat_map, concat_chunks_by. reflexivity.
Qed.

(* ---------- (c) proof of work ---------- *)

Lemma find_first_some : forall (A : Type) (p : A -> bool) l x,
  find_first p l = Some x -> p x = true /\ In x l.
Proof.
  intros A p l x. induction l as [|y t IH]; cbn [find_first]; [discriminate|].
  destruct (p y) eqn:E; intros Hf.
  - inversion Hf; subst. split; [exact E|left; reflexivity].
  - destruct (IH Hf) as [Hp Hin]. split; [exact Hp|right; exact Hin].
Qed.

Lemma find_first_exists : forall (A : Type) (p : A -> bool) l,
  (exists x, In x l /\ p x = true) <-> (exists x, find_first p l = Some x).
Proof.
  intros A p l. split.
  - intros (x & Hin & Hp). induction l as [|y t IH]; [destruct Hin|].
    cbn [find_first]. destruct (p y) eqn:E; [exists y; reflexivity|].
    destruct Hin as [Heq|Hin]; [subst y; congruence|apply IH; exact Hin].
  - intros (x & Hf). apply find_first_some in Hf. exists x. tauto.
Qed.

(* u64::leading_zeros(x) >= k  <->  x < 2^(64-k) *)
Lemma leading_zeros64_ge_iff : forall x k, (0 <= x < 2 ^ 64)%Z -> (0 <= k <= 64)%Z ->
  ((k <= leading_zeros64 x)%Z <-> (x < 2 ^ (64 - k))%Z).
Proof.
  intros x k Hx Hk. unfold leading_zeros64.
  destruct (Z.eqb_spec x 0) as [E|E].
  - subst x. split; intros _; [apply Z.pow_pos_nonneg; lia|lia].
  - rewrite (Z.log2_lt_pow2 x (64 - k)) by lia. lia.
Qed.

Lemma grinding_any_witness_ok : forall h k cands cands' x,
  Permutation cands cands' -> find_first (pow_ok h k) cands' = Some x ->
  verify_pow h k x = true /\ In x cands.
Proof.
  intros h k cands cands' x Hp Hf. apply find_first_some in Hf. destruct Hf as [Hok Hin].
  split; [exact Hok|]. eapply Permutation_in; [apply Permutation_sym; exact Hp|exact Hin].
Qed.

Lemma grinding_exists_iff : forall h k cands cands',
  Permutation cands cands' ->
  ((exists x, In x cands /\ pow_ok h k x = true) <->
   (exists x, find_first (pow_ok h k) cands' = Some x)).
Proof.
  intros h k cands cands' Hp. rewrite <- find_first_exists. split; intros (x & Hin & Hok);
    exists x; (split; [|exact Hok]).
  - eapply Permutation_in; [exact Hp|exact Hin].
  - eapply Permutation_in; [apply Permutation_sym; exact Hp|exact Hin].
Qed.

Lemma grinding_accept_depends_only_on_witness : forall h k x1 x2,
  pow_ok h k x1 = true -> pow_ok h k x2 = true ->
  verify_pow h k x1 = true /\ verify_pow h k x2 = true.
Proof. intros h k x1 x2 H1 H2. unfold verify_pow. split; assumption. Qed.

(* ---------- (d) disjoint writes ---------- *)

Lemma write_comm : forall (A : Type) i j (v w : A) l, i <> j ->
  write i v (write j w l) = write j w (write i v l).
Proof.
  intros A i j v w l. revert i j. induction l as [|x t IH]; intros i j Hne; [reflexivity|].
  destruct i as [|i]; destruct j as [|j]; cbn [write]; try reflexivity; [congruence|].
  f_equal. apply IH. congruence.
Qed.

Lemma apply_writes_app : forall (A : Type) (ws1 ws2 : list (nat * A)) l,
  apply_writes (ws1 ++ ws2) l = apply_writes ws2 (apply_writes ws1 l).
Proof. intros A ws1 ws2 l. unfold apply_writes. apply fold_left_app. Qed.

Lemma apply_writes_cons : forall (A : Type) (iv : nat * A) ws l,
  apply_writes (iv :: ws) l = apply_writes ws (write (fst iv) (snd iv) l).
Proof. reflexivity. Qed.

Lemma write_apply_writes_comm : forall (A : Type) (ws : list (nat * A)) i v l,
  ~ In i (map fst ws) ->
  apply_writes ws (write i v l) = write i v (apply_writes ws l).
Proof.
  intros A ws. induction ws as [|[j w] t IH]; intros i v l Hni; [reflexivity|].
  rewrite !apply_writes_cons. cbn [fst snd map] in *.
  rewrite write_comm by (intros E; apply Hni; left; exact E).
  apply IH. intros Hin. apply Hni. right. exact Hin.
Qed.

Lemma disjoint_writes_commute : forall (A : Type) (ws1 ws2 ws : list (nat * A)) l,
  (forall i, In i (map fst ws1) -> ~ In i (map fst ws2)) ->
  interleave ws1 ws2 ws ->
  apply_writes ws l = apply_writes (ws1 ++ ws2) l.
Proof.
  intros A ws1 ws2 ws l Hdis Hil. revert l.
  induction Hil as [|x l1 l2 m Hil IH|x l1 l2 m Hil IH]; intros l.
  - reflexivity.
  - cbn [app]. rewrite !apply_writes_cons. apply IH.
    intros i Hi. apply Hdis. cbn [map]. right. exact Hi.
  - rewrite apply_writes_cons, IH.
    + rewrite !apply_writes_app, apply_writes_cons. f_equal.
      apply write_apply_writes_comm. intros Hin. apply (Hdis _ Hin). cbn [map]. left. reflexivity.
    + intros i Hi Hi2. apply (Hdis _ Hi). cbn [map]. right. exact Hi2.
Qed.

(* hence any two schedules of two tasks with disjoint write sets leave the same buffer *)
Lemma disjoint_writes_schedule_independent : forall (A : Type) (ws1 ws2 ws ws' : list (nat * A)) l,
  (forall i, In i (map fst ws1) -> ~ In i (map fst ws2)) ->
  interleave ws1 ws2 ws -> interleave ws1 ws2 ws' ->
  apply_writes ws l = apply_writes ws' l.
Proof.
  intros A ws1 ws2 ws ws' l Hdis H1 H2.
  rewrite (disjoint_writes_commute A ws1 ws2 ws l Hdis H1).
  symmetry. apply disjoint_writes_commute; assumption.
Qed.

Lemma distinct_writes_perm_invariant : forall (A : Type) (ws ws' : list (nat * A)) l,
  NoDup (map fst ws) -> Permutation ws ws' -> apply_writes ws l = apply_writes ws' l.
Proof.
  intros A ws ws' l Hnd Hp. revert l Hnd.
  induction Hp as [|x t t' Hp IH|x y t|t1 t2 t3 Hp1 IH1 Hp2 IH2]; intros l Hnd.
  - reflexivity.
  - rewrite !apply_writes_cons. apply IH. cbn [map] in Hnd. inversion Hnd; assumption.
  - rewrite !apply_writes_cons. f_equal. apply write_comm.
    cbn [map] in Hnd. inversion Hnd as [|k ks Hnotin _]; subst.
    intros E. apply Hnotin. left. congruence.
  - rewrite IH1 by exact Hnd. apply IH2.
    eapply Permutation_NoDup; [apply Permutation_map; exact Hp1|exact Hnd].
Qed.

(* ---------- sigma from the wire partition ---------- *)

Lemma wire_eqb_eq : forall a b : Wire, wire_eqb a b = true <-> a = b.
Proof.
  intros [r1 c1] [r2 c2]. unfold wire_eqb. cbn [fst snd]. rewrite andb_true_iff, !Nat.eqb_eq.
  split; [intros [-> ->]; reflexivity|intros E; inversion E; auto].
Qed.

Lemma lookup_last_in : forall k s v, lookup_last k s = Some v -> In (k, v) s.
Proof.
  induction s as [|[k' v'] t IH]; cbn [lookup_last]; intros v E; [discriminate|].
  destruct (lookup_last k t) as [r|] eqn:El.
  - inversion E. subst. right. apply IH. reflexivity.
  - destruct (wire_eqb k k') eqn:Ek; [|discriminate]. apply wire_eqb_eq in Ek. inversion E. subst. left. reflexivity.
Qed.

Lemma lookup_last_none : forall k s, lookup_last k s = None -> ~ In k (map fst s).
Proof.
  induction s as [|[k' v'] t IH]; cbn [lookup_last map fst In]; intros E; [tauto|].
  destruct (lookup_last k t) as [r|] eqn:El; [discriminate|].
  destruct (wire_eqb k k') eqn:Ek; [discriminate|].
  intros [H|H]; [|exact (IH eq_refl H)].
  subst k'. assert (Et : wire_eqb k k = true) by (apply wire_eqb_eq; reflexivity). congruence.
Qed.

Lemma nodup_keys_functional : forall (s : list (Wire * Wire)) k v1 v2,
  NoDup (map fst s) -> In (k, v1) s -> In (k, v2) s -> v1 = v2.
Proof.
  induction s as [|[k' v'] t IH]; intros k v1 v2 Hnd H1 H2; [contradiction|].
  cbn [map fst] in Hnd. inversion Hnd as [|? ? Hnot Hnd']. subst.
  destruct H1 as [H1|H1], H2 as [H2|H2].
  - congruence.
  - inversion H1. subst. exfalso. apply Hnot. apply (in_map fst) in H2. exact H2.
  - inversion H2. subst. exfalso. apply Hnot. apply (in_map fst) in H1. exact H1.
  - eapply IH; eassumption.
Qed.

(* a map filled by inserts with pairwise distinct keys does not depend on the insertion order *)
Lemma lookup_last_perm : forall s s' k, NoDup (map fst s) -> Permutation s s' ->
  lookup_last k s = lookup_last k s'.
Proof.
  intros s s' k Hnd Hp.
  assert (Hnd' : NoDup (map fst s')) by (eapply Permutation_NoDup; [apply Permutation_map; exact Hp|exact Hnd]).
  destruct (lookup_last k s) as [v|] eqn:E1, (lookup_last k s') as [v'|] eqn:E2; try reflexivity.
  - apply lookup_last_in in E1, E2. f_equal. eapply (nodup_keys_functional s'); try eassumption.
    eapply Permutation_in; eassumption.
  - apply lookup_last_in in E1. apply lookup_last_none in E2. exfalso. apply E2.
    apply (in_map fst) in E1. eapply Permutation_in; [apply Permutation_map; exact Hp|exact E1].
  - apply lookup_last_in in E2. apply lookup_last_none in E1. exfalso. apply E1.
    apply (in_map fst) in E2. eapply Permutation_in; [apply Permutation_map; apply Permutation_sym; exact Hp|exact E2].
Qed.

Lemma map_fst_combine_same_length : forall (X Y : Type) (l : list X) (l' : list Y),
  length l = length l' -> map fst (combine l l') = l.
Proof.
  induction l as [|x t IH]; intros [|y t'] E; cbn [combine map fst]; try reflexivity; try discriminate.
  cbn [length] in E. f_equal. apply IH. lia.
Qed.

Lemma rotate1_length : forall (X : Type) (l : list X), length (rotate1 l) = length l.
Proof. intros X [|x t]; cbn [rotate1 length]; [reflexivity|]. rewrite app_length. cbn. lia. Qed.

Lemma neighbor_inserts_keys : forall partition, map fst (neighbor_inserts partition) = concat partition.
Proof.
  induction partition as [|c t IH]; cbn [neighbor_inserts flat_map concat map]; [reflexivity|].
  rewrite map_app. fold (neighbor_inserts t). rewrite IH. f_equal. unfold neighbor_pairs.
  apply map_fst_combine_same_length. symmetry. apply rotate1_length.
Qed.

Lemma flat_map_perm : forall (X Y : Type) (f : X -> list Y) l l',
  Permutation l l' -> Permutation (flat_map f l) (flat_map f l').
Proof.
  intros X Y f l l' H. induction H as [|x l l' _ IH|x y l|l l' l'' _ IH1 _ IH2]; cbn [flat_map].
  - constructor.
  - apply Permutation_app_head. exact IH.
  - rewrite !app_assoc. apply Permutation_app_tail. apply Permutation_app_comm.
  - eapply Permutation_trans; eassumption.
Qed.

Lemma sigma_partition_order_invariant : forall degree num_routed_wires partition partition',
  Permutation partition partition' -> NoDup (concat partition) ->
  get_sigma_map degree num_routed_wires partition = get_sigma_map degree num_routed_wires partition'.
Proof.
  intros degree k p p' Hp Hnd. unfold get_sigma_map.
  assert (E : forall w, sigma_entry degree p w = sigma_entry degree p' w).
  { intros w. unfold sigma_entry. f_equal. apply lookup_last_perm.
    - rewrite neighbor_inserts_keys. exact Hnd.
    - unfold neighbor_inserts. apply flat_map_perm. exact Hp. }
  apply flat_map_ext. intros column. apply map_ext. intros row. apply E.
Qed.

(* every routed wire that occurs in some class has an entry (the index expression does not panic),
   and it is the next wire of its class *)
Lemma sigma_entry_defined : forall degree partition w, In w (concat partition) ->
  exists n, sigma_entry degree partition w = Some n.
Proof.
  intros degree p w Hin. unfold sigma_entry.
  destruct (lookup_last w (neighbor_inserts p)) as [v|] eqn:E; [cbn; eauto|].
  apply lookup_last_none in E. rewrite neighbor_inserts_keys in E. contradiction.
Qed.
