(* C13 (b) - the frequency-domain MDS multiplication.
   mds_freq_correct: for every 12 values in [0, 2^32) the translated mds_multiply_freq returns
   Some (no signed 64-bit intermediate of fft4_real / block1 / block2 / block3 / ifft4 overflows)
   and the result is EXACTLY (as integers, before any reduction) the product with the circulant
   matrix of the regenerated MDS_MATRIX_CIRC:  out[r] = sum_i s[(i + r) mod 12] * CIRC[i]. *)
From Coq Require Import ZArith List Lia Bool.
From Verif Require Import Base.Mach Gen.FieldConsts Gen.GoldilocksImpl Gen.PoseidonConsts Gen.PoseidonImpl
  Model.PoseidonImplModel Proofs.Goldilocks.
Import ListNotations.
Open Scope Z_scope.

Lemma wrapS_small w z : - 2 ^ (w - 1) <= z < 2 ^ (w - 1) -> 0 < w -> wrapS w z = z.
Proof.
  intros H Hw. unfold wrapS.
  assert (E : 2 ^ w = 2 * 2 ^ (w - 1)).
  { replace w with (1 + (w - 1)) at 1 by lia. rewrite Z.pow_add_r by lia. reflexivity. }
  rewrite Z.mod_small; lia.
Qed.

Ltac sstep := first [ rewrite bind_chkS by lia | rewrite bind_ret | rewrite bind_Some ].

Lemma fft2_real_spec x0 x1 : 0 <= x0 < 2 ^ 40 -> 0 <= x1 < 2 ^ 40 ->
  mds_fft2_real (x0, x1) = Some (x0 + x1, x0 - x1).
Proof.
  intros H0 H1. unfold mds_fft2_real. rewrite !wrapS_small by lia.
  change (64 - 1) with 63. repeat sstep. reflexivity.
Qed.

Lemma fft4_real_spec x0 x1 x2 x3 :
  0 <= x0 < 2 ^ 32 -> 0 <= x1 < 2 ^ 32 -> 0 <= x2 < 2 ^ 32 -> 0 <= x3 < 2 ^ 32 ->
  mds_fft4_real (x0, x1, x2, x3)
  = Some (x0 + x2 + (x1 + x3), (x0 - x2, - (x1 - x3)), x0 + x2 - (x1 + x3)).
Proof.
  intros. unfold mds_fft4_real. rewrite !fft2_real_spec by lia. change (64 - 1) with 63.
  repeat sstep. reflexivity.
Qed.

(* row r of circulant(MDS_MATRIX_CIRC) applied to s, as an integer *)
Definition circ_row (r : nat) (s : list Z) : Z :=
  fold_right Z.add 0 (map (fun i => nth ((i + r) mod 12) s 0 * nth i MDS_MATRIX_CIRC 0) (seq 0 12)).

Definition circ_mul (s : list Z) : list Z := map (fun r => circ_row r s) (seq 0 12).

Lemma mds_freq_tuple s0 s1 s2 s3 s4 s5 s6 s7 s8 s9 s10 s11 :
  0 <= s0 < 2 ^ 32 -> 0 <= s1 < 2 ^ 32 -> 0 <= s2 < 2 ^ 32 -> 0 <= s3 < 2 ^ 32 ->
  0 <= s4 < 2 ^ 32 -> 0 <= s5 < 2 ^ 32 -> 0 <= s6 < 2 ^ 32 -> 0 <= s7 < 2 ^ 32 ->
  0 <= s8 < 2 ^ 32 -> 0 <= s9 < 2 ^ 32 -> 0 <= s10 < 2 ^ 32 -> 0 <= s11 < 2 ^ 32 ->
  let s := [s0; s1; s2; s3; s4; s5; s6; s7; s8; s9; s10; s11] in
  mds_multiply_freq (s0, s1, s2, s3, s4, s5, s6, s7, s8, s9, s10, s11) =
  Some (circ_row 0 s, circ_row 1 s, circ_row 2 s, circ_row 3 s, circ_row 4 s, circ_row 5 s,
        circ_row 6 s, circ_row 7 s, circ_row 8 s, circ_row 9 s, circ_row 10 s, circ_row 11 s).
Proof.
  intros. unfold mds_multiply_freq.
  rewrite !fft4_real_spec by lia. repeat sstep.
  unfold mds_block1. change (64 - 1) with 63. repeat sstep.
  unfold mds_block2. repeat sstep.
  unfold mds_block3. repeat sstep.
  unfold mds_ifft4_real_unreduced, mds_ifft2_real_unreduced. repeat sstep.
  unfold ret. f_equal.
  subst s. unfold circ_row.
  cbn [seq map fold_right nth Nat.modulo Nat.divmod Nat.add Nat.sub fst snd MDS_MATRIX_CIRC].
  repeat (f_equal; [| rewrite wrapU_small by lia; ring ]); rewrite wrapU_small by lia; ring.
Qed.

Definition u32b (x : Z) : Prop := 0 <= x < 2 ^ 32.

Theorem mds_freq_correct : forall s : list Z, length s = 12%nat -> Forall u32b s ->
  mds_multiply_freq_list s = Some (circ_mul s).
Proof.
  intros s Hl Hs.
  do 13 (destruct s as [|? s]; try discriminate Hl).
  repeat match goal with H : Forall _ (_ :: _) |- _ => inversion H; clear H; subst end.
  unfold mds_multiply_freq_list, tuple12. rewrite bind_ret.
  unfold u32b in *. rewrite mds_freq_tuple by assumption. reflexivity.
Qed.

(* the products stay far below 2^63: every entry is < 2^32 * (sum of CIRC) = 2^40 *)
Lemma circ_row_bound s r : length s = 12%nat -> Forall u32b s -> (r < 12)%nat ->
  0 <= circ_row r s < 2 ^ 40.
Proof.
  intros Hl Hs Hr.
  do 13 (destruct s as [|? s]; try discriminate Hl).
  repeat match goal with H : Forall _ (_ :: _) |- _ => inversion H; clear H; subst end.
  unfold u32b in *.
  do 12 (destruct r as [|r]; [unfold circ_row;
    cbn [seq map fold_right nth Nat.modulo Nat.divmod Nat.add Nat.sub fst snd MDS_MATRIX_CIRC]; lia|]).
  lia.
Qed.

(* ---- generic facts about the checked monad on lists *)
Lemma mapM_Rz {A} (f : A -> M Z) (g : A -> Z) (l : list A) :
  (forall a, In a l -> Rz (f a) (g a)) ->
  exists o, mapM f l = Some o /\ length o = length l /\ Forall u64 o /\
            forall i d, (i < length l)%nat -> nth i o 0 mod P = g (nth i l d) mod P.
Proof.
  induction l as [|a l IH]; intros H.
  - exists []. cbn. repeat split; try constructor. intros i d Hi. lia.
  - destruct (H a (or_introl eq_refl)) as (r & Er & Hr & Cr).
    destruct IH as (o & Eo & Lo & Uo & Co); [intros b Hb; apply H; right; exact Hb|].
    exists (r :: o). cbn [mapM]. rewrite Er, bind_Some, Eo, bind_Some. unfold ret.
    split; [reflexivity|]. split; [cbn; lia|]. split; [constructor; assumption|].
    intros i d Hi. destruct i as [|i]; cbn [nth]; [exact Cr|]. apply Co. cbn in Hi. lia.
Qed.

Lemma reduce96_of_u128_correct s : 0 <= s < 2 ^ 96 -> Rz (reduce96_of_u128 s) s.
Proof.
  intros Hs. unfold reduce96_of_u128, wrapU, shrZ.
  assert (Hq : 0 <= s / 2 ^ 64 < 2 ^ 32) by (apply div_range; lia).
  rewrite (Z.mod_small (s / 2 ^ 64)) by lia.
  assert (Hm : 0 <= s mod 2 ^ 64 < 2 ^ 64) by (apply Z.mod_pos_bound; lia).
  destruct (reduce96_correct (s mod 2 ^ 64) (s / 2 ^ 64) Hm Hq) as (r & Er & Hr & Cr).
  exists r. split; [exact Er|]. split; [exact Hr|]. rewrite Cr. f_equal.
  rewrite Z.add_comm. symmetry. apply Z.div_mod. lia.
Qed.

Lemma row_recombine x y : 0 <= x < 2 ^ 40 -> 0 <= y < 2 ^ 40 ->
  Rz (bind (chkU 128 (x + shlU 128 y 32)) reduce96_of_u128) (x + 2 ^ 32 * y).
Proof.
  intros Hx Hy. unfold shlU. rewrite wrapU_small by lia. rewrite bind_chkU by lia.
  replace (x + y * 2 ^ 32) with (x + 2 ^ 32 * y) by lia. apply reduce96_of_u128_correct. lia.
Qed.

Lemma shr32_range a : u64 a -> u32b (shrZ a 32).
Proof. unfold u64, u32b, shrZ. intros H. apply div_range; lia. Qed.
Lemma low32_range a : u32b (wrapU 32 a).
Proof. unfold u32b, wrapU. apply Z.mod_pos_bound. lia. Qed.
Lemma split32 a : a = wrapU 32 a + 2 ^ 32 * shrZ a 32.
Proof. unfold wrapU, shrZ. rewrite Z.add_comm. apply Z.div_mod. lia. Qed.

Lemma circ_row_lin l h r : length l = 12%nat -> length h = 12%nat -> (r < 12)%nat ->
  circ_row r l + 2 ^ 32 * circ_row r h
  = circ_row r (map (fun p => fst p + 2 ^ 32 * snd p) (combine l h)).
Proof.
  intros Hl Hh Hr.
  do 13 (destruct l as [|? l]; try discriminate Hl).
  do 13 (destruct h as [|? h]; try discriminate Hh).
  do 12 (destruct r as [|r]; [unfold circ_row;
    cbn [combine seq map fold_right nth Nat.modulo Nat.divmod Nat.add Nat.sub fst snd MDS_MATRIX_CIRC]; ring |]).
  lia.
Qed.

Lemma circ_row_split s r : length s = 12%nat -> (r < 12)%nat ->
  circ_row r (map (fun x => wrapU 32 x) s) + 2 ^ 32 * circ_row r (map (fun x => shrZ x 32) s) = circ_row r s.
Proof.
  intros Hl Hr.
  assert (Es : map (fun p => fst p + 2 ^ 32 * snd p)
                   (combine (map (fun x => wrapU 32 x) s) (map (fun x => shrZ x 32) s)) = s).
  { clear. induction s as [|a s IH]; cbn [map combine fst snd]; [reflexivity|].
    f_equal; [symmetry; apply split32 | exact IH]. }
  rewrite circ_row_lin by (try rewrite map_length; assumption). rewrite Es. reflexivity.
Qed.

Lemma diag_tail_zero r : (1 <= r < 12)%nat -> nth r MDS_MATRIX_DIAG 0 = 0.
Proof.
  intros Hr. destruct r as [|r]; [lia|].
  do 11 (destruct r as [|r]; [reflexivity|]). lia.
Qed.

(* mds_layer of poseidon_goldilocks.rs on raw u64 states: Some, u64 outputs, and
   out[r] = (circulant(CIRC) * state)[r] + DIAG[r] * state[r]  (mod P) *)
Theorem mds_layer_impl_correct : forall s : list Z, length s = 12%nat -> Forall u64 s ->
  exists o, mds_layer_impl s = Some o /\ length o = 12%nat /\ Forall u64 o /\
    forall r, (r < 12)%nat ->
      nth r o 0 mod P = (circ_row r s + nth r MDS_MATRIX_DIAG 0 * nth r s 0) mod P.
Proof.
  intros s Hl Hs. unfold mds_layer_impl.
  assert (Hh : Forall u32b (map (fun x => shrZ x 32) s)).
  { apply Forall_forall. intros x Hx. apply in_map_iff in Hx. destruct Hx as (a & <- & Ha).
    apply shr32_range. eapply Forall_forall in Hs; eauto. }
  assert (Hlo : Forall u32b (map (fun x => wrapU 32 x) s)).
  { apply Forall_forall. intros x Hx. apply in_map_iff in Hx. destruct Hx as (a & <- & Ha). apply low32_range. }
  rewrite (mds_freq_correct _ (eq_trans (map_length _ _) Hl) Hh), bind_Some.
  rewrite (mds_freq_correct _ (eq_trans (map_length _ _) Hl) Hlo), bind_Some.
  set (sh := map (fun x => shrZ x 32) s) in *. set (sl := map (fun x => wrapU 32 x) s) in *.
  assert (Lh : length sh = 12%nat) by (unfold sh; rewrite map_length; exact Hl).
  assert (Ll : length sl = 12%nat) by (unfold sl; rewrite map_length; exact Hl).
  destruct (mapM_Rz
    (fun r => bind (chkU 128 (nthZ (circ_mul sl) r + shlU 128 (nthZ (circ_mul sh) r) 32)) (fun sum => reduce96_of_u128 sum))
    (fun r => circ_row r s) (seq 0 12)) as (o & Eo & Lo & Uo & Co).
  { intros r Hr. apply in_seq in Hr.
    assert (Er : forall v, nthZ (circ_mul v) r = circ_row r v).
    { intros v. unfold nthZ, circ_mul. rewrite nth_indep with (d' := circ_row 0%nat v) by (rewrite map_length, seq_length; lia).
      rewrite map_nth with (f := fun r => circ_row r v). rewrite seq_nth by lia. reflexivity. }
    rewrite !Er. rewrite <- (circ_row_split s r Hl) by lia.
    apply row_recombine; apply circ_row_bound; try assumption; lia. }
  rewrite Eo, bind_Some. rewrite seq_length in Lo.
  assert (H0 : u64 (nthZ s 0)).
  { destruct s as [|a s]; [discriminate Hl|]. inversion Hs; subst. exact H1. }
  unfold u64 in H0. change (nthZ MDS_MATRIX_DIAG 0) with 8.
  rewrite bind_chkU by lia.
  destruct (reduce96_of_u128_correct (8 * nthZ s 0)) as (t & Et & Ht & Ct); [lia|].
  rewrite Et, bind_Some.
  destruct o as [|o0 o]; [discriminate Lo|]. inversion Uo as [|? ? Uo0 Uo']; subst.
  change (nthZ (o0 :: o) 0) with o0.
  destruct (add_correct o0 t Uo0 Ht) as (r0 & Er0 & Hr0 & Cr0).
  rewrite Er0, bind_Some. unfold ret. exists (r0 :: o). cbn [tl].
  split; [reflexivity|]. split; [exact Lo|]. split; [constructor; assumption|].
  intros r Hr. destruct r as [|r].
  - cbn [nth]. rewrite Cr0. specialize (Co 0%nat 0%nat ltac:(rewrite seq_length; lia)). cbn [nth seq] in Co.
    rewrite Zplus_mod, Co, Ct, <- Zplus_mod. unfold nthZ. reflexivity.
  - cbn [nth]. specialize (Co (S r) 0%nat ltac:(rewrite seq_length; lia)). cbn [nth] in Co. rewrite Co.
    rewrite seq_nth by lia. cbn [Nat.add]. rewrite diag_tail_zero by lia. f_equal. lia.
Qed.

(* ---- the generic (trait-default) mds_layer of poseidon.rs: the u128 accumulation of mds_row_shf
   never overflows and stays below 2^96 - so `(sum >> 64) as u32` does not truncate - for every
   u64 state; a property of the regenerated MDS constants.  (The Goldilocks instance overrides
   mds_layer; this is the statement for the default code path.) *)
Lemma mds_row_shf_impl_correct v r : length v = 12%nat -> Forall u64 v -> (r < 12)%nat ->
  exists sum, mds_row_shf_impl r v = Some sum /\ 0 <= sum < 2 ^ 96 /\
              sum = circ_row r v + nth r v 0 * nth r MDS_MATRIX_DIAG 0.
Proof.
  intros Hl Hv Hr.
  do 13 (destruct v as [|? v]; try discriminate Hl).
  repeat match goal with H : Forall _ (_ :: _) |- _ => inversion H; clear H; subst end.
  unfold u64 in *.
  do 12 (destruct r as [|r]; [
    unfold mds_row_shf_impl, circ_row, nthZ;
    cbn [seq map fold_right foldM nth Nat.modulo Nat.divmod Nat.add Nat.sub fst snd MDS_MATRIX_CIRC MDS_MATRIX_DIAG];
    repeat (first [rewrite bind_chkU by lia | rewrite bind_ret | rewrite bind_Some]);
    eexists; split; [apply chkU_Some; lia|]; split; lia |]).
  lia.
Qed.

Theorem mds_layer_generic_correct : forall s : list Z, length s = 12%nat -> Forall u64 s ->
  exists o, mds_layer_generic_impl s = Some o /\ length o = 12%nat /\ Forall u64 o /\
    forall r, (r < 12)%nat ->
      nth r o 0 mod P = (circ_row r s + nth r MDS_MATRIX_DIAG 0 * nth r s 0) mod P.
Proof.
  intros s Hl Hs. unfold mds_layer_generic_impl.
  destruct (mapM_Rz
    (fun r => bind (mds_row_shf_impl r s) (fun sum => bind (chkU 32 (shrZ sum 64)) (fun _ => reduce96_of_u128 sum)))
    (fun r => circ_row r s + nth r MDS_MATRIX_DIAG 0 * nth r s 0) (seq 0 12)) as (o & Eo & Lo & Uo & Co).
  { intros r Hr. apply in_seq in Hr.
    destruct (mds_row_shf_impl_correct s r Hl Hs) as (sum & E & Hb & V); [lia|].
    rewrite E, bind_Some. unfold shrZ. rewrite bind_chkU by (apply div_range; lia).
    replace (circ_row r s + nth r MDS_MATRIX_DIAG 0 * nth r s 0) with sum by lia.
    apply reduce96_of_u128_correct. exact Hb. }
  exists o. split; [exact Eo|]. rewrite seq_length in Lo. split; [exact Lo|]. split; [exact Uo|].
  intros r Hr. specialize (Co r 0%nat ltac:(rewrite seq_length; lia)). rewrite seq_nth in Co by lia. exact Co.
Qed.
