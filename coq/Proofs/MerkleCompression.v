(* Path compression (hash/path_compression.rs): decompress_merkle_proofs inverts
   compress_merkle_proofs on any family of proofs that come from ONE labelling [val] of the tree
   nodes (heap numbering: root 1, children 2v and 2v+1, leaf i is node i + 2^k), for every list of
   indices (a multiset: duplicates and any order allowed). Openings of one Merkle tree are such
   a family (last section). *)
From Coq Require Import List Arith Bool Lia.
From Verif Require Import Model.Merkle Proofs.Merkle.
Import ListNotations.

(* ---------------------------------------------------------------------------------------- *)
(* xor1, halving, depth of a node *)

Lemma xor1_cases v : (v mod 2 = 0 /\ xor1 v = v + 1) \/ (v mod 2 = 1 /\ xor1 v = v - 1).
Proof.
  unfold xor1. destruct (Nat.even v) eqn:E.
  - left. apply Nat.even_spec in E. destruct E as [c ->]. split; [|reflexivity].
    rewrite Nat.mul_comm. apply Nat.mod_mul. lia.
  - right. split; [|reflexivity].
    assert (Ho : Nat.odd v = true) by (rewrite <- Nat.negb_even, E; reflexivity).
    apply Nat.odd_spec in Ho. destruct Ho as [c ->].
    rewrite Nat.add_comm, Nat.mul_comm. rewrite Nat.mod_add by lia. reflexivity.
Qed.

Lemma xor1_neq v : xor1 v <> v.
Proof. destruct (xor1_cases v) as [[Hm ->]|[Hm ->]]; [lia|]. intros E. assert (v = 0) by lia. subst. discriminate. Qed.

Lemma xor1_div2 v : xor1 v / 2 = v / 2.
Proof.
  pose proof (Nat.div_mod v 2 ltac:(lia)) as Hv.
  destruct (xor1_cases v) as [[Hm ->]|[Hm ->]].
  - symmetry. apply (Nat.div_unique (v + 1) 2 (v / 2) 1); lia.
  - symmetry. apply (Nat.div_unique (v - 1) 2 (v / 2) 0); lia.
Qed.

Lemma xor1_even_iff v : Nat.even v = true <-> v mod 2 = 0.
Proof.
  split; intros E.
  - apply Nat.even_spec in E. destruct E as [c ->]. rewrite Nat.mul_comm. apply Nat.mod_mul. lia.
  - apply Nat.even_spec. exists (v / 2). pose proof (Nat.div_mod v 2 ltac:(lia)). lia.
Qed.

Lemma xor1_lt v b : v < 2 * b -> xor1 v < 2 * b.
Proof.
  intros Hv. pose proof (Nat.div_mod v 2 ltac:(lia)).
  destruct (xor1_cases v) as [[Hm ->]|[Hm ->]]; lia.
Qed.

Lemma log2_half v : 2 <= v -> Nat.log2 (v / 2) = Nat.log2 v - 1.
Proof.
  intros Hv. pose proof (Nat.div_mod v 2 ltac:(lia)) as Hd.
  pose proof (Nat.mod_upper_bound v 2 ltac:(lia)) as Hm.
  assert (Hq : 0 < v / 2) by lia.
  destruct (Nat.eq_dec (v mod 2) 0) as [E|E].
  - replace v with (2 * (v / 2)) at 2 by lia. rewrite Nat.log2_double by lia. lia.
  - replace v with (2 * (v / 2) + 1) at 2 by lia. rewrite Nat.log2_succ_double by lia. lia.
Qed.

Lemma log2_xor1 v : 2 <= v -> Nat.log2 (xor1 v) = Nat.log2 v.
Proof.
  intros Hv. pose proof (Nat.div_mod v 2 ltac:(lia)) as Hd.
  pose proof (Nat.mod_upper_bound v 2 ltac:(lia)) as Hmb.
  assert (Hq : 0 < v / 2) by lia.
  destruct (xor1_cases v) as [[Hm E]|[Hm E]]; rewrite E.
  - replace (v + 1) with (2 * (v / 2) + 1) by lia. replace v with (2 * (v / 2)) at 2 by lia.
    rewrite Nat.log2_succ_double, Nat.log2_double by lia. reflexivity.
  - replace (v - 1) with (2 * (v / 2)) by lia. replace v with (2 * (v / 2) + 1) at 2 by lia.
    rewrite Nat.log2_succ_double, Nat.log2_double by lia. reflexivity.
Qed.

Lemma nth_upd_eq {A} i (x : A) l d : i < length l -> nth i (upd i x l) d = x.
Proof. revert i; induction l; intros [|i] Hi; simpl in *; try lia; auto. apply IHl. lia. Qed.

Lemma nth_upd_neq {A} i j (x : A) l d : i <> j -> nth j (upd i x l) d = nth j l d.
Proof. revert i j; induction l; intros [|i] [|j] Hij; simpl; auto; try lia. Qed.

Section Compression.
  Variable F : Type.
  Variable digest : Type.
  Variable hash_leaf : list F -> digest.
  Variable two_to_one : digest -> digest -> digest.
  Variable k h : nat.                        (* height of the tree, cap height *)
  Hypothesis Hh : h <= k.
  Variable val : nat -> digest.              (* digest of node v *)
  Variable leaf_of : nat -> list F.          (* data of leaf i *)
  Hypothesis val_leaf : forall i, i < 2 ^ k -> val (i + 2 ^ k) = hash_leaf (leaf_of i).
  Hypothesis val_node : forall v, 1 <= v < 2 ^ k -> val v = two_to_one (val (2 * v)) (val (2 * v + 1)).

  Notation n := (2 ^ k).
  Notation m := (k - h).

  Definition node (i j : nat) : nat := (i + n) / 2 ^ j.
  Definition sib (i j : nat) : nat := xor1 (node i j).
  (* the proof of position i determined by the labelling *)
  Definition proof_of (i : nat) : list digest := map (fun j => val (sib i j)) (seq 0 m).

  Lemma node_0 i : node i 0 = i + n.
  Proof. unfold node. simpl. apply Nat.div_1_r. Qed.

  Lemma node_S i j : node i (S j) = node i j / 2.
  Proof.
    unfold node. rewrite Nat.div_div by (pose proof (pow2_pos j); lia).
    f_equal. rewrite pow2_S. lia.
  Qed.

  Lemma node_bounds i j : i < n -> j <= k -> 2 ^ (k - j) <= node i j < 2 ^ S (k - j).
  Proof.
    intros Hi Hj. unfold node. pose proof (pow2_pos j) as Hp.
    assert (En : n = 2 ^ j * 2 ^ (k - j)) by (rewrite <- Nat.pow_add_r; f_equal; lia).
    split.
    - apply Nat.div_le_lower_bound; lia.
    - apply Nat.div_lt_upper_bound; [lia|]. rewrite pow2_S. lia.
  Qed.

  Lemma node_log2 i j : i < n -> j <= k -> Nat.log2 (node i j) = k - j.
  Proof. intros Hi Hj. apply Nat.log2_unique; [lia|]. apply node_bounds; assumption. Qed.

  Lemma node_ge2 i j : i < n -> j < k -> 2 <= node i j.
  Proof.
    intros Hi Hj. destruct (node_bounds i j Hi ltac:(lia)) as [Hlo _].
    assert (2 ^ 1 <= 2 ^ (k - j)) by (apply Nat.pow_le_mono_r; lia). simpl in *. lia.
  Qed.

  Lemma sib_log2 i j : i < n -> j < k -> Nat.log2 (sib i j) = k - j.
  Proof.
    intros Hi Hj. unfold sib. rewrite log2_xor1 by (apply node_ge2; assumption).
    apply node_log2; [assumption|lia].
  Qed.

  Lemma node_lt i j : i < n -> j <= k -> node i j < 2 * n.
  Proof.
    intros Hi Hj. destruct (node_bounds i j Hi Hj) as [_ Hhi].
    assert (2 ^ S (k - j) <= 2 ^ S k) by (apply Nat.pow_le_mono_r; lia).
    rewrite (pow2_S k) in *. lia.
  Qed.

  Lemma sib_lt i j : i < n -> j <= k -> sib i j < 2 * n.
  Proof.
    intros Hi Hj. destruct (node_bounds i j Hi Hj) as [_ Hhi]. rewrite pow2_S in Hhi.
    unfold sib. apply xor1_lt in Hhi.
    assert (2 ^ (k - j) <= 2 ^ k) by (apply Nat.pow_le_mono_r; lia). lia.
  Qed.

  Lemma sib_half i j : sib i j / 2 = node i (S j).
  Proof. unfold sib. rewrite xor1_div2, node_S. reflexivity. Qed.

  Lemma node_parent_range i j : i < n -> j < k -> 1 <= node i (S j) < n.
  Proof.
    intros Hi Hj. destruct (node_bounds i (S j) Hi ltac:(lia)) as [Hlo Hhi].
    pose proof (pow2_pos (k - S j)).
    assert (2 ^ S (k - S j) <= 2 ^ k) by (apply Nat.pow_le_mono_r; lia). lia.
  Qed.

  (* distinctness by depth *)
  Lemma sib_neq_sib i i' j j' : i < n -> i' < n -> j < k -> j' < k -> j <> j' -> sib i j <> sib i' j'.
  Proof.
    intros Hi Hi' Hj Hj' Hne E. apply (f_equal Nat.log2) in E.
    rewrite !sib_log2 in E by assumption. lia.
  Qed.

  Lemma sib_neq_node i i' j j' : i < n -> i' < n -> j < k -> j' <= k -> j <> j' -> sib i j <> node i' j'.
  Proof.
    intros Hi Hi' Hj Hj' Hne E. apply (f_equal Nat.log2) in E.
    rewrite sib_log2, node_log2 in E by assumption. lia.
  Qed.

  (* ------------------------------------------------------------------------------------ *)
  (* compress: the [known] array *)

  Variable indices : list nat.
  Hypothesis indices_lt : forall i, In i indices -> i < n.

  Definition Kinv (known : list bool) (A : nat -> Prop) : Prop :=
    length known = 2 * n /\ forall v, v < 2 * n -> (nth v known false = true <-> A v).

  Lemma Kinv_ext known A B : (forall u, A u <-> B u) -> Kinv known A -> Kinv known B.
  Proof. intros E [Hl Hk]. split; [exact Hl|]. intros v Hv. rewrite <- E. apply Hk. exact Hv. Qed.

  Lemma Kinv_upd known A v : Kinv known A -> v < 2 * n -> Kinv (upd v true known) (fun u => A u \/ u = v).
  Proof.
    intros [Hl Hk] Hv. split; [rewrite upd_length; exact Hl|]. intros u Hu.
    destruct (Nat.eq_dec v u) as [->|Hne].
    - rewrite nth_upd_eq by lia. tauto.
    - rewrite nth_upd_neq by assumption. rewrite (Hk u Hu). split; [tauto|]. intros [?|?]; [assumption|lia].
  Qed.

  Lemma mark_path_spec : forall cnt known v A,
    Kinv known A -> (forall t, t < cnt -> v / 2 ^ t < 2 * n) ->
    exists known', mark_path known v cnt = Some known'
                   /\ Kinv known' (fun u => A u \/ exists t, t < cnt /\ u = v / 2 ^ t).
  Proof.
    induction cnt; intros known v A HK Hr.
    - exists known. split; [reflexivity|]. eapply Kinv_ext; [|exact HK]. intros u. split; [tauto|].
      intros [?|(t & Ht & _)]; [assumption|lia].
    - cbn [mark_path]. pose proof (Hr 0 ltac:(lia)) as H0. cbn [Nat.pow] in H0. rewrite Nat.div_1_r in H0.
      destruct HK as [Hl Hk]. replace (v <? length known) with true by (symmetry; apply Nat.ltb_lt; lia).
      destruct (IHcnt (upd v true known) (v / 2) _ (Kinv_upd known A v (conj Hl Hk) H0)) as (known' & E & HK').
      { intros t Ht. specialize (Hr (S t) ltac:(lia)). rewrite pow2_S in Hr.
        rewrite Nat.div_div by (pose proof (pow2_pos t); lia). exact Hr. }
      exists known'. split; [exact E|]. eapply Kinv_ext; [|exact HK']. intros u. split.
      + intros [[Ha| ->]|(t & Ht & ->)].
        * left; assumption.
        * right. exists 0. split; [lia|]. cbn [Nat.pow]. rewrite Nat.div_1_r. reflexivity.
        * right. exists (S t). split; [lia|]. rewrite pow2_S, Nat.div_div by (pose proof (pow2_pos t); lia). reflexivity.
      + intros [Ha|(t & Ht & ->)]; [left; left; assumption|]. destruct t as [|t].
        * left. right. cbn [Nat.pow]. apply Nat.div_1_r.
        * right. exists t. split; [lia|]. rewrite pow2_S, Nat.div_div by (pose proof (pow2_pos t); lia). reflexivity.
  Qed.

  Definition inP (u : nat) : Prop := exists i, In i indices /\ exists t, t < m /\ u = node i t.

  Lemma mark_paths_spec : forall todo known A,
    Kinv known A -> (forall i, In i todo -> i < n) ->
    exists known', mark_paths known n m todo = Some known'
                   /\ Kinv known' (fun u => A u \/ exists i, In i todo /\ exists t, t < m /\ u = node i t).
  Proof.
    induction todo as [|i todo IH]; intros known A HK Hlt.
    - exists known. split; [reflexivity|]. eapply Kinv_ext; [|exact HK]. intros u. split; [tauto|].
      intros [?|(i & [] & _)]; assumption.
    - cbn [mark_paths].
      destruct (mark_path_spec m known (i + n) A HK) as (k1 & E1 & HK1).
      { intros t Ht. apply (node_lt i t); [apply Hlt; left; reflexivity|lia]. }
      rewrite E1.
      destruct (IH k1 _ HK1 ltac:(intros; apply Hlt; right; assumption)) as (k2 & E2 & HK2).
      exists k2. split; [exact E2|]. eapply Kinv_ext; [|exact HK2]. intros u. split.
      + intros [[Ha|(t & Ht & ->)]|(i' & Hi' & t & Ht & ->)].
        * left; assumption.
        * right. exists i. split; [left; reflexivity|]. exists t. split; [assumption|reflexivity].
        * right. exists i'. split; [right; assumption|]. exists t. auto.
      + intros [Ha|(i' & [<- |Hi'] & t & Ht & ->)].
        * left; left; assumption.
        * left. right. exists t. auto.
        * right. exists i'. split; [assumption|]. exists t. auto.
  Qed.

  Lemma Kinv_init : Kinv (repeat false (2 * n)) (fun _ => False).
  Proof.
    split; [apply repeat_length|]. intros v Hv. split; [|tauto].
    intros E. rewrite nth_repeat in E. discriminate.
  Qed.

  (* nodes visited by the proofs already processed *)
  Definition vis (done : list nat) (u : nat) : Prop :=
    exists i, In i done /\ exists t, t < m /\ (u = sib i t \/ u = node i (S t)).
  Definition knownP (done : list nat) (u : nat) : Prop := inP u \/ vis done u.

  Definition inPb (u : nat) : bool :=
    existsb (fun i => existsb (fun t => u =? node i t) (seq 0 m)) indices.
  Definition visb (done : list nat) (u : nat) : bool :=
    existsb (fun i => existsb (fun t => (u =? sib i t) || (u =? node i (S t))) (seq 0 m)) done.
  Definition knownb (done : list nat) (u : nat) : bool := inPb u || visb done u.

  Lemma knownb_spec done u : knownb done u = true <-> knownP done u.
  Proof.
    unfold knownb, knownP, inPb, visb, inP, vis. rewrite orb_true_iff, !existsb_exists.
    split; (intros [H|H]; [left|right]).
    - destruct H as (i & Hi & H). apply existsb_exists in H. destruct H as (t & Ht & E).
      apply in_seq in Ht. apply Nat.eqb_eq in E. exists i. split; [assumption|]. exists t. split; [lia|assumption].
    - destruct H as (i & Hi & H). apply existsb_exists in H. destruct H as (t & Ht & E).
      apply in_seq in Ht. apply orb_true_iff in E. rewrite !Nat.eqb_eq in E.
      exists i. split; [assumption|]. exists t. split; [lia|assumption].
    - destruct H as (i & Hi & t & Ht & E). exists i. split; [assumption|]. apply existsb_exists.
      exists t. split; [apply in_seq; lia|]. apply Nat.eqb_eq. assumption.
    - destruct H as (i & Hi & t & Ht & E). exists i. split; [assumption|]. apply existsb_exists.
      exists t. split; [apply in_seq; lia|]. apply orb_true_iff. rewrite !Nat.eqb_eq. assumption.
  Qed.

  Lemma bool_eq_iff (a b : bool) : (a = true <-> b = true) -> a = b.
  Proof. destruct a, b; intros [H1 H2]; auto; try (symmetry; auto); discriminate (H1 eq_refl) || discriminate (H2 eq_refl). Qed.

  (* the compressed proof of index i when [done] were processed before, from layer j on *)
  Definition stream (j : nat) (done : list nat) (i : nat) : list digest :=
    flat_map (fun t => if knownb done (sib i t) then [] else [val (sib i t)]) (seq j (m - j)).

  Fixpoint streams (j : nat) (done todo : list nat) : list (list digest) :=
    match todo with
    | [] => []
    | i :: r => stream j done i :: streams j (done ++ [i]) r
    end.

  Lemma streams_length j : forall todo done, length (streams j done todo) = length todo.
  Proof. induction todo; intros; simpl; auto. Qed.

  Lemma compress_one_spec done i : i < n ->
    forall len t0 known_t (A_t : nat -> Prop),
      t0 + len = m -> Kinv known_t A_t ->
      (forall t, t0 <= t < m -> (A_t (sib i t) <-> knownP done (sib i t))) ->
      exists known',
        compress_one digest known_t (node i t0) (map (fun t => val (sib i t)) (seq t0 len))
        = Some (known', flat_map (fun t => if knownb done (sib i t) then [] else [val (sib i t)]) (seq t0 len))
        /\ Kinv known' (fun u => A_t u \/ exists t, t0 <= t < m /\ (u = sib i t \/ u = node i (S t))).
  Proof.
    intros Hi. induction len; intros t0 known_t A_t Hlen HK HA.
    - exists known_t. split; [reflexivity|]. eapply Kinv_ext; [|exact HK]. intros u. split; [tauto|].
      intros [?|(t & Ht & _)]; [assumption|lia].
    - cbn [seq map compress_one flat_map].
      assert (Ht0 : t0 < m) by lia. assert (Ht0k : t0 < k) by lia.
      pose proof (sib_lt i t0 Hi ltac:(lia)) as Hs. fold (sib i t0).
      destruct HK as [Hl Hk].
      rewrite (nth_error_nth' known_t false) by lia.
      set (b := nth (sib i t0) known_t false).
      assert (Eb : b = knownb done (sib i t0)).
      { apply bool_eq_iff. unfold b. rewrite (Hk _ Hs), knownb_spec. apply HA. lia. }
      set (known1 := if b then known_t else upd (sib i t0) true known_t).
      assert (HK1 : Kinv known1 (fun u => A_t u \/ u = sib i t0)).
      { unfold known1. destruct b eqn:Eb'.
        - eapply Kinv_ext; [|exact (conj Hl Hk)]. intros u. split; [tauto|].
          intros [?| ->]; [assumption|]. apply (Hk _ Hs). exact Eb'.
        - apply Kinv_upd; [exact (conj Hl Hk)|exact Hs]. }
      rewrite <- node_S.
      pose proof (node_lt i (S t0) Hi ltac:(lia)) as Hn1.
      replace (length known1 <=? node i (S t0)) with false
        by (symmetry; apply Nat.leb_gt; destruct HK1 as [-> _]; exact Hn1).
      pose proof (Kinv_upd _ _ _ HK1 Hn1) as HK2.
      destruct (IHlen (S t0) _ _ ltac:(lia) HK2) as (known' & E & HK').
      { intros t Ht. rewrite <- (HA t ltac:(lia)). split; [|tauto].
        intros [[Ha|Es]|En]; [assumption| |]; exfalso.
        - revert Es. apply sib_neq_sib; try assumption; lia.
        - destruct (Nat.eq_dec t (S t0)) as [->|Hne].
          + unfold sib in En. exact (xor1_neq _ En).
          + revert En. apply sib_neq_node; try assumption; lia. }
      rewrite E. exists known'. split.
      + rewrite <- Eb. destruct b; reflexivity.
      + eapply Kinv_ext; [|exact HK']. intros u. split.
        * intros [[[Ha| ->]| ->]|(t & Ht & Hu)].
          -- left; assumption.
          -- right. exists t0. split; [lia|]. left; reflexivity.
          -- right. exists t0. split; [lia|]. right; reflexivity.
          -- right. exists t. split; [lia|assumption].
        * intros [Ha|(t & Ht & Hu)]; [left; left; left; assumption|].
          destruct (Nat.eq_dec t t0) as [->|Hne].
          -- destruct Hu as [->| ->]; [left; left; right; reflexivity|left; right; reflexivity].
          -- right. exists t. split; [lia|assumption].
  Qed.

  Lemma compress_all_spec : forall todo done known,
    Kinv known (knownP done) -> (forall i, In i todo -> i < n) ->
    compress_all digest known n (combine todo (map proof_of todo)) = Some (streams 0 done todo).
  Proof.
    induction todo as [|i todo IH]; intros done known HK Hlt; [reflexivity|].
    cbn [map combine compress_all streams].
    assert (Hi : i < n) by (apply Hlt; left; reflexivity).
    destruct (compress_one_spec done i Hi m 0 known (knownP done) ltac:(lia) HK ltac:(tauto))
      as (known' & E & HK').
    rewrite node_0 in E. unfold proof_of at 1. rewrite E.
    rewrite (IH (done ++ [i]) known').
    - unfold stream. rewrite Nat.sub_0_r. reflexivity.
    - eapply Kinv_ext; [|exact HK']. intros u. unfold knownP, vis. split.
      + intros [[Hp|(i' & Hi' & t & Ht & Hu)]|(t & Ht & Hu)].
        * left; assumption.
        * right. exists i'. split; [apply in_or_app; left; assumption|]. exists t. auto.
        * right. exists i. split; [apply in_or_app; right; left; reflexivity|]. exists t. split; [lia|assumption].
      + intros [Hp|(i' & Hi' & t & Ht & Hu)]; [left; left; assumption|].
        apply in_app_or in Hi'. destruct Hi' as [Hi'|[<- |[]]].
        * left. right. exists i'. split; [assumption|]. exists t. auto.
        * right. exists t. split; [lia|assumption].
    - intros; apply Hlt; right; assumption.
  Qed.

  Lemma proof_of_length i : length (proof_of i) = m.
  Proof. unfold proof_of. rewrite map_length, seq_length. reflexivity. Qed.

  Theorem compress_spec :
    indices <> [] ->
    compress_merkle_proofs digest h indices (map proof_of indices) = Some (streams 0 [] indices).
  Proof.
    intros Hne. unfold compress_merkle_proofs.
    destruct indices as [|i0 rest] eqn:Ei; [contradiction|]. cbn [map].
    rewrite !proof_of_length.
    replace (h + (k - h)) with k by lia.
    rewrite <- Ei in *.
    destruct (mark_paths_spec indices (repeat false (2 * n)) _ Kinv_init indices_lt) as (known & E & HK).
    rewrite E.
    replace (proof_of i0 :: map proof_of rest) with (map proof_of indices) by (rewrite Ei; reflexivity).
    apply compress_all_spec; [|exact indices_lt].
    eapply Kinv_ext; [|exact HK]. intros u. unfold knownP, inP, vis. split.
    - intros [[]|H]. left. exact H.
    - intros [H|(i & [] & _)]. right. exact H.
  Qed.

  (* ------------------------------------------------------------------------------------ *)
  (* decompress: the [seen] map *)

  Notation sget := (seen_get digest).
  Notation sins := (seen_insert digest).

  Definition has (seen : seen_map digest) (v : nat) : Prop := sget seen v <> None.
  Definition Vok (seen : seen_map digest) : Prop := forall v d, sget seen v = Some d -> d = val v.

  (* keys present when layer j starts: path nodes of levels <= j, siblings of levels < j *)
  Definition Key (j v : nat) : Prop :=
    (exists i, In i indices /\ exists t, t <= j /\ v = node i t)
    \/ (exists i, In i indices /\ exists t, t < j /\ v = sib i t).

  Definition Minv (j : nat) (done : list nat) (seen : seen_map digest) : Prop :=
    Vok seen
    /\ forall v, has seen v <-> (Key j v \/ exists i, In i done /\ (v = sib i j \/ v = node i (S j))).

  Lemma sget_insert seen a d v : sget (sins seen a d) v = if a =? v then Some d else sget seen v.
  Proof. reflexivity. Qed.

  Lemma has_insert seen a d v : has (sins seen a d) v <-> (v = a \/ has seen v).
  Proof.
    unfold has. rewrite sget_insert. destruct (a =? v) eqn:E.
    - apply Nat.eqb_eq in E. split; [auto|discriminate].
    - apply Nat.eqb_neq in E. split; [auto|]. intros [->|?]; [congruence|assumption].
  Qed.

  Lemma Vok_insert seen a d : Vok seen -> d = val a -> Vok (sins seen a d).
  Proof.
    intros Hv -> v d'. rewrite sget_insert. destruct (a =? v) eqn:E.
    - apply Nat.eqb_eq in E. subst. intros [= <-]. reflexivity.
    - apply Hv.
  Qed.

  Lemma decide_sib done i j :
    i < n -> j < m -> incl done indices ->
    ((Key j (sib i j) \/ exists i', In i' done /\ (sib i j = sib i' j \/ sib i j = node i' (S j)))
     <-> knownP done (sib i j)).
  Proof.
    intros Hi Hj Hincl. assert (Hjk : j < k) by lia. unfold knownP, inP, vis. split.
    - intros [[(i' & Hi' & t & Ht & E)|(i' & Hi' & t & Ht & E)]|(i' & Hi' & [E|E])].
      + left. exists i'. split; [assumption|]. exists t. split; [lia|assumption].
      + exfalso. revert E. apply sib_neq_sib; auto; lia.
      + right. exists i'. split; [assumption|]. exists j. split; [assumption|]. left. assumption.
      + exfalso. revert E. apply sib_neq_node; auto; lia.
    - intros [(i' & Hi' & t & Ht & E)|(i' & Hi' & t & Ht & [E|E])].
      + destruct (Nat.eq_dec j t) as [->|Hne].
        * left. left. exists i'. split; [assumption|]. exists t. split; [lia|assumption].
        * exfalso. revert E. apply sib_neq_node; auto; lia.
      + destruct (Nat.eq_dec j t) as [->|Hne].
        * right. exists i'. split; [assumption|]. left. assumption.
        * exfalso. revert E. apply sib_neq_sib; auto; lia.
      + destruct (Nat.eq_dec j (S t)) as [->|Hne].
        * left. left. exists i'. split; [apply Hincl; assumption|]. exists (S t). split; [lia|assumption].
        * exfalso. revert E. apply sib_neq_node; auto; lia.
  Qed.

  Lemma stream_step j done i :
    j < m ->
    stream j done i = (if knownb done (sib i j) then [] else [val (sib i j)]) ++ stream (S j) done i.
  Proof.
    intros Hj. unfold stream. replace (m - j) with (S (m - S j)) by lia. reflexivity.
  Qed.

  Lemma parent_val i j :
    i < n -> j < m ->
    (if Nat.even (node i j) then two_to_one (val (node i j)) (val (sib i j))
     else two_to_one (val (sib i j)) (val (node i j))) = val (node i (S j)).
  Proof.
    intros Hi Hj. rewrite node_S. unfold sib. set (v := node i j).
    pose proof (node_parent_range i j Hi ltac:(lia)) as Hr. rewrite node_S in Hr. fold v in Hr.
    rewrite (val_node (v / 2) Hr).
    pose proof (Nat.div_mod v 2 ltac:(lia)) as Hd.
    destruct (Nat.even v) eqn:Ev.
    - apply xor1_even_iff in Ev. destruct (xor1_cases v) as [[_ ->]|[Hm _]]; [|lia].
      replace (2 * (v / 2)) with v by lia. reflexivity.
    - assert (Hm : v mod 2 = 1).
      { destruct (xor1_cases v) as [[Hm _]|[Hm _]]; [|assumption].
        apply xor1_even_iff in Hm. congruence. }
      destruct (xor1_cases v) as [[Hm' _]|[_ ->]]; [lia|].
      replace (2 * (v / 2) + 1) with v by lia. replace (2 * (v / 2)) with (v - 1) by lia. reflexivity.
  Qed.

  Lemma decompress_layer_spec j : j < m ->
    forall todo done seen,
      Minv j done seen -> (forall i, In i todo -> In i indices) -> incl done indices ->
      exists seen',
        decompress_layer digest two_to_one seen n j (combine todo (streams j done todo))
        = Some (seen', streams (S j) done todo)
        /\ Minv j (done ++ todo) seen'.
  Proof.
    intros Hj. induction todo as [|i todo IH]; intros done seen HM Hin Hincl.
    - exists seen. split; [reflexivity|]. rewrite app_nil_r. exact HM.
    - cbn [streams combine decompress_layer].
      assert (Hii : In i indices) by (apply Hin; left; reflexivity).
      assert (Hi : i < n) by (apply indices_lt; assumption).
      fold (node i j). fold (sib i j).
      destruct HM as [Hv Hk].
      (* seen[&index] *)
      assert (Hcur : has seen (node i j)).
      { apply Hk. left. left. exists i. split; [assumption|]. exists j. split; [lia|reflexivity]. }
      destruct (sget seen (node i j)) as [cur|] eqn:Ecur; [|exfalso; apply Hcur; exact Ecur].
      pose proof (Hv _ _ Ecur) as Hcurv. subst cur.
      rewrite <- node_S.
      assert (Hincl' : incl (done ++ [i]) indices).
      { intros x Hx. apply in_app_or in Hx. destruct Hx as [Hx|[<-|[]]]; [apply Hincl|]; assumption. }
      pose proof (decide_sib done i j Hi Hj Hincl) as Hdec.
      rewrite <- Hk, <- knownb_spec in Hdec.
      rewrite (stream_step j done i Hj).
      destruct (sget seen (sib i j)) as [sh|] eqn:Esib.
      + (* sibling already known *)
        assert (Hkb : knownb done (sib i j) = true) by (apply Hdec; unfold has; rewrite Esib; discriminate).
        rewrite Hkb. cbn [app].
        pose proof (Hv _ _ Esib) as Hshv. subst sh. rewrite (parent_val i j Hi Hj).
        destruct (IH (done ++ [i]) (sins seen (node i (S j)) (val (node i (S j))))) as (seen' & E & HM').
        * split; [apply Vok_insert; [exact Hv|reflexivity]|]. intros v. rewrite has_insert, Hk. split.
          -- intros [->|[HK|(i' & Hi' & Hu)]].
             ++ right. exists i. split; [apply in_or_app; right; left; reflexivity|]. right. reflexivity.
             ++ left. assumption.
             ++ right. exists i'. split; [apply in_or_app; left; assumption|assumption].
          -- intros [HK|(i' & Hi' & Hu)]; [right; left; assumption|].
             apply in_app_or in Hi'. destruct Hi' as [Hi'|[<- |[]]].
             ++ right. right. exists i'. split; assumption.
             ++ destruct Hu as [->| ->]; [|left; reflexivity].
                right. apply Hk. unfold has. rewrite Esib. discriminate.
        * intros; apply Hin; right; assumption.
        * exact Hincl'.
        * rewrite E. exists seen'. split; [reflexivity|]. rewrite <- app_assoc in HM'. exact HM'.
      + (* sibling taken from the compressed proof *)
        assert (Hkb : knownb done (sib i j) = false).
        { apply not_true_is_false. intros Eb. apply Hdec in Eb. apply Eb. exact Esib. }
        rewrite Hkb. cbn [app]. rewrite (parent_val i j Hi Hj).
        destruct (IH (done ++ [i])
                     (sins (sins seen (sib i j) (val (sib i j))) (node i (S j)) (val (node i (S j)))))
          as (seen' & E & HM').
        * split; [apply Vok_insert; [apply Vok_insert; [exact Hv|reflexivity]|reflexivity]|].
          intros v. rewrite !has_insert, Hk. split.
          -- intros [->|[->|[HK|(i' & Hi' & Hu)]]].
             ++ right. exists i. split; [apply in_or_app; right; left; reflexivity|]. right. reflexivity.
             ++ right. exists i. split; [apply in_or_app; right; left; reflexivity|]. left. reflexivity.
             ++ left. assumption.
             ++ right. exists i'. split; [apply in_or_app; left; assumption|assumption].
          -- intros [HK|(i' & Hi' & Hu)]; [right; right; left; assumption|].
             apply in_app_or in Hi'. destruct Hi' as [Hi'|[<- |[]]].
             ++ right. right. right. exists i'. split; assumption.
             ++ destruct Hu as [->| ->]; [right; left; reflexivity|left; reflexivity].
        * intros; apply Hin; right; assumption.
        * exact Hincl'.
        * rewrite E. exists seen'. split; [reflexivity|]. rewrite <- app_assoc in HM'. exact HM'.
  Qed.

  Lemma Minv_next j seen : Minv j indices seen -> Minv (S j) [] seen.
  Proof.
    intros [Hv Hk]. split; [exact Hv|]. intros v. rewrite Hk. unfold Key. split.
    - intros [[(i & Hi & t & Ht & E)|(i & Hi & t & Ht & E)]|(i & Hi & [E|E])].
      + left. left. exists i. split; [assumption|]. exists t. split; [lia|assumption].
      + left. right. exists i. split; [assumption|]. exists t. split; [lia|assumption].
      + left. right. exists i. split; [assumption|]. exists j. split; [lia|assumption].
      + left. left. exists i. split; [assumption|]. exists (S j). split; [lia|assumption].
    - intros [[(i & Hi & t & Ht & E)|(i & Hi & t & Ht & E)]|(i & [] & _)].
      + destruct (Nat.eq_dec t (S j)) as [->|Hne].
        * right. exists i. split; [assumption|]. right. assumption.
        * left. left. exists i. split; [assumption|]. exists t. split; [lia|assumption].
      + destruct (Nat.eq_dec t j) as [->|Hne].
        * right. exists i. split; [assumption|]. left. assumption.
        * left. right. exists i. split; [assumption|]. exists t. split; [lia|assumption].
  Qed.

  Lemma decompress_fill_spec : forall cnt j seen,
    j + cnt = m -> Minv j [] seen ->
    exists seen',
      decompress_fill digest two_to_one seen n j cnt indices (streams j [] indices) = Some seen'
      /\ Minv m [] seen'.
  Proof.
    induction cnt; intros j seen Hjc HM.
    - exists seen. split; [reflexivity|]. replace m with j by lia. exact HM.
    - cbn [decompress_fill].
      destruct (decompress_layer_spec j ltac:(lia) indices [] seen HM ltac:(auto) ltac:(intros x []))
        as (seen1 & E & HM1).
      rewrite E. cbn [app] in HM1. apply Minv_next in HM1.
      rewrite skipn_all2, app_nil_r by (rewrite !streams_length; lia).
      apply IHcnt; [lia|exact HM1].
  Qed.

  Lemma seen0_spec : forall l acc,
    (forall i, In i l -> i < n) -> Vok acc ->
    let seen := fold_left (fun mp iv => sins mp (fst iv + n) (hash_leaf (snd iv)))
                          (combine l (map leaf_of l)) acc in
    Vok seen /\ forall v, has seen v <-> (has acc v \/ exists i, In i l /\ v = i + n).
  Proof.
    induction l as [|i l IH]; intros acc Hlt Hv; cbn [map combine fold_left].
    - split; [exact Hv|]. intros v. split; [auto|]. intros [?|(i & [] & _)]; assumption.
    - destruct (IH (sins acc (i + n) (hash_leaf (leaf_of i)))) as [Hv' Hk'].
      + intros; apply Hlt; right; assumption.
      + apply Vok_insert; [exact Hv|]. cbn [fst snd]. symmetry. apply val_leaf. apply Hlt. left. reflexivity.
      + cbn [fst snd]. split; [exact Hv'|]. intros v. rewrite Hk', has_insert. split.
        * intros [[->|Ha]|(i' & Hi' & ->)].
          -- right. exists i. split; [left; reflexivity|reflexivity].
          -- left. assumption.
          -- right. exists i'. split; [right; assumption|reflexivity].
        * intros [Ha|(i' & [<- |Hi'] & ->)].
          -- left. right. assumption.
          -- left. left. reflexivity.
          -- right. exists i'. split; [assumption|reflexivity].
  Qed.

  Lemma read_path_spec seen i : Minv m [] seen -> In i indices ->
    forall cnt t0, t0 + cnt = m ->
      read_path digest seen (node i t0) cnt = Some (map (fun t => val (sib i t)) (seq t0 cnt)).
  Proof.
    intros [Hv Hk] Hi. induction cnt; intros t0 Ht; [reflexivity|].
    cbn [read_path seq map]. fold (sib i t0).
    assert (Hh' : has seen (sib i t0)).
    { apply Hk. left. right. exists i. split; [assumption|]. exists t0. split; [lia|reflexivity]. }
    destruct (sget seen (sib i t0)) as [d|] eqn:E; [|exfalso; apply Hh'; exact E].
    rewrite (Hv _ _ E). rewrite <- node_S. rewrite IHcnt by lia. reflexivity.
  Qed.

  Lemma read_paths_spec seen : Minv m [] seen ->
    forall l, (forall i, In i l -> In i indices) ->
      read_paths digest seen n m l = Some (map proof_of l).
  Proof.
    intros HM. induction l as [|i l IH]; intros Hin; [reflexivity|].
    cbn [read_paths map]. rewrite <- node_0.
    rewrite (read_path_spec seen i HM (Hin i (or_introl eq_refl)) m 0 ltac:(lia)).
    rewrite IH by (intros; apply Hin; right; assumption). reflexivity.
  Qed.

  Theorem decompress_spec :
    decompress_merkle_proofs F digest hash_leaf two_to_one (map leaf_of indices) indices
                             (streams 0 [] indices) k h
    = Some (map proof_of indices).
  Proof.
    unfold decompress_merkle_proofs.
    replace (k <? h) with false by (symmetry; apply Nat.ltb_ge; exact Hh).
    destruct (seen0_spec indices [] indices_lt ltac:(intros v d; discriminate)) as [Hv0 Hk0].
    set (seen0 := fold_left _ _ _) in *.
    assert (HM0 : Minv 0 [] seen0).
    { split; [exact Hv0|]. intros v. rewrite Hk0. unfold Key. split.
      - intros [Ha|(i & Hi & ->)]; [exfalso; apply Ha; reflexivity|].
        left. left. exists i. split; [assumption|]. exists 0. split; [lia|]. symmetry. apply node_0.
      - intros [[(i & Hi & t & Ht & ->)|(i & Hi & t & Ht & _)]|(i & [] & _)]; [|lia].
        right. exists i. split; [assumption|]. replace t with 0 by lia. apply node_0. }
    destruct (decompress_fill_spec m 0 seen0 ltac:(lia) HM0) as (seen' & E & HM).
    rewrite E. apply read_paths_spec; auto.
  Qed.

  (* decompression inverts compression, for any list of indices (multiset, any order) *)
  Theorem decompress_compress_val :
    indices <> [] ->
    exists cps,
      compress_merkle_proofs digest h indices (map proof_of indices) = Some cps
      /\ decompress_merkle_proofs F digest hash_leaf two_to_one (map leaf_of indices) indices cps k h
         = Some (map proof_of indices).
  Proof.
    intros Hne. exists (streams 0 [] indices). split; [apply compress_spec; exact Hne|apply decompress_spec].
  Qed.
End Compression.

(* ---------------------------------------------------------------------------------------- *)
(* Openings of one Merkle tree are such a family: node v at depth a = log2 v is the root of the
   subtree over chunk number v - 2^a of size 2^(k-a). *)

Lemma chunk_even {A} sz p (l : list A) : chunk sz (2 * p) l = firstn sz (chunk (2 * sz) p l).
Proof.
  unfold chunk. rewrite firstn_firstn. replace (Nat.min sz (2 * sz)) with sz by lia.
  f_equal. f_equal. lia.
Qed.

Lemma chunk_odd {A} sz p (l : list A) : chunk sz (2 * p + 1) l = skipn sz (chunk (2 * sz) p l).
Proof.
  unfold chunk. replace (2 * sz) with (sz + sz) by lia. rewrite <- firstn_skipn_comm.
  f_equal. rewrite skipn_skipn'. f_equal. lia.
Qed.

Lemma xor1_add_even x e : e mod 2 = 0 -> xor1 (e + x) = e + xor1 x.
Proof.
  intros He. pose proof (Nat.div_mod e 2 ltac:(lia)) as Hd.
  assert (Hx : (e + x) mod 2 = x mod 2).
  { replace (e + x) with (x + (e / 2) * 2) by lia. apply Nat.mod_add. lia. }
  destruct (xor1_cases x) as [[Hm ->]|[Hm ->]]; destruct (xor1_cases (e + x)) as [[Hm' ->]|[Hm' ->]]; try lia.
  pose proof (Nat.div_mod x 2 ltac:(lia)). lia.
Qed.

Section HonestTree.
  Variable F : Type.
  Variable digest : Type.
  Variable hash_leaf : list F -> digest.
  Variable two_to_one : digest -> digest -> digest.
  Variable leaves : list (list F).
  Variable k h : nat.
  Hypothesis Hlen : length leaves = 2 ^ k.
  Hypothesis Hh : h <= k.

  Notation root := (root F digest hash_leaf two_to_one).
  Notation path := (path F digest hash_leaf two_to_one).
  Notation opening := (opening F digest hash_leaf two_to_one).

  Definition node_val (v : nat) : digest :=
    root (k - Nat.log2 v) (chunk (2 ^ (k - Nat.log2 v)) (v - 2 ^ Nat.log2 v) leaves).

  Lemma node_val_leaf i : i < 2 ^ k -> node_val (i + 2 ^ k) = hash_leaf (nth i leaves []).
  Proof.
    intros Hi. unfold node_val.
    assert (E : Nat.log2 (i + 2 ^ k) = k) by (apply Nat.log2_unique; [lia|rewrite pow2_S; lia]).
    rewrite E, Nat.sub_diag. cbn [Nat.pow Merkle.root].
    replace (i + 2 ^ k - 2 ^ k) with i by lia. rewrite hd_chunk1. reflexivity.
  Qed.

  Lemma node_val_node v : 1 <= v < 2 ^ k ->
    node_val v = two_to_one (node_val (2 * v)) (node_val (2 * v + 1)).
  Proof.
    intros Hv. unfold node_val.
    rewrite Nat.log2_double, Nat.log2_succ_double by lia.
    set (a := Nat.log2 v).
    assert (Ha : a < k).
    { apply Nat.log2_lt_pow2; lia. }
    destruct (Nat.log2_spec v ltac:(lia)) as [Hlo Hhi]. fold a in Hlo, Hhi.
    replace (k - a) with (S (k - S a)) by lia. cbn [Merkle.root].
    rewrite pow2_S. rewrite (pow2_S a).
    replace (2 * v - 2 * 2 ^ a) with (2 * (v - 2 ^ a)) by lia.
    replace (2 * v + 1 - 2 * 2 ^ a) with (2 * (v - 2 ^ a) + 1) by lia.
    rewrite chunk_even, chunk_odd. reflexivity.
  Qed.

  (* the sibling at level t of position r inside the c-th subtree of height mm *)
  Lemma path_nodes mm : forall c r t,
    r < 2 ^ mm -> t < mm ->
    nth_error (path mm (chunk (2 ^ mm) c leaves) r) t
    = Some (root t (chunk (2 ^ t) (xor1 (c * 2 ^ (mm - t) + r / 2 ^ t)) leaves)).
  Proof.
    induction mm; intros c r t Hr Ht; [lia|].
    cbn [Merkle.path]. pose proof (pow2_pos mm) as Hp.
    assert (EL : firstn (2 ^ mm) (chunk (2 ^ S mm) c leaves) = chunk (2 ^ mm) (2 * c) leaves)
      by (rewrite pow2_S, chunk_even; reflexivity).
    assert (ER : skipn (2 ^ mm) (chunk (2 ^ S mm) c leaves) = chunk (2 ^ mm) (2 * c + 1) leaves)
      by (rewrite pow2_S, chunk_odd; reflexivity).
    rewrite EL, ER.
    destruct (Nat.eq_dec t mm) as [->|Hne].
    - (* top sibling *)
      rewrite Nat.sub_succ_l, Nat.sub_diag by lia. cbn [Nat.pow]. rewrite Nat.mul_1_r.
      destruct (r <? 2 ^ mm) eqn:Elt.
      + apply Nat.ltb_lt in Elt. rewrite nth_error_app2 by (rewrite path_length; lia).
        rewrite path_length, Nat.sub_diag. cbn [nth_error].
        rewrite (Nat.div_small r) by assumption.
        replace (c * 2 + 0) with (2 * c) by lia.
        destruct (xor1_cases (2 * c)) as [[_ ->]|[Hm _]].
        * replace (2 * c + 1) with (2 * c + 1) by lia. reflexivity.
        * exfalso. rewrite Nat.mul_comm, Nat.mod_mul in Hm by lia. discriminate.
      + apply Nat.ltb_ge in Elt. rewrite nth_error_app2 by (rewrite path_length; lia).
        rewrite path_length, Nat.sub_diag. cbn [nth_error].
        assert (Ed : r / 2 ^ mm = 1).
        { symmetry. apply (Nat.div_unique r (2 ^ mm) 1 (r - 2 ^ mm)); [rewrite pow2_S in Hr; lia|lia]. }
        rewrite Ed.
        destruct (xor1_cases (c * 2 + 1)) as [[Hm _]|[_ ->]].
        * exfalso. rewrite Nat.add_comm, Nat.mod_add in Hm by lia. discriminate.
        * replace (c * 2 + 1 - 1) with (2 * c) by lia. reflexivity.
    - assert (Ht' : t < mm) by lia.
      assert (Epow : 2 ^ (S mm - t) = 2 * 2 ^ (mm - t)) by (rewrite <- pow2_S; f_equal; lia).
      destruct (r <? 2 ^ mm) eqn:Elt.
      + apply Nat.ltb_lt in Elt. rewrite nth_error_app1 by (rewrite path_length; lia).
        rewrite (IHmm (2 * c) r t Elt Ht'). do 4 f_equal. rewrite Epow. lia.
      + apply Nat.ltb_ge in Elt. rewrite nth_error_app1 by (rewrite path_length; lia).
        rewrite (IHmm (2 * c + 1) (r - 2 ^ mm) t ltac:(rewrite pow2_S in Hr; lia) Ht').
        do 4 f_equal. rewrite Epow.
        replace r with (2 ^ mm + (r - 2 ^ mm)) at 2 by lia.
        rewrite (div_add_pow mm t) by lia. lia.
  Qed.

  Lemma opening_is_proof_of i : i < 2 ^ k ->
    opening (k - h) leaves i = proof_of digest k h node_val i.
  Proof.
    intros Hi. set (m := k - h).
    pose proof (pow2_pos m) as Hpm.
    apply nth_ext with (d := node_val 0) (d' := node_val 0).
    { unfold Merkle.opening. rewrite path_length. unfold proof_of. rewrite map_length, seq_length. reflexivity. }
    unfold Merkle.opening. rewrite path_length. intros t Ht. fold m in Ht.
    apply nth_error_nth.
    rewrite (path_nodes m (i / 2 ^ m) (i mod 2 ^ m) t) by (try apply Nat.mod_upper_bound; lia).
    unfold proof_of. fold m.
    rewrite nth_indep with (d' := (fun j => node_val (sib k i j)) 0) by (rewrite map_length, seq_length; lia).
    rewrite (map_nth (fun j => node_val (sib k i j))), seq_nth by lia. cbn [plus].
    f_equal. unfold node_val.
    assert (Htk : t < k) by (unfold m in Ht; lia).
    rewrite (sib_log2 k h Hh i t Hi Htk).
    replace (k - (k - t)) with t by lia. do 3 f_equal.
    (* position arithmetic *)
    assert (E1 : i / 2 ^ m * 2 ^ (m - t) + i mod 2 ^ m / 2 ^ t = i / 2 ^ t).
    { rewrite (Nat.div_mod i (2 ^ m)) at 3 by lia.
      rewrite (pow2_split m t) at 3 by lia.
      rewrite (Nat.mul_comm (2 ^ (m - t) * 2 ^ t)), Nat.mul_assoc.
      rewrite Nat.div_add_l by (pose proof (pow2_pos t); lia). reflexivity. }
    rewrite E1. unfold sib, node.
    replace (i + 2 ^ k) with (2 ^ k + i) by lia. rewrite (div_add_pow k t) by lia.
    rewrite xor1_add_even.
    - lia.
    - replace (k - t) with (S (k - t - 1)) by lia. rewrite pow2_S, Nat.mul_comm. apply Nat.mod_mul. lia.
  Qed.

  (* Compressed multi-proofs of one tree decompress to the original openings, for every list of
     positions (duplicates and any order allowed). *)
  Theorem decompress_compress (indices : list nat) :
    indices <> [] -> (forall i, In i indices -> i < 2 ^ k) ->
    let proofs := map (opening (k - h) leaves) indices in
    exists cps,
      compress_merkle_proofs digest h indices proofs = Some cps
      /\ decompress_merkle_proofs F digest hash_leaf two_to_one
           (map (fun i => nth i leaves []) indices) indices cps k h = Some proofs.
  Proof.
    intros Hne Hlt proofs.
    assert (Ep : proofs = map (proof_of digest k h node_val) indices).
    { unfold proofs. apply map_ext_in. intros i Hi. apply opening_is_proof_of. apply Hlt. exact Hi. }
    rewrite Ep.
    apply (decompress_compress_val F digest hash_leaf two_to_one k h Hh node_val
             (fun i => nth i leaves []) node_val_leaf node_val_node indices Hlt Hne).
  Qed.
End HonestTree.

(* the same, phrased with the model's own prove function *)
Theorem decompress_compress_tree F digest hash_leaf two_to_one (leaves : list (list F)) k h
        (indices : list nat) (proofs : list (list digest)) :
  length leaves = 2 ^ k -> h <= k ->
  indices <> [] -> (forall i, In i indices -> i < 2 ^ k) ->
  Forall2 (fun i p => merkle_prove F digest hash_leaf two_to_one leaves h i = Some p) indices proofs ->
  exists cps,
    compress_merkle_proofs digest h indices proofs = Some cps
    /\ decompress_merkle_proofs F digest hash_leaf two_to_one
         (map (fun i => nth i leaves []) indices) indices cps k h = Some proofs.
Proof.
  intros Hl Hh Hne Hlt Hall.
  assert (Ep : proofs = map (opening F digest hash_leaf two_to_one (k - h) leaves) indices).
  { clear Hne. induction Hall as [|i p is ps Hip _ IH]; [reflexivity|].
    cbn [map]. rewrite (merkle_prove_spec F digest hash_leaf two_to_one leaves k h i Hl Hh) in Hip
      by (apply Hlt; left; reflexivity).
    injection Hip as <-. f_equal. apply IH. intros; apply Hlt; right; assumption. }
  rewrite Ep. apply (decompress_compress F digest hash_leaf two_to_one leaves k h Hl Hh indices Hne Hlt).
Qed.
