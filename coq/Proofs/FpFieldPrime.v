(* The Goldilocks instance satisfies FieldLaws unconditionally: primality of
   P = 2^64 - 2^32 + 1 (Pocklington/Lucas certificate) and Fermat's little theorem
   are proved in Proofs/Primality.v. *)
From Coq Require Import ZArith Znumtheory.
From Verif Require Import Base.Field Gen.FieldConsts Model.Fp Proofs.FpField Proofs.Primality.
Open Scope Z_scope.

Lemma P_prime : prime P.
Proof. exact goldilocks_prime. Qed.

Lemma fermat_P : forall a : Z, a mod P <> 0 -> (a ^ (P - 1)) mod P = 1.
Proof. intros a Ha. apply fermat_little_Z; [exact P_prime | exact Ha]. Qed.

Global Instance FpLaws : FieldLaws Fp := Fp_laws fermat_P.
