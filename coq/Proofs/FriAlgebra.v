(* Proofs about the FRI verifier model, part 2: fixed-challenge sensitivity of the algebraic
   positions of a proof.  With every challenge held fixed,
   (a) changing one coefficient of the final polynomial by d <> 0 changes its value at the
       (non-zero) final point by d * x^j <> 0, so the final check cannot hold for both;
   (b) changing one claimed opening by d <> 0 changes the reduced opening of its batch by
       alpha^k * d and the combined initial evaluation by a non-zero amount, so the first
       consistency check (or the final check when there is no reduction layer) cannot hold for
       both.
   Field reasoning is over Fp2 through its FieldLaws instance only. *)
From Coq Require Import ZArith List Bool Lia Arith Ring Field.
From Verif Require Import Base.Field Gen.FieldConsts Model.Fp Model.Fp2 Model.FieldGeneric Model.Fri.
From Verif Require Import Proofs.FpFieldPrime Proofs.Fp2Field Proofs.FieldGeneric Proofs.Fri.
Import ListNotations.
Local Open Scope nat_scope.

(* ---- editing one position of a list *)
Fixpoint upd_at {A} (f : A -> A) (n : nat) (l : list A) : list A :=
  match l, n with
  | [], _ => []
  | h :: t, O => f h :: t
  | h :: t, S n' => h :: upd_at f n' t
  end.

Lemma upd_at_length {A} (f : A -> A) : forall n l, length (upd_at f n l) = length l.
Proof. induction n; intros [|h t]; cbn [upd_at length]; auto. Qed.

Lemma map_upd_at {A B} (g : A -> B) (f : A -> A) (f' : B -> B) : forall n l,
  (forall h, nth_error l n = Some h -> g (f h) = f' (g h)) ->
  map g (upd_at f n l) = upd_at f' n (map g l).
Proof.
  induction n as [|n IH]; intros [|h t] Hh; cbn [upd_at map]; try reflexivity.
  - rewrite (Hh h eq_refl). reflexivity.
  - f_equal. apply IH. intros h' Hn. apply Hh. exact Hn.
Qed.

Lemma nth_error_upd_at_eq {A} (f : A -> A) : forall n l h,
  nth_error l n = Some h -> nth_error (upd_at f n l) n = Some (f h).
Proof.
  induction n as [|n IH]; intros [|h0 t] h Hn; cbn [upd_at nth_error] in *; try discriminate.
  - injection Hn as ->. reflexivity.
  - apply IH. exact Hn.
Qed.

Lemma nth_error_upd_at_neq {A} (f : A -> A) : forall n l m,
  m <> n -> nth_error (upd_at f n l) m = nth_error l m.
Proof.
  induction n as [|n IH]; intros [|h0 t] m Hne; cbn [upd_at]; try reflexivity.
  - destruct m; [lia|reflexivity].
  - destruct m; [reflexivity|]. cbn [nth_error]. apply IH. lia.
Qed.

(* ------------------------------------------------------------------------------------------ *)
(* generic: Horner sums are affine in each entry *)
Section Affine.
  Context {F : Type} `{FL : FieldLaws F}.
  Add Field Ffa : (@F_field_theory F _ FL).
  Local Open Scope field_scope.

  (* the shape of both peval2 (final polynomial at x) and reduce (openings by powers of alpha) *)
  Definition horner (cs : list F) (x : F) : F := fold_right (fun c acc => acc * x + c) 0 cs.

  Lemma horner_add_at : forall j (cs : list F) (d x : F), (j < length cs)%nat ->
    horner (upd_at (fun c => c + d) j cs) x = horner cs x + d * fpow x j.
  Proof.
    induction j as [|j IH]; intros [|c t] d x Hj; cbn [length] in Hj; try lia.
    - cbn [upd_at horner fold_right fpow]. ring.
    - cbn [upd_at horner fold_right fpow]. fold (horner t x).
      fold (horner (upd_at (fun c0 => c0 + d) j t) x). rewrite IH by lia. ring.
  Qed.

  Lemma horner_out_of_range : forall j (cs : list F) (f : F -> F) x, (length cs <= j)%nat ->
    horner (upd_at f j cs) x = horner cs x.
  Proof.
    induction j as [|j IH]; intros [|c t] f x Hj; cbn [length] in Hj; try lia; try reflexivity.
    cbn [upd_at horner fold_right]. fold (horner t x). fold (horner (upd_at f j t) x).
    rewrite IH by lia. reflexivity.
  Qed.
End Affine.

(* ------------------------------------------------------------------------------------------ *)
(* non-zero points of the evaluation domain (Goldilocks constants) *)
Section Points.
  Local Open Scope field_scope.

  Lemma coset_shift_nonzero : coset_shift <> 0.
  Proof. intros E. apply (f_equal fval) in E. vm_compute in E. discriminate E. Qed.

  Lemma pow2_generator_nonzero : toFp POWER_OF_TWO_GENERATOR <> 0.
  Proof. intros E. apply (f_equal fval) in E. vm_compute in E. discriminate E. Qed.

  Lemma primitive_root_nonzero n : primitive_root_of_unity n <> 0.
  Proof.
    unfold primitive_root_of_unity. rewrite (exp_power_of_2_correct (F := Fp)).
    apply (fpow_neq_0 (F := Fp)). exact pow2_generator_nonzero.
  Qed.

  (* subgroup[x_index] of fri_verifier_query_round *)
  Definition domain_point (log_n x_index : nat) : Fp :=
    coset_shift * exp_u64 (primitive_root_of_unity log_n) (N.of_nat (reverse_bits x_index log_n)).

  Lemma domain_point_nonzero log_n x : domain_point log_n x <> 0.
  Proof.
    unfold domain_point. apply (f_mul_neq_0 (F := Fp)); [exact coset_shift_nonzero|].
    rewrite (exp_u64_correct (F := Fp)). apply (fpow_neq_0 (F := Fp)). apply primitive_root_nonzero.
  Qed.

  Lemma exp_power_of_2_nonzero (x : Fp) k : x <> 0 -> exp_power_of_2 x k <> 0.
  Proof. intros Hx. rewrite (exp_power_of_2_correct (F := Fp)). apply (fpow_neq_0 (F := Fp)). exact Hx. Qed.

  Lemma fp2_of_base_nonzero (x : Fp) : x <> 0 -> fp2_of_base x <> 0.
  Proof. intros Hx E. apply Hx. apply (f_equal fst) in E. exact E. Qed.
End Points.

(* ------------------------------------------------------------------------------------------ *)
(* the FRI-level statements *)
Section Sensitivity.
  Local Open Scope field_scope.
  Add Field Fp2F : (@F_field_theory Fp2 _ Fp2Laws).

  Lemma peval2_horner cs x : peval2 cs x = horner cs x.
  Proof. reflexivity. Qed.
  Lemma reduce_horner alpha xs : Fri.reduce alpha xs = horner xs alpha.
  Proof. reflexivity. Qed.

  (* (a) one coefficient of the final polynomial *)
  Lemma peval2_add_at j (fin : list Fp2) (d x : Fp2) : (j < length fin)%nat ->
    peval2 (upd_at (fun c => c + d) j fin) x = peval2 fin x + d * fpow x j.
  Proof. intros Hj. rewrite !peval2_horner. apply horner_add_at. exact Hj. Qed.

  Lemma final_check_sensitive j (fin : list Fp2) (d x ev : Fp2) :
    (j < length fin)%nat -> d <> 0 -> x <> 0 ->
    peval2 fin x = ev -> peval2 (upd_at (fun c => c + d) j fin) x = ev -> False.
  Proof.
    intros Hj Hd Hx E1 E2. rewrite peval2_add_at in E2 by exact Hj. rewrite E1 in E2.
    assert (Ez : d * fpow x j = 0).
    { transitivity ((ev + d * fpow x j) - ev); [ring | rewrite E2; ring]. }
    apply f_mul_eq_0 in Ez. destruct Ez as [Ez|Ez]; [exact (Hd Ez)|].
    exact (fpow_neq_0 x j Hx Ez).
  Qed.

  (* (b) one claimed opening *)
  Lemma reduce_add_at k (vals : list Fp2) (d alpha : Fp2) : (k < length vals)%nat ->
    Fri.reduce alpha (upd_at (fun c => c + d) k vals) = Fri.reduce alpha vals + fpow alpha k * d.
  Proof. intros Hk. rewrite !reduce_horner, horner_add_at by exact Hk. ring. Qed.

  Definition edit_opening (openings : list (list Fp2)) (b k : nat) (d : Fp2) : list (list Fp2) :=
    upd_at (upd_at (fun c => c + d) k) b openings.

  Lemma precomputed_edit openings alpha b k d vals :
    nth_error openings b = Some vals -> (k < length vals)%nat ->
    precomputed_reduced_openings (edit_opening openings b k d) alpha
    = upd_at (fun ro => ro + fpow alpha k * d) b (precomputed_reduced_openings openings alpha).
  Proof.
    intros Hb Hk. unfold precomputed_reduced_openings, edit_opening.
    apply map_upd_at. intros h Hh. rewrite Hb in Hh. injection Hh as <-.
    apply reduce_add_at. exact Hk.
  Qed.

  Section Combine.
    Variables (inst : fri_instance) (p : fri_params) (initial : list (list Fp * list digest))
              (alpha sx : Fp2).
    Notation cb := (combine_batches inst p initial alpha sx).

    (* the accumulated sum enters the result linearly, with a factor that is a power of alpha *)
    Lemma combine_batches_shift : forall bs reduced sum t v,
      cb bs reduced sum = inl v ->
      exists n, cb bs reduced (sum + t) = inl (v + fpow alpha n * t).
    Proof.
      induction bs as [|b bt IH]; intros reduced sum t v Hv.
      - cbn [combine_batches] in *. unfold ok in *. injection Hv as <-. exists 0%nat.
        f_equal. cbn [fpow]. ring.
      - destruct reduced as [|ro rt].
        + cbn [combine_batches] in *. unfold ok in *. injection Hv as <-. exists 0%nat.
          f_equal. cbn [fpow]. ring.
        + cbn [combine_batches] in Hv |- *.
          set (evals := map _ (polynomials b)) in *.
          destruct (sx - point b =? 0); [unfold err in Hv; discriminate Hv|].
          destruct (IH rt _ (fpow alpha (length evals) * t) v Hv) as [n Hn].
          exists (n + length evals)%nat.
          replace (fpow alpha (length evals) * (sum + t) + (Fri.reduce alpha evals - ro) * finv (sx - point b))
            with (fpow alpha (length evals) * sum + (Fri.reduce alpha evals - ro) * finv (sx - point b)
                  + fpow alpha (length evals) * t) by ring.
          rewrite Hn. f_equal. rewrite fpow_add. ring.
    Qed.

    (* changing the reduced opening of batch b by e changes the result by - c * e, c <> 0 *)
    Lemma combine_batches_edit : forall bs reduced sum b e v,
      alpha <> 0 ->
      cb bs reduced sum = inl v -> (b < length bs)%nat -> (b < length reduced)%nat ->
      exists c, c <> 0 /\ cb bs (upd_at (fun ro => ro + e) b reduced) sum = inl (v - c * e).
    Proof.
      induction bs as [|b0 bt IH]; intros reduced sum b e v Ha Hv Hb Hr; [cbn [length] in Hb; lia|].
      destruct reduced as [|ro rt]; [cbn [length] in Hr; lia|].
      cbn [combine_batches] in Hv. set (evals := map _ (polynomials b0)) in *.
      destruct (sx - point b0 =? 0) eqn:Eden; [unfold err in Hv; discriminate Hv|].
      apply feqb_false in Eden.
      destruct b as [|b].
      - cbn [upd_at combine_batches]. fold evals.
        apply (proj2 (feqb_false _ _)) in Eden. rewrite Eden. apply feqb_false in Eden.
        destruct (combine_batches_shift bt rt _ (- (e * finv (sx - point b0))) v Hv) as [n Hn].
        exists (fpow alpha n * finv (sx - point b0)). split.
        + apply f_mul_neq_0; [apply fpow_neq_0; exact Ha | apply f_inv_neq_0; exact Eden].
        + replace (fpow alpha (length evals) * sum + (Fri.reduce alpha evals - (ro + e)) * finv (sx - point b0))
            with (fpow alpha (length evals) * sum + (Fri.reduce alpha evals - ro) * finv (sx - point b0)
                  + - (e * finv (sx - point b0))) by ring.
          rewrite Hn. f_equal. ring.
      - cbn [upd_at combine_batches]. fold evals.
        apply (proj2 (feqb_false _ _)) in Eden. rewrite Eden.
        cbn [length] in Hb, Hr. apply (IH rt _ b e v Ha Hv); lia.
    Qed.
  End Combine.

  Lemma combine_initial_edit inst p initial alpha (sx : Fp) reduced b e v :
    alpha <> 0 -> e <> 0 ->
    fri_combine_initial inst p initial alpha sx reduced = inl v ->
    (b < length (batches inst))%nat -> (b < length reduced)%nat ->
    exists v', v' <> v /\
      fri_combine_initial inst p initial alpha sx (upd_at (fun ro => ro + e) b reduced) = inl v'.
  Proof.
    intros Ha He Hv Hb Hr. unfold fri_combine_initial in *.
    destruct (combine_batches_edit inst p initial alpha (fp2_of_base sx) _ _ _ b e v Ha Hv Hb Hr)
      as (c & Hc & Hres).
    exists (v - c * e). split; [|exact Hres].
    intros E. assert (Ez : c * e = 0) by (transitivity (v - (v - c * e)); [ring | rewrite E; ring]).
    apply f_mul_eq_0 in Ez. tauto.
  Qed.

  (* ---- whole query rounds / whole verifications *)
  Section Rounds.
    Variable hash_or_noop : list Fp -> digest.
    Variable two_to_one : digest -> digest -> digest.
    Notation qround := (Fri.fri_verifier_query_round hash_or_noop two_to_one).
    Notation qsteps := (Fri.query_steps hash_or_noop two_to_one).
    Notation vfri := (Fri.verify_fri_proof hash_or_noop two_to_one).
    Notation steps_accept := (Proofs.Fri.steps_accept hash_or_noop two_to_one).

    Lemma steps_accept_functional caps steps arities betas layer x sx oe r r' :
      steps_accept caps steps arities betas layer x sx oe r ->
      steps_accept caps steps arities betas layer x sx oe r' -> r = r'.
    Proof.
      intros A A'.
      apply (proj2 (query_steps_iff hash_or_noop two_to_one arities steps 0%nat caps betas layer x sx oe r)) in A.
      apply (proj2 (query_steps_iff hash_or_noop two_to_one arities steps 0%nat caps betas layer x sx oe r')) in A'.
      congruence.
    Qed.

    (* the first thing the loop (or, without layers, the final check) does with old_eval is to
       compare it: two different old_evals cannot both be accepted *)
    Lemma old_eval_pinned caps steps arities betas x sx oe oe' s e s' e' fin :
      steps_accept caps steps arities betas 0%nat x sx oe (s, e) -> peval2 fin (fp2_of_base s) = e ->
      steps_accept caps steps arities betas 0%nat x sx oe' (s', e') -> peval2 fin (fp2_of_base s') = e' ->
      oe = oe'.
    Proof.
      intros A F A' F'. destruct arities as [|a at'].
      - destruct steps; cbn [Proofs.Fri.steps_accept] in A, A';
          injection A as -> ->; injection A' as -> ->; congruence.
      - destruct steps as [|st0 st]; cbn [Proofs.Fri.steps_accept] in A, A'; [contradiction|].
        destruct A as (_ & _ & _ & _ & _ & Hc & _). destruct A' as (_ & _ & _ & _ & _ & Hc' & _).
        congruence.
    Qed.

    Definition with_final (pr : fri_proof) (fin : list Fp2) : fri_proof :=
      {| fp_caps := fp_caps pr; fp_rounds := fp_rounds pr; fp_final := fin;
         fp_pow_witness := fp_pow_witness pr |}.

    Definition edit_final (pr : fri_proof) (j : nat) (d : Fp2) : fri_proof :=
      with_final pr (upd_at (fun c => c + d) j (fp_final pr)).

    Theorem final_coeff_round_sensitive inst ch reduced caps pr p round x q j d :
      (j < length (fp_final pr))%nat -> d <> 0 ->
      qround inst ch reduced caps pr p round x q = inl tt ->
      qround inst ch reduced caps (edit_final pr j d) p round x q = inl tt -> False.
    Proof.
      intros Hj Hd R R'.
      apply (proj1 (round_accept_iff _ _ _ _ _ _ _ _ _ _ _)) in R.
      apply (proj1 (round_accept_iff _ _ _ _ _ _ _ _ _ _ _)) in R'.
      destruct R as (_ & oe & sx & ev & Hc & Hs & Hf).
      destruct R' as (_ & oe' & sx' & ev' & Hc' & Hs' & Hf').
      cbn [edit_final with_final fp_caps fp_final] in Hs', Hf'.
      rewrite Hc in Hc'. injection Hc' as <-.
      pose proof (steps_accept_functional _ _ _ _ _ _ _ _ _ _ Hs Hs') as E. injection E as <- <-.
      apply (final_check_sensitive j (fp_final pr) d (fp2_of_base sx) ev Hj Hd); auto.
      apply fp2_of_base_nonzero.
      pose proof (steps_accept_final_x _ _ _ _ _ _ _ _ _ _ _ Hs) as Hx. cbn [fst] in Hx. rewrite Hx.
      apply exp_power_of_2_nonzero. apply (domain_point_nonzero (lde_bits p) x).
    Qed.

    Theorem opening_round_sensitive inst ch openings caps pr p round x q b k d vals :
      fri_alpha ch <> 0 -> d <> 0 ->
      nth_error openings b = Some vals -> (k < length vals)%nat -> (b < length (batches inst))%nat ->
      qround inst ch (precomputed_reduced_openings openings (fri_alpha ch)) caps pr p round x q = inl tt ->
      qround inst ch (precomputed_reduced_openings (edit_opening openings b k d) (fri_alpha ch))
             caps pr p round x q = inl tt -> False.
    Proof.
      intros Ha Hd Hb Hk Hbi R R'.
      rewrite (precomputed_edit openings (fri_alpha ch) b k d vals Hb Hk) in R'.
      apply (proj1 (round_accept_iff _ _ _ _ _ _ _ _ _ _ _)) in R.
      apply (proj1 (round_accept_iff _ _ _ _ _ _ _ _ _ _ _)) in R'.
      destruct R as (_ & oe & sx & ev & Hc & Hs & Hf).
      destruct R' as (_ & oe' & sx' & ev' & Hc' & Hs' & Hf').
      assert (He : fpow (fri_alpha ch) k * d <> 0) by (apply f_mul_neq_0; [apply fpow_neq_0|]; assumption).
      assert (Hbr : (b < length (precomputed_reduced_openings openings (fri_alpha ch)))%nat).
      { unfold precomputed_reduced_openings. rewrite map_length. apply nth_error_Some. congruence. }
      destruct (combine_initial_edit _ _ _ _ _ _ b _ oe Ha He Hc Hbi Hbr) as (v' & Hne & Hv').
      rewrite Hv' in Hc'. injection Hc' as <-.
      apply Hne. symmetry. exact (old_eval_pinned _ _ _ _ _ _ _ _ _ _ _ _ _ Hs Hf Hs' Hf').
    Qed.

    (* whole proofs: at least one query round is needed to see anything *)
    Theorem final_coeff_sensitive inst openings ch caps pr p j d :
      (j < length (fp_final pr))%nat -> d <> 0 ->
      fri_query_indices ch <> [] -> fp_rounds pr <> [] ->
      vfri inst openings ch caps pr p = inl tt ->
      vfri inst openings ch caps (edit_final pr j d) p = inl tt -> False.
    Proof.
      intros Hj Hd Hi Hr V V'.
      apply (proj1 (accept_iff_all_checks _ _ _ _ _ _ _ _)) in V.
      apply (proj1 (accept_iff_all_checks _ _ _ _ _ _ _ _)) in V'.
      destruct V as (_ & _ & _ & V). destruct V' as (_ & _ & _ & V').
      destruct (fri_query_indices ch) as [|x xs]; [congruence|].
      destruct (fp_rounds pr) as [|q qs] eqn:Eq; [congruence|].
      specialize (V 0%nat x q eq_refl eq_refl).
      cbn [edit_final with_final fp_rounds] in V'. rewrite Eq in V'.
      specialize (V' 0%nat x q eq_refl eq_refl).
      exact (final_coeff_round_sensitive _ _ _ _ _ _ _ _ _ j d Hj Hd V V').
    Qed.

    Theorem opening_sensitive inst openings ch caps pr p b k d vals :
      fri_alpha ch <> 0 -> d <> 0 ->
      nth_error openings b = Some vals -> (k < length vals)%nat -> (b < length (batches inst))%nat ->
      fri_query_indices ch <> [] -> fp_rounds pr <> [] ->
      vfri inst openings ch caps pr p = inl tt ->
      vfri inst (edit_opening openings b k d) ch caps pr p = inl tt -> False.
    Proof.
      intros Ha Hd Hb Hk Hbi Hi Hr V V'.
      apply (proj1 (accept_iff_all_checks _ _ _ _ _ _ _ _)) in V.
      apply (proj1 (accept_iff_all_checks _ _ _ _ _ _ _ _)) in V'.
      destruct V as (_ & _ & _ & V). destruct V' as (_ & _ & _ & V').
      destruct (fri_query_indices ch) as [|x xs]; [congruence|].
      destruct (fp_rounds pr) as [|q qs]; [congruence|].
      specialize (V 0%nat x q eq_refl eq_refl). specialize (V' 0%nat x q eq_refl eq_refl).
      exact (opening_round_sensitive _ _ _ _ _ _ _ _ _ b k d vals Ha Hd Hb Hk Hbi V V').
    Qed.
  End Rounds.
End Sensitivity.
