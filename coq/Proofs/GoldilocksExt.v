(* C14: the delayed-reduction extension multiplications ext2_mul / ext4_mul / ext5_mul
   (regenerated from field/src/goldilocks_extensions.rs) never overflow an intermediate, meet
   reduce160's precondition, and equal the schoolbook product modulo X^D - W. *)
From Coq Require Import ZArith Bool List Lia.
From Verif Require Import Base.Mach Gen.FieldConsts Gen.GoldilocksImpl Proofs.Goldilocks.
Open Scope Z_scope.

(* a 160-bit accumulator (lo : u128, hi : u32) holding v *)
Definition U160 (lo hi v : Z) : Prop := 0 <= lo < 2 ^ 128 /\ 0 <= hi < 2 ^ 32 /\ lo + 2 ^ 128 * hi = v.

Lemma U160_init p : 0 <= p < 2 ^ 128 -> U160 p 0 p.
Proof. unfold U160. lia. Qed.

Lemma acc_add lo hi v p :
  U160 lo hi v -> 0 <= p < 2 ^ 128 -> v + p < 2 ^ 160 ->
  exists w c, ovf_addU 128 lo p = (w, c) /\ U160 w (hi + b2z c) (v + p).
Proof.
  intros (Hlo & Hhi & E) Hp Hb. unfold ovf_addU.
  destruct (Z_lt_le_dec (lo + p) (2 ^ 128)) as [H|H].
  - rewrite inU_true, wrapU_small by lia. cbn [negb]. do 2 eexists. split; [reflexivity|].
    unfold U160. rewrite b2z_false. lia.
  - rewrite inU_false, wrapU_over by lia. cbn [negb]. do 2 eexists. split; [reflexivity|].
    unfold U160. rewrite b2z_true. lia.
Qed.

(* NB: under the documented contract alone (7 * v < 2^160) the intermediate sum
   `7 * y + (x >> 125)` of the source can reach 2^32 when a borrow is pending (e.g. x = 2^127,
   y = 613566756): a debug-build overflow the comment "subtracting the borrow can't underflow"
   does not cover.  It is unreachable from ext2/ext4_mul (hi <= 2 there); the lemma therefore
   asks for one unit of slack, which every call site below provides. *)
Lemma times7_spec x y v : U160 x y v -> 7 * v < 2 ^ 160 - 2 ^ 128 ->
  exists lo hi, u160_times_7 x y = Some (lo, hi) /\ U160 lo hi (7 * v).
Proof.
  intros (Hx & Hy & E) Hb. unfold u160_times_7, ovf_subU, shlU, shrZ.
  set (q := x / 2 ^ 125).
  assert (Hq : 0 <= q < 8) by (apply div_range; lia).
  assert (Hx2 : x = 2 ^ 125 * q + x mod 2 ^ 125) by (apply Z.div_mod; lia).
  assert (Hr : 0 <= x mod 2 ^ 125 < 2 ^ 125) by (apply Z.mod_pos_bound; lia).
  set (r := x mod 2 ^ 125) in *.
  assert (Es : wrapU 128 (x * 2 ^ 3) = 8 * r).
  { unfold wrapU. symmetry. apply Z.mod_unique with q; lia. }
  rewrite Es. rewrite (wrapU_small 32 q) by lia.
  destruct (Z_lt_le_dec (8 * r - x) 0) as [Hn|Hn].
  - rewrite inU_false, wrapU_under by lia. cbn [negb]. rewrite b2z_true.
    repeat step. unfold ret. do 2 eexists. split; [reflexivity|]. unfold U160. lia.
  - rewrite inU_true, wrapU_small by lia. cbn [negb]. rewrite b2z_false.
    repeat step. unfold ret. do 2 eexists. split; [reflexivity|]. unfold U160. lia.
Qed.

Lemma times3_spec x y v : U160 x y v -> 3 * v < 2 ^ 160 ->
  exists lo hi, u160_times_3 x y = Some (lo, hi) /\ U160 lo hi (3 * v).
Proof.
  intros (Hx & Hy & E) Hb. unfold u160_times_3, ovf_addU, shlU, shrZ.
  set (q := x / 2 ^ 127).
  assert (Hq : 0 <= q < 2) by (apply div_range; lia).
  assert (Hx2 : x = 2 ^ 127 * q + x mod 2 ^ 127) by (apply Z.div_mod; lia).
  assert (Hr : 0 <= x mod 2 ^ 127 < 2 ^ 127) by (apply Z.mod_pos_bound; lia).
  set (r := x mod 2 ^ 127) in *.
  assert (Es : wrapU 128 (x * 2 ^ 1) = 2 * r).
  { unfold wrapU. symmetry. apply Z.mod_unique with q; lia. }
  rewrite Es. rewrite (wrapU_small 32 q) by lia.
  destruct (Z_lt_le_dec (x + 2 * r) (2 ^ 128)) as [Hn|Hn].
  - rewrite inU_true, wrapU_small by lia. cbn [negb]. rewrite b2z_false.
    repeat step. unfold ret. do 2 eexists. split; [reflexivity|]. unfold U160. lia.
  - rewrite inU_false, wrapU_over by lia. cbn [negb]. rewrite b2z_true.
    repeat step. unfold ret. do 2 eexists. split; [reflexivity|]. unfold U160. lia.
Qed.

Lemma reduce160_U160 lo hi v : U160 lo hi v -> v < 2 ^ 160 - 2 ^ 128 + 2 ^ 96 ->
  Rz (gl_reduce160 lo hi) v.
Proof. intros (Hlo & Hhi & E) Hb. rewrite <- E. apply reduce160_correct; lia. Qed.

Definition M64 : Z := (2 ^ 64 - 1) * (2 ^ 64 - 1).

(* automation over the generated straight-line code *)
Ltac prod_bound x y :=
  match goal with
  | [ _ : 0 <= x * y <= M64 |- _ ] => idtac
  | [ Hx : 0 <= x < 2 ^ 64, Hy : 0 <= y < 2 ^ 64 |- _ ] =>
    let Hn := fresh "Hp" in pose proof (mul_range x y Hx Hy) as Hn; fold M64 in Hn
  end.

Ltac ext_step :=
  match goal with
  | |- context [bind (chkU 128 (?x * ?y)) _] =>
    prod_bound x y; rewrite (bind_chkU 128 (x * y)) by (unfold M64 in *; lia)
  | |- context [bind (u160_times_7 ?x ?y) _] =>
    let lo := fresh "lo" in let hi := fresh "hi" in let E := fresh "E" in let U := fresh "U" in
    match goal with
    | [ HU : U160 x y ?v |- _ ] =>
      destruct (times7_spec x y v HU) as (lo & hi & E & U); [unfold M64 in *; lia|]; rewrite E, bind_Some; clear E
    end
  | |- context [bind (u160_times_3 ?x ?y) _] =>
    let lo := fresh "lo" in let hi := fresh "hi" in let E := fresh "E" in let U := fresh "U" in
    match goal with
    | [ HU : U160 x y ?v |- _ ] =>
      destruct (times3_spec x y v HU) as (lo & hi & E & U); [unfold M64 in *; lia|]; rewrite E, bind_Some; clear E
    end
  | |- context [ovf_addU 128 ?lo ?p] =>
    let w := fresh "w" in let c := fresh "c" in let E := fresh "E" in let U := fresh "U" in
    match goal with
    | [ HU : U160 lo ?hi ?v |- _ ] =>
      destruct (acc_add lo hi v p HU) as (w & c & E & U); [unfold M64 in *; lia | unfold M64 in *; lia |];
      rewrite E; clear E; cbv beta iota zeta; rewrite ?Z.add_0_l in U
    end
  | |- context [bind (chkU 32 (?h + b2z ?c)) _] =>
    match goal with
    | [ HU : U160 _ (h + b2z c) _ |- _ ] =>
      rewrite (bind_chkU 32 (h + b2z c)) by (destruct HU as (_ & ? & _); lia)
    end
  end.

Ltac ext_finish :=
  match goal with
  | |- Rz (bind (gl_reduce160 ?lo ?hi) _) _ =>
    match goal with
    | [ HU : U160 lo hi ?v |- _ ] =>
      let r := fresh "r" in let E := fresh "E" in let Hr := fresh "Hr" in let C := fresh "C" in
      destruct (reduce160_U160 lo hi v HU) as (r & E & Hr & C); [unfold M64 in *; lia|];
      rewrite E, bind_Some; exists r; split; [reflexivity|]; split; [exact Hr|];
      rewrite C; f_equal; ring
    end
  end.

Ltac ext_init :=
  match goal with
  | |- context [ovf_addU 128 (?x * ?y) _] =>
    match goal with
    | [ _ : U160 (x * y) _ _ |- _ ] => fail 1
    | _ => prod_bound x y; assert (U160 (x * y) 0 (x * y)) by (apply U160_init; unfold M64 in *; lia)
    end
  | |- context [u160_times_7 (?x * ?y) 0] =>
    match goal with
    | [ _ : U160 (x * y) _ _ |- _ ] => fail 1
    | _ => prod_bound x y; assert (U160 (x * y) 0 (x * y)) by (apply U160_init; unfold M64 in *; lia)
    end
  | |- context [u160_times_3 (?x * ?y) 0] =>
    match goal with
    | [ _ : U160 (x * y) _ _ |- _ ] => fail 1
    | _ => prod_bound x y; assert (U160 (x * y) 0 (x * y)) by (apply U160_init; unfold M64 in *; lia)
    end
  end.

Ltac ext_solve := repeat (first [ext_step | ext_init]); try (rewrite ?Z.add_0_l in *); ext_finish.

Section Ext2.
  Variables a0 a1 b0 b1 : Z.
  Hypothesis Ha0 : 0 <= a0 < 2 ^ 64.
  Hypothesis Ha1 : 0 <= a1 < 2 ^ 64.
  Hypothesis Hb0 : 0 <= b0 < 2 ^ 64.
  Hypothesis Hb1 : 0 <= b1 < 2 ^ 64.

  Lemma ext2_add_prods0_correct :
    Rz (ext2_add_prods0 (a0, a1) (b0, b1)) (a0 * b0 + EXT2_W * (a1 * b1)).
  Proof. unfold ext2_add_prods0, EXT2_W. ext_solve. Qed.

  Lemma ext2_add_prods1_correct :
    Rz (ext2_add_prods1 (a0, a1) (b0, b1)) (a0 * b1 + a1 * b0).
  Proof. unfold ext2_add_prods1, EXT2_W. ext_solve. Qed.

  Lemma ext2_mul_correct :
    exists c0 c1, ext2_mul (a0, a1) (b0, b1) = Some (c0, c1) /\
      0 <= c0 < 2 ^ 64 /\ c0 mod P = (a0 * b0 + EXT2_W * (a1 * b1)) mod P /\ 0 <= c1 < 2 ^ 64 /\ c1 mod P = (a0 * b1 + a1 * b0) mod P.
  Proof.
    unfold ext2_mul.
    destruct ext2_add_prods0_correct as (c0 & E0 & R0 & C0); rewrite E0, bind_Some.
    destruct ext2_add_prods1_correct as (c1 & E1 & R1 & C1); rewrite E1, bind_Some.
    exists c0, c1. split; [reflexivity|]. tauto.
  Qed.
End Ext2.

Section Ext4.
  Variables a0 a1 a2 a3 b0 b1 b2 b3 : Z.
  Hypothesis Ha0 : 0 <= a0 < 2 ^ 64.
  Hypothesis Ha1 : 0 <= a1 < 2 ^ 64.
  Hypothesis Ha2 : 0 <= a2 < 2 ^ 64.
  Hypothesis Ha3 : 0 <= a3 < 2 ^ 64.
  Hypothesis Hb0 : 0 <= b0 < 2 ^ 64.
  Hypothesis Hb1 : 0 <= b1 < 2 ^ 64.
  Hypothesis Hb2 : 0 <= b2 < 2 ^ 64.
  Hypothesis Hb3 : 0 <= b3 < 2 ^ 64.

  Lemma ext4_add_prods0_correct :
    Rz (ext4_add_prods0 (a0, a1, a2, a3) (b0, b1, b2, b3)) (a0 * b0 + EXT4_W * (a1 * b3 + a2 * b2 + a3 * b1)).
  Proof. unfold ext4_add_prods0, EXT4_W. ext_solve. Qed.

  Lemma ext4_add_prods1_correct :
    Rz (ext4_add_prods1 (a0, a1, a2, a3) (b0, b1, b2, b3)) (a0 * b1 + a1 * b0 + EXT4_W * (a2 * b3 + a3 * b2)).
  Proof. unfold ext4_add_prods1, EXT4_W. ext_solve. Qed.

  Lemma ext4_add_prods2_correct :
    Rz (ext4_add_prods2 (a0, a1, a2, a3) (b0, b1, b2, b3)) (a0 * b2 + a1 * b1 + a2 * b0 + EXT4_W * (a3 * b3)).
  Proof. unfold ext4_add_prods2, EXT4_W. ext_solve. Qed.

  Lemma ext4_add_prods3_correct :
    Rz (ext4_add_prods3 (a0, a1, a2, a3) (b0, b1, b2, b3)) (a0 * b3 + a1 * b2 + a2 * b1 + a3 * b0).
  Proof. unfold ext4_add_prods3, EXT4_W. ext_solve. Qed.

  Lemma ext4_mul_correct :
    exists c0 c1 c2 c3, ext4_mul (a0, a1, a2, a3) (b0, b1, b2, b3) = Some (c0, c1, c2, c3) /\
      0 <= c0 < 2 ^ 64 /\ c0 mod P = (a0 * b0 + EXT4_W * (a1 * b3 + a2 * b2 + a3 * b1)) mod P /\ 0 <= c1 < 2 ^ 64 /\ c1 mod P = (a0 * b1 + a1 * b0 + EXT4_W * (a2 * b3 + a3 * b2)) mod P /\ 0 <= c2 < 2 ^ 64 /\ c2 mod P = (a0 * b2 + a1 * b1 + a2 * b0 + EXT4_W * (a3 * b3)) mod P /\ 0 <= c3 < 2 ^ 64 /\ c3 mod P = (a0 * b3 + a1 * b2 + a2 * b1 + a3 * b0) mod P.
  Proof.
    unfold ext4_mul.
    destruct ext4_add_prods0_correct as (c0 & E0 & R0 & C0); rewrite E0, bind_Some.
    destruct ext4_add_prods1_correct as (c1 & E1 & R1 & C1); rewrite E1, bind_Some.
    destruct ext4_add_prods2_correct as (c2 & E2 & R2 & C2); rewrite E2, bind_Some.
    destruct ext4_add_prods3_correct as (c3 & E3 & R3 & C3); rewrite E3, bind_Some.
    exists c0, c1, c2, c3. split; [reflexivity|]. tauto.
  Qed.
End Ext4.

Section Ext5.
  Variables a0 a1 a2 a3 a4 b0 b1 b2 b3 b4 : Z.
  Hypothesis Ha0 : 0 <= a0 < 2 ^ 64.
  Hypothesis Ha1 : 0 <= a1 < 2 ^ 64.
  Hypothesis Ha2 : 0 <= a2 < 2 ^ 64.
  Hypothesis Ha3 : 0 <= a3 < 2 ^ 64.
  Hypothesis Ha4 : 0 <= a4 < 2 ^ 64.
  Hypothesis Hb0 : 0 <= b0 < 2 ^ 64.
  Hypothesis Hb1 : 0 <= b1 < 2 ^ 64.
  Hypothesis Hb2 : 0 <= b2 < 2 ^ 64.
  Hypothesis Hb3 : 0 <= b3 < 2 ^ 64.
  Hypothesis Hb4 : 0 <= b4 < 2 ^ 64.

  Lemma ext5_add_prods0_correct :
    Rz (ext5_add_prods0 (a0, a1, a2, a3, a4) (b0, b1, b2, b3, b4)) (a0 * b0 + EXT5_W * (a1 * b4 + a2 * b3 + a3 * b2 + a4 * b1)).
  Proof. unfold ext5_add_prods0, EXT5_W. ext_solve. Qed.

  Lemma ext5_add_prods1_correct :
    Rz (ext5_add_prods1 (a0, a1, a2, a3, a4) (b0, b1, b2, b3, b4)) (a0 * b1 + a1 * b0 + EXT5_W * (a2 * b4 + a3 * b3 + a4 * b2)).
  Proof. unfold ext5_add_prods1, EXT5_W. ext_solve. Qed.

  Lemma ext5_add_prods2_correct :
    Rz (ext5_add_prods2 (a0, a1, a2, a3, a4) (b0, b1, b2, b3, b4)) (a0 * b2 + a1 * b1 + a2 * b0 + EXT5_W * (a3 * b4 + a4 * b3)).
  Proof. unfold ext5_add_prods2, EXT5_W. ext_solve. Qed.

  Lemma ext5_add_prods3_correct :
    Rz (ext5_add_prods3 (a0, a1, a2, a3, a4) (b0, b1, b2, b3, b4)) (a0 * b3 + a1 * b2 + a2 * b1 + a3 * b0 + EXT5_W * (a4 * b4)).
  Proof. unfold ext5_add_prods3, EXT5_W. ext_solve. Qed.

  Lemma ext5_add_prods4_correct :
    Rz (ext5_add_prods4 (a0, a1, a2, a3, a4) (b0, b1, b2, b3, b4)) (a0 * b4 + a1 * b3 + a2 * b2 + a3 * b1 + a4 * b0).
  Proof. unfold ext5_add_prods4, EXT5_W. ext_solve. Qed.

  Lemma ext5_mul_correct :
    exists c0 c1 c2 c3 c4, ext5_mul (a0, a1, a2, a3, a4) (b0, b1, b2, b3, b4) = Some (c0, c1, c2, c3, c4) /\
      0 <= c0 < 2 ^ 64 /\ c0 mod P = (a0 * b0 + EXT5_W * (a1 * b4 + a2 * b3 + a3 * b2 + a4 * b1)) mod P /\ 0 <= c1 < 2 ^ 64 /\ c1 mod P = (a0 * b1 + a1 * b0 + EXT5_W * (a2 * b4 + a3 * b3 + a4 * b2)) mod P /\ 0 <= c2 < 2 ^ 64 /\ c2 mod P = (a0 * b2 + a1 * b1 + a2 * b0 + EXT5_W * (a3 * b4 + a4 * b3)) mod P /\ 0 <= c3 < 2 ^ 64 /\ c3 mod P = (a0 * b3 + a1 * b2 + a2 * b1 + a3 * b0 + EXT5_W * (a4 * b4)) mod P /\ 0 <= c4 < 2 ^ 64 /\ c4 mod P = (a0 * b4 + a1 * b3 + a2 * b2 + a3 * b1 + a4 * b0) mod P.
  Proof.
    unfold ext5_mul.
    destruct ext5_add_prods0_correct as (c0 & E0 & R0 & C0); rewrite E0, bind_Some.
    destruct ext5_add_prods1_correct as (c1 & E1 & R1 & C1); rewrite E1, bind_Some.
    destruct ext5_add_prods2_correct as (c2 & E2 & R2 & C2); rewrite E2, bind_Some.
    destruct ext5_add_prods3_correct as (c3 & E3 & R3 & C3); rewrite E3, bind_Some.
    destruct ext5_add_prods4_correct as (c4 & E4 & R4 & C4); rewrite E4, bind_Some.
    exists c0, c1, c2, c3, c4. split; [reflexivity|]. tauto.
  Qed.
End Ext5.

