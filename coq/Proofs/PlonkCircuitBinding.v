(* C03: the preprocessed commitment (constants/sigmas cap) comes from the verifier data, not from
   the proof.  An accepted proof opens, in every query round, a row of oracle 0 that hashes up to
   the entry of that cap selected by the query index.  Hence
   - the same proof cannot be accepted under two verifier data whose caps differ at an entry that
     both runs query, and
   - if the verifier data commits to the rows [leaves] of ANOTHER circuit and the proof opens a
     different row at a queried index, acceptance exhibits a hash collision (C12 binding). *)
From Coq Require Import ZArith List Bool Lia Arith PeanoNat.
From Verif Require Import Model.Merkle Proofs.Merkle.
From Verif Require Proofs.Fri.
From Verif Require Import Base.Field Model.Fp Model.Fp2 Model.FieldGeneric Model.PoseidonSpec
  Model.Fri Model.Gates Model.Plonk Proofs.FpFieldPrime Proofs.FriShape Proofs.PlonkVerifier.
Import ListNotations.
Local Open Scope nat_scope.

Local Opaque poseidon p_hash_or_noop p_two_to_one p_hash_no_pad duplexing get_challenges.

(* The bridge between the FRI model's Merkle check and the C12 model ([verify_merkle_bridge]) and
   the exactness of digest equality ([digest_eqb_spec]) are those of Proofs/Fri.v (C05). *)
Section Bridge.
  Variable Hh : list Fp -> Fri.digest.
  Variable T : Fri.digest -> Fri.digest -> Fri.digest.

  (* the cap entry an accepted opening is compared with *)
  Lemma fri_merkle_accept_entry leaf idx cap sibs :
    Fri.verify_merkle_proof_to_cap Hh T leaf idx cap sibs = Some true ->
    nth_error cap (idx / 2 ^ length sibs) = Some (fst (Fri.merkle_walk T (Hh leaf) idx sibs)).
  Proof.
    unfold Fri.verify_merkle_proof_to_cap.
    pose proof (merkle_walk_index T (Hh leaf) idx sibs) as Hi.
    destruct (Fri.merkle_walk T (Hh leaf) idx sibs) as [d ci]. cbn [fst snd] in *. subst ci.
    destruct (nth_error cap (idx / 2 ^ length sibs)) as [c|]; [|discriminate].
    destruct (Fri.digest_eqb d c) eqn:E; [|discriminate]. apply Proofs.Fri.digest_eqb_spec in E. subst. reflexivity.
  Qed.
End Bridge.

(* ------------------------------------------------------------------ what acceptance says about oracle 0 *)
Lemma accept_oracle0_opening cd vo pr pih ch r x q lp :
  verify_with_challenges cd vo pr pih ch = Accept ->
  nth_error (fri_query_indices (pc_fri ch)) r = Some x ->
  nth_error (fp_rounds (opening_proof pr)) r = Some q ->
  nth_error (qr_initial q) 0 = Some lp ->
  Fri.verify_merkle_proof_to_cap p_hash_or_noop p_two_to_one (fst lp) x (constants_sigmas_cap vo) (snd lp)
  = Some true.
Proof.
  intros Ha Hx Hq Hlp. apply accept_iff in Ha. destruct Ha as [van [_ [_ Hfri]]].
  unfold fri_verdict in Hfri. apply verify_fri_proof_accept_shape in Hfri.
  destruct Hfri as [_ [_ [_ Hrounds]]].
  pose proof (verify_rounds_accept _ _ _ _ _ _ _ _ _ _ _ Hrounds r x q Hx Hq) as Hround.
  apply query_round_accept_initial in Hround.
  apply (verify_initial_accept _ _ _ _ _ _ _ Hround 0 lp (constants_sigmas_cap vo) Hlp).
  reflexivity.
Qed.

(* ------------------------------------------------------------------ 8a. another cap *)
(* Same proof, two verifier data, challenges arbitrary (in [verify] they differ because the circuit
   digest is absorbed): if some query round uses the same index in both runs, the two caps agree
   at the entry that index selects.  Contrapositive: caps that differ at a queried entry cannot
   both accept. *)
Theorem other_cap_rejected cd vo1 vo2 pr pih1 pih2 ch1 ch2 r x q lp :
  verify_with_challenges cd vo1 pr pih1 ch1 = Accept ->
  verify_with_challenges cd vo2 pr pih2 ch2 = Accept ->
  nth_error (fri_query_indices (pc_fri ch1)) r = Some x ->
  nth_error (fri_query_indices (pc_fri ch2)) r = Some x ->
  nth_error (fp_rounds (opening_proof pr)) r = Some q ->
  nth_error (qr_initial q) 0 = Some lp ->
  nth_error (constants_sigmas_cap vo1) (x / 2 ^ length (snd lp))
  = nth_error (constants_sigmas_cap vo2) (x / 2 ^ length (snd lp)).
Proof.
  intros A1 A2 X1 X2 Hq Hlp.
  pose proof (accept_oracle0_opening _ _ _ _ _ _ _ _ _ A1 X1 Hq Hlp) as M1.
  pose proof (accept_oracle0_opening _ _ _ _ _ _ _ _ _ A2 X2 Hq Hlp) as M2.
  apply fri_merkle_accept_entry in M1. apply fri_merkle_accept_entry in M2. congruence.
Qed.

(* ------------------------------------------------------------------ 8b. another circuit's rows *)
(* [leaves]: the 2^k rows (k = lde_bits) committed by the verifier data [vo]; if the accepted
   proof opens at a queried index a row different from the committed one, a collision of the leaf
   hash or of the compression function is exhibited as a value. *)
Theorem other_circuit_data_rejected_or_collision cd vo pr pih ch leaves r x q lp :
  let p := cd_fri_params cd in
  verify_with_challenges cd vo pr pih ch = Accept ->
  length leaves = 2 ^ lde_bits p ->
  Merkle.merkle_cap Fp Fri.digest p_hash_or_noop p_two_to_one leaves (cap_height (config p))
  = Some (constants_sigmas_cap vo) ->
  nth_error (fri_query_indices (pc_fri ch)) r = Some x -> x < 2 ^ lde_bits p ->
  nth_error (fp_rounds (opening_proof pr)) r = Some q ->
  nth_error (qr_initial q) 0 = Some lp ->
  fst lp <> nth x leaves [] ->
  leaf_collision p_hash_or_noop + node_collision p_two_to_one.
Proof.
  cbv zeta. intros Ha Hl Hcap Hx Hlt Hq Hlp Hne.
  pose proof (accept_oracle0_opening _ _ _ _ _ _ _ _ _ Ha Hx Hq Hlp) as M.
  apply Proofs.Fri.verify_merkle_bridge in M.
  (* the path length is pinned by the FRI shape check *)
  assert (Hpath : length (snd lp) + cap_height (config (cd_fri_params cd)) = lde_bits (cd_fri_params cd)).
  { apply accept_iff in Ha. destruct Ha as [van [_ [_ Hfri]]].
    unfold fri_verdict in Hfri. apply verify_fri_proof_accept_shape in Hfri. destruct Hfri as [Hfs _].
    destruct (validate_fri_proof_shape_inv _ _ _ Hfs) as [_ [_ [Hr _]]].
    pose proof (Forall_nth_error _ _ Hr _ _ Hq) as Hrq. cbv beta in Hrq.
    pose proof (round_shape_paths _ _ _ Hrq) as Hp.
    exact (Forall_nth_error _ _ Hp _ _ Hlp). }
  refine (other_leaf_collision Fp Fri.digest p_hash_or_noop p_two_to_one Fri.digest_eqb Proofs.Fri.digest_eqb_spec
            leaves (lde_bits (cd_fri_params cd)) (cap_height (config (cd_fri_params cd))) x
            (constants_sigmas_cap vo) (fst lp) (snd lp) Hl _ Hlt Hcap M _ Hne); lia.
Qed.

(* the same statements for the top-level verifier *)
Corollary verify_other_circuit_data_rejected_or_collision cd vo pr leaves r x q lp :
  let p := cd_fri_params cd in
  let ch := get_challenges cd vo pr (p_hash_no_pad (public_inputs pr)) in
  verify cd vo pr = Accept ->
  length leaves = 2 ^ lde_bits p ->
  Merkle.merkle_cap Fp Fri.digest p_hash_or_noop p_two_to_one leaves (cap_height (config p))
  = Some (constants_sigmas_cap vo) ->
  nth_error (fri_query_indices (pc_fri ch)) r = Some x -> x < 2 ^ lde_bits p ->
  nth_error (fp_rounds (opening_proof pr)) r = Some q ->
  nth_error (qr_initial q) 0 = Some lp ->
  fst lp <> nth x leaves [] ->
  leaf_collision p_hash_or_noop + node_collision p_two_to_one.
Proof.
  cbv zeta. intros Ha. apply verify_accept_with_challenges in Ha.
  exact (other_circuit_data_rejected_or_collision cd vo pr _ _ leaves r x q lp Ha).
Qed.
