(* C15 proofs, part 3: polynomial algebra of Model/PolyOps.v.
   eval = Horner = peval; divide_by_linear = synthetic division (Base/Poly.v div_linear);
   the FFT-based product is the zero-padded schoolbook product; trim / trim_to_len;
   long division satisfies a = q b + r with deg r < deg b; the Newton-inversion div_rem of
   the code does NOT (refuted on a concrete input, as in the implementation). *)
From Coq Require Import NArith ZArith List Lia Bool Arith Ring Field.
From Verif Require Import Base.Field Base.Poly Model.FieldGeneric Model.BitRev Model.FFT Model.PolyOps
  Proofs.BitRev Proofs.FFT.
Import ListNotations.
Local Open Scope field_scope.

Section PolyProofs.
  Context {F : Type} {FO : FieldOps F} {FL : @FieldLaws F FO} {TA : TwoAdic F}.
  Add Field Ffp : (@F_field_theory F FO FL).

  Lemma nth_skipn' {X} (d : X) : forall n (l : list X) i, nth i (skipn n l) d = nth (n + i) l d.
  Proof.
    induction n as [|n IH]; intros l i; [reflexivity|].
    destruct l as [|y l]; [destruct i; reflexivity|]. cbn [skipn plus nth]. apply IH.
  Qed.

  (* ---- eval *)
  Theorem eval_horner : forall (cs : list F) x, eval cs x = peval cs x.
  Proof.
    intros cs x. unfold eval. induction cs as [|c cs IH]; [reflexivity|].
    cbn [rev peval]. rewrite fold_left_app. cbn [fold_left]. rewrite IH. ring.
  Qed.

  Theorem eval_with_powers_spec : forall (c0 : F) (rest : list F) x,
    eval_with_powers (c0 :: rest) (powers_from x x (length rest)) = Some (peval (c0 :: rest) x).
  Proof.
    intros c0 rest x. unfold eval_with_powers. f_equal. cbn [peval].
    assert (G : forall (l : list F) (acc p : F),
               fold_left (fun acc xc => acc + snd xc * fst xc) (combine l (powers_from p x (length l))) acc
               = acc + p * peval l x).
    { induction l as [|a l IH]; intros acc p; cbn [length powers_from combine fold_left peval]; [ring|].
      rewrite IH. cbn [fst snd]. ring. }
    rewrite G. reflexivity.
  Qed.

  (* ---- degree_plus_one, trim *)
  Lemma is_nonzero_false (c : F) : is_nonzero_f c = false -> c = 0.
  Proof. unfold is_nonzero_f. intros H. apply negb_false_iff in H. apply f_eqb_spec. exact H. Qed.
  Lemma is_nonzero_true (c : F) : is_nonzero_f c = true -> c <> 0.
  Proof. unfold is_nonzero_f. intros H. apply negb_true_iff in H. apply feqb_false. exact H. Qed.

  Lemma degree_plus_one_le : forall p : list F, (degree_plus_one p <= length p)%nat.
  Proof.
    induction p as [|c p IH]; cbn [degree_plus_one length]; [lia|].
    destruct (degree_plus_one p); [destruct (is_nonzero_f c)|]; lia.
  Qed.

  Lemma degree_plus_one_zero_above : forall (p : list F) i, (degree_plus_one p <= i)%nat -> nth i p 0 = 0.
  Proof.
    induction p as [|c p IH]; intros i Hi; [destruct i; reflexivity|].
    cbn [degree_plus_one] in Hi. destruct (degree_plus_one p) as [|d] eqn:E.
    - destruct i as [|i].
      + destruct (is_nonzero_f c) eqn:Ec; [lia|]. cbn. apply is_nonzero_false. exact Ec.
      + cbn [nth]. apply IH. lia.
    - destruct i as [|i]; [lia|]. cbn [nth]. apply IH. lia.
  Qed.

  Lemma degree_plus_one_lead : forall (p : list F) d, degree_plus_one p = S d -> nth d p 0 <> 0.
  Proof.
    induction p as [|c p IH]; intros d Hd; [discriminate|].
    cbn [degree_plus_one] in Hd. destruct (degree_plus_one p) as [|d'] eqn:E.
    - destruct (is_nonzero_f c) eqn:Ec; [|discriminate]. inversion Hd; subst. cbn. apply is_nonzero_true. exact Ec.
    - inversion Hd; subst. cbn [nth]. apply IH. reflexivity.
  Qed.

  Lemma peval_firstn_zero_above : forall (p : list F) n x,
    (forall i, (n <= i)%nat -> nth i p 0 = 0) -> peval (firstn n p) x = peval p x.
  Proof.
    induction p as [|c p IH]; intros n x H; [destruct n; reflexivity|].
    destruct n as [|n]; cbn [firstn peval].
    - rewrite (peval_pzero p).
      + pose proof (H 0%nat ltac:(lia)) as H0. cbn in H0. rewrite H0. ring.
      + unfold pzero. apply Forall_forall. intros y Hy. destruct (In_nth p y 0 Hy) as [i [Hi E]].
        rewrite <- E. apply (H (S i)). lia.
    - rewrite IH; [reflexivity|]. intros i Hi. apply (H (S i)). lia.
  Qed.

  Theorem peval_trimmed : forall (p : list F) x, peval (trimmed p) x = peval p x.
  Proof. intros p x. unfold trimmed. apply peval_firstn_zero_above. apply degree_plus_one_zero_above. Qed.

  Lemma trimmed_length (p : list F) : length (trimmed p) = degree_plus_one p.
  Proof. unfold trimmed. rewrite firstn_length. pose proof (degree_plus_one_le p). lia. Qed.

  (* trim_to_len succeeds exactly when the dropped coefficients exist and are zero; the polynomial
     is unchanged *)
  Theorem trim_to_len_spec : forall (p : list F) (len : nat),
    match trim_to_len p len with
    | inl q => (len <= length p)%nat /\ q = firstn len p /\ length q = len /\
               (forall i, (len <= i)%nat -> nth i p 0 = 0) /\ forall x, peval q x = peval p x
    | inr _ => (length p < len)%nat \/ exists i, (len <= i < length p)%nat /\ nth i p 0 <> 0
    end.
  Proof.
    intros p len. unfold trim_to_len.
    destruct (Nat.ltb (length p) len) eqn:E.
    - apply Nat.ltb_lt in E. left. exact E.
    - apply Nat.ltb_ge in E.
      destruct (forallb is_zero_f (skipn len p)) eqn:Ez.
      + assert (Hz : forall i, (len <= i)%nat -> nth i p 0 = 0).
        { intros i Hi. rewrite forallb_forall in Ez.
          destruct (Nat.lt_ge_cases i (length p)) as [Hlt|Hge]; [|apply nth_overflow; lia].
          replace i with (len + (i - len))%nat by lia. rewrite <- nth_skipn'.
          apply f_eqb_spec. apply Ez. apply nth_In. rewrite skipn_length. lia. }
        split; [exact E|]. split; [reflexivity|]. split; [rewrite firstn_length; lia|].
        split; [exact Hz|]. intros x. apply peval_firstn_zero_above. exact Hz.
      + right. assert (Hex : exists y, In y (skipn len p) /\ is_zero_f y = false).
        { clear - Ez. induction (skipn len p) as [|y l IH]; [discriminate|].
          cbn in Ez. apply andb_false_iff in Ez. destruct Ez as [Hy|Hl].
          - exists y. split; [left; reflexivity|exact Hy].
          - destruct (IH Hl) as [y' [Hin Hy']]. exists y'. split; [right; exact Hin|exact Hy']. }
        destruct Hex as [y [Hin Hy]]. destruct (In_nth _ y 0 Hin) as [i [Hi Ei]].
        rewrite skipn_length in Hi. exists (len + i)%nat. split; [lia|].
        rewrite nth_skipn' in Ei. rewrite Ei. apply feqb_false. exact Hy.
  Qed.

  (* ---- divide_by_linear *)
  Lemma scan_horner_app z : forall (l : list F) c acc,
    scan_horner (l ++ [c]) z acc =
    scan_horner l z acc ++ [fold_left (fun a c => a * z + c) l acc * z + c].
  Proof.
    induction l as [|d l IH]; intros c acc; cbn [app scan_horner fold_left]; [reflexivity|].
    rewrite IH. reflexivity.
  Qed.

  Lemma scan_rev_cons (c : F) p z :
    scan_horner (rev (c :: p)) z 0 = scan_horner (rev p) z 0 ++ [peval (c :: p) z].
  Proof.
    cbn [rev]. rewrite scan_horner_app. f_equal. f_equal.
    change (fold_left (fun a c0 => a * z + c0) (rev p) 0) with (eval p z).
    rewrite eval_horner. cbn [peval]. ring.
  Qed.

  Lemma divide_by_linear_cons (c : F) p z : divide_by_linear (c :: p) z = rev (scan_horner (rev p) z 0).
  Proof. unfold divide_by_linear. rewrite scan_rev_cons, removelast_last. reflexivity. Qed.

  Lemma divide_by_linear_div_linear : forall (p : list F) z, divide_by_linear p z = fst (div_linear p z).
  Proof.
    induction p as [|c p IH]; intros z; [reflexivity|].
    rewrite divide_by_linear_cons. destruct p as [|d p']; [reflexivity|].
    rewrite div_linear_cons2. destruct (div_linear (d :: p') z) as [q' r'] eqn:E.
    cbn [fst]. rewrite scan_rev_cons, rev_app_distr. cbn [rev app].
    destruct (div_linear_spec _ _ _ _ E) as [Hr _]. rewrite Hr. f_equal.
    rewrite <- (divide_by_linear_cons d p' z), IH, E. reflexivity.
  Qed.

  (* p = (X - z) q + p(z), and q has one coefficient less *)
  Theorem divide_by_linear_spec : forall (p : list F) (z : F),
    let q := divide_by_linear p z in
    length q = pred (length p) /\ forall x, peval p x = (x - z) * peval q x + peval p z.
  Proof.
    intros p z q. unfold q. rewrite divide_by_linear_div_linear.
    destruct (div_linear p z) as [q' r'] eqn:E. cbn [fst].
    destruct (div_linear_spec p z q' r' E) as [Hr [Hl Hx]]. split; [exact Hl|].
    intros x. rewrite Hx, Hr. reflexivity.
  Qed.
End PolyProofs.

(* ---------------------------------------------------------------- FFT-based multiplication *)
Section Mul.
  Context {F : Type} {FO : FieldOps F} {FL : @FieldLaws F FO} {TA : TwoAdic F} {TL : TwoAdicLaws F}.
  Add Field Ffm : (@F_field_theory F FO FL).

  Definition log2_ceil_nat (n : nat) : nat := N.to_nat (log2_ceil (N.of_nat n)).

  Lemma next_power_of_two_eq n : next_power_of_two n = (2 ^ log2_ceil_nat n)%nat.
  Proof. reflexivity. Qed.

  Lemma next_power_of_two_ge n : (n <= next_power_of_two n)%nat.
  Proof.
    rewrite next_power_of_two_eq. unfold log2_ceil_nat, log2_ceil.
    pose proof (N.size_gt (N.of_nat n - 1)) as H.
    assert (E : N.of_nat (2 ^ N.to_nat (N.size (N.of_nat n - 1))) = (2 ^ N.size (N.of_nat n - 1))%N).
    { rewrite pow2_N, N2Nat.id. reflexivity. }
    lia.
  Qed.

  Lemma pmul_length_le : forall (a b : list F), (length (pmul a b) <= length a + length b)%nat.
  Proof.
    induction a as [|c a IH]; intros b; cbn [pmul length]; [lia|].
    rewrite padd_length, pscale_length. cbn [length]. specialize (IH b). lia.
  Qed.

  Lemma padded_ok (a : list F) n : (length a <= n)%nat -> padded a n = Some (a ++ repeat 0 (n - length a)).
  Proof.
    intros H. unfold padded. destruct (Nat.ltb n (length a)) eqn:E; [apply Nat.ltb_lt in E; lia|reflexivity].
  Qed.

  (* the product computed through the FFT is the schoolbook product, zero-padded to the
     power-of-two size the code uses *)
  Theorem mul_spec : forall (a b : list F),
    let K := log2_ceil_nat (length a + length b) in
    (K <= ta_two_adicity)%nat -> (K < 64)%nat ->
    poly_mul a b = Some (pmul a b ++ repeat 0 (2 ^ K - length (pmul a b))) /\
    forall c, poly_mul a b = Some c -> forall x, peval c x = peval a x * peval b x.
  Proof.
    intros a b K HK Hok.
    assert (Hmain : poly_mul a b = Some (pmul a b ++ repeat 0 (2 ^ K - length (pmul a b)))).
    { unfold poly_mul. rewrite next_power_of_two_eq. fold K.
      pose proof (next_power_of_two_ge (length a + length b)) as Hge. rewrite next_power_of_two_eq in Hge. fold K in Hge.
      rewrite !padded_ok by lia. cbn [bind].
      set (a' := a ++ repeat 0 (2 ^ K - length a)). set (b' := b ++ repeat 0 (2 ^ K - length b)).
      assert (La : length a' = (2 ^ K)%nat) by (unfold a'; rewrite app_length, repeat_length; lia).
      assert (Lb : length b' = (2 ^ K)%nat) by (unfold b'; rewrite app_length, repeat_length; lia).
      rewrite (fft_with_options_spec K a' None None HK Hok La I I).
      rewrite (fft_with_options_spec K b' None None HK Hok Lb I I). cbn [bind].
      set (p' := pmul a b ++ repeat 0 (2 ^ K - length (pmul a b))).
      pose proof (pmul_length_le a b) as Hpl.
      assert (Lp : length p' = (2 ^ K)%nat) by (unfold p'; rewrite app_length, repeat_length; lia).
      assert (Ev : zip_with fmul (dft (prou K) a') (dft (prou K) b') = dft (prou K) p').
      { apply (list_ext_nth _ _ 0).
        - rewrite zip_with_length by (rewrite !dft_length; lia). rewrite !dft_length. lia.
        - rewrite zip_with_length by (rewrite !dft_length; lia). rewrite dft_length, La. intros j Hj.
          rewrite (nth_zip_with fmul 0 0 0) by (rewrite !dft_length; lia).
          rewrite !nth_dft by lia. unfold a', b', p'. rewrite !peval_app_zeros. symmetry. apply peval_pmul. }
      rewrite Ev.
      rewrite (ifft_with_options_spec K _ None None HK Hok ltac:(rewrite dft_length; exact Lp) I I).
      f_equal. apply idft_dft; assumption. }
    split; [exact Hmain|].
    intros c Hc x. rewrite Hmain in Hc. inversion Hc; subst c. rewrite peval_app_zeros. apply peval_pmul.
  Qed.
End Mul.

(* ---------------------------------------------------------------- long division *)
Section LongDiv.
  Context {F : Type} {FO : FieldOps F} {FL : @FieldLaws F FO} {TA : TwoAdic F}.
  Add Field Ffl : (@F_field_theory F FO FL).

  Lemma nth_firstn {X} (d : X) : forall n (l : list X) i,
    nth i (firstn n l) d = if Nat.ltb i n then nth i l d else d.
  Proof.
    induction n as [|n IH]; intros l i; [destruct i; reflexivity|].
    destruct l as [|y l]; [destruct i, (Nat.ltb _ _); reflexivity|].
    destruct i as [|i]; [reflexivity|]. cbn [firstn nth]. rewrite IH. reflexivity.
  Qed.

  Lemma find_app' {X} (f : X -> bool) l1 l2 :
    find f (l1 ++ l2) = match find f l1 with Some x => Some x | None => find f l2 end.
  Proof. induction l1 as [|x l1 IH]; cbn [app find]; [reflexivity|]. destruct (f x); auto. Qed.

  Lemma find_rev_spec : forall p : list F,
    find is_nonzero_f (rev p) = match degree_plus_one p with O => None | S d => Some (nth d p 0) end.
  Proof.
    induction p as [|c p IH]; [reflexivity|].
    cbn [rev degree_plus_one]. rewrite find_app', IH.
    destruct (degree_plus_one p) as [|d]; [|reflexivity].
    cbn [find]. destruct (is_nonzero_f c); reflexivity.
  Qed.

  Lemma lead_spec (p : list F) d : degree_plus_one p = S d -> lead p = nth d p 0.
  Proof. intros H. unfold lead. rewrite find_rev_spec, H. reflexivity. Qed.

  Lemma degree_plus_one_bound : forall (p : list F) m, (forall i, (m <= i)%nat -> nth i p 0 = 0) ->
    (degree_plus_one p <= m)%nat.
  Proof.
    intros p m H. destruct (degree_plus_one p) as [|d] eqn:E; [lia|].
    destruct (Nat.le_gt_cases (S d) m) as [Hle|Hgt]; [exact Hle|].
    exfalso. apply (degree_plus_one_lead p d E). apply H. lia.
  Qed.

  Lemma degree_plus_one_trimmed (p : list F) : degree_plus_one (trimmed p) = degree_plus_one p.
  Proof.
    apply Nat.le_antisymm.
    - pose proof (degree_plus_one_le (trimmed p)). rewrite trimmed_length in H. exact H.
    - destruct (degree_plus_one p) as [|d] eqn:E; [lia|].
      destruct (Nat.le_gt_cases (S d) (degree_plus_one (trimmed p))) as [Hle|Hgt]; [exact Hle|].
      exfalso. apply (degree_plus_one_lead p d E).
      pose proof (degree_plus_one_zero_above (trimmed p) d ltac:(lia)) as Hz.
      unfold trimmed in Hz. rewrite E in Hz. rewrite nth_firstn in Hz.
      destruct (Nat.ltb d (S d)) eqn:El; [exact Hz|apply Nat.ltb_ge in El; lia].
  Qed.

  Lemma poly_is_zero_dpo (p : list F) : poly_is_zero p = true <-> degree_plus_one p = 0%nat.
  Proof.
    unfold poly_is_zero. induction p as [|c p IHp]; cbn [forallb degree_plus_one]; [tauto|].
    unfold is_zero_f at 1. unfold is_nonzero_f.
    destruct (c =? 0) eqn:Ec; cbn [andb negb].
    - rewrite IHp. destruct (degree_plus_one p); [tauto|]. split; discriminate.
    - split; [discriminate|]. destruct (degree_plus_one p); discriminate.
  Qed.

  Lemma nth_set_nth {X} (d : X) : forall (l : list X) i j v,
    nth j (set_nth l i v) d = if Nat.eqb i j then (if Nat.ltb i (length l) then v else nth j l d) else nth j l d.
  Proof.
    induction l as [|x l IHl]; intros i j v.
    - cbn [set_nth length]. destruct i; cbn [set_nth]; destruct (Nat.eqb _ j); reflexivity.
    - destruct i as [|i], j as [|j]; cbn [set_nth nth Nat.eqb length]; try reflexivity.
      rewrite IHl. destruct (Nat.eqb i j); [|reflexivity].
      change (Nat.ltb (S i) (S (length l))) with (Nat.ltb i (length l)). reflexivity.
  Qed.

  Lemma peval_set_nth_zero : forall (q : list F) d c x, (d < length q)%nat -> nth d q 0 = 0 ->
    peval (set_nth q d c) x = peval q x + c * fpow x d.
  Proof.
    induction q as [|a q IH]; intros d c x Hd Hz; [cbn in Hd; lia|].
    destruct d as [|d]; cbn [set_nth peval fpow nth] in *.
    - rewrite Hz. ring.
    - rewrite IH; [ring | cbn [length] in Hd; lia | exact Hz].
  Qed.

  Lemma sub_scaled_at_spec : forall (rem : list F) d c (b : list F), (d + length b <= length rem)%nat ->
    exists rem', sub_scaled_at rem d c b = Some rem' /\ length rem' = length rem /\
      (forall i, nth i rem' 0 = nth i rem 0 - c * (if (Nat.leb d i) then nth (i - d) b 0 else 0)) /\
      forall x, peval rem' x = peval rem x - c * fpow x d * peval b x.
  Proof.
    intros rem d. revert rem. induction d as [|d IHd].
    - (* at_ = 0: subtract along b *)
      intros rem c b. revert rem. induction b as [|e b IHb]; intros rem Hl.
      + exists rem. split; [destruct rem; reflexivity|]. split; [reflexivity|]. split.
        * intros i. cbn [Nat.leb]. destruct (i - 0)%nat; cbn; ring.
        * intros x. cbn. ring.
      + destruct rem as [|y rem]; [cbn in Hl; lia|].
        destruct (IHb rem ltac:(cbn in Hl; lia)) as [t [E [L [Hn Hp]]]].
        cbn [sub_scaled_at]. rewrite E. eexists. split; [reflexivity|]. split; [cbn; lia|]. split.
        * intros [|i]; cbn [nth Nat.leb Nat.sub]; [ring|]. rewrite Hn. cbn [Nat.leb]. rewrite Nat.sub_0_r. reflexivity.
        * intros x. cbn [peval fpow]. rewrite Hp. cbn [fpow]. ring.
    - intros rem c b Hl. destruct rem as [|y rem]; [cbn in Hl; lia|].
      destruct (IHd rem c b ltac:(cbn in Hl; lia)) as [t [E [L [Hn Hp]]]].
      cbn [sub_scaled_at]. rewrite E. eexists. split; [reflexivity|]. split; [cbn; lia|]. split.
      + intros [|i]; cbn [nth Nat.leb Nat.sub]; [ring|]. rewrite Hn. reflexivity.
      + intros x. cbn [peval fpow]. rewrite Hp. ring.
  Qed.

  Section Loop.
    Variables (a b : list F).
    Let b_d := degree_plus_one b.
    Hypothesis b_trim : length b = b_d.
    Variable lb : F.
    Hypothesis Hlb : forall d, b_d = S d -> nth d b 0 = lb.
    Hypothesis Hlb0 : lb <> 0.
    Hypothesis Hbd : (1 <= b_d)%nat.

    Definition ld_inv (q rem : list F) : Prop :=
      (forall x, peval a x = peval q x * peval b x + peval rem x) /\
      (length q = degree_plus_one a - b_d + 1)%nat /\
      (forall i, (i + b_d <= degree_plus_one rem)%nat -> nth i q 0 = 0) /\
      (degree_plus_one rem <= degree_plus_one a)%nat.

    Lemma long_div_loop_ok : forall fuel q rem, ld_inv q rem -> (degree_plus_one rem < fuel)%nat ->
      exists q' r', long_div_loop fuel b b_d (finv lb) q rem = Some (q', r') /\
                    (forall x, peval a x = peval q' x * peval b x + peval r' x) /\
                    (degree_plus_one r' < b_d)%nat.
    Proof.
      induction fuel as [|fuel IH]; intros q rem Hinv Hf; [lia|].
      destruct Hinv as [I1 [I2 [I3 I4]]].
      cbn [long_div_loop].
      destruct (orb (poly_is_zero rem) (Nat.ltb (degree_plus_one rem) b_d)) eqn:Estop.
      - exists q, rem. split; [reflexivity|]. split; [exact I1|].
        apply orb_true_iff in Estop. destruct Estop as [Hz|Hlt].
        + apply poly_is_zero_dpo in Hz. lia.
        + apply Nat.ltb_lt in Hlt. exact Hlt.
      - apply orb_false_iff in Estop. destruct Estop as [_ Hge]. apply Nat.ltb_ge in Hge.
        set (dr := degree_plus_one rem) in *.
        destruct dr as [|dr'] eqn:Edr; [lia|].
        set (d := (S dr' - b_d)%nat).
        assert (Hq : Nat.leb (length q) d = false) by (apply Nat.leb_gt; unfold d; lia).
        rewrite Hq.
        pose proof (degree_plus_one_le rem) as Hrl. fold dr in Hrl. rewrite Edr in Hrl.
        destruct (sub_scaled_at_spec rem d (lead rem * finv lb) b ltac:(unfold d; lia)) as [rem' [E [L [Hn Hp]]]].
        rewrite E.
        assert (Hlead : lead rem = nth dr' rem 0) by (apply lead_spec; exact Edr).
        assert (Hdec : (degree_plus_one rem' <= dr')%nat).
        { apply degree_plus_one_bound. intros i Hi. rewrite Hn.
          replace (Nat.leb d i) with true by (symmetry; apply Nat.leb_le; unfold d; lia).
          destruct (Nat.eq_dec i dr') as [->|Hne].
          - destruct b_d as [|bd'] eqn:Ebd; [lia|].
            replace (dr' - d)%nat with bd' by (unfold d; lia). rewrite (Hlb bd' eq_refl), Hlead.
            transitivity (nth dr' rem 0 - nth dr' rem 0 * (finv lb * lb)); [ring|]. rewrite f_inv_l by exact Hlb0. ring.
          - rewrite (degree_plus_one_zero_above rem i) by (fold dr; lia).
            rewrite (nth_overflow b) by (unfold d; lia). ring. }
        apply (IH (set_nth q d (lead rem * finv lb)) (trimmed rem')).
        + split; [|split; [|split]].
          * intros x. rewrite peval_trimmed, Hp, peval_set_nth_zero by (try apply I3; unfold d; lia).
            rewrite I1. ring.
          * rewrite set_nth_length. exact I2.
          * intros i Hi. rewrite degree_plus_one_trimmed in Hi. rewrite nth_set_nth.
            destruct (Nat.eqb d i) eqn:Edi; [apply Nat.eqb_eq in Edi; unfold d in Edi; lia|].
            apply I3. fold dr. lia.
          * rewrite degree_plus_one_trimmed. lia.
        + rewrite degree_plus_one_trimmed. lia.
    Qed.
  End Loop.

  (* a = q b + r and deg r < deg b, for every divisor that is not the zero polynomial *)
  Theorem div_rem_long_spec : forall (a b : list F), degree_plus_one b <> 0%nat ->
    exists q r, div_rem_long_division a b = Some (q, r) /\
                (forall x, peval a x = peval q x * peval b x + peval r x) /\
                (degree_plus_one r < degree_plus_one b)%nat.
  Proof.
    intros a b Hb. unfold div_rem_long_division.
    rewrite degree_plus_one_trimmed.
    destruct (Nat.eqb (degree_plus_one a) 0) eqn:Ea0.
    - apply Nat.eqb_eq in Ea0. exists [0], []. split; [reflexivity|]. split; [|cbn; lia].
      intros x. rewrite <- (peval_trimmed a). unfold trimmed. rewrite Ea0. cbn. ring.
    - apply Nat.eqb_neq in Ea0.
      destruct (Nat.eqb (degree_plus_one b) 0) eqn:Eb0; [apply Nat.eqb_eq in Eb0; contradiction|].
      destruct (Nat.ltb (degree_plus_one a) (degree_plus_one b)) eqn:Elt.
      + apply Nat.ltb_lt in Elt. exists [0], a. split; [reflexivity|]. split; [intros x; cbn; ring|exact Elt].
      + apply Nat.ltb_ge in Elt.
        destruct (degree_plus_one b) as [|bd] eqn:Ebd; [contradiction|].
        assert (Hl : lead (trimmed b) = nth bd b 0).
        { rewrite (lead_spec (trimmed b) bd) by (rewrite degree_plus_one_trimmed; exact Ebd).
          unfold trimmed. rewrite Ebd, nth_firstn.
          destruct (Nat.ltb bd (S bd)) eqn:El; [reflexivity|apply Nat.ltb_ge in El; lia]. }
        assert (Hnz : nth bd b 0 <> 0) by (apply degree_plus_one_lead; exact Ebd).
        unfold inverse. rewrite Hl. destruct (nth bd b 0 =? 0) eqn:Ez; [apply f_eqb_spec in Ez; contradiction|].
        cbn [bind].
        destruct (long_div_loop_ok a (trimmed b)
                    ltac:(rewrite trimmed_length, degree_plus_one_trimmed; reflexivity)
                    (nth bd b 0)
                    ltac:(intros d Hd; rewrite degree_plus_one_trimmed, Ebd in Hd; inversion Hd; subst;
                          unfold trimmed; rewrite Ebd, nth_firstn;
                          destruct (Nat.ltb d (S d)) eqn:El; [reflexivity|apply Nat.ltb_ge in El; lia])
                    Hnz
                    ltac:(rewrite degree_plus_one_trimmed, Ebd; lia)
                    (S (length a)) (repeat 0 (degree_plus_one a - S bd + 1)) a) as [q' [r' [E [H1 H2]]]].
        * split; [|split; [|split]].
          -- intros x. rewrite (peval_pzero (repeat 0 _)); [ring|].
             unfold pzero. apply Forall_forall. intros y Hy. apply repeat_spec in Hy. exact Hy.
          -- rewrite repeat_length, degree_plus_one_trimmed, Ebd. reflexivity.
          -- intros i _. destruct (Nat.lt_ge_cases i (degree_plus_one a - S bd + 1)) as [Hlt|Hge];
               [apply nth_repeat|apply nth_overflow; rewrite repeat_length; exact Hge].
          -- lia.
        * pose proof (degree_plus_one_le a). lia.
        * rewrite degree_plus_one_trimmed, Ebd in E, H2. exists q', r'. split; [exact E|]. split; [|exact H2].
          intros x. rewrite H1, peval_trimmed. reflexivity.
  Qed.

  Theorem div_rem_long_zero_divisor : forall (a b : list F),
    degree_plus_one a <> 0%nat -> degree_plus_one b = 0%nat -> div_rem_long_division a b = None.
  Proof.
    intros a b Ha Hb. unfold div_rem_long_division. rewrite degree_plus_one_trimmed, Hb.
    apply Nat.eqb_neq in Ha. rewrite Ha. reflexivity.
  Qed.
End LongDiv.

(* ---------------------------------------------------------------- the Goldilocks instance *)
From Verif Require Import Gen.FieldConsts Model.Fp Proofs.FpField Proofs.FpFieldPrime.

Lemma Fp_generator_root : is_root (F := Fp) ta_generator ta_two_adicity.
Proof.
  change (@ta_two_adicity Fp FpTwoAdic) with 32%nat.
  split.
  - rewrite <- (exp_power_of_2_fpow (FL := FpLaws)). apply Fp_ext. vm_compute. reflexivity.
  - intros k' E. assert (k' = 31)%nat by lia. subst k'.
    rewrite <- (exp_power_of_2_fpow (FL := FpLaws)). apply Fp_ext. vm_compute. reflexivity.
Qed.

Lemma Fp_inverse_2exp_ok : forall k, (k <= ta_two_adicity)%nat ->
  (@ta_inverse_2exp Fp FpTwoAdic k * two_pow_f k = 1)%F.
Proof.
  change (@ta_two_adicity Fp FpTwoAdic) with 32%nat. intros k Hk.
  assert (C : forallb (fun k => fval (@ta_inverse_2exp Fp FpTwoAdic k * two_pow_f k)%F =? 1)%Z (seq 0 33) = true)
    by (vm_compute; reflexivity).
  rewrite forallb_forall in C. specialize (C k ltac:(apply in_seq; lia)).
  apply Fp_ext. apply Z.eqb_eq in C. rewrite C. reflexivity.
Qed.

Global Instance FpTwoAdicLaws : TwoAdicLaws Fp := {|
  ta_generator_root := Fp_generator_root;
  ta_inverse_2exp_ok := Fp_inverse_2exp_ok;
|}.

(* ---------------------------------------------------------------- div_rem (Newton inversion path)
   History: the model of the code before /repo commit 119d559 refuted the defining identity here
   (theorems div_rem_newton_refuted, inv_mod_xn_refuted, inv_mod_xn_panics: inv_mod_xn appended the
   trimmed Newton correction at the wrong offset, and div_rem trimmed rev_q before reversing it).
   Both defects were repaired by that commit; the model mirrors the repaired code. *)

(* ---------------------------------------------------------------- coefficient algebra
   [co p i] = coefficient i (0 beyond the length); [peq] = equality of all coefficients, i.e. equality
   of polynomials whatever the number of stored leading zeros; [eqm l] = congruence modulo X^l.
   [padd], [pscale], [pmul] (schoolbook, Base/Poly.v) form a commutative ring up to [peq]. *)
From Coq Require Import Setoid Morphisms.
Local Open Scope field_scope.
Section PolyRing.
  Context {F : Type} {FO : FieldOps F} {FL : @FieldLaws F FO}.
  Add Field Ffr : (@F_field_theory F FO FL).

  Definition co (p : list F) (i : nat) : F := nth i p 0.
  Definition peq (p q : list F) : Prop := forall i, co p i = co q i.
  Definition eqm (l : nat) (p q : list F) : Prop := forall i, (i < l)%nat -> co p i = co q i.

  Global Instance peq_equiv : Equivalence peq.
  Proof.
    split.
    - intros p i. reflexivity.
    - intros p q H i. symmetry. apply H.
    - intros p q r H1 H2 i. rewrite H1. apply H2.
  Qed.

  Global Instance co_proper : Proper (peq ==> eq ==> eq) co.
  Proof. intros p q H i j <-. apply H. Qed.

  Lemma co_nil i : co [] i = 0. Proof. unfold co. destruct i; reflexivity. Qed.
  Lemma co_cons_0 x p : co (x :: p) 0 = x. Proof. reflexivity. Qed.
  Lemma co_cons_S x p i : co (x :: p) (S i) = co p i. Proof. reflexivity. Qed.

  Lemma co_padd : forall p q i, co (padd p q) i = co p i + co q i.
  Proof.
    induction p as [|a p IH]; intros q i.
    - cbn [padd]. rewrite co_nil. ring.
    - destruct q as [|b q]; cbn [padd].
      + rewrite co_nil. ring.
      + destruct i as [|i]; [rewrite !co_cons_0; reflexivity|]. rewrite !co_cons_S. apply IH.
  Qed.

  Lemma co_pscale c : forall p i, co (pscale c p) i = c * co p i.
  Proof.
    induction p as [|a p IH]; intros i.
    - change (pscale c []) with (@nil F). rewrite co_nil. ring.
    - change (pscale c (a :: p)) with (c * a :: pscale c p).
      destruct i as [|i]; [rewrite !co_cons_0; reflexivity|]. rewrite !co_cons_S. apply IH.
  Qed.

  Lemma co_pmul_cons c p q i :
    co (pmul (c :: p) q) i = c * co q i + match i with O => 0 | S i' => co (pmul p q) i' end.
  Proof.
    cbn [pmul]. rewrite co_padd, co_pscale. destruct i; [rewrite co_cons_0|rewrite co_cons_S]; reflexivity.
  Qed.

  Global Instance padd_proper : Proper (peq ==> peq ==> peq) padd.
  Proof. intros p p' Hp q q' Hq i. rewrite !co_padd, Hp, Hq. reflexivity. Qed.
  Global Instance pscale_proper c : Proper (peq ==> peq) (pscale c).
  Proof. intros p p' Hp i. rewrite !co_pscale, Hp. reflexivity. Qed.
  Global Instance cons_proper x : Proper (peq ==> peq) (cons x).
  Proof. intros p p' Hp i. destruct i; [reflexivity|]. rewrite !co_cons_S. apply Hp. Qed.

  Lemma pmul_nil_r : forall p, peq (pmul p []) [].
  Proof.
    induction p as [|c p IH]; intros i; [reflexivity|].
    rewrite co_pmul_cons, !co_nil. destruct i; [ring|]. rewrite IH, co_nil. ring.
  Qed.

  Lemma pmul_cons_r : forall p d q, peq (pmul p (d :: q)) (padd (pscale d p) (0 :: pmul p q)).
  Proof.
    induction p as [|c p IH]; intros d q i.
    - cbn [pmul pscale map padd]. rewrite co_nil. destruct i; [reflexivity|]. rewrite co_cons_S, co_nil. reflexivity.
    - rewrite co_pmul_cons, co_padd. change (pscale d (c :: p)) with (d * c :: pscale d p).
      destruct i as [|i].
      + rewrite !co_cons_0. ring.
      + rewrite !co_cons_S, IH, co_pmul_cons, !co_padd, co_pscale.
        destruct i as [|i]; [rewrite !co_cons_0|rewrite !co_cons_S]; ring.
  Qed.

  Lemma pmul_comm : forall p q, peq (pmul p q) (pmul q p).
  Proof.
    induction p as [|c p IH]; intros q.
    - symmetry. apply pmul_nil_r.
    - rewrite pmul_cons_r. intros i. rewrite co_pmul_cons, co_padd, co_pscale.
      destruct i; [rewrite co_cons_0; reflexivity|]. rewrite co_cons_S, IH. reflexivity.
  Qed.

  Global Instance pmul_proper : Proper (peq ==> peq ==> peq) pmul.
  Proof.
    assert (R : forall p q q', peq q q' -> peq (pmul p q) (pmul p q')).
    { induction p as [|c p IH]; intros q q' Hq i; [reflexivity|].
      rewrite !co_pmul_cons, Hq. destruct i; [reflexivity|]. rewrite (IH q q' Hq). reflexivity. }
    intros p p' Hp q q' Hq. rewrite (R p q q' Hq).
    rewrite (pmul_comm p q'), (pmul_comm p' q'). apply R. exact Hp.
  Qed.

  Lemma padd_nil_r (p : list F) : padd p [] = p. Proof. destruct p; reflexivity. Qed.

  Lemma pmul_padd_l : forall p q r, peq (pmul (padd p q) r) (padd (pmul p r) (pmul q r)).
  Proof.
    induction p as [|a p IH]; intros q r.
    - cbn [padd pmul]. reflexivity.
    - destruct q as [|b q].
      + cbn [padd pmul]. rewrite padd_nil_r. reflexivity.
      + cbn [padd]. intros i. rewrite co_padd, !co_pmul_cons.
        destruct i; [ring|]. rewrite IH, co_padd. ring.
  Qed.

  Lemma pmul_padd_r p q r : peq (pmul r (padd p q)) (padd (pmul r p) (pmul r q)).
  Proof. rewrite pmul_comm, pmul_padd_l, (pmul_comm p r), (pmul_comm q r). reflexivity. Qed.

  Lemma pmul_pscale_l c : forall p q, peq (pmul (pscale c p) q) (pscale c (pmul p q)).
  Proof.
    induction p as [|a p IH]; intros q i; [reflexivity|].
    change (pscale c (a :: p)) with (c * a :: pscale c p).
    rewrite co_pmul_cons, co_pscale, co_pmul_cons. destruct i; [ring|]. rewrite IH, co_pscale. ring.
  Qed.

  Lemma pmul_shift1 p q : peq (pmul (0 :: p) q) (0 :: pmul p q).
  Proof. intros i. rewrite co_pmul_cons. destruct i; [rewrite co_cons_0|rewrite co_cons_S]; ring. Qed.

  Lemma pmul_assoc : forall p q r, peq (pmul (pmul p q) r) (pmul p (pmul q r)).
  Proof.
    induction p as [|c p IH]; intros q r; [reflexivity|].
    cbn [pmul]. rewrite pmul_padd_l, pmul_pscale_l, pmul_shift1, IH. reflexivity.
  Qed.

  Lemma pmul_one_r p : peq (pmul p [1]) p.
  Proof.
    rewrite pmul_comm. intros i. rewrite co_pmul_cons. cbn [pmul].
    destruct i; [ring|]. rewrite co_nil. ring.
  Qed.

  (* ---- shift by X^l, congruence modulo X^l *)
  Definition shiftp (l : nat) (p : list F) : list F := repeat 0 l ++ p.

  Lemma co_shiftp l p i : co (shiftp l p) i = if Nat.ltb i l then 0 else co p (i - l).
  Proof.
    unfold shiftp, co. destruct (Nat.ltb i l) eqn:E.
    - apply Nat.ltb_lt in E. rewrite app_nth1 by (rewrite repeat_length; exact E). apply nth_repeat.
    - apply Nat.ltb_ge in E. rewrite app_nth2 by (rewrite repeat_length; exact E). rewrite repeat_length. reflexivity.
  Qed.

  Global Instance shiftp_proper l : Proper (peq ==> peq) (shiftp l).
  Proof. intros p p' Hp i. rewrite !co_shiftp. destruct (Nat.ltb i l); [reflexivity|apply Hp]. Qed.

  Lemma pmul_shiftp : forall l p q, peq (pmul (shiftp l p) q) (shiftp l (pmul p q)).
  Proof.
    induction l as [|l IH]; intros p q; [reflexivity|].
    change (shiftp (S l) p) with (0 :: shiftp l p). rewrite pmul_shift1, IH. reflexivity.
  Qed.

  Lemma app_padd_shift (a b : list F) : peq (a ++ b) (padd a (shiftp (length a) b)).
  Proof.
    intros i. rewrite co_padd, co_shiftp. unfold co.
    destruct (Nat.ltb i (length a)) eqn:E.
    - apply Nat.ltb_lt in E. rewrite app_nth1 by exact E. ring.
    - apply Nat.ltb_ge in E. rewrite app_nth2 by exact E. rewrite (nth_overflow a) by exact E. ring.
  Qed.

  Lemma app_zeros_peq (p : list F) n : peq (p ++ repeat 0 n) p.
  Proof.
    intros i. unfold co. destruct (Nat.lt_ge_cases i (length p)) as [H|H].
    - rewrite app_nth1 by exact H. reflexivity.
    - rewrite app_nth2 by exact H. rewrite (nth_overflow p) by exact H.
      destruct (Nat.lt_ge_cases (i - length p) n); [apply nth_repeat|apply nth_overflow; rewrite repeat_length; lia].
  Qed.

  (* convolution formula *)
  Lemma fsum_map_zero {X} (g : X -> F) l : (forall x, In x l -> g x = 0) -> fsum (map g l) = 0.
  Proof.
    induction l as [|x l IH]; intros H; [reflexivity|]. cbn [map fsum fold_right].
    rewrite H by (left; reflexivity). fold (fsum (map g l)). rewrite IH by (intros; apply H; right; auto). ring.
  Qed.

  Lemma co_pmul_conv : forall p q k,
    co (pmul p q) k = fsum (map (fun i => co p i * co q (k - i)) (seq 0 (S k))).
  Proof.
    induction p as [|c p IH]; intros q k.
    - cbn [pmul]. rewrite co_nil. symmetry. apply fsum_map_zero. intros x _. rewrite co_nil. ring.
    - rewrite co_pmul_cons. cbn [seq map]. rewrite co_cons_0, Nat.sub_0_r.
      change (fsum (c * co q k :: ?l)) with (c * co q k + fsum l). f_equal.
      rewrite <- seq_shift, map_map.
      destruct k as [|k]; [reflexivity|].
      rewrite IH. apply (f_equal fsum). apply map_ext. intros i. reflexivity.
  Qed.

  Lemma eqm_refl l p : eqm l p p. Proof. intros i _. reflexivity. Qed.
  Lemma eqm_sym l p q : eqm l p q -> eqm l q p. Proof. intros H i Hi. symmetry. apply H. exact Hi. Qed.
  Lemma eqm_trans l p q r : eqm l p q -> eqm l q r -> eqm l p r.
  Proof. intros H1 H2 i Hi. rewrite H1 by exact Hi. apply H2. exact Hi. Qed.
  Lemma peq_eqm l p q : peq p q -> eqm l p q. Proof. intros H i _. apply H. Qed.
  Lemma eqm_le l l' p q : (l' <= l)%nat -> eqm l p q -> eqm l' p q.
  Proof. intros Hl H i Hi. apply H. lia. Qed.

  Lemma eqm_pmul l p p' q q' : eqm l p p' -> eqm l q q' -> eqm l (pmul p q) (pmul p' q').
  Proof.
    intros Hp Hq k Hk. rewrite !co_pmul_conv. f_equal. apply map_ext_in. intros i Hi. apply in_seq in Hi.
    rewrite Hp by lia. rewrite Hq by lia. reflexivity.
  Qed.

  Lemma eqm_firstn l (p : list F) : eqm l (firstn l p) p.
  Proof.
    intros i Hi. unfold co. rewrite nth_firstn. destruct (Nat.ltb i l) eqn:E; [reflexivity|apply Nat.ltb_ge in E; lia].
  Qed.

  Lemma trimmed_peq (p : list F) : peq (trimmed p) p.
  Proof.
    intros i. unfold co, trimmed. rewrite nth_firstn. destruct (Nat.ltb i (degree_plus_one p)) eqn:E; [reflexivity|].
    apply Nat.ltb_ge in E. symmetry. apply degree_plus_one_zero_above. exact E.
  Qed.

  Lemma map_fneg_peq (p : list F) : peq (map fneg p) (pscale (- (1)) p).
  Proof.
    intros i. rewrite co_pscale. unfold co. 
    destruct (Nat.lt_ge_cases i (length p)) as [H|H].
    - rewrite (nth_indep _ 0 (fneg 0)) by (rewrite map_length; exact H). rewrite map_nth. ring.
    - rewrite !nth_overflow by (try rewrite map_length; exact H). ring.
  Qed.

  (* ---- reversal *)
  Lemma co_overflow (p : list F) i : (length p <= i)%nat -> co p i = 0.
  Proof. intros H. unfold co. apply nth_overflow. exact H. Qed.

  Lemma co_rev (p : list F) j : co (rev p) j = if Nat.ltb j (length p) then co p (length p - 1 - j) else 0.
  Proof.
    unfold co. destruct (Nat.ltb j (length p)) eqn:E.
    - apply Nat.ltb_lt in E. rewrite rev_nth by exact E. f_equal. lia.
    - apply Nat.ltb_ge in E. apply nth_overflow. rewrite rev_length. exact E.
  Qed.

  Lemma pmul_length : forall (p q : list F), p <> [] -> q <> [] ->
    length (pmul p q) = (length p + length q - 1)%nat.
  Proof.
    induction p as [|c p IH]; intros q Hp Hq; [congruence|].
    cbn [pmul]. rewrite padd_length, pscale_length. cbn [length].
    destruct q as [|d q]; [congruence|]. cbn [length].
    destruct p as [|c' p]; [cbn; lia|].
    rewrite IH by congruence. cbn [length]. lia.
  Qed.

  Lemma pmul_single (c : F) q : peq (pmul [c] q) (pscale c q).
  Proof. intros i. rewrite co_pmul_cons, co_pscale. cbn [pmul]. destruct i; [ring|]. rewrite co_nil. ring. Qed.

  Lemma pmul_rev : forall (p q : list F), p <> [] -> q <> [] -> peq (pmul (rev p) (rev q)) (rev (pmul p q)).
  Proof.
    induction p as [|c p IH]; intros q Hp Hq; [congruence|].
    assert (Lq : (1 <= length q)%nat) by (destruct q; [congruence|cbn; lia]).
    destruct p as [|c' p'].
    - intros i. cbn [rev app]. rewrite pmul_single, co_pscale, !co_rev.
      rewrite (pmul_length [c] q) by congruence. cbn [length].
      replace (1 + length q - 1)%nat with (length q) by lia.
      destruct (Nat.ltb i (length q)); [|ring]. rewrite pmul_single, co_pscale. reflexivity.
    - set (p := c' :: p') in *. assert (Hp' : p <> []) by (unfold p; congruence).
      specialize (IH q Hp' Hq).
      assert (LX : length (pmul p q) = (length p + length q - 1)%nat) by (apply pmul_length; assumption).
      assert (LY : length (pmul (c :: p) q) = (length p + length q)%nat)
        by (rewrite pmul_length by (congruence || assumption); cbn [length]; lia).
      assert (Lp : (1 <= length p)%nat) by (unfold p; cbn; lia).
      intros i. cbn [rev]. fold (rev p).
      rewrite (app_padd_shift (rev p) [c] : peq (rev p ++ [c]) _).
      rewrite rev_length, pmul_padd_l, pmul_shiftp, pmul_single, IH.
      rewrite co_padd, co_shiftp, !co_rev, LX, LY, co_pscale, co_rev.
      destruct (Nat.ltb i (length p + length q)) eqn:E1.
      + apply Nat.ltb_lt in E1. rewrite co_pmul_cons.
        destruct (Nat.ltb i (length p + length q - 1)) eqn:E2.
        * apply Nat.ltb_lt in E2.
          replace (length p + length q - 1 - i)%nat with (S (length p + length q - 1 - 1 - i)) by lia.
          destruct (Nat.ltb i (length p)) eqn:E3.
          -- apply Nat.ltb_lt in E3. rewrite (co_overflow q) by lia. ring.
          -- apply Nat.ltb_ge in E3.
             replace (Nat.ltb (i - length p) (length q)) with true by (symmetry; apply Nat.ltb_lt; lia).
             replace (length q - 1 - (i - length p))%nat with (S (length p + length q - 1 - 1 - i)) by lia. ring.
        * apply Nat.ltb_ge in E2. replace (length p + length q - 1 - i)%nat with 0%nat by lia.
          replace (Nat.ltb i (length p)) with false by (symmetry; apply Nat.ltb_ge; lia).
          replace (Nat.ltb (i - length p) (length q)) with true by (symmetry; apply Nat.ltb_lt; lia).
          replace (length q - 1 - (i - length p))%nat with 0%nat by lia. ring.
      + apply Nat.ltb_ge in E1.
        replace (Nat.ltb i (length p + length q - 1)) with false by (symmetry; apply Nat.ltb_ge; lia).
        replace (Nat.ltb i (length p)) with false by (symmetry; apply Nat.ltb_ge; lia).
        replace (Nat.ltb (i - length p) (length q)) with false by (symmetry; apply Nat.ltb_ge; lia). ring.
  Qed.

  Lemma peq_peval : forall (p q : list F), peq p q -> forall x, peval p x = peval q x.
  Proof.
    induction p as [|a p IH]; intros q H x.
    - symmetry. apply peval_pzero. unfold pzero. apply Forall_forall. intros y Hy.
      destruct (In_nth q y 0 Hy) as [i [_ E]]. rewrite <- E. pose proof (H i) as Hi. rewrite co_nil in Hi. symmetry. exact Hi.
    - destruct q as [|b q].
      + apply peval_pzero. unfold pzero. apply Forall_forall. intros y Hy.
        destruct (In_nth (a :: p) y 0 Hy) as [i [_ E]]. rewrite <- E. pose proof (H i) as Hi. rewrite co_nil in Hi. exact Hi.
      + cbn [peval]. pose proof (H 0%nat) as H0. cbn in H0. rewrite H0.
        rewrite (IH q); [reflexivity|]. intros i. apply (H (S i)).
  Qed.

  (* one Newton step, as algebra: from a h = 1 mod X^l to (a + X^l b) h = 1 mod X^(2l) *)
  Lemma newton_step l (a h e tmp b : list F) : (1 <= l)%nat -> length a = l ->
    peq (pmul a h) (padd [1] (shiftp l e)) -> peq tmp (pscale (- (1)) e) -> eqm l b (pmul a tmp) ->
    eqm (l + l) (pmul (a ++ b) h) [1].
  Proof.
    intros Hl La He Htmp Hb.
    assert (E1 : peq (pmul (a ++ b) h) (padd (padd [1] (shiftp l e)) (shiftp l (pmul b h)))).
    { rewrite app_padd_shift, La, pmul_padd_l, pmul_shiftp, He. reflexivity. }
    assert (E2 : eqm l (pmul b h) (pscale (- (1)) e)).
    { eapply eqm_trans; [apply (eqm_pmul l b (pmul a tmp) h h Hb (eqm_refl l h))|].
      assert (E3 : peq (pmul (pmul a tmp) h) (pmul tmp (pmul a h))).
      { rewrite (pmul_comm a tmp), pmul_assoc. reflexivity. }
      eapply eqm_trans; [apply peq_eqm; exact E3|].
      eapply eqm_trans; [apply (eqm_pmul l tmp tmp (pmul a h) [1] (eqm_refl l tmp))|].
      - intros i Hi. rewrite He, co_padd, co_shiftp.
        replace (Nat.ltb i l) with true by (symmetry; apply Nat.ltb_lt; exact Hi). ring.
      - apply peq_eqm. rewrite pmul_one_r. exact Htmp. }
    intros i Hi. rewrite E1, !co_padd, !co_shiftp.
    destruct (Nat.ltb i l) eqn:E.
    - ring.
    - apply Nat.ltb_ge in E. rewrite (E2 (i - l)%nat) by lia. rewrite co_pscale.
      replace (co [1] i) with 0 by (unfold co; destruct i as [|[|i]]; try reflexivity; lia). ring.
  Qed.
End PolyRing.

(* ---------------------------------------------------------------- inv_mod_xn (Newton iteration) *)
Section InvModXn.
  Context {F : Type} {FO : FieldOps F} {FL : @FieldLaws F FO} {TA : TwoAdic F} {TL : TwoAdicLaws F}.
  Add Field Ffn : (@F_field_theory F FO FL).

  Lemma log2_ceil_nat_le n m : (n <= 2 ^ m)%nat -> (log2_ceil_nat n <= m)%nat.
  Proof.
    intros H. unfold log2_ceil_nat, log2_ceil.
    destruct (N.eq_dec (N.of_nat n - 1) 0) as [E|E]; [rewrite E; cbn; lia|].
    rewrite N.size_log2 by exact E.
    assert (Hx : (N.of_nat n - 1 < 2 ^ N.of_nat m)%N) by (rewrite <- pow2_N; lia).
    apply N.log2_lt_pow2 in Hx; lia.
  Qed.

  Lemma log2_ceil_nat_ge n : (n <= 2 ^ log2_ceil_nat n)%nat.
  Proof. rewrite <- next_power_of_two_eq. apply next_power_of_two_ge. Qed.

  Lemma log2_ceil_nat_lt i n : (i < log2_ceil_nat n)%nat -> (2 ^ i < n)%nat.
  Proof.
    intros H. destruct (Nat.lt_ge_cases (2 ^ i) n) as [Hlt|Hge]; [exact Hlt|].
    pose proof (log2_ceil_nat_le n i Hge). lia.
  Qed.

  (* M bounds every transform size that occurs *)
  Variable M : nat.
  Hypothesis HMT : (M <= ta_two_adicity)%nat.
  Hypothesis HM64 : (M < 64)%nat.

  Lemma poly_mul_ok (x y : list F) : (length x + length y <= 2 ^ M)%nat ->
    exists c, poly_mul x y = Some c /\ peq c (pmul x y) /\
              length c = (2 ^ log2_ceil_nat (length x + length y))%nat.
  Proof.
    intros Hs. pose proof (log2_ceil_nat_le _ _ Hs) as HK.
    destruct (mul_spec x y ltac:(lia) ltac:(lia)) as [E _].
    eexists. split; [exact E|]. split; [apply app_zeros_peq|].
    rewrite app_length, repeat_length.
    pose proof (pmul_length_le x y). pose proof (log2_ceil_nat_ge (length x + length y)). lia.
  Qed.

  Lemma poly_add_ok (x y : list F) :
    exists c, poly_add x y = Some c /\ peq c (padd x y) /\ length c = Nat.max (length x) (length y).
  Proof.
    unfold poly_add. rewrite !padded_ok by lia. cbn [bind].
    set (m := Nat.max (length x) (length y)).
    set (x' := x ++ repeat 0 (m - length x)). set (y' := y ++ repeat 0 (m - length y)).
    assert (Lx : length x' = m) by (unfold x'; rewrite app_length, repeat_length; lia).
    assert (Ly : length y' = m) by (unfold y'; rewrite app_length, repeat_length; lia).
    eexists. split; [reflexivity|]. split; [|rewrite zip_with_length; lia].
    intros i. rewrite co_padd. rewrite <- (app_zeros_peq x (m - length x) i), <- (app_zeros_peq y (m - length y) i).
    fold x' y'. unfold co. destruct (Nat.lt_ge_cases i m) as [H|H].
    - apply (nth_zip_with fadd 0 0 0); lia.
    - rewrite !nth_overflow; [ring| | |]; try lia. rewrite zip_with_length; lia.
  Qed.

  Lemma inv_step_ok (h a : list F) (i : nat) :
    (2 ^ i <= length h)%nat -> (length h + length h <= 2 ^ M)%nat -> (2 * 2 ^ log2_ceil_nat (length h) <= 2 ^ M)%nat ->
    length a = (2 ^ i)%nat -> eqm (2 ^ i) (pmul a h) [1] ->
    exists a', inv_mod_xn_step h a i = Some a' /\ length a' = (2 ^ S i)%nat /\ eqm (2 ^ S i) (pmul a' h) [1].
  Proof.
    intros Hl HM1 HM2 La Inv. unfold inv_mod_xn_step, slice_to, slice_from. cbv zeta.
    set (l := (2 ^ i)%nat) in *. assert (Hl1 : (1 <= l)%nat) by (unfold l; pose proof (Nat.pow_nonzero 2 i); lia).
    set (Hm := length h) in *. pose proof (log2_ceil_nat_ge Hm) as HmP. set (Mh := log2_ceil_nat Hm) in *.
    replace (Nat.ltb Hm l) with false by (symmetry; apply Nat.ltb_ge; exact Hl). cbn [bind].
    set (h0 := firstn l h). set (h1 := skipn l h).
    assert (Lh0 : length h0 = l) by (unfold h0; rewrite firstn_length; lia).
    assert (Lh1 : length h1 = (Hm - l)%nat) by (unfold h1; rewrite skipn_length; reflexivity).
    (* c = (a * h0) / X^l *)
    destruct (poly_mul_ok a h0 ltac:(lia)) as [cf [Ecf [Pcf Lcf]]]. rewrite Ecf. cbn [bind].
    rewrite La, Lh0 in Lcf.
    assert (Lcf2 : length cf = (l + l)%nat).
    { assert (K1 : (log2_ceil_nat (l + l) <= S i)%nat) by (apply log2_ceil_nat_le; unfold l; cbn; lia).
      pose proof (log2_ceil_nat_ge (l + l)). pose proof (Nat.pow_le_mono_r 2 _ _ ltac:(lia) K1).
      unfold l in *. cbn [Nat.pow] in *. lia. }
    replace (Nat.eqb l (length cf)) with false by (symmetry; apply Nat.eqb_neq; lia).
    replace (Nat.ltb (length cf) l) with false by (symmetry; apply Nat.ltb_ge; lia). cbn [bind].
    set (c := skipn l cf). assert (Lc : length c = l) by (unfold c; rewrite skipn_length; lia).
    (* tmp = -(a * h1 + c) *)
    set (h1' := trimmed h1).
    assert (Lh1' : (length h1' <= Hm - l)%nat) by (unfold h1'; rewrite trimmed_length; pose proof (degree_plus_one_le h1); lia).
    destruct (poly_mul_ok a h1' ltac:(lia)) as [t0 [Et0 [Pt0 Lt0]]]. rewrite Et0. cbn [bind].
    assert (Lt0' : (length t0 <= 2 ^ Mh)%nat).
    { rewrite Lt0. apply Nat.pow_le_mono_r; [lia|]. apply log2_ceil_nat_le. lia. }
    destruct (poly_add_ok t0 c) as [t1 [Et1 [Pt1 Lt1]]]. rewrite Et1. cbn [bind].
    set (tmp := trimmed (map fneg t1)).
    assert (Ltmp : (length tmp <= 2 ^ Mh)%nat).
    { unfold tmp. rewrite trimmed_length. pose proof (degree_plus_one_le (map fneg t1)). rewrite map_length in H. lia. }
    destruct (poly_mul_ok a tmp ltac:(lia)) as [bf [Ebf [Pbf Lbf]]]. rewrite Ebf. cbn [bind].
    set (b1 := if Nat.ltb l (length (trimmed bf)) then firstn l (trimmed bf) else trimmed bf).
    set (b := b1 ++ repeat 0 (l - length b1)).
    assert (Lb1 : (length b1 <= l)%nat).
    { unfold b1. destruct (Nat.ltb l (length (trimmed bf))) eqn:E; [rewrite firstn_length; lia|apply Nat.ltb_ge in E; exact E]. }
    assert (Lb : length b = l) by (unfold b; rewrite app_length, repeat_length; lia).
    assert (Hb : eqm l b (pmul a tmp)).
    { intros j Hj. unfold b. rewrite (app_zeros_peq b1 _ j). rewrite <- (Pbf j), <- (trimmed_peq bf j).
      unfold b1. destruct (Nat.ltb l (length (trimmed bf))); [apply eqm_firstn; exact Hj|reflexivity]. }
    eexists. split; [reflexivity|]. split; [rewrite app_length, La, Lb; cbn; lia|].
    replace (2 ^ S i)%nat with (l + l)%nat by (unfold l; cbn; lia).
    set (e := padd (pmul a h1') c).
    apply (newton_step l a h e tmp b Hl1 La).
    - (* a h = 1 + X^l e *)
      assert (Eh : peq h (padd h0 (shiftp l h1))).
      { rewrite <- Lh0. rewrite <- app_padd_shift. unfold h0, h1. rewrite firstn_skipn. reflexivity. }
      assert (E0 : peq (pmul a h0) (padd [1] (shiftp l c))).
      { intros j. rewrite co_padd, co_shiftp. destruct (Nat.ltb j l) eqn:E.
        - apply Nat.ltb_lt in E. rewrite (eqm_pmul l a a h0 h (eqm_refl l a) (eqm_firstn l h) j E).
          rewrite (Inv j E). ring.
        - apply Nat.ltb_ge in E. rewrite <- (Pcf j). unfold c, co. rewrite nth_skipn'.
          replace (l + (j - l))%nat with j by lia.
          replace (nth j [1] 0) with 0 by (destruct j as [|[|j]]; try reflexivity; lia). ring. }
      rewrite Eh at 1. rewrite pmul_padd_r, E0.
      rewrite (pmul_comm a (shiftp l h1)), pmul_shiftp, (pmul_comm h1 a).
      intros j. unfold e. rewrite !co_padd, !co_shiftp. destruct (Nat.ltb j l); [ring|].
      rewrite co_padd. unfold h1'. rewrite (pmul_proper a a (reflexivity a) (trimmed h1) h1 (trimmed_peq h1) (j - l)%nat). ring.
    - unfold tmp. rewrite trimmed_peq, map_fneg_peq. apply pscale_proper. rewrite Pt1, Pt0. reflexivity.
    - exact Hb.
  Qed.

  Lemma inv_loop_ok (h : list F) (a0 : list F) (L : nat) :
    (forall i, (i < L)%nat -> (2 ^ i <= length h)%nat) ->
    (length h + length h <= 2 ^ M)%nat -> (2 * 2 ^ log2_ceil_nat (length h) <= 2 ^ M)%nat ->
    length a0 = 1%nat -> eqm 1 (pmul a0 h) [1] ->
    forall j, (j <= L)%nat ->
      exists a, foldM (inv_mod_xn_step h) (seq 0 j) a0 = Some a /\ length a = (2 ^ j)%nat /\ eqm (2 ^ j) (pmul a h) [1].
  Proof.
    intros Hl HM1 HM2 La0 Inv0. induction j as [|j IH]; intros Hj.
    - exists a0. split; [reflexivity|]. split; [exact La0|exact Inv0].
    - destruct (IH ltac:(lia)) as [a [E [La Inv]]].
      destruct (inv_step_ok h a j (Hl j ltac:(lia)) HM1 HM2 La Inv) as [a' [E' [La' Inv']]].
      exists a'. rewrite seq_S, foldM_app, E. cbn [plus foldM]. rewrite E'. auto.
  Qed.

  (* inv_mod_xn(p, n): for n > 0 and p(0) <> 0 the result a satisfies p * a = 1 mod X^n
     (the first n coefficients of the schoolbook product are 1, 0, .., 0); it has n coefficients,
     or the single coefficient 1/p(0) when p is a constant *)
  Theorem inv_mod_xn_spec : forall (p : list F) (n : nat), (0 < n)%nat -> co p 0 <> 0 ->
    let Hm := Nat.max (length p) n in
    (Hm + Hm <= 2 ^ M)%nat -> (2 * 2 ^ log2_ceil_nat Hm <= 2 ^ M)%nat ->
    exists a, inv_mod_xn p n = Some a /\
              length a = (if Nat.eqb (degree_plus_one p) 1 then 1 else n)%nat /\
              eqm n (pmul p a) [1].
  Proof.
    intros p n Hn Hp0 Hm HM1 HM2. unfold inv_mod_xn.
    replace (Nat.eqb n 0) with false by (symmetry; apply Nat.eqb_neq; lia).
    destruct p as [|c0 p']; [exfalso; apply Hp0; reflexivity|].
    set (p := c0 :: p') in *. change (co p 0) with c0 in Hp0.
    assert (Ez : is_zero_f c0 = false) by (apply feqb_false; exact Hp0). rewrite Ez.
    assert (Ei : inverse c0 = Some (finv c0)) by (unfold inverse; fold (is_zero_f c0); rewrite Ez; reflexivity).
    destruct (Nat.eqb (degree_plus_one p) 1) eqn:Ed.
    - rewrite Ei. cbn [bind]. eexists. split; [reflexivity|]. split; [reflexivity|].
      apply Nat.eqb_eq in Ed. apply peq_eqm.
      assert (Ep : peq p [c0]).
      { intros [|i]; [reflexivity|]. unfold co at 1. rewrite (degree_plus_one_zero_above p (S i)) by lia.
        symmetry. apply co_nil. }
      rewrite Ep. intros [|i]; unfold co; cbn; [rewrite f_inv_r by exact Hp0; ring|destruct i; ring].
    - set (h := if Nat.ltb (length p) n then p ++ repeat 0 (n - length p) else p).
      assert (Eh : (if Nat.ltb (length p) n then padded p n else Some p) = Some h).
      { unfold h. destruct (Nat.ltb (length p) n) eqn:E; [apply Nat.ltb_lt in E; rewrite padded_ok by lia; reflexivity|reflexivity]. }
      rewrite Eh. cbn [bind].
      assert (Lh : length h = Hm).
      { unfold h, Hm. destruct (Nat.ltb (length p) n) eqn:E; [apply Nat.ltb_lt in E; rewrite app_length, repeat_length; lia|apply Nat.ltb_ge in E; lia]. }
      assert (Php : peq h p) by (unfold h; destruct (Nat.ltb (length p) n); [apply app_zeros_peq|reflexivity]).
      assert (Eh0 : nth_error h 0 = Some c0) by (unfold h; destruct (Nat.ltb (length p) n); reflexivity).
      rewrite Eh0. cbn [bind]. rewrite Ei. cbn [bind].
      set (L := N.to_nat (log2_ceil (N.of_nat n))). change L with (log2_ceil_nat n).
      destruct (inv_loop_ok h [finv c0] (log2_ceil_nat n)) with (j := log2_ceil_nat n) as [a [E [La Inv]]].
      + intros i Hi. pose proof (log2_ceil_nat_lt i n Hi). rewrite Lh. unfold Hm. lia.
      + rewrite Lh. exact HM1.
      + rewrite Lh. exact HM2.
      + reflexivity.
      + intros i Hi. assert (i = 0)%nat by lia. subst i. rewrite (Php : peq h p).
        unfold co. cbn. rewrite f_mul_comm, f_inv_r by exact Hp0. ring.
      + lia.
      + rewrite E. cbn [bind]. unfold slice_to. pose proof (log2_ceil_nat_ge n) as Hge.
        replace (Nat.ltb (length a) n) with false by (symmetry; apply Nat.ltb_ge; lia).
        eexists. split; [reflexivity|]. split; [rewrite firstn_length; lia|].
        intros i Hi. rewrite (pmul_comm p (firstn n a) i).
        rewrite (eqm_pmul n (firstn n a) a p h (eqm_firstn n a) (peq_eqm n p h (symmetry Php)) i Hi).
        apply Inv. lia.
  Qed.
End InvModXn.

(* ---------------------------------------------------------------- div_rem (Newton inversion path) *)
Section DivRem.
  Context {F : Type} {FO : FieldOps F} {FL : @FieldLaws F FO} {TA : TwoAdic F} {TL : TwoAdicLaws F}.
  Add Field Ffd : (@F_field_theory F FO FL).

  Lemma sub_prefix_ok : forall (y cs : list F), (length y <= length cs)%nat ->
    exists r, sub_prefix cs y = Some r /\ length r = length cs /\ forall i, co r i = co cs i - co y i.
  Proof.
    induction y as [|c y IH]; intros cs Hl.
    - exists cs. split; [destruct cs; reflexivity|]. split; [reflexivity|]. intros i. rewrite co_nil. ring.
    - destruct cs as [|x cs]; [cbn in Hl; lia|].
      destruct (IH cs ltac:(cbn in Hl; lia)) as [t [E [L G]]].
      cbn [sub_prefix]. rewrite E. eexists. split; [reflexivity|]. split; [cbn; lia|].
      intros [|i]; [reflexivity|]. rewrite !co_cons_S. apply G.
  Qed.

  Lemma poly_sub_ok (x y : list F) : exists r, poly_sub x y = Some r /\ forall i, co r i = co x i - co y i.
  Proof.
    unfold poly_sub. rewrite padded_ok by lia. cbn [bind].
    destruct (sub_prefix_ok y (x ++ repeat 0 (Nat.max (length x) (length y) - length x))) as [r [E [_ G]]].
    - rewrite app_length, repeat_length. lia.
    - exists r. split; [exact E|]. intros i. rewrite G. rewrite (app_zeros_peq x _ i). reflexivity.
  Qed.

  Lemma trimmed_nonempty (p : list F) : degree_plus_one p <> 0%nat -> trimmed p <> [].
  Proof. intros H E. apply (f_equal (@length F)) in E. rewrite trimmed_length in E. cbn in E. lia. Qed.

  (* division with remainder through Newton inversion of the reversed divisor:
     a = q b + r and deg r < deg b, for every divisor that is not the zero polynomial
     (premise: the FFT sizes used, at most 2 * next_power_of_two(len a + len b), are supported) *)
  Theorem div_rem_spec : forall (a b : list F), degree_plus_one b <> 0%nat ->
    let M := S (log2_ceil_nat (length a + length b)) in
    (M <= ta_two_adicity)%nat -> (M < 64)%nat ->
    exists q r, div_rem a b = Some (q, r) /\
                (forall x, peval a x = peval q x * peval b x + peval r x) /\
                (degree_plus_one r < degree_plus_one b)%nat.
  Proof.
    intros a b Hb M HMT HM64. unfold div_rem. cbv zeta.
    set (n := degree_plus_one a). set (m := degree_plus_one b). fold m in Hb.
    destruct (Nat.eqb n 0) eqn:En0.
    - apply Nat.eqb_eq in En0. exists [0], []. split; [reflexivity|]. split; [|cbn; lia].
      intros x. rewrite <- (peval_trimmed a). unfold trimmed. fold n. rewrite En0. cbn. ring.
    - apply Nat.eqb_neq in En0.
      destruct (Nat.eqb m 0) eqn:Em0; [apply Nat.eqb_eq in Em0; contradiction|].
      destruct (Nat.ltb n m) eqn:Elt.
      + apply Nat.ltb_lt in Elt. exists [0], a. split; [reflexivity|]. split; [intros x; cbn; ring|exact Elt].
      + apply Nat.ltb_ge in Elt.
        destruct (Nat.eqb m 1) eqn:Em1.
        * (* constant divisor *)
          apply Nat.eqb_eq in Em1.
          assert (Hb0 : nth 0 b 0 <> 0) by (apply degree_plus_one_lead; exact Em1).
          destruct b as [|b0 b']; [cbn in Hb0; congruence|]. cbn [nth] in Hb0. cbn [nth_error bind].
          unfold inverse. replace (b0 =? 0) with false by (symmetry; apply feqb_false; exact Hb0). cbn [bind].
          eexists _, []. split; [reflexivity|]. split; [|change (0 < m)%nat; lia].
          intros x. unfold poly_scalar_mul. change (map (fun y => finv b0 * y) a) with (pscale (finv b0) a). rewrite peval_pscale.
          assert (Eb : peval (b0 :: b') x = b0).
          { rewrite <- peval_trimmed. unfold trimmed. fold m. rewrite Em1. cbn. ring. }
          rewrite Eb. cbn [peval]. field. exact Hb0.
        * apply Nat.eqb_neq in Em1. assert (Hm2 : (2 <= m)%nat) by lia.
          cbv zeta. set (d := (n - m)%nat). replace (d + 1)%nat with (S d) by lia.
          set (A := trimmed a). set (B := trimmed b).
          assert (LA : length A = n) by apply trimmed_length.
          assert (LB : length B = m) by apply trimmed_length.
          assert (PA : peq A a) by apply trimmed_peq. assert (PB : peq B b) by apply trimmed_peq.
          assert (HB0 : B <> []) by (apply trimmed_nonempty; fold m; lia).
          unfold poly_rev. fold A B.
          set (ra := rev A). set (rb := rev B).
          assert (Lra : length ra = n) by (unfold ra; rewrite rev_length; exact LA).
          assert (Lrb : length rb = m) by (unfold rb; rewrite rev_length; exact LB).
          pose proof (degree_plus_one_le a) as HnLa. fold n in HnLa.
          pose proof (degree_plus_one_le b) as HmLb. fold m in HmLb.
          set (K := log2_ceil_nat (length a + length b)) in *.
          pose proof (log2_ceil_nat_ge (length a + length b)) as HK. fold K in HK.
          assert (E2M : (2 ^ M = 2 * 2 ^ K)%nat) by (unfold M; reflexivity).
          (* the inverse of the reversed divisor *)
          assert (Hrb0 : co rb 0 <> 0).
          { unfold rb. rewrite co_rev, LB. replace (Nat.ltb 0 m) with true by (symmetry; apply Nat.ltb_lt; lia).
            rewrite Nat.sub_0_r. rewrite (PB (m - 1)%nat). unfold co.
            apply degree_plus_one_lead. fold m. lia. }
          destruct (inv_mod_xn_spec M HMT HM64 rb (S d) ltac:(lia) Hrb0) as [inv [Einv [Linv Hinv]]].
          { rewrite Lrb. unfold d. lia. }
          { rewrite Lrb. pose proof (log2_ceil_nat_le (Nat.max m (S d)) K ltac:(unfold d; lia)) as HH.
            pose proof (Nat.pow_le_mono_r 2 _ _ ltac:(lia) HH). lia. }
          rewrite Einv. cbn [bind].
          assert (Linv' : (1 <= length inv <= S d)%nat) by (rewrite Linv; destruct (Nat.eqb (degree_plus_one rb) 1); lia).
          unfold slice_to. rewrite Lra.
          replace (Nat.ltb n (S d)) with false by (symmetry; apply Nat.ltb_ge; unfold d; lia). cbn [bind].
          set (rhs := firstn (S d) ra).
          assert (Lrhs : length rhs = S d) by (unfold rhs; rewrite firstn_length; unfold d in *; lia).
          destruct (poly_mul_ok M HMT HM64 inv rhs ltac:(rewrite Lrhs; unfold d in *; lia)) as [prod [Eprod [Pprod Lprod]]].
          rewrite Eprod. cbn [bind].
          pose proof (log2_ceil_nat_ge (length inv + length rhs)) as Hpl. rewrite <- Lprod, Lrhs in Hpl.
          replace (Nat.ltb (length prod) (S d)) with false by (symmetry; apply Nat.ltb_ge; lia). cbn [bind].
          set (rq := firstn (S d) prod).
          assert (Lrq : length rq = S d) by (unfold rq; rewrite firstn_length; lia).
          set (q := rev rq). assert (Lq : length q = S d) by (unfold q; rewrite rev_length; exact Lrq).
          assert (Hq0 : q <> []) by (intros E; rewrite E in Lq; cbn in Lq; lia).
          destruct (poly_mul_ok M HMT HM64 q b ltac:(rewrite Lq; unfold d in *; lia)) as [qb [Eqb [Pqb _]]].
          rewrite Eqb. cbn [bind].
          destruct (poly_sub_ok a qb) as [r [Er Gr]]. rewrite Er. cbn [bind].
          exists (trimmed q), (trimmed r). split; [reflexivity|]. split.
          -- intros x. rewrite !peval_trimmed.
             assert (Pr : peq r (padd a (pscale (- (1)) qb))) by (intros i; rewrite Gr, co_padd, co_pscale; ring).
             rewrite (peq_peval r _ Pr x), peval_padd, peval_pscale.
             rewrite (peq_peval qb _ Pqb x), peval_pmul. ring.
          -- rewrite degree_plus_one_trimmed.
             assert (Hdeg : (degree_plus_one r <= m - 1)%nat); [|fold m; lia].
             apply degree_plus_one_bound. intros k Hk. change (nth k r 0) with (co r k). rewrite Gr.
             set (X := pmul q B).
             assert (LX : length X = n) by (unfold X; rewrite pmul_length by assumption; rewrite Lq, LB; unfold d; lia).
             assert (PX : peq qb X) by (unfold X; rewrite Pqb, PB; reflexivity).
             rewrite (PX k).
             destruct (Nat.lt_ge_cases k n) as [Hkn|Hkn].
             ++ set (j := (n - 1 - k)%nat). assert (Hj : (j < S d)%nat) by (unfold j, d; lia).
                assert (E1 : co (pmul rq rb) j = co X k).
                { assert (Erq : rq = rev q) by (unfold q; rewrite rev_involutive; reflexivity).
                  rewrite Erq. unfold rb. rewrite (pmul_rev q B Hq0 HB0 j). fold X.
                  rewrite co_rev, LX. replace (Nat.ltb j n) with true by (symmetry; apply Nat.ltb_lt; unfold j; lia).
                  f_equal. unfold j. lia. }
                assert (E2 : co (pmul rq rb) j = co ra j).
                { assert (Q1 : eqm (S d) rq (pmul inv ra)).
                  { eapply eqm_trans; [apply eqm_firstn|]. eapply eqm_trans; [apply peq_eqm; exact Pprod|].
                    apply eqm_pmul; [apply eqm_refl|apply eqm_firstn]. }
                  rewrite (eqm_pmul (S d) rq (pmul inv ra) rb rb Q1 (eqm_refl _ rb) j Hj).
                  assert (Q2 : peq (pmul (pmul inv ra) rb) (pmul ra (pmul rb inv))).
                  { rewrite (pmul_comm inv ra), pmul_assoc, (pmul_comm inv rb). reflexivity. }
                  rewrite (Q2 j).
                  rewrite (eqm_pmul (S d) ra ra (pmul rb inv) [1] (eqm_refl _ ra) Hinv j Hj).
                  apply pmul_one_r. }
                rewrite <- E1, E2. unfold ra. rewrite co_rev, LA.
                replace (Nat.ltb j n) with true by (symmetry; apply Nat.ltb_lt; unfold j; lia).
                replace (n - 1 - j)%nat with k by (unfold j; lia). rewrite (PA k). ring.
             ++ rewrite (co_overflow X) by lia. unfold co at 1.
                rewrite (degree_plus_one_zero_above a k) by (fold n; lia). ring.
  Qed.
End DivRem.

(* ---------------------------------------------------------------- interpolation (partial results) *)
Local Open Scope field_scope.
Section Interp.
  Context {F : Type} {FO : FieldOps F} {FL : @FieldLaws F FO} {TA : TwoAdic F}.
  Add Field Ffi : (@F_field_theory F FO FL).

  (* the line through (a0, a1) and (b0, b1); equal abscissae panic (assert_ne!) *)
  Theorem interpolate2_spec : forall a0 a1 b0 b1 x : F,
    (a0 = b0 -> interpolate2 a0 a1 b0 b1 x = None) /\
    (a0 <> b0 -> exists v, interpolate2 a0 a1 b0 b1 x = Some v /\
                           v * (b0 - a0) = a1 * (b0 - a0) + (x - a0) * (b1 - a1) /\
                           (x = a0 -> v = a1) /\ (x = b0 -> v = b1)).
  Proof.
    intros a0 a1 b0 b1 x. unfold interpolate2, inverse. split.
    - intros ->. rewrite feqb_refl. reflexivity.
    - intros Hne. assert (E : (a0 =? b0) = false) by (apply feqb_false; exact Hne). rewrite E.
      assert (Hd : b0 - a0 <> 0) by (intros Z; apply Hne; symmetry; apply f_sub_eq_0; exact Z).
      assert (E2 : (b0 - a0 =? 0) = false) by (apply feqb_false; exact Hd). rewrite E2. cbn [bind].
      eexists. split; [reflexivity|]. split; [field_simplify; [reflexivity|exact Hd]|]. split.
      + intros ->. field. exact Hd.
      + intros ->. field. exact Hd.
  Qed.

  (* interpolate returns the stored ordinate on a node (the branch that avoids the division by zero) *)
  Theorem interpolate_on_node_partial : forall (points : list (F * F)) (w : list F) i x_i y_i,
    nth_error points i = Some (x_i, y_i) ->
    (forall j p, (j < i)%nat -> nth_error points j = Some p -> fst p <> x_i) ->
    interpolate points x_i w = Some y_i.
  Proof.
    intros points w. induction points as [|[px py] points IH]; intros i x_i y_i Hn Hfirst.
    - destruct i; discriminate.
    - unfold interpolate. cbn [find fst]. destruct i as [|i].
      + cbn in Hn. inversion Hn; subst. rewrite feqb_refl. reflexivity.
      + assert (E : (px =? x_i) = false).
        { apply feqb_false. apply (Hfirst O (px, py)); [lia|reflexivity]. }
        rewrite E. cbn [nth_error] in Hn.
        specialize (IH i x_i y_i Hn ltac:(intros j p Hj Hp; apply (Hfirst (S j) p); [lia|exact Hp])).
        unfold interpolate in IH. destruct (find (fun p => fst p =? x_i) points) as [[? ?]|] eqn:Ef.
        * exact IH.
        * exfalso. apply nth_error_In in Hn. apply (find_none _ _ Ef) in Hn. cbn in Hn. rewrite feqb_refl in Hn. discriminate.
  Qed.
End Interp.

(* ---------------------------------------------------------------- barycentric interpolation off the nodes *)
From Verif Require Import Proofs.FieldGeneric.
Local Open Scope field_scope.
Section Barycentric.
  Context {F : Type} {FO : FieldOps F} {FL : @FieldLaws F FO} {TA : TwoAdic F}.
  Add Field Ffb : (@F_field_theory F FO FL).

  Lemma fold_left_fmul_acc : forall (l : list F) (acc : F), fold_left fmul l acc = acc * fold_left fmul l 1.
  Proof.
    induction l as [|x l IH]; intros acc; cbn [fold_left]; [ring|].
    rewrite IH, (IH (1 * x)). ring.
  Qed.
  Lemma fproduct_cons (x : F) l : fproduct (x :: l) = x * fproduct l.
  Proof. unfold fproduct. cbn [fold_left]. rewrite fold_left_fmul_acc. ring. Qed.

  Lemma fold_left_fadd_acc : forall (l : list F) (acc : F), fold_left fadd l acc = acc + fold_left fadd l 0.
  Proof.
    induction l as [|x l IH]; intros acc; cbn [fold_left]; [ring|].
    rewrite IH, (IH (0 + x)). ring.
  Qed.
  Lemma fsum_l_cons (x : F) l : fsum_l (x :: l) = x + fsum_l l.
  Proof. unfold fsum_l. cbn [fold_left]. rewrite fold_left_fadd_acc. ring. Qed.

  Lemma fsum_l_scale (c : F) {X} (t : X -> F) l : c * fsum_l (map t l) = fsum_l (map (fun i => c * t i) l).
  Proof.
    induction l as [|x l IH]; [cbn; ring|]. cbn [map]. rewrite !fsum_l_cons, <- IH. ring.
  Qed.

  Lemma fsum_l_ext {X} (t t' : X -> F) l : (forall i, In i l -> t i = t' i) -> fsum_l (map t l) = fsum_l (map t' l).
  Proof. intros H. f_equal. apply map_ext_in. exact H. Qed.

  (* split one factor off a product over a duplicate-free index list *)
  Lemma fproduct_split (g : nat -> F) : forall (l : list nat) i, NoDup l -> In i l ->
    fproduct (map g l) = g i * fproduct (map g (filter (fun j => negb (Nat.eqb j i)) l)).
  Proof.
    induction l as [|a l IH]; intros i Hnd Hin; [destruct Hin|].
    apply NoDup_cons_iff in Hnd. destruct Hnd as [Ha Hnd]. cbn [map filter]. rewrite fproduct_cons.
    destruct (Nat.eqb a i) eqn:E.
    - apply Nat.eqb_eq in E. subst a. cbn [negb]. f_equal. f_equal. f_equal.
      symmetry. clear IH Hin Hnd. induction l as [|b l IHl]; [reflexivity|].
      cbn [filter]. destruct (Nat.eqb b i) eqn:Eb.
      + apply Nat.eqb_eq in Eb. subst b. exfalso. apply Ha. left. reflexivity.
      + cbn [negb]. f_equal. apply IHl. intros H. apply Ha. right. exact H.
    - cbn [negb map]. rewrite fproduct_cons. destruct Hin as [Hin|Hin]; [apply Nat.eqb_neq in E; congruence|].
      rewrite (IH i Hnd Hin). ring.
  Qed.

  Lemma fproduct_nonzero (l : list F) : (forall y, In y l -> y <> 0) -> fproduct l <> 0.
  Proof.
    induction l as [|x l IH]; intros H; [unfold fproduct; cbn; apply f_1_neq_0|].
    rewrite fproduct_cons. apply f_mul_neq_0; [apply H; left; reflexivity|apply IH; intros; apply H; right; auto].
  Qed.

  Lemma find_none_intro {X} (f : X -> bool) l : (forall y, In y l -> f y = false) -> find f l = None.
  Proof.
    induction l as [|x l IH]; intros H; [reflexivity|]. cbn [find]. rewrite H by (left; reflexivity).
    apply IH. intros; apply H; right; auto.
  Qed.

  Lemma mapM_all_some {X Y} (f : X -> option Y) (g : X -> Y) l : (forall x, In x l -> f x = Some (g x)) ->
    mapM f l = Some (map g l).
  Proof.
    induction l as [|x l IH]; intros H; [reflexivity|]. cbn [mapM map].
    rewrite H by (left; reflexivity). rewrite IH by (intros; apply H; right; auto). reflexivity.
  Qed.

  Definition px (points : list (F * F)) (i : nat) : F := fst (nth i points (0, 0)).
  Definition py (points : list (F * F)) (i : nat) : F := snd (nth i points (0, 0)).
  Definition others (n i : nat) : list nat := filter (fun j => negb (Nat.eqb j i)) (seq 0 n).

  (* barycentric weights: w_i * prod_{j <> i} (x_i - x_j) = 1, for pairwise distinct abscissae;
     a repeated abscissa panics (inverse of zero) *)
  Theorem barycentric_weights_spec : forall (points : list (F * F)),
    (forall i j, (i < length points)%nat -> (j < length points)%nat -> i <> j -> px points i <> px points j) ->
    exists w, barycentric_weights points = Some w /\ length w = length points /\
      forall i, (i < length points)%nat ->
        nth i w 0 * fproduct (map (fun j => px points i - px points j) (others (length points) i)) = 1.
  Proof.
    intros points Hd. unfold barycentric_weights, batch_inverse_checked.
    set (n := length points).
    set (D := map (fun i => fproduct (map (fun j => nthF (map fst points) i - nthF (map fst points) j)
                                          (filter (fun j => negb (Nat.eqb j i)) (seq 0 n)))) (seq 0 n)).
    assert (Enth : forall i, nthF (map fst points) i = px points i).
    { intros i. unfold nthF, px. change 0 with (fst (0, 0) : F) at 1. apply map_nth. }
    assert (HD : forall i, (i < n)%nat ->
               nth i D 0 = fproduct (map (fun j => px points i - px points j) (others n i))).
    { intros i Hi. unfold D.
      rewrite (nth_indep _ 0 (fproduct (map (fun j => nthF (map fst points) 0 - nthF (map fst points) j) (filter (fun j => negb (Nat.eqb j 0)) (seq 0 n)))))
        by (rewrite map_length, seq_length; exact Hi).
      rewrite (map_nth (fun i => fproduct (map (fun j => nthF (map fst points) i - nthF (map fst points) j) (filter (fun j => negb (Nat.eqb j i)) (seq 0 n)))) (seq 0 n) 0%nat i).
      rewrite seq_nth by exact Hi. cbn [plus]. unfold others. f_equal. apply map_ext. intros j. rewrite !Enth. reflexivity. }
    assert (Hnz : Forall (fun x => x <> 0) D).
    { apply Forall_forall. intros y Hy. destruct (In_nth D y 0 Hy) as [i [Hi E]].
      unfold D in Hi. rewrite map_length, seq_length in Hi. rewrite <- E, HD by exact Hi.
      apply fproduct_nonzero. intros z Hz. apply in_map_iff in Hz. destruct Hz as [j [Ez Hj]]. subst z.
      unfold others in Hj. apply filter_In in Hj. destruct Hj as [Hj1 Hj2]. apply in_seq in Hj1.
      apply negb_true_iff, Nat.eqb_neq in Hj2.
      intros Z. apply (Hd i j Hi ltac:(lia) ltac:(lia)). apply f_sub_eq_0. exact Z. }
    assert (Hex : existsb is_zero_f D = false).
    { apply not_true_is_false. intros E. apply existsb_exists in E. destruct E as [y [Hy Hz]].
      rewrite Forall_forall in Hnz. apply (Hnz y Hy). apply f_eqb_spec. exact Hz. }
    fold D. rewrite Hex.
    destruct (batch_inverse_correct D Hnz) as [L G].
    assert (LD : length D = n) by (unfold D; rewrite map_length, seq_length; reflexivity).
    eexists. split; [reflexivity|]. split; [rewrite L; exact LD|].
    intros i Hi. rewrite <- HD by exact Hi. apply G. rewrite LD. exact Hi.
  Qed.

  (* off the nodes, `interpolate` returns  sum_i w_i * y_i * prod_{j <> i} (x - x_j);
     with the barycentric weights this is the value of the Lagrange interpolant
     sum_i y_i * prod_{j <> i} (x - x_j) / (x_i - x_j) *)
  Theorem interpolate_off_node_spec : forall (points : list (F * F)) (x : F) (w : list F),
    (forall i, (i < length points)%nat -> px points i <> x) -> length w = length points ->
    interpolate points x w =
    Some (fsum_l (map (fun i => nth i w 0 * py points i *
                               fproduct (map (fun j => x - px points j) (others (length points) i)))
                      (seq 0 (length points)))).
  Proof.
    intros points x w Hoff Lw. unfold interpolate. set (n := length points) in *.
    assert (Hfind : find (fun p : F * F => fst p =? x) points = None).
    { apply find_none_intro. intros p Hp. destruct (In_nth points p (0, 0) Hp) as [i [Hi E]].
      apply feqb_false. rewrite <- E. apply Hoff. exact Hi. }
    rewrite Hfind.
    rewrite (mapM_all_some _ (fun i => nth i w 0 * finv (x - px points i) * py points i)).
    2:{ intros i Hi. apply in_seq in Hi.
        rewrite (nth_error_nth' points (0, 0)) by lia. rewrite (nth_error_nth' w 0) by lia.
        destruct (nth i points (0, 0)) as [xi yi] eqn:Ep.
        assert (Exi : px points i = xi) by (unfold px; rewrite Ep; reflexivity).
        assert (Eyi : py points i = yi) by (unfold py; rewrite Ep; reflexivity).
        unfold inverse. assert (Hne : x - xi <> 0).
        { intros Z. apply (Hoff i ltac:(lia)). rewrite Exi. symmetry. apply f_sub_eq_0. exact Z. }
        replace (x - xi =? 0) with false by (symmetry; apply feqb_false; exact Hne).
        cbn [bind]. rewrite Exi, Eyi. reflexivity. }
    cbn [bind]. f_equal.
    (* l_x as a product over the indices *)
    assert (Elx : fproduct (map (fun p : F * F => x - fst p) points) = fproduct (map (fun j => x - px points j) (seq 0 n))).
    { f_equal. apply (nth_ext _ _ 0 0); [rewrite !map_length, seq_length; reflexivity|].
      rewrite map_length. intros i Hi.
      rewrite (nth_indep _ 0 ((fun p : F * F => x - fst p) (0, 0))) by (rewrite map_length; exact Hi).
      rewrite (map_nth (fun p : F * F => x - fst p) points (0, 0) i).
      rewrite (nth_indep _ 0 ((fun j => x - px points j) 0%nat)) by (rewrite map_length, seq_length; exact Hi).
      rewrite (map_nth (fun j => x - px points j) (seq 0 n) 0%nat i). rewrite seq_nth by exact Hi. reflexivity. }
    rewrite Elx, fsum_l_scale. apply fsum_l_ext. intros i Hi. apply in_seq in Hi.
    rewrite (fproduct_split (fun j => x - px points j) (seq 0 n) i (seq_NoDup n 0) ltac:(apply in_seq; lia)).
    fold (others n i).
    assert (Hne : x - px points i <> 0).
    { intros Z. apply (Hoff i ltac:(lia)). symmetry. apply f_sub_eq_0. exact Z. }
    field. exact Hne.
  Qed.
End Barycentric.
