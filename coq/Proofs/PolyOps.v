(* C15 proofs, part 3: polynomial algebra of Model/PolyOps.v.
   eval = Horner = peval; divide_by_linear = synthetic division (Base/Poly.v div_linear);
   the FFT-based product is the zero-padded schoolbook product; trim / trim_to_len;
   long division satisfies a = q b + r with deg r < deg b; the Newton-inversion div_rem of
   the code does NOT (refuted on a concrete input, as in the implementation). *)
From Coq Require Import NArith ZArith List Lia Bool Arith Ring Field.
From Verif Require Import Base.Field Base.Poly Model.FieldGeneric Model.BitRev Model.FFT Model.PolyOps
  Proofs.BitRev Proofs.FFT.
Import ListNotations.
Local Open Scope field_scope.

Section PolyProofs.
  Context {F : Type} {FO : FieldOps F} {FL : @FieldLaws F FO} {TA : TwoAdic F}.
  Add Field Ffp : (@F_field_theory F FO FL).

  Lemma nth_skipn' {X} (d : X) : forall n (l : list X) i, nth i (skipn n l) d = nth (n + i) l d.
  Proof.
    induction n as [|n IH]; intros l i; [reflexivity|].
    destruct l as [|y l]; [destruct i; reflexivity|]. cbn [skipn plus nth]. apply IH.
  Qed.

  (* ---- eval *)
  Theorem eval_horner : forall (cs : list F) x, eval cs x = peval cs x.
  Proof.
    intros cs x. unfold eval. induction cs as [|c cs IH]; [reflexivity|].
    cbn [rev peval]. rewrite fold_left_app. cbn [fold_left]. rewrite IH. ring.
  Qed.

  Theorem eval_with_powers_spec : forall (c0 : F) (rest : list F) x,
    eval_with_powers (c0 :: rest) (powers_from x x (length rest)) = Some (peval (c0 :: rest) x).
  Proof.
    intros c0 rest x. unfold eval_with_powers. f_equal. cbn [peval].
    assert (G : forall (l : list F) (acc p : F),
               fold_left (fun acc xc => acc + snd xc * fst xc) (combine l (powers_from p x (length l))) acc
               = acc + p * peval l x).
    { induction l as [|a l IH]; intros acc p; cbn [length powers_from combine fold_left peval]; [ring|].
      rewrite IH. cbn [fst snd]. ring. }
    rewrite G. reflexivity.
  Qed.

  (* ---- degree_plus_one, trim *)
  Lemma is_nonzero_false (c : F) : is_nonzero_f c = false -> c = 0.
  Proof. unfold is_nonzero_f. intros H. apply negb_false_iff in H. apply f_eqb_spec. exact H. Qed.
  Lemma is_nonzero_true (c : F) : is_nonzero_f c = true -> c <> 0.
  Proof. unfold is_nonzero_f. intros H. apply negb_true_iff in H. apply feqb_false. exact H. Qed.

  Lemma degree_plus_one_le : forall p : list F, (degree_plus_one p <= length p)%nat.
  Proof.
    induction p as [|c p IH]; cbn [degree_plus_one length]; [lia|].
    destruct (degree_plus_one p); [destruct (is_nonzero_f c)|]; lia.
  Qed.

  Lemma degree_plus_one_zero_above : forall (p : list F) i, (degree_plus_one p <= i)%nat -> nth i p 0 = 0.
  Proof.
    induction p as [|c p IH]; intros i Hi; [destruct i; reflexivity|].
    cbn [degree_plus_one] in Hi. destruct (degree_plus_one p) as [|d] eqn:E.
    - destruct i as [|i].
      + destruct (is_nonzero_f c) eqn:Ec; [lia|]. cbn. apply is_nonzero_false. exact Ec.
      + cbn [nth]. apply IH. lia.
    - destruct i as [|i]; [lia|]. cbn [nth]. apply IH. lia.
  Qed.

  Lemma degree_plus_one_lead : forall (p : list F) d, degree_plus_one p = S d -> nth d p 0 <> 0.
  Proof.
    induction p as [|c p IH]; intros d Hd; [discriminate|].
    cbn [degree_plus_one] in Hd. destruct (degree_plus_one p) as [|d'] eqn:E.
    - destruct (is_nonzero_f c) eqn:Ec; [|discriminate]. inversion Hd; subst. cbn. apply is_nonzero_true. exact Ec.
    - inversion Hd; subst. cbn [nth]. apply IH. reflexivity.
  Qed.

  Lemma peval_firstn_zero_above : forall (p : list F) n x,
    (forall i, (n <= i)%nat -> nth i p 0 = 0) -> peval (firstn n p) x = peval p x.
  Proof.
    induction p as [|c p IH]; intros n x H; [destruct n; reflexivity|].
    destruct n as [|n]; cbn [firstn peval].
    - rewrite (peval_pzero p).
      + pose proof (H 0%nat ltac:(lia)) as H0. cbn in H0. rewrite H0. ring.
      + unfold pzero. apply Forall_forall. intros y Hy. destruct (In_nth p y 0 Hy) as [i [Hi E]].
        rewrite <- E. apply (H (S i)). lia.
    - rewrite IH; [reflexivity|]. intros i Hi. apply (H (S i)). lia.
  Qed.

  Theorem peval_trimmed : forall (p : list F) x, peval (trimmed p) x = peval p x.
  Proof. intros p x. unfold trimmed. apply peval_firstn_zero_above. apply degree_plus_one_zero_above. Qed.

  Lemma trimmed_length (p : list F) : length (trimmed p) = degree_plus_one p.
  Proof. unfold trimmed. rewrite firstn_length. pose proof (degree_plus_one_le p). lia. Qed.

  (* trim_to_len succeeds exactly when the dropped coefficients exist and are zero; the polynomial
     is unchanged *)
  Theorem trim_to_len_spec : forall (p : list F) (len : nat),
    match trim_to_len p len with
    | inl q => (len <= length p)%nat /\ q = firstn len p /\ length q = len /\
               (forall i, (len <= i)%nat -> nth i p 0 = 0) /\ forall x, peval q x = peval p x
    | inr _ => (length p < len)%nat \/ exists i, (len <= i < length p)%nat /\ nth i p 0 <> 0
    end.
  Proof.
    intros p len. unfold trim_to_len.
    destruct (Nat.ltb (length p) len) eqn:E.
    - apply Nat.ltb_lt in E. left. exact E.
    - apply Nat.ltb_ge in E.
      destruct (forallb is_zero_f (skipn len p)) eqn:Ez.
      + assert (Hz : forall i, (len <= i)%nat -> nth i p 0 = 0).
        { intros i Hi. rewrite forallb_forall in Ez.
          destruct (Nat.lt_ge_cases i (length p)) as [Hlt|Hge]; [|apply nth_overflow; lia].
          replace i with (len + (i - len))%nat by lia. rewrite <- nth_skipn'.
          apply f_eqb_spec. apply Ez. apply nth_In. rewrite skipn_length. lia. }
        split; [exact E|]. split; [reflexivity|]. split; [rewrite firstn_length; lia|].
        split; [exact Hz|]. intros x. apply peval_firstn_zero_above. exact Hz.
      + right. assert (Hex : exists y, In y (skipn len p) /\ is_zero_f y = false).
        { clear - Ez. induction (skipn len p) as [|y l IH]; [discriminate|].
          cbn in Ez. apply andb_false_iff in Ez. destruct Ez as [Hy|Hl].
          - exists y. split; [left; reflexivity|exact Hy].
          - destruct (IH Hl) as [y' [Hin Hy']]. exists y'. split; [right; exact Hin|exact Hy']. }
        destruct Hex as [y [Hin Hy]]. destruct (In_nth _ y 0 Hin) as [i [Hi Ei]].
        rewrite skipn_length in Hi. exists (len + i)%nat. split; [lia|].
        rewrite nth_skipn' in Ei. rewrite Ei. apply feqb_false. exact Hy.
  Qed.

  (* ---- divide_by_linear *)
  Lemma scan_horner_app z : forall (l : list F) c acc,
    scan_horner (l ++ [c]) z acc =
    scan_horner l z acc ++ [fold_left (fun a c => a * z + c) l acc * z + c].
  Proof.
    induction l as [|d l IH]; intros c acc; cbn [app scan_horner fold_left]; [reflexivity|].
    rewrite IH. reflexivity.
  Qed.

  Lemma scan_rev_cons (c : F) p z :
    scan_horner (rev (c :: p)) z 0 = scan_horner (rev p) z 0 ++ [peval (c :: p) z].
  Proof.
    cbn [rev]. rewrite scan_horner_app. f_equal. f_equal.
    change (fold_left (fun a c0 => a * z + c0) (rev p) 0) with (eval p z).
    rewrite eval_horner. cbn [peval]. ring.
  Qed.

  Lemma divide_by_linear_cons (c : F) p z : divide_by_linear (c :: p) z = rev (scan_horner (rev p) z 0).
  Proof. unfold divide_by_linear. rewrite scan_rev_cons, removelast_last. reflexivity. Qed.

  Lemma divide_by_linear_div_linear : forall (p : list F) z, divide_by_linear p z = fst (div_linear p z).
  Proof.
    induction p as [|c p IH]; intros z; [reflexivity|].
    rewrite divide_by_linear_cons. destruct p as [|d p']; [reflexivity|].
    rewrite div_linear_cons2. destruct (div_linear (d :: p') z) as [q' r'] eqn:E.
    cbn [fst]. rewrite scan_rev_cons, rev_app_distr. cbn [rev app].
    destruct (div_linear_spec _ _ _ _ E) as [Hr _]. rewrite Hr. f_equal.
    rewrite <- (divide_by_linear_cons d p' z), IH, E. reflexivity.
  Qed.

  (* p = (X - z) q + p(z), and q has one coefficient less *)
  Theorem divide_by_linear_spec : forall (p : list F) (z : F),
    let q := divide_by_linear p z in
    length q = pred (length p) /\ forall x, peval p x = (x - z) * peval q x + peval p z.
  Proof.
    intros p z q. unfold q. rewrite divide_by_linear_div_linear.
    destruct (div_linear p z) as [q' r'] eqn:E. cbn [fst].
    destruct (div_linear_spec p z q' r' E) as [Hr [Hl Hx]]. split; [exact Hl|].
    intros x. rewrite Hx, Hr. reflexivity.
  Qed.
End PolyProofs.

(* ---------------------------------------------------------------- FFT-based multiplication *)
Section Mul.
  Context {F : Type} {FO : FieldOps F} {FL : @FieldLaws F FO} {TA : TwoAdic F} {TL : TwoAdicLaws F}.
  Add Field Ffm : (@F_field_theory F FO FL).

  Definition log2_ceil_nat (n : nat) : nat := N.to_nat (log2_ceil (N.of_nat n)).

  Lemma next_power_of_two_eq n : next_power_of_two n = (2 ^ log2_ceil_nat n)%nat.
  Proof. reflexivity. Qed.

  Lemma next_power_of_two_ge n : (n <= next_power_of_two n)%nat.
  Proof.
    rewrite next_power_of_two_eq. unfold log2_ceil_nat, log2_ceil.
    pose proof (N.size_gt (N.of_nat n - 1)) as H.
    assert (E : N.of_nat (2 ^ N.to_nat (N.size (N.of_nat n - 1))) = (2 ^ N.size (N.of_nat n - 1))%N).
    { rewrite pow2_N, N2Nat.id. reflexivity. }
    lia.
  Qed.

  Lemma pmul_length_le : forall (a b : list F), (length (pmul a b) <= length a + length b)%nat.
  Proof.
    induction a as [|c a IH]; intros b; cbn [pmul length]; [lia|].
    rewrite padd_length, pscale_length. cbn [length]. specialize (IH b). lia.
  Qed.

  Lemma padded_ok (a : list F) n : (length a <= n)%nat -> padded a n = Some (a ++ repeat 0 (n - length a)).
  Proof.
    intros H. unfold padded. destruct (Nat.ltb n (length a)) eqn:E; [apply Nat.ltb_lt in E; lia|reflexivity].
  Qed.

  (* the product computed through the FFT is the schoolbook product, zero-padded to the
     power-of-two size the code uses *)
  Theorem mul_spec : forall (a b : list F),
    let K := log2_ceil_nat (length a + length b) in
    (K <= ta_two_adicity)%nat -> (K < 64)%nat ->
    poly_mul a b = Some (pmul a b ++ repeat 0 (2 ^ K - length (pmul a b))) /\
    forall c, poly_mul a b = Some c -> forall x, peval c x = peval a x * peval b x.
  Proof.
    intros a b K HK Hok.
    assert (Hmain : poly_mul a b = Some (pmul a b ++ repeat 0 (2 ^ K - length (pmul a b)))).
    { unfold poly_mul. rewrite next_power_of_two_eq. fold K.
      pose proof (next_power_of_two_ge (length a + length b)) as Hge. rewrite next_power_of_two_eq in Hge. fold K in Hge.
      rewrite !padded_ok by lia. cbn [bind].
      set (a' := a ++ repeat 0 (2 ^ K - length a)). set (b' := b ++ repeat 0 (2 ^ K - length b)).
      assert (La : length a' = (2 ^ K)%nat) by (unfold a'; rewrite app_length, repeat_length; lia).
      assert (Lb : length b' = (2 ^ K)%nat) by (unfold b'; rewrite app_length, repeat_length; lia).
      rewrite (fft_with_options_spec K a' None None HK Hok La I I).
      rewrite (fft_with_options_spec K b' None None HK Hok Lb I I). cbn [bind].
      set (p' := pmul a b ++ repeat 0 (2 ^ K - length (pmul a b))).
      pose proof (pmul_length_le a b) as Hpl.
      assert (Lp : length p' = (2 ^ K)%nat) by (unfold p'; rewrite app_length, repeat_length; lia).
      assert (Ev : zip_with fmul (dft (prou K) a') (dft (prou K) b') = dft (prou K) p').
      { apply (list_ext_nth _ _ 0).
        - rewrite zip_with_length by (rewrite !dft_length; lia). rewrite !dft_length. lia.
        - rewrite zip_with_length by (rewrite !dft_length; lia). rewrite dft_length, La. intros j Hj.
          rewrite (nth_zip_with fmul 0 0 0) by (rewrite !dft_length; lia).
          rewrite !nth_dft by lia. unfold a', b', p'. rewrite !peval_app_zeros. symmetry. apply peval_pmul. }
      rewrite Ev.
      rewrite (ifft_with_options_spec K _ None None HK Hok ltac:(rewrite dft_length; exact Lp) I I).
      f_equal. apply idft_dft; assumption. }
    split; [exact Hmain|].
    intros c Hc x. rewrite Hmain in Hc. inversion Hc; subst c. rewrite peval_app_zeros. apply peval_pmul.
  Qed.
End Mul.

(* ---------------------------------------------------------------- long division *)
Section LongDiv.
  Context {F : Type} {FO : FieldOps F} {FL : @FieldLaws F FO} {TA : TwoAdic F}.
  Add Field Ffl : (@F_field_theory F FO FL).

  Lemma nth_firstn {X} (d : X) : forall n (l : list X) i,
    nth i (firstn n l) d = if Nat.ltb i n then nth i l d else d.
  Proof.
    induction n as [|n IH]; intros l i; [destruct i; reflexivity|].
    destruct l as [|y l]; [destruct i, (Nat.ltb _ _); reflexivity|].
    destruct i as [|i]; [reflexivity|]. cbn [firstn nth]. rewrite IH. reflexivity.
  Qed.

  Lemma find_app' {X} (f : X -> bool) l1 l2 :
    find f (l1 ++ l2) = match find f l1 with Some x => Some x | None => find f l2 end.
  Proof. induction l1 as [|x l1 IH]; cbn [app find]; [reflexivity|]. destruct (f x); auto. Qed.

  Lemma find_rev_spec : forall p : list F,
    find is_nonzero_f (rev p) = match degree_plus_one p with O => None | S d => Some (nth d p 0) end.
  Proof.
    induction p as [|c p IH]; [reflexivity|].
    cbn [rev degree_plus_one]. rewrite find_app', IH.
    destruct (degree_plus_one p) as [|d]; [|reflexivity].
    cbn [find]. destruct (is_nonzero_f c); reflexivity.
  Qed.

  Lemma lead_spec (p : list F) d : degree_plus_one p = S d -> lead p = nth d p 0.
  Proof. intros H. unfold lead. rewrite find_rev_spec, H. reflexivity. Qed.

  Lemma degree_plus_one_bound : forall (p : list F) m, (forall i, (m <= i)%nat -> nth i p 0 = 0) ->
    (degree_plus_one p <= m)%nat.
  Proof.
    intros p m H. destruct (degree_plus_one p) as [|d] eqn:E; [lia|].
    destruct (Nat.le_gt_cases (S d) m) as [Hle|Hgt]; [exact Hle|].
    exfalso. apply (degree_plus_one_lead p d E). apply H. lia.
  Qed.

  Lemma degree_plus_one_trimmed (p : list F) : degree_plus_one (trimmed p) = degree_plus_one p.
  Proof.
    apply Nat.le_antisymm.
    - pose proof (degree_plus_one_le (trimmed p)). rewrite trimmed_length in H. exact H.
    - destruct (degree_plus_one p) as [|d] eqn:E; [lia|].
      destruct (Nat.le_gt_cases (S d) (degree_plus_one (trimmed p))) as [Hle|Hgt]; [exact Hle|].
      exfalso. apply (degree_plus_one_lead p d E).
      pose proof (degree_plus_one_zero_above (trimmed p) d ltac:(lia)) as Hz.
      unfold trimmed in Hz. rewrite E in Hz. rewrite nth_firstn in Hz.
      destruct (Nat.ltb d (S d)) eqn:El; [exact Hz|apply Nat.ltb_ge in El; lia].
  Qed.

  Lemma poly_is_zero_dpo (p : list F) : poly_is_zero p = true <-> degree_plus_one p = 0%nat.
  Proof.
    unfold poly_is_zero. induction p as [|c p IHp]; cbn [forallb degree_plus_one]; [tauto|].
    unfold is_zero_f at 1. unfold is_nonzero_f.
    destruct (c =? 0) eqn:Ec; cbn [andb negb].
    - rewrite IHp. destruct (degree_plus_one p); [tauto|]. split; discriminate.
    - split; [discriminate|]. destruct (degree_plus_one p); discriminate.
  Qed.

  Lemma nth_set_nth {X} (d : X) : forall (l : list X) i j v,
    nth j (set_nth l i v) d = if Nat.eqb i j then (if Nat.ltb i (length l) then v else nth j l d) else nth j l d.
  Proof.
    induction l as [|x l IHl]; intros i j v.
    - cbn [set_nth length]. destruct i; cbn [set_nth]; destruct (Nat.eqb _ j); reflexivity.
    - destruct i as [|i], j as [|j]; cbn [set_nth nth Nat.eqb length]; try reflexivity.
      rewrite IHl. destruct (Nat.eqb i j); [|reflexivity].
      change (Nat.ltb (S i) (S (length l))) with (Nat.ltb i (length l)). reflexivity.
  Qed.

  Lemma peval_set_nth_zero : forall (q : list F) d c x, (d < length q)%nat -> nth d q 0 = 0 ->
    peval (set_nth q d c) x = peval q x + c * fpow x d.
  Proof.
    induction q as [|a q IH]; intros d c x Hd Hz; [cbn in Hd; lia|].
    destruct d as [|d]; cbn [set_nth peval fpow nth] in *.
    - rewrite Hz. ring.
    - rewrite IH; [ring | cbn [length] in Hd; lia | exact Hz].
  Qed.

  Lemma sub_scaled_at_spec : forall (rem : list F) d c (b : list F), (d + length b <= length rem)%nat ->
    exists rem', sub_scaled_at rem d c b = Some rem' /\ length rem' = length rem /\
      (forall i, nth i rem' 0 = nth i rem 0 - c * (if (Nat.leb d i) then nth (i - d) b 0 else 0)) /\
      forall x, peval rem' x = peval rem x - c * fpow x d * peval b x.
  Proof.
    intros rem d. revert rem. induction d as [|d IHd].
    - (* at_ = 0: subtract along b *)
      intros rem c b. revert rem. induction b as [|e b IHb]; intros rem Hl.
      + exists rem. split; [destruct rem; reflexivity|]. split; [reflexivity|]. split.
        * intros i. cbn [Nat.leb]. destruct (i - 0)%nat; cbn; ring.
        * intros x. cbn. ring.
      + destruct rem as [|y rem]; [cbn in Hl; lia|].
        destruct (IHb rem ltac:(cbn in Hl; lia)) as [t [E [L [Hn Hp]]]].
        cbn [sub_scaled_at]. rewrite E. eexists. split; [reflexivity|]. split; [cbn; lia|]. split.
        * intros [|i]; cbn [nth Nat.leb Nat.sub]; [ring|]. rewrite Hn. cbn [Nat.leb]. rewrite Nat.sub_0_r. reflexivity.
        * intros x. cbn [peval fpow]. rewrite Hp. cbn [fpow]. ring.
    - intros rem c b Hl. destruct rem as [|y rem]; [cbn in Hl; lia|].
      destruct (IHd rem c b ltac:(cbn in Hl; lia)) as [t [E [L [Hn Hp]]]].
      cbn [sub_scaled_at]. rewrite E. eexists. split; [reflexivity|]. split; [cbn; lia|]. split.
      + intros [|i]; cbn [nth Nat.leb Nat.sub]; [ring|]. rewrite Hn. reflexivity.
      + intros x. cbn [peval fpow]. rewrite Hp. ring.
  Qed.

  Section Loop.
    Variables (a b : list F).
    Let b_d := degree_plus_one b.
    Hypothesis b_trim : length b = b_d.
    Variable lb : F.
    Hypothesis Hlb : forall d, b_d = S d -> nth d b 0 = lb.
    Hypothesis Hlb0 : lb <> 0.
    Hypothesis Hbd : (1 <= b_d)%nat.

    Definition ld_inv (q rem : list F) : Prop :=
      (forall x, peval a x = peval q x * peval b x + peval rem x) /\
      (length q = degree_plus_one a - b_d + 1)%nat /\
      (forall i, (i + b_d <= degree_plus_one rem)%nat -> nth i q 0 = 0) /\
      (degree_plus_one rem <= degree_plus_one a)%nat.

    Lemma long_div_loop_ok : forall fuel q rem, ld_inv q rem -> (degree_plus_one rem < fuel)%nat ->
      exists q' r', long_div_loop fuel b b_d (finv lb) q rem = Some (q', r') /\
                    (forall x, peval a x = peval q' x * peval b x + peval r' x) /\
                    (degree_plus_one r' < b_d)%nat.
    Proof.
      induction fuel as [|fuel IH]; intros q rem Hinv Hf; [lia|].
      destruct Hinv as [I1 [I2 [I3 I4]]].
      cbn [long_div_loop].
      destruct (orb (poly_is_zero rem) (Nat.ltb (degree_plus_one rem) b_d)) eqn:Estop.
      - exists q, rem. split; [reflexivity|]. split; [exact I1|].
        apply orb_true_iff in Estop. destruct Estop as [Hz|Hlt].
        + apply poly_is_zero_dpo in Hz. lia.
        + apply Nat.ltb_lt in Hlt. exact Hlt.
      - apply orb_false_iff in Estop. destruct Estop as [_ Hge]. apply Nat.ltb_ge in Hge.
        set (dr := degree_plus_one rem) in *.
        destruct dr as [|dr'] eqn:Edr; [lia|].
        set (d := (S dr' - b_d)%nat).
        assert (Hq : Nat.leb (length q) d = false) by (apply Nat.leb_gt; unfold d; lia).
        rewrite Hq.
        pose proof (degree_plus_one_le rem) as Hrl. fold dr in Hrl. rewrite Edr in Hrl.
        destruct (sub_scaled_at_spec rem d (lead rem * finv lb) b ltac:(unfold d; lia)) as [rem' [E [L [Hn Hp]]]].
        rewrite E.
        assert (Hlead : lead rem = nth dr' rem 0) by (apply lead_spec; exact Edr).
        assert (Hdec : (degree_plus_one rem' <= dr')%nat).
        { apply degree_plus_one_bound. intros i Hi. rewrite Hn.
          replace (Nat.leb d i) with true by (symmetry; apply Nat.leb_le; unfold d; lia).
          destruct (Nat.eq_dec i dr') as [->|Hne].
          - destruct b_d as [|bd'] eqn:Ebd; [lia|].
            replace (dr' - d)%nat with bd' by (unfold d; lia). rewrite (Hlb bd' eq_refl), Hlead.
            transitivity (nth dr' rem 0 - nth dr' rem 0 * (finv lb * lb)); [ring|]. rewrite f_inv_l by exact Hlb0. ring.
          - rewrite (degree_plus_one_zero_above rem i) by (fold dr; lia).
            rewrite (nth_overflow b) by (unfold d; lia). ring. }
        apply (IH (set_nth q d (lead rem * finv lb)) (trimmed rem')).
        + split; [|split; [|split]].
          * intros x. rewrite peval_trimmed, Hp, peval_set_nth_zero by (try apply I3; unfold d; lia).
            rewrite I1. ring.
          * rewrite set_nth_length. exact I2.
          * intros i Hi. rewrite degree_plus_one_trimmed in Hi. rewrite nth_set_nth.
            destruct (Nat.eqb d i) eqn:Edi; [apply Nat.eqb_eq in Edi; unfold d in Edi; lia|].
            apply I3. fold dr. lia.
          * rewrite degree_plus_one_trimmed. lia.
        + rewrite degree_plus_one_trimmed. lia.
    Qed.
  End Loop.

  (* a = q b + r and deg r < deg b, for every divisor that is not the zero polynomial *)
  Theorem div_rem_long_spec : forall (a b : list F), degree_plus_one b <> 0%nat ->
    exists q r, div_rem_long_division a b = Some (q, r) /\
                (forall x, peval a x = peval q x * peval b x + peval r x) /\
                (degree_plus_one r < degree_plus_one b)%nat.
  Proof.
    intros a b Hb. unfold div_rem_long_division.
    rewrite degree_plus_one_trimmed.
    destruct (Nat.eqb (degree_plus_one a) 0) eqn:Ea0.
    - apply Nat.eqb_eq in Ea0. exists [0], []. split; [reflexivity|]. split; [|cbn; lia].
      intros x. rewrite <- (peval_trimmed a). unfold trimmed. rewrite Ea0. cbn. ring.
    - apply Nat.eqb_neq in Ea0.
      destruct (Nat.eqb (degree_plus_one b) 0) eqn:Eb0; [apply Nat.eqb_eq in Eb0; contradiction|].
      destruct (Nat.ltb (degree_plus_one a) (degree_plus_one b)) eqn:Elt.
      + apply Nat.ltb_lt in Elt. exists [0], a. split; [reflexivity|]. split; [intros x; cbn; ring|exact Elt].
      + apply Nat.ltb_ge in Elt.
        destruct (degree_plus_one b) as [|bd] eqn:Ebd; [contradiction|].
        assert (Hl : lead (trimmed b) = nth bd b 0).
        { rewrite (lead_spec (trimmed b) bd) by (rewrite degree_plus_one_trimmed; exact Ebd).
          unfold trimmed. rewrite Ebd, nth_firstn.
          destruct (Nat.ltb bd (S bd)) eqn:El; [reflexivity|apply Nat.ltb_ge in El; lia]. }
        assert (Hnz : nth bd b 0 <> 0) by (apply degree_plus_one_lead; exact Ebd).
        unfold inverse. rewrite Hl. destruct (nth bd b 0 =? 0) eqn:Ez; [apply f_eqb_spec in Ez; contradiction|].
        cbn [bind].
        destruct (long_div_loop_ok a (trimmed b)
                    ltac:(rewrite trimmed_length, degree_plus_one_trimmed; reflexivity)
                    (nth bd b 0)
                    ltac:(intros d Hd; rewrite degree_plus_one_trimmed, Ebd in Hd; inversion Hd; subst;
                          unfold trimmed; rewrite Ebd, nth_firstn;
                          destruct (Nat.ltb d (S d)) eqn:El; [reflexivity|apply Nat.ltb_ge in El; lia])
                    Hnz
                    ltac:(rewrite degree_plus_one_trimmed, Ebd; lia)
                    (S (length a)) (repeat 0 (degree_plus_one a - S bd + 1)) a) as [q' [r' [E [H1 H2]]]].
        * split; [|split; [|split]].
          -- intros x. rewrite (peval_pzero (repeat 0 _)); [ring|].
             unfold pzero. apply Forall_forall. intros y Hy. apply repeat_spec in Hy. exact Hy.
          -- rewrite repeat_length, degree_plus_one_trimmed, Ebd. reflexivity.
          -- intros i _. destruct (Nat.lt_ge_cases i (degree_plus_one a - S bd + 1)) as [Hlt|Hge];
               [apply nth_repeat|apply nth_overflow; rewrite repeat_length; exact Hge].
          -- lia.
        * pose proof (degree_plus_one_le a). lia.
        * rewrite degree_plus_one_trimmed, Ebd in E, H2. exists q', r'. split; [exact E|]. split; [|exact H2].
          intros x. rewrite H1, peval_trimmed. reflexivity.
  Qed.

  Theorem div_rem_long_zero_divisor : forall (a b : list F),
    degree_plus_one a <> 0%nat -> degree_plus_one b = 0%nat -> div_rem_long_division a b = None.
  Proof.
    intros a b Ha Hb. unfold div_rem_long_division. rewrite degree_plus_one_trimmed, Hb.
    apply Nat.eqb_neq in Ha. rewrite Ha. reflexivity.
  Qed.
End LongDiv.

(* ---------------------------------------------------------------- the Goldilocks instance *)
From Verif Require Import Gen.FieldConsts Model.Fp Proofs.FpField Proofs.FpFieldPrime.

Lemma Fp_generator_root : is_root (F := Fp) ta_generator ta_two_adicity.
Proof.
  change (@ta_two_adicity Fp FpTwoAdic) with 32%nat.
  split.
  - rewrite <- (exp_power_of_2_fpow (FL := FpLaws)). apply Fp_ext. vm_compute. reflexivity.
  - intros k' E. assert (k' = 31)%nat by lia. subst k'.
    rewrite <- (exp_power_of_2_fpow (FL := FpLaws)). apply Fp_ext. vm_compute. reflexivity.
Qed.

Lemma Fp_inverse_2exp_ok : forall k, (k <= ta_two_adicity)%nat ->
  (@ta_inverse_2exp Fp FpTwoAdic k * two_pow_f k = 1)%F.
Proof.
  change (@ta_two_adicity Fp FpTwoAdic) with 32%nat. intros k Hk.
  assert (C : forallb (fun k => fval (@ta_inverse_2exp Fp FpTwoAdic k * two_pow_f k)%F =? 1)%Z (seq 0 33) = true)
    by (vm_compute; reflexivity).
  rewrite forallb_forall in C. specialize (C k ltac:(apply in_seq; lia)).
  apply Fp_ext. apply Z.eqb_eq in C. rewrite C. reflexivity.
Qed.

Global Instance FpTwoAdicLaws : TwoAdicLaws Fp := {|
  ta_generator_root := Fp_generator_root;
  ta_inverse_2exp_ok := Fp_inverse_2exp_ok;
|}.

(* ---------------------------------------------------------------- div_rem (Newton inversion path)
   History: the model of the code before /repo commit 119d559 refuted the defining identity here
   (theorems div_rem_newton_refuted, inv_mod_xn_refuted, inv_mod_xn_panics: inv_mod_xn appended the
   trimmed Newton correction at the wrong offset, and div_rem trimmed rev_q before reversing it).
   Both defects were repaired by that commit; the model mirrors the repaired code. *)

(* ---------------------------------------------------------------- interpolation (partial results) *)
Local Open Scope field_scope.
Section Interp.
  Context {F : Type} {FO : FieldOps F} {FL : @FieldLaws F FO} {TA : TwoAdic F}.
  Add Field Ffi : (@F_field_theory F FO FL).

  (* the line through (a0, a1) and (b0, b1); equal abscissae panic (assert_ne!) *)
  Theorem interpolate2_spec : forall a0 a1 b0 b1 x : F,
    (a0 = b0 -> interpolate2 a0 a1 b0 b1 x = None) /\
    (a0 <> b0 -> exists v, interpolate2 a0 a1 b0 b1 x = Some v /\
                           v * (b0 - a0) = a1 * (b0 - a0) + (x - a0) * (b1 - a1) /\
                           (x = a0 -> v = a1) /\ (x = b0 -> v = b1)).
  Proof.
    intros a0 a1 b0 b1 x. unfold interpolate2, inverse. split.
    - intros ->. rewrite feqb_refl. reflexivity.
    - intros Hne. assert (E : (a0 =? b0) = false) by (apply feqb_false; exact Hne). rewrite E.
      assert (Hd : b0 - a0 <> 0) by (intros Z; apply Hne; symmetry; apply f_sub_eq_0; exact Z).
      assert (E2 : (b0 - a0 =? 0) = false) by (apply feqb_false; exact Hd). rewrite E2. cbn [bind].
      eexists. split; [reflexivity|]. split; [field_simplify; [reflexivity|exact Hd]|]. split.
      + intros ->. field. exact Hd.
      + intros ->. field. exact Hd.
  Qed.

  (* interpolate returns the stored ordinate on a node (the branch that avoids the division by zero) *)
  Theorem interpolate_on_node_partial : forall (points : list (F * F)) (w : list F) i x_i y_i,
    nth_error points i = Some (x_i, y_i) ->
    (forall j p, (j < i)%nat -> nth_error points j = Some p -> fst p <> x_i) ->
    interpolate points x_i w = Some y_i.
  Proof.
    intros points w. induction points as [|[px py] points IH]; intros i x_i y_i Hn Hfirst.
    - destruct i; discriminate.
    - unfold interpolate. cbn [find fst]. destruct i as [|i].
      + cbn in Hn. inversion Hn; subst. rewrite feqb_refl. reflexivity.
      + assert (E : (px =? x_i) = false).
        { apply feqb_false. apply (Hfirst O (px, py)); [lia|reflexivity]. }
        rewrite E. cbn [nth_error] in Hn.
        specialize (IH i x_i y_i Hn ltac:(intros j p Hj Hp; apply (Hfirst (S j) p); [lia|exact Hp])).
        unfold interpolate in IH. destruct (find (fun p => fst p =? x_i) points) as [[? ?]|] eqn:Ef.
        * exact IH.
        * exfalso. apply nth_error_In in Hn. apply (find_none _ _ Ef) in Hn. cbn in Hn. rewrite feqb_refl in Hn. discriminate.
  Qed.
End Interp.
