(* C03 for the PLONK verifier model: acceptance pins every vector length of the proof to the
   common data ([shape_pins_lengths]), a proof with any length changed is rejected, and the
   claimed openings line up position by position with the polynomials of the FRI instance. *)
From Coq Require Import ZArith List Bool Lia Arith PeanoNat.
From Verif Require Import Base.Field Model.Fp Model.Fp2 Model.FieldGeneric Model.PoseidonSpec
  Model.Fri Model.Gates Model.Plonk Proofs.Fp2Field Proofs.FriShape Proofs.PlonkVerifier.
Import ListNotations.
Local Open Scope nat_scope.

Local Opaque poseidon p_hash_or_noop p_two_to_one p_hash_no_pad duplexing get_challenges.
Local Opaque check_lookup_constraints evaluate_gate_constraints eval_l_0.

(* ------------------------------------------------------------------ list helpers *)
Lemma map_repeat_of_Forall {A B} (f : A -> B) (x : B) (l : list A) :
  Forall (fun a => f a = x) l -> map f l = repeat x (length l).
Proof. induction 1 as [|a l Ha _ IH]; cbn [map length repeat]; [reflexivity|]. rewrite Ha, IH. reflexivity. Qed.

Lemma nth_error_repeat {A} (x : A) n k : k < n -> nth_error (repeat x n) k = Some x.
Proof. revert k. induction n as [|n IH]; intros [|k] Hk; cbn; try lia; [reflexivity|]. apply IH. lia. Qed.

Lemma map_eq_repeat_inv {A B} (f : A -> B) (x : B) (l : list A) n :
  map f l = repeat x n -> length l = n /\ forall k a, nth_error l k = Some a -> f a = x.
Proof.
  intros E. assert (Hl : length l = n) by (rewrite <- (map_length f l), E, repeat_length; reflexivity).
  split; [exact Hl|]. intros k a Hk.
  assert (Hk' : nth_error (map f l) k = Some (f a)) by (rewrite nth_error_map, Hk; reflexivity).
  rewrite E, nth_error_repeat in Hk'; [congruence|]. rewrite <- Hl. apply nth_error_Some. congruence.
Qed.

(* ------------------------------------------------------------------ the shape signature of a proof *)
(* All lengths of all vectors of a proof, as one value. *)
Record shape_sig := {
  sg_caps : list nat;                  (* wires, zs/partial products, quotient cap *)
  sg_openings : list nat;              (* the nine opening vectors, in the order of OpeningSet *)
  sg_public_inputs : nat;
  sg_commit_caps : list nat;           (* one entry per commit-phase cap: its length *)
  sg_rounds : list (list (nat * nat) * list (nat * nat));
     (* per query round: per oracle (leaf length, path length); per step (evals, path length) *)
  sg_final_poly : nat }.

Definition initial_lens (lp : list Fp * list digest) : nat * nat := (length (fst lp), length (snd lp)).

Definition round_sig (q : fri_query_round) : list (nat * nat) * list (nat * nat) :=
  (map initial_lens (qr_initial q), map step_lens (qr_steps q)).

Definition openings_sig (os : opening_set) : list nat :=
  [ length (os_constants os); length (os_sigmas os); length (os_wires os); length (os_zs os);
    length (os_zs_next os); length (os_partial_products os); length (os_quotient os);
    length (os_lookup_zs os); length (os_lookup_zs_next os) ].

Definition proof_sig (pr : proof) : shape_sig :=
  {| sg_caps := [length (wires_cap pr); length (zs_pp_cap pr); length (quotient_cap pr)];
     sg_openings := openings_sig (openings pr);
     sg_public_inputs := length (public_inputs pr);
     sg_commit_caps := map (@length digest) (fp_caps (opening_proof pr));
     sg_rounds := map round_sig (fp_rounds (opening_proof pr));
     sg_final_poly := length (fp_final (opening_proof pr)) |}.

(* ---- the signature determined by the common data *)
Definition expected_leaf_lens (cd : common_data) : list nat :=
  let c := cd_config cd in
  let s := salt_size (hiding (cd_fri_params cd)) in
  let nch := num_challenges c in
  [ cd_num_constants cd + num_routed_wires c;
    num_wires c + s;
    nch * (1 + num_partial_products cd) + nch * num_lookup_polys cd + s;
    nch * quotient_degree_factor cd + s ].

Fixpoint expected_steps (arities : list nat) (cw ch : nat) : list (nat * nat) :=
  match arities with
  | [] => []
  | a :: t => (2 ^ a, cw - a - ch) :: expected_steps t (cw - a) ch
  end.

Definition expected_round_sig (cd : common_data) : list (nat * nat) * list (nat * nat) :=
  let p := cd_fri_params cd in
  let ch := cap_height (config p) in
  (map (fun n => (n, lde_bits p - ch)) (expected_leaf_lens cd),
   expected_steps (reduction_arity_bits p) (lde_bits p) ch).

Definition expected_sig (cd : common_data) : shape_sig :=
  let c := cd_config cd in
  let p := cd_fri_params cd in
  let caplen := 2 ^ cap_height (config p) in
  {| sg_caps := [caplen; caplen; caplen];
     sg_openings := [ cd_num_constants cd; num_routed_wires c; num_wires c; num_challenges c;
                      num_challenges c; num_challenges c * num_partial_products cd;
                      num_quotient_polys cd; num_all_lookup_polys cd; num_all_lookup_polys cd ];
     sg_public_inputs := num_public_inputs cd;
     sg_commit_caps := repeat caplen (length (reduction_arity_bits p));
     sg_rounds := repeat (expected_round_sig cd) (num_query_rounds (config p));
     sg_final_poly := final_poly_len p |}.

(* every vector of the proof has the length determined by the common data *)
Definition proof_shape (cd : common_data) (pr : proof) : Prop := proof_sig pr = expected_sig cd.

(* ------------------------------------------------------------------ from the validators to the signature *)
Lemma leaf_lens_instance cd zeta :
  leaf_lens (get_fri_instance cd zeta) (cd_fri_params cd) = expected_leaf_lens cd.
Proof.
  unfold leaf_lens, get_fri_instance, expected_leaf_lens. cbv zeta.
  cbn [oracles map num_polys blinding andb]. unfold salt_size at 1. cbn [andb].
  destruct (hiding (cd_fri_params cd)); cbn [salt_size andb]; (f_equal; lia).
Qed.

Lemma steps_sig steps : forall arities cw ch,
  steps_shape_ok steps arities cw ch = true -> map step_lens steps = expected_steps arities cw ch.
Proof.
  induction steps as [|s st IH]; intros [|a at'] cw ch Hs; cbn [steps_shape_ok] in Hs; try discriminate;
    [reflexivity|].
  apply andb_true_iff in Hs. destruct Hs as [Hs H3]. apply andb_true_iff in Hs. destruct Hs as [H1 H2].
  apply Nat.eqb_eq in H1. apply Nat.eqb_eq in H2.
  cbn [map expected_steps]. rewrite (IH _ _ _ H3). unfold step_lens at 1. rewrite H1.
  replace (length (fs_siblings s)) with (cw - a - ch) by lia. reflexivity.
Qed.

Lemma initial_sig ch bits : forall (l : list (list Fp * list digest)) (m : list nat),
  length l = length m ->
  forallb (fun pr : (list Fp * list digest) * nat =>
             Nat.eqb (length (fst (fst pr))) (snd pr) && Nat.eqb (length (snd (fst pr)) + ch) bits)
          (combine l m) = true ->
  map initial_lens l = map (fun n => (n, bits - ch)) m.
Proof.
  induction l as [|lp l IH]; intros [|n m] Hl Hf; cbn in Hl; try discriminate; [reflexivity|].
  cbn [combine forallb] in Hf. apply andb_true_iff in Hf. destruct Hf as [Hh Hf].
  cbn [fst snd] in Hh. apply andb_true_iff in Hh. destruct Hh as [H1 H2].
  apply Nat.eqb_eq in H1. apply Nat.eqb_eq in H2.
  cbn [map]. rewrite (IH m) by (auto; lia). unfold initial_lens at 1. rewrite H1.
  replace (length (snd lp)) with (bits - ch) by lia. reflexivity.
Qed.

Lemma round_sig_of_shape inst p q :
  round_shape_ok inst p q = true ->
  round_sig q = (map (fun n => (n, lde_bits p - cap_height (config p))) (leaf_lens inst p),
                 expected_steps (reduction_arity_bits p) (lde_bits p) (cap_height (config p))).
Proof.
  unfold round_shape_ok. intros Hr.
  apply andb_true_iff in Hr. destruct Hr as [Hr H4]. apply andb_true_iff in Hr. destruct Hr as [Hr H3].
  apply andb_true_iff in Hr. destruct Hr as [H1 H2]. apply Nat.eqb_eq in H1.
  unfold round_sig. f_equal.
  - apply initial_sig; [|exact H2]. unfold leaf_lens. rewrite map_length. exact H1.
  - apply steps_sig. exact H4.
Qed.

Lemma fri_sig_of_shape cd zeta fp :
  validate_fri_proof_shape (get_fri_instance cd zeta) (cd_fri_params cd) fp = true ->
  map (@length digest) (fp_caps fp)
  = repeat (2 ^ cap_height (config (cd_fri_params cd))) (length (reduction_arity_bits (cd_fri_params cd)))
  /\ map round_sig (fp_rounds fp) = repeat (expected_round_sig cd) (length (fp_rounds fp))
  /\ length (fp_final fp) = final_poly_len (cd_fri_params cd).
Proof.
  intros Hv. destruct (validate_fri_proof_shape_inv _ _ _ Hv) as [Hcl [Hcaps [Hrounds Hfin]]].
  split; [|split; [|exact Hfin]].
  - rewrite <- Hcl. apply map_repeat_of_Forall. exact Hcaps.
  - apply map_repeat_of_Forall. apply Forall_forall. intros q Hq. rewrite Forall_forall in Hrounds.
    rewrite (round_sig_of_shape _ _ _ (Hrounds q Hq)), leaf_lens_instance. reflexivity.
Qed.

(* ------------------------------------------------------------------ 6. acceptance pins all lengths *)
Lemma accept_proof_shape cd vo pr pih ch :
  validate_proof_shape cd pr = true -> verify_with_challenges cd vo pr pih ch = Accept ->
  proof_shape cd pr.
Proof.
  intros Hv Ha. apply accept_iff in Ha. destruct Ha as [van [_ [_ Hfri]]].
  unfold fri_verdict in Hfri. apply verify_fri_proof_accept_shape in Hfri.
  destruct Hfri as [Hfs [_ [Hnr _]]].
  destruct (fri_sig_of_shape _ _ _ Hfs) as [Hc [Hr Hf]]. rewrite Hnr in Hr.
  pose proof (validate_proof_shape_inv cd pr Hv) as Hs. cbv zeta in Hs.
  destruct Hs as [H1 [H2 [H3 [H4 [H5 [H6 [H7 [H8 [H9 [H10 [H11 [H12 H13]]]]]]]]]]]].
  unfold proof_shape, proof_sig, expected_sig, openings_sig. cbv zeta.
  rewrite H1, H2, H3, H4, H5, H6, H7, H8, H9, H10, H11, H12, H13, Hc, Hr, Hf. reflexivity.
Qed.

Theorem shape_pins_lengths cd vo pr : verify cd vo pr = Accept -> proof_shape cd pr.
Proof.
  intros Ha. apply (accept_proof_shape cd vo pr _ _ (verify_accept_shape _ _ _ Ha)
                                       (verify_accept_with_challenges _ _ _ Ha)).
Qed.

(* two proofs accepted for the same circuit - under any verifier data - have identical shapes;
   equivalently: changing the length of ANY vector of an accepted proof (shortening, emptying,
   appending, duplicating an element - every such edit changes the signature) gives a proof that
   is not accepted *)
Corollary truncated_or_extended_rejected cd vo vo' pr pr' :
  verify cd vo pr = Accept -> proof_sig pr' <> proof_sig pr -> verify cd vo' pr' <> Accept.
Proof.
  intros Ha Hne Ha'. apply shape_pins_lengths in Ha. apply shape_pins_lengths in Ha'.
  unfold proof_shape in *. congruence.
Qed.

(* ---- the signature read back vector by vector *)
Lemma nth_error_expected_steps : forall arities cw ch j a,
  nth_error arities j = Some a ->
  nth_error (expected_steps arities cw ch) j
  = Some (2 ^ a, cw - fold_right Nat.add 0 (firstn (S j) arities) - ch).
Proof.
  induction arities as [|a0 t IH]; intros cw ch [|j] a E; cbn [nth_error] in E; try discriminate.
  - inversion E; subst. cbn [expected_steps nth_error firstn fold_right]. do 2 f_equal. lia.
  - cbn [expected_steps nth_error]. rewrite (IH _ _ _ _ E). cbn [firstn fold_right]. do 2 f_equal. lia.
Qed.

Record proof_shape_facts (cd : common_data) (pr : proof) : Prop := {
  psf_wires_cap : length (wires_cap pr) = 2 ^ cap_height (config (cd_fri_params cd));
  psf_zs_pp_cap : length (zs_pp_cap pr) = 2 ^ cap_height (config (cd_fri_params cd));
  psf_quotient_cap : length (quotient_cap pr) = 2 ^ cap_height (config (cd_fri_params cd));
  psf_constants : length (os_constants (openings pr)) = cd_num_constants cd;
  psf_sigmas : length (os_sigmas (openings pr)) = num_routed_wires (cd_config cd);
  psf_wires : length (os_wires (openings pr)) = num_wires (cd_config cd);
  psf_zs : length (os_zs (openings pr)) = num_challenges (cd_config cd);
  psf_zs_next : length (os_zs_next (openings pr)) = num_challenges (cd_config cd);
  psf_partial_products : length (os_partial_products (openings pr))
                         = num_challenges (cd_config cd) * num_partial_products cd;
  psf_quotient : length (os_quotient (openings pr)) = num_quotient_polys cd;
  psf_lookup_zs : length (os_lookup_zs (openings pr)) = num_all_lookup_polys cd;
  psf_lookup_zs_next : length (os_lookup_zs_next (openings pr)) = num_all_lookup_polys cd;
  psf_public_inputs : length (public_inputs pr) = num_public_inputs cd;
  psf_num_commit_caps : length (fp_caps (opening_proof pr)) = length (reduction_arity_bits (cd_fri_params cd));
  psf_commit_cap : forall k c, nth_error (fp_caps (opening_proof pr)) k = Some c ->
                     length c = 2 ^ cap_height (config (cd_fri_params cd));
  psf_num_rounds : length (fp_rounds (opening_proof pr)) = num_query_rounds (config (cd_fri_params cd));
  psf_num_oracles : forall r q, nth_error (fp_rounds (opening_proof pr)) r = Some q ->
                      length (qr_initial q) = 4;
  psf_leaf_and_path : forall r q k lp, nth_error (fp_rounds (opening_proof pr)) r = Some q ->
                        nth_error (qr_initial q) k = Some lp ->
                        nth_error (expected_leaf_lens cd) k = Some (length (fst lp))
                        /\ length (snd lp) = lde_bits (cd_fri_params cd) - cap_height (config (cd_fri_params cd));
  psf_num_steps : forall r q, nth_error (fp_rounds (opening_proof pr)) r = Some q ->
                    length (qr_steps q) = length (reduction_arity_bits (cd_fri_params cd));
  psf_step : forall r q j s a, nth_error (fp_rounds (opening_proof pr)) r = Some q ->
               nth_error (qr_steps q) j = Some s ->
               nth_error (reduction_arity_bits (cd_fri_params cd)) j = Some a ->
               length (fs_evals s) = 2 ^ a
               /\ length (fs_siblings s)
                  = cw_after (cd_fri_params cd) (S j) - cap_height (config (cd_fri_params cd));
  psf_final_poly : length (fp_final (opening_proof pr)) = final_poly_len (cd_fri_params cd) }.

Lemma expected_steps_length arities : forall cw ch, length (expected_steps arities cw ch) = length arities.
Proof. induction arities; intros; cbn [expected_steps length]; [reflexivity|]. rewrite IHarities. reflexivity. Qed.

Lemma proof_shape_explicit cd pr : proof_shape cd pr -> proof_shape_facts cd pr.
Proof.
  unfold proof_shape, proof_sig, expected_sig, openings_sig. cbv zeta. intros E.
  injection E. intros Hf Hr Hcc Hpi O9 O8 O7 O6 O5 O4 O3 O2 O1 H3 H2 H1.
  apply map_eq_repeat_inv in Hcc. destruct Hcc as [Hcl Hcc].
  apply map_eq_repeat_inv in Hr. destruct Hr as [Hrl Hr].
  assert (Hround : forall r q, nth_error (fp_rounds (opening_proof pr)) r = Some q ->
            map initial_lens (qr_initial q)
            = map (fun n => (n, lde_bits (cd_fri_params cd) - cap_height (config (cd_fri_params cd))))
                  (expected_leaf_lens cd)
            /\ map step_lens (qr_steps q)
               = expected_steps (reduction_arity_bits (cd_fri_params cd)) (lde_bits (cd_fri_params cd))
                                (cap_height (config (cd_fri_params cd)))).
  { intros r q Hq. specialize (Hr r q Hq). unfold round_sig, expected_round_sig in Hr. cbv zeta in Hr.
    injection Hr as Ha Hb. split; assumption. }
  constructor; try assumption.
  - intros r q Hq. destruct (Hround r q Hq) as [Ha _].
    apply (f_equal (@length _)) in Ha. rewrite !map_length in Ha. exact Ha.
  - intros r q k lp Hq Hk. destruct (Hround r q Hq) as [Ha _].
    assert (Hk' : nth_error (map initial_lens (qr_initial q)) k = Some (initial_lens lp))
      by (rewrite nth_error_map, Hk; reflexivity).
    rewrite Ha, nth_error_map in Hk'.
    destruct (nth_error (expected_leaf_lens cd) k) as [n|]; [|discriminate].
    cbn [option_map] in Hk'. unfold initial_lens in Hk'. inversion Hk'; subst. split; reflexivity.
  - intros r q Hq. destruct (Hround r q Hq) as [_ Hb].
    apply (f_equal (@length _)) in Hb. rewrite map_length, expected_steps_length in Hb. exact Hb.
  - intros r q j s a Hq Hj Ha. destruct (Hround r q Hq) as [_ Hb].
    assert (Hj' : nth_error (map step_lens (qr_steps q)) j = Some (step_lens s))
      by (rewrite nth_error_map, Hj; reflexivity).
    rewrite Hb, (nth_error_expected_steps _ _ _ _ _ Ha) in Hj'. unfold step_lens in Hj'.
    injection Hj' as He Hs. unfold cw_after. split; [symmetry; exact He|symmetry; exact Hs].
Qed.

(* ---- concrete edits: each changes the signature *)
Lemma length_removelast_neq {A} (l : list A) : l <> [] -> length (removelast l) <> length l.
Proof.
  intros Hne. destruct (exists_last Hne) as [l' [a ->]]. rewrite removelast_last, app_length. cbn. lia.
Qed.
Lemma length_nil_neq {A} (l : list A) : l <> [] -> length (@nil A) <> length l.
Proof. destruct l; [congruence|cbn; lia]. Qed.
Lemma length_app1_neq {A} (l : list A) x : length (l ++ [x]) <> length l.
Proof. rewrite app_length. cbn. lia. Qed.

Definition set_wires_cap (pr : proof) (c : list digest) : proof :=
  {| wires_cap := c; zs_pp_cap := zs_pp_cap pr; quotient_cap := quotient_cap pr; openings := openings pr;
     opening_proof := opening_proof pr; public_inputs := public_inputs pr |}.

Definition set_os_wires (pr : proof) (w : list Fp2) : proof :=
  let os := openings pr in
  {| wires_cap := wires_cap pr; zs_pp_cap := zs_pp_cap pr; quotient_cap := quotient_cap pr;
     openings := {| os_constants := os_constants os; os_sigmas := os_sigmas os; os_wires := w;
                    os_zs := os_zs os; os_zs_next := os_zs_next os;
                    os_partial_products := os_partial_products os; os_quotient := os_quotient os;
                    os_lookup_zs := os_lookup_zs os; os_lookup_zs_next := os_lookup_zs_next os |};
     opening_proof := opening_proof pr; public_inputs := public_inputs pr |}.

Definition set_fri (pr : proof) (fp : fri_proof) : proof :=
  {| wires_cap := wires_cap pr; zs_pp_cap := zs_pp_cap pr; quotient_cap := quotient_cap pr;
     openings := openings pr; opening_proof := fp; public_inputs := public_inputs pr |}.

Definition set_final_poly (pr : proof) (f : list Fp2) : proof :=
  let fp := opening_proof pr in
  set_fri pr {| fp_caps := fp_caps fp; fp_rounds := fp_rounds fp; fp_final := f;
                fp_pow_witness := fp_pow_witness fp |}.

Definition set_rounds (pr : proof) (rs : list fri_query_round) : proof :=
  let fp := opening_proof pr in
  set_fri pr {| fp_caps := fp_caps fp; fp_rounds := rs; fp_final := fp_final fp;
                fp_pow_witness := fp_pow_witness fp |}.

Fixpoint upd_nth {A} (l : list A) (i : nat) (f : A -> A) : list A :=
  match l, i with
  | [], _ => []
  | x :: t, O => f x :: t
  | x :: t, S i' => x :: upd_nth t i' f
  end.

(* replace the coset evaluations of step j of query round r *)
Definition set_step_evals (pr : proof) (r j : nat) (ev : list Fp2) : proof :=
  set_rounds pr (upd_nth (fp_rounds (opening_proof pr)) r (fun q =>
    {| qr_initial := qr_initial q;
       qr_steps := upd_nth (qr_steps q) j (fun s => {| fs_evals := ev; fs_siblings := fs_siblings s |}) |})).

(* replace the Merkle path of oracle k of query round r *)
Definition set_initial_path (pr : proof) (r k : nat) (path : list digest) : proof :=
  set_rounds pr (upd_nth (fp_rounds (opening_proof pr)) r (fun q =>
    {| qr_initial := upd_nth (qr_initial q) k (fun lp => (fst lp, path)); qr_steps := qr_steps q |})).

Lemma map_upd_nth_neq {A B} (g : A -> B) (f : A -> A) : forall (l : list A) i a,
  nth_error l i = Some a -> g (f a) <> g a -> map g (upd_nth l i f) <> map g l.
Proof.
  induction l as [|x t IH]; intros [|i] a E Hne; cbn [nth_error] in E; try discriminate; cbn [upd_nth map].
  - inversion E; subst. intros Heq. inversion Heq. contradiction.
  - intros Heq. inversion Heq as [Ht]. exact (IH i a E Hne Ht).
Qed.

Lemma wires_cap_length_edit_rejected cd vo vo' pr c :
  verify cd vo pr = Accept -> length c <> length (wires_cap pr) ->
  verify cd vo' (set_wires_cap pr c) <> Accept.
Proof.
  intros Ha Hne. apply (truncated_or_extended_rejected cd vo vo' pr _ Ha).
  intros E. apply (f_equal sg_caps) in E. unfold proof_sig, set_wires_cap in E.
  cbn [sg_caps wires_cap zs_pp_cap quotient_cap openings opening_proof public_inputs fp_caps fp_rounds fp_final os_constants os_sigmas os_wires os_zs os_zs_next os_partial_products os_quotient os_lookup_zs os_lookup_zs_next] in E. injection E; intros; contradiction.
Qed.

Lemma os_wires_length_edit_rejected cd vo vo' pr w :
  verify cd vo pr = Accept -> length w <> length (os_wires (openings pr)) ->
  verify cd vo' (set_os_wires pr w) <> Accept.
Proof.
  intros Ha Hne. apply (truncated_or_extended_rejected cd vo vo' pr _ Ha).
  intros E. apply (f_equal sg_openings) in E. unfold proof_sig, set_os_wires, openings_sig in E.
  cbv zeta in E. cbn [sg_openings wires_cap zs_pp_cap quotient_cap openings opening_proof public_inputs fp_caps fp_rounds fp_final os_constants os_sigmas os_wires os_zs os_zs_next os_partial_products os_quotient os_lookup_zs os_lookup_zs_next] in E. injection E; intros; contradiction.
Qed.

Lemma final_poly_length_edit_rejected cd vo vo' pr f :
  verify cd vo pr = Accept -> length f <> length (fp_final (opening_proof pr)) ->
  verify cd vo' (set_final_poly pr f) <> Accept.
Proof.
  intros Ha Hne. apply (truncated_or_extended_rejected cd vo vo' pr _ Ha).
  intros E. apply (f_equal sg_final_poly) in E. unfold proof_sig, set_final_poly, set_fri in E.
  cbv zeta in E. cbn [sg_final_poly wires_cap zs_pp_cap quotient_cap openings opening_proof public_inputs fp_caps fp_rounds fp_final os_constants os_sigmas os_wires os_zs os_zs_next os_partial_products os_quotient os_lookup_zs os_lookup_zs_next] in E. contradiction.
Qed.

Lemma num_rounds_edit_rejected cd vo vo' pr rs :
  verify cd vo pr = Accept -> length rs <> length (fp_rounds (opening_proof pr)) ->
  verify cd vo' (set_rounds pr rs) <> Accept.
Proof.
  intros Ha Hne. apply (truncated_or_extended_rejected cd vo vo' pr _ Ha).
  intros E. apply (f_equal sg_rounds) in E. unfold proof_sig, set_rounds, set_fri in E.
  cbv zeta in E. cbn [sg_rounds wires_cap zs_pp_cap quotient_cap openings opening_proof public_inputs fp_caps fp_rounds fp_final os_constants os_sigmas os_wires os_zs os_zs_next os_partial_products os_quotient os_lookup_zs os_lookup_zs_next] in E.
  apply (f_equal (@length _)) in E. rewrite !map_length in E. contradiction.
Qed.

Lemma step_evals_length_edit_rejected cd vo vo' pr r j q s ev :
  verify cd vo pr = Accept ->
  nth_error (fp_rounds (opening_proof pr)) r = Some q -> nth_error (qr_steps q) j = Some s ->
  length ev <> length (fs_evals s) ->
  verify cd vo' (set_step_evals pr r j ev) <> Accept.
Proof.
  intros Ha Hq Hs Hne. apply (truncated_or_extended_rejected cd vo vo' pr _ Ha).
  intros E. apply (f_equal sg_rounds) in E. unfold proof_sig, set_step_evals, set_rounds, set_fri in E.
  cbv zeta in E. cbn [sg_rounds wires_cap zs_pp_cap quotient_cap openings opening_proof public_inputs fp_caps fp_rounds fp_final os_constants os_sigmas os_wires os_zs os_zs_next os_partial_products os_quotient os_lookup_zs os_lookup_zs_next] in E. revert E.
  apply (map_upd_nth_neq round_sig _ _ r q Hq).
  unfold round_sig. cbn [qr_initial qr_steps]. intros E. apply (f_equal snd) in E. cbn [snd] in E. revert E.
  apply (map_upd_nth_neq step_lens _ _ j s Hs).
  unfold step_lens. cbn [fs_evals fs_siblings]. intros E. apply (f_equal fst) in E. cbn [fst] in E. contradiction.
Qed.

Lemma initial_path_length_edit_rejected cd vo vo' pr r k q lp path :
  verify cd vo pr = Accept ->
  nth_error (fp_rounds (opening_proof pr)) r = Some q -> nth_error (qr_initial q) k = Some lp ->
  length path <> length (snd lp) ->
  verify cd vo' (set_initial_path pr r k path) <> Accept.
Proof.
  intros Ha Hq Hk Hne. apply (truncated_or_extended_rejected cd vo vo' pr _ Ha).
  intros E. apply (f_equal sg_rounds) in E. unfold proof_sig, set_initial_path, set_rounds, set_fri in E.
  cbv zeta in E. cbn [sg_rounds wires_cap zs_pp_cap quotient_cap openings opening_proof public_inputs fp_caps fp_rounds fp_final os_constants os_sigmas os_wires os_zs os_zs_next os_partial_products os_quotient os_lookup_zs os_lookup_zs_next] in E. revert E.
  apply (map_upd_nth_neq round_sig _ _ r q Hq).
  unfold round_sig. cbn [qr_initial qr_steps]. intros E. apply (f_equal fst) in E. cbn [fst] in E. revert E.
  apply (map_upd_nth_neq initial_lens _ _ k lp Hk).
  unfold initial_lens. cbn [fst snd]. intros E. apply (f_equal snd) in E. cbn [snd] in E. contradiction.
Qed.

(* ------------------------------------------------------------------ 7. openings vs FRI instance *)
Lemma range_polys_length oi lo hi : length (range_polys oi lo hi) = hi - lo.
Proof. unfold range_polys. rewrite map_length, seq_length. reflexivity. Qed.

Lemma range_polys_split oi lo mid hi : lo <= mid <= hi ->
  range_polys oi lo hi = range_polys oi lo mid ++ range_polys oi mid hi.
Proof.
  intros Hm. unfold range_polys. rewrite <- map_app. f_equal.
  replace (hi - lo) with ((mid - lo) + (hi - mid)) by lia. rewrite seq_app. f_equal. f_equal. lia.
Qed.

Lemma nth_error_range_polys oi lo hi k : k < hi - lo ->
  nth_error (range_polys oi lo hi) k = Some {| oracle_index := oi; polynomial_index := lo + k |}.
Proof.
  intros Hk. unfold range_polys. rewrite nth_error_map.
  rewrite (nth_error_nth' _ 0) by (rewrite seq_length; exact Hk). rewrite seq_nth by exact Hk. reflexivity.
Qed.

Lemma in_range_polys oi lo hi pi : In pi (range_polys oi lo hi) ->
  oracle_index pi = oi /\ lo <= polynomial_index pi < hi.
Proof.
  unfold range_polys. intros Hin. apply in_map_iff in Hin. destruct Hin as [i [<- Hi]].
  apply in_seq in Hi. cbn [oracle_index polynomial_index]. lia.
Qed.

Lemma lookup_if_nonempty {A} (l : list A) : (if negb (Nat.eqb (length l) 0) then l else []) = l.
Proof. destruct l; reflexivity. Qed.

Lemma combine_app_eq {A B} (a1 a2 : list A) (b1 b2 : list B) :
  length a1 = length b1 -> combine (a1 ++ a2) (b1 ++ b2) = combine a1 b1 ++ combine a2 b2.
Proof.
  revert b1. induction a1 as [|x a1 IH]; intros [|y b1] Hl; cbn in *; try discriminate; [reflexivity|].
  f_equal. apply IH. lia.
Qed.

Lemma nth_error_combine_some {A B} : forall (l : list A) (m : list B) k a b,
  nth_error l k = Some a -> nth_error m k = Some b -> nth_error (combine l m) k = Some (a, b).
Proof.
  induction l as [|x l IH]; intros [|y m] [|k] a b Ha Hb; cbn in *; try discriminate.
  - inversion Ha; inversion Hb; subst. reflexivity.
  - apply IH; assumption.
Qed.

(* a value of a segment sits, in the pairing of polynomials with claimed values, next to the
   polynomial of the same offset in the corresponding range *)
Lemma segment_position {B} (pre post : list (poly_info * B)) oi lo hi (vs : list B) k v :
  length vs = hi - lo -> nth_error vs k = Some v ->
  nth_error (pre ++ combine (range_polys oi lo hi) vs ++ post) (length pre + k)
  = Some ({| oracle_index := oi; polynomial_index := lo + k |}, v).
Proof.
  intros Hl Hk. assert (Hlt : k < length vs) by (apply nth_error_Some; congruence).
  rewrite nth_error_app2 by lia. replace (length pre + k - length pre) with k by lia.
  rewrite nth_error_app1 by (rewrite combine_length, range_polys_length; lia).
  apply nth_error_combine_some; [|exact Hk]. apply nth_error_range_polys. lia.
Qed.

Section Align.
  Variable cd : common_data.
  Variable pr : proof.
  Variable zeta : Fp2.
  Hypothesis Hv : validate_proof_shape cd pr = true.

  Let c := cd_config cd.
  Let os := openings pr.
  Let nch := num_challenges c.
  Let nc := cd_num_constants cd.
  Let nr := num_routed_wires c.
  Let nw := num_wires c.
  Let npp := num_partial_products cd.
  Let nzp := nch * (1 + npp).
  Let nlk := nch * num_lookup_polys cd.
  Let nq := nch * quotient_degree_factor cd.

  (* the two batches, segment by segment *)
  Definition zeta_segments : list (list poly_info * list Fp2) :=
    [ (range_polys 0 0 nc, os_constants os);
      (range_polys 0 nc (nc + nr), os_sigmas os);
      (range_polys 1 0 nw, os_wires os);
      (range_polys 2 0 nch, os_zs os);
      (range_polys 2 nch nzp, os_partial_products os);
      (range_polys 3 0 nq, os_quotient os);
      (range_polys 2 nzp (nzp + nlk), os_lookup_zs os) ].

  Definition next_segments : list (list poly_info * list Fp2) :=
    [ (range_polys 2 0 nch, os_zs_next os);
      (range_polys 2 nzp (nzp + nlk), os_lookup_zs_next os) ].

  Lemma zeta_segments_aligned : Forall (fun s => length (fst s) = length (snd s)) zeta_segments.
  Proof.
    pose proof (validate_proof_shape_inv cd pr Hv) as Hs. cbv zeta in Hs.
    destruct Hs as [_ [_ [_ [H4 [H5 [H6 [H7 [H8 [H9 [H10 [H11 [H12 _]]]]]]]]]]]].
    unfold zeta_segments. repeat constructor; cbn [fst snd]; rewrite range_polys_length; subst os c nc nr nw nch nzp nlk nq npp.
    - rewrite H4. lia.
    - rewrite H5. lia.
    - rewrite H6. lia.
    - rewrite H7. lia.
    - rewrite H9. lia.
    - rewrite H10. unfold num_quotient_polys. lia.
    - rewrite H11. unfold num_all_lookup_polys. lia.
  Qed.

  Lemma next_segments_aligned : Forall (fun s => length (fst s) = length (snd s)) next_segments.
  Proof.
    pose proof (validate_proof_shape_inv cd pr Hv) as Hs. cbv zeta in Hs.
    destruct Hs as [_ [_ [_ [H4 [H5 [H6 [H7 [H8 [H9 [H10 [H11 [H12 _]]]]]]]]]]]].
    unfold next_segments. repeat constructor; cbn [fst snd]; rewrite range_polys_length; subst os c nc nr nw nch nzp nlk nq npp.
    - rewrite H8. lia.
    - rewrite H12. unfold num_all_lookup_polys. lia.
  Qed.

  Lemma instance_batches :
    batches (get_fri_instance cd zeta)
    = [ {| point := zeta; polynomials := concat (map fst zeta_segments) |};
        {| point := (ext_primitive_root_of_unity (degree_bits (cd_fri_params cd)) * zeta)%F;
           polynomials := concat (map fst next_segments) |} ].
  Proof.
    unfold get_fri_instance. cbv zeta. cbn [batches]. unfold zeta_segments, next_segments.
    cbn [map fst concat]. rewrite !app_nil_r.
    fold c nch nc nr nw npp. fold nzp nlk nq.
    rewrite (range_polys_split 0 0 nc (nc + nr)) by lia.
    rewrite (range_polys_split 2 0 nch nzp) by (subst nzp; lia).
    rewrite <- !app_assoc. reflexivity.
  Qed.

  Lemma openings_batches :
    to_fri_openings os = [concat (map snd zeta_segments); concat (map snd next_segments)].
  Proof.
    unfold to_fri_openings, zeta_segments, next_segments. cbn [map snd concat].
    rewrite !lookup_if_nonempty.
    assert (Hll : length (os_lookup_zs os) = length (os_lookup_zs_next os)).
    { pose proof (validate_proof_shape_inv cd pr Hv) as Hs. cbv zeta in Hs. subst os. lia. }
    replace (if negb (Nat.eqb (length (os_lookup_zs os)) 0) then os_lookup_zs_next os else [])
      with (os_lookup_zs_next os).
    2:{ destruct (os_lookup_zs os), (os_lookup_zs_next os); cbn in *; try discriminate; reflexivity. }
    rewrite !app_nil_r. reflexivity.
  Qed.

  Lemma combine_concat_segments (segs : list (list poly_info * list Fp2)) :
    Forall (fun s => length (fst s) = length (snd s)) segs ->
    combine (concat (map fst segs)) (concat (map snd segs))
    = concat (map (fun s => combine (fst s) (snd s)) segs)
    /\ length (concat (map fst segs)) = length (concat (map snd segs)).
  Proof.
    induction 1 as [|s segs Hs _ [IH1 IH2]]; cbn [map concat]; [split; reflexivity|].
    split.
    - rewrite combine_app_eq by exact Hs. rewrite IH1. reflexivity.
    - rewrite !app_length. lia.
  Qed.

  (* 7. number of claimed openings = number of polynomials, batch by batch, and the pairing of
     polynomials with claimed values is the concatenation of the segment pairings *)
  Theorem openings_align_with_instance :
    exists b0 b1 v0 v1,
      batches (get_fri_instance cd zeta) = [b0; b1] /\ to_fri_openings os = [v0; v1]
      /\ point b0 = zeta
      /\ point b1 = (ext_primitive_root_of_unity (degree_bits (cd_fri_params cd)) * zeta)%F
      /\ length v0 = length (polynomials b0) /\ length v1 = length (polynomials b1)
      /\ Forall (fun s => length (fst s) = length (snd s)) zeta_segments
      /\ Forall (fun s => length (fst s) = length (snd s)) next_segments
      /\ polynomials b0 = concat (map fst zeta_segments) /\ v0 = concat (map snd zeta_segments)
      /\ polynomials b1 = concat (map fst next_segments) /\ v1 = concat (map snd next_segments)
      /\ combine (polynomials b0) v0 = concat (map (fun s => combine (fst s) (snd s)) zeta_segments)
      /\ combine (polynomials b1) v1 = concat (map (fun s => combine (fst s) (snd s)) next_segments).
  Proof.
    destruct (combine_concat_segments _ zeta_segments_aligned) as [Hc0 Hl0].
    destruct (combine_concat_segments _ next_segments_aligned) as [Hc1 Hl1].
    eexists _, _, _, _. split; [apply instance_batches|]. split; [apply openings_batches|].
    cbn [point polynomials].
    repeat split; auto using zeta_segments_aligned, next_segments_aligned.
  Qed.

  (* position by position *)
  Definition zeta_claims : list (poly_info * Fp2) :=
    combine (concat (map fst zeta_segments)) (concat (map snd zeta_segments)).
  Definition next_claims : list (poly_info * Fp2) :=
    combine (concat (map fst next_segments)) (concat (map snd next_segments)).

  Let claim (l : list (poly_info * Fp2)) (pos oi pidx : nat) (v : Fp2) : Prop :=
    nth_error l pos = Some ({| oracle_index := oi; polynomial_index := pidx |}, v).

  Theorem opening_positions :
    (forall k v, nth_error (os_constants os) k = Some v -> claim zeta_claims k 0 k v)
    /\ (forall k v, nth_error (os_sigmas os) k = Some v -> claim zeta_claims (nc + k) 0 (nc + k) v)
    /\ (forall k v, nth_error (os_wires os) k = Some v -> claim zeta_claims (nc + nr + k) 1 k v)
    /\ (forall k v, nth_error (os_zs os) k = Some v -> claim zeta_claims (nc + nr + nw + k) 2 k v)
    /\ (forall k v, nth_error (os_partial_products os) k = Some v ->
          claim zeta_claims (nc + nr + nw + nch + k) 2 (nch + k) v)
    /\ (forall k v, nth_error (os_quotient os) k = Some v ->
          claim zeta_claims (nc + nr + nw + nch + nch * npp + k) 3 k v)
    /\ (forall k v, nth_error (os_lookup_zs os) k = Some v ->
          claim zeta_claims (nc + nr + nw + nch + nch * npp + nq + k) 2 (nzp + k) v)
    /\ (forall k v, nth_error (os_zs_next os) k = Some v -> claim next_claims k 2 k v)
    /\ (forall k v, nth_error (os_lookup_zs_next os) k = Some v -> claim next_claims (nch + k) 2 (nzp + k) v).
  Proof.
    pose proof zeta_segments_aligned as Hz. pose proof next_segments_aligned as Hn.
    destruct (combine_concat_segments _ Hz) as [Hc0 _].
    destruct (combine_concat_segments _ Hn) as [Hc1 _].
    unfold claim, zeta_claims, next_claims. rewrite Hc0, Hc1. clear Hc0 Hc1.
    unfold zeta_segments in *. unfold next_segments in *. cbn [map concat fst snd].
    repeat rewrite Forall_cons_iff in Hz. destruct Hz as [L [L0 [L1 [L2 [L3 [L4 [L5 _]]]]]]].
    repeat rewrite Forall_cons_iff in Hn. destruct Hn as [L6 [L7 _]].
    cbn [fst snd] in *. rewrite range_polys_length in *.
    set (S1 := combine (range_polys 0 0 nc) (os_constants os)).
    set (S2 := combine (range_polys 0 nc (nc + nr)) (os_sigmas os)).
    set (S3 := combine (range_polys 1 0 nw) (os_wires os)).
    set (S4 := combine (range_polys 2 0 nch) (os_zs os)).
    set (S5 := combine (range_polys 2 nch nzp) (os_partial_products os)).
    set (S6 := combine (range_polys 3 0 nq) (os_quotient os)).
    set (S7 := combine (range_polys 2 nzp (nzp + nlk)) (os_lookup_zs os)).
    set (N1 := combine (range_polys 2 0 nch) (os_zs_next os)).
    set (N2 := combine (range_polys 2 nzp (nzp + nlk)) (os_lookup_zs_next os)).
    assert (E1 : length S1 = nc) by (subst S1; rewrite combine_length, range_polys_length; lia).
    assert (E2 : length S2 = nr) by (subst S2; rewrite combine_length, range_polys_length; lia).
    assert (E3 : length S3 = nw) by (subst S3; rewrite combine_length, range_polys_length; lia).
    assert (E4 : length S4 = nch) by (subst S4; rewrite combine_length, range_polys_length; lia).
    assert (E5 : length S5 = nch * npp) by (subst S5; rewrite combine_length, range_polys_length; subst nzp; lia).
    assert (E6 : length S6 = nq) by (subst S6; rewrite combine_length, range_polys_length; lia).
    assert (F1 : length N1 = nch) by (subst N1; rewrite combine_length, range_polys_length; lia).
    rewrite !app_nil_r.
    repeat split; intros k v Hk.
    - pose proof (segment_position [] (S2 ++ S3 ++ S4 ++ S5 ++ S6 ++ S7) 0 0 nc _ k v (eq_sym L) Hk) as P.
      cbn [app length Nat.add] in P. exact P.
    - pose proof (segment_position S1 (S3 ++ S4 ++ S5 ++ S6 ++ S7) 0 nc (nc + nr) _ k v (eq_sym L0) Hk) as P.
      rewrite E1 in P. exact P.
    - pose proof (segment_position (S1 ++ S2) (S4 ++ S5 ++ S6 ++ S7) 1 0 nw _ k v (eq_sym L1) Hk) as P.
      rewrite !app_length, E1, E2, <- !app_assoc in P. exact P.
    - pose proof (segment_position (S1 ++ S2 ++ S3) (S5 ++ S6 ++ S7) 2 0 nch _ k v (eq_sym L2) Hk) as P.
      rewrite !app_length, E1, E2, E3, <- !app_assoc, !Nat.add_assoc in P. exact P.
    - pose proof (segment_position (S1 ++ S2 ++ S3 ++ S4) (S6 ++ S7) 2 nch nzp _ k v (eq_sym L3) Hk) as P.
      rewrite !app_length, E1, E2, E3, E4, <- !app_assoc, !Nat.add_assoc in P. exact P.
    - pose proof (segment_position (S1 ++ S2 ++ S3 ++ S4 ++ S5) S7 3 0 nq _ k v (eq_sym L4) Hk) as P.
      rewrite !app_length, E1, E2, E3, E4, E5, <- !app_assoc, !Nat.add_assoc in P. exact P.
    - pose proof (segment_position (S1 ++ S2 ++ S3 ++ S4 ++ S5 ++ S6) [] 2 nzp (nzp + nlk) _ k v (eq_sym L5) Hk) as P.
      rewrite !app_length, E1, E2, E3, E4, E5, E6, <- !app_assoc, !Nat.add_assoc, app_nil_r in P. exact P.
    - pose proof (segment_position [] N2 2 0 nch _ k v (eq_sym L6) Hk) as P.
      cbn [app length Nat.add] in P. exact P.
    - pose proof (segment_position N1 [] 2 nzp (nzp + nlk) _ k v (eq_sym L7) Hk) as P.
      rewrite F1, app_nil_r in P. exact P.
  Qed.
End Align.

(* the claim lists are the pairing of the instance's batches with the openings handed to FRI *)
Lemma claims_are_instance_vs_openings cd pr zeta :
  validate_proof_shape cd pr = true ->
  map (fun bv : batch_info * list Fp2 => combine (polynomials (fst bv)) (snd bv))
      (combine (batches (get_fri_instance cd zeta)) (to_fri_openings (openings pr)))
  = [zeta_claims cd pr; next_claims cd pr].
Proof.
  intros Hv. rewrite (instance_batches cd pr zeta), (openings_batches cd pr Hv); [reflexivity|exact Hv].
Qed.

(* ---- the instance built from the common data is well formed: every polynomial it names exists
   in its oracle, so (with a shape-valid round) the reads of fri_combine_initial are in range *)
Lemma get_fri_instance_wf cd zeta : inst_wf (get_fri_instance cd zeta).
Proof.
  unfold inst_wf, get_fri_instance. cbv zeta. cbn [batches oracles].
  intros b pi [<-|[<-|[]]] Hpi; cbn [polynomials] in Hpi;
    repeat (apply in_app_or in Hpi; destruct Hpi as [Hpi|Hpi]);
    apply in_range_polys in Hpi; destruct Hpi as [Ho Hp]; rewrite Ho; cbn [nth_error];
    eexists; (split; [reflexivity|]); cbn [num_polys]; nia.
Qed.

Corollary plonk_combine_accesses_in_range cd zeta q :
  round_shape_ok (get_fri_instance cd zeta) (cd_fri_params cd) q = true ->
  forall b pi, In b (batches (get_fri_instance cd zeta)) -> In pi (polynomials b) ->
    oracle_index pi < length (oracles (get_fri_instance cd zeta))
    /\ oracle_index pi < length (qr_initial q)
    /\ polynomial_index pi
       < length (unsalted_evals (qr_initial q) (oracle_index pi)
                   (hiding (cd_fri_params cd)
                    && blinding (nth (oracle_index pi) (oracles (get_fri_instance cd zeta))
                                     {| num_polys := 0; blinding := false |}))).
Proof. intros Hr. apply combine_accesses_in_range; [apply get_fri_instance_wf|exact Hr]. Qed.
