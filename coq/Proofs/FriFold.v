(* Proofs about the FRI verifier model, part 3: interpolate / compute_evaluation.
   - Fri.interpolate with Fri.barycentric_weights computes, for pairwise distinct nodes, the value
     at ANY x of the polynomial that produced the ordinates (interpolate_correct);
   - fold_complete: for every arity 2^a (a <= TWO_ADICITY), if the opened coset holds the values
     of the polynomial with coefficients [concat chunks] (chunks of 2^a coefficients, as in
     fri_committed_trees) then compute_evaluation returns the value at x^(2^a) of the folded
     polynomial  map (reduce_with_powers . beta) chunks  - the next layer's honest value. *)
From Coq Require Import ZArith List Bool Lia Arith Ring Field.
From Verif Require Import Base.Field Base.Poly Gen.FieldConsts Model.Fp Model.Fp2 Model.FieldGeneric Model.Fri.
From Verif Require Model.FFT Proofs.PolyOps.
From Verif Require Import Proofs.FFT.
From Verif Require Import Proofs.FpFieldPrime Proofs.Fp2Field Proofs.FieldGeneric Proofs.FriInterp Proofs.FriAlgebra.
Import ListNotations.
Local Open Scope nat_scope.

Lemma NoDup_map_in {A B} (f : A -> B) (l : list A) :
  (forall a b, In a l -> In b l -> f a = f b -> a = b) -> NoDup l -> NoDup (map f l).
Proof.
  intros Hinj Hnd. induction Hnd as [|a l Hn Hnd IH]; cbn [map]; constructor.
  - intros Hin. apply in_map_iff in Hin. destruct Hin as (b & Hb & Hbl).
    apply Hn. rewrite <- (Hinj b a); auto; [right; exact Hbl | left; reflexivity].
  - apply IH. intros x y Hx Hy. apply Hinj; right; assumption.
Qed.

(* ------------------------------------------------------------------------------------------ *)
Section Generic.
  Context {F : Type} {FO : FieldOps F} {FL : @FieldLaws F FO}.
  Add Field Fff : (@F_field_theory F FO FL).
  Local Open Scope field_scope.

  (* ---- the powers of a principal 2^k-th root of unity are pairwise distinct *)
  Hypothesis two_nonzero : (1 : F) <> - (1).

  Lemma fpow_neg1_odd m : fpow (- (1) : F) (2 * m + 1) = - (1).
  Proof.
    rewrite fpow_add, (fpow_mul (- (1)) 2 m). cbn [fpow].
    replace (- (1) * (- (1) * 1)) with (1 : F) by ring. rewrite fpow_1_l. ring.
  Qed.

  Lemma root_pow_neq_1 : forall k (w : F) m, is_root w k -> (0 < m < 2 ^ k)%nat -> fpow w m <> 1.
  Proof.
    induction k as [|k IH]; intros w m Hw Hm; [cbn [Nat.pow] in Hm; lia|].
    destruct (Nat.even m) eqn:Ev.
    - apply Nat.even_spec in Ev. destruct Ev as [m' ->].
      rewrite <- fpow_sq. apply IH; [apply is_root_sq; exact Hw|]. cbn [Nat.pow] in Hm. lia.
    - assert (Od : Nat.odd m = true) by (unfold Nat.odd; rewrite Ev; reflexivity).
      apply Nat.odd_spec in Od. destruct Od as [m' ->].
      intros E. destruct Hw as [_ Hh]. specialize (Hh k eq_refl).
      assert (E2 : fpow (fpow w (2 * m' + 1)) (2 ^ k) = 1) by (rewrite E; apply fpow_1_l).
      rewrite <- fpow_mul, Nat.mul_comm, fpow_mul, Hh, fpow_neg1_odd in E2.
      apply two_nonzero. symmetry. exact E2.
  Qed.

  Lemma root_nonzero k (w : F) : is_root w k -> w <> 0.
  Proof.
    intros [H1 _] E. rewrite E in H1. pose proof (Nat.pow_nonzero 2 k ltac:(lia)) as Hp.
    destruct (2 ^ k)%nat as [|n]; [lia|]. cbn [fpow] in H1. rewrite f_mul_0_l in H1.
    apply f_1_neq_0. symmetry. exact H1.
  Qed.

  Lemma root_pows_inj k (w : F) i j : is_root w k -> (i < 2 ^ k)%nat -> (j < 2 ^ k)%nat ->
    fpow w i = fpow w j -> i = j.
  Proof.
    intros Hw Hi Hj E.
    assert (Aux : forall a b, (a < b)%nat -> (b < 2 ^ k)%nat -> fpow w a = fpow w b -> False).
    { intros a b Hab Hb Eab. apply (root_pow_neq_1 k w (b - a) Hw); [lia|].
      apply (f_mul_cancel_l (fpow w a)); [apply fpow_neq_0; exact (root_nonzero k w Hw)|].
      rewrite <- fpow_add. replace (a + (b - a))%nat with b by lia. rewrite <- Eab. ring. }
    destruct (Nat.lt_trichotomy i j) as [Hlt|[Heq|Hgt]]; [|exact Heq|].
    - exfalso. exact (Aux i j Hlt Hj E).
    - exfalso. exact (Aux j i Hgt Hi (eq_sym E)).
  Qed.

  (* ---- folding: P(X) = sum_i X^i P_i(X^r) restricted to { z : z^r = y } is the polynomial
          Q(Z) = sum_i Z^i P_i(y) with at most r coefficients *)
  Definition coset_poly (y : F) (chunks : list (list F)) : poly :=
    fold_right (fun c acc => padd c (pscale y acc)) [] chunks.

  (* fri_committed_trees: coeffs.par_chunks_exact(arity).map(|chunk| reduce_with_powers(chunk, beta)) *)
  Definition fold_coeffs (beta : F) (chunks : list (list F)) : poly :=
    map (fun c => peval c beta) chunks.

  Lemma coset_poly_length r y chunks :
    Forall (fun c : list F => length c = r) chunks -> (length (coset_poly y chunks) <= r)%nat.
  Proof.
    induction 1 as [|c cs Hc _ IH]; cbn [coset_poly fold_right length]; [lia|].
    fold (coset_poly y cs). rewrite padd_length, pscale_length. lia.
  Qed.

  Lemma coset_poly_eval r y z chunks :
    Forall (fun c : list F => length c = r) chunks -> fpow z r = y ->
    peval (concat chunks) z = peval (coset_poly y chunks) z.
  Proof.
    intros Hall Hz. induction Hall as [|c cs Hc _ IH]; cbn [concat coset_poly fold_right]; [reflexivity|].
    fold (coset_poly y cs). rewrite peval_app, peval_padd, peval_pscale, Hc, Hz, IH. reflexivity.
  Qed.

  Lemma coset_poly_fold y beta chunks :
    peval (coset_poly y chunks) beta = peval (fold_coeffs beta chunks) y.
  Proof.
    induction chunks as [|c cs IH]; cbn [coset_poly fold_coeffs fold_right map peval]; [reflexivity|].
    fold (coset_poly y cs). fold (fold_coeffs beta cs). rewrite peval_padd, peval_pscale, IH. reflexivity.
  Qed.

  Lemma powers_eq_map (g : F) n : powers g n = map (fpow g) (seq 0 n).
  Proof.
    destruct (powers_correct g n) as [Hl Hn].
    apply (nth_ext _ _ 0 0); [rewrite Hl, map_length, seq_length; reflexivity|].
    intros i Hi. rewrite Hl in Hi. rewrite Hn by exact Hi.
    rewrite nth_map_seq by exact Hi. reflexivity.
  Qed.
End Generic.

(* ------------------------------------------------------------------------------------------ *)
Section FriInterpolate.
  Local Open Scope field_scope.
  Add Field Fp2Fi : (@F_field_theory Fp2 _ Fp2Laws).
  Add Field FpFi : (@F_field_theory Fp _ FpLaws).

  Lemma interpolate_is_g xs ys x ws : Fri.interpolate xs ys x ws = inl (g_interpolate xs ys x ws).
  Proof.
    unfold Fri.interpolate, g_interpolate.
    destruct (find (fun p : Fp2 * Fp2 => (fst p =? x)) (combine xs ys)); reflexivity.
  Qed.

  Lemma barycentric_weights_is_g xs : Fri.barycentric_weights xs = g_barycentric_weights xs.
  Proof. reflexivity. Qed.

  Lemma peval2_peval (cs : list Fp2) x : peval2 cs x = peval cs x.
  Proof.
    induction cs as [|c cs IH]; [reflexivity|].
    change (peval2 (c :: cs) x) with (peval2 cs x * x + c). rewrite IH. cbn [peval]. ring.
  Qed.

  (* interpolate is exact on every polynomial with at most n coefficients, n = number of nodes *)
  Theorem interpolate_correct (p xs : list Fp2) (x : Fp2) :
    NoDup xs -> (length p <= length xs)%nat ->
    Fri.interpolate xs (map (peval2 p) xs) x (Fri.barycentric_weights xs) = inl (peval2 p x).
  Proof.
    intros Hnd Hl. rewrite interpolate_is_g, barycentric_weights_is_g. f_equal.
    rewrite (map_ext (peval2 p) (peval p)) by (intros; apply peval2_peval).
    rewrite peval2_peval. apply interpolate_poly; assumption.
  Qed.

  (* for arbitrary ordinates: the value of ONE polynomial (the Lagrange interpolant, at most n
     coefficients, through all the points) at every x *)
  Theorem interpolate_interpolant (xs ys : list Fp2) :
    NoDup xs -> length ys = length xs ->
    exists q : list Fp2, (length q <= length xs)%nat
      /\ (forall k, (k < length xs)%nat -> peval2 q (nth k xs 0) = nth k ys 0)
      /\ forall x, Fri.interpolate xs ys x (Fri.barycentric_weights xs) = inl (peval2 q x).
  Proof.
    intros Hnd Hl. exists (lagrange xs ys (g_barycentric_weights xs)). split; [apply lagrange_length|]. split.
    - intros k Hk. rewrite peval2_peval. apply lagrange_at_node; assumption.
    - intros x. rewrite interpolate_is_g, barycentric_weights_is_g, peval2_peval. f_equal.
      apply interpolate_is_lagrange; assumption.
  Qed.

  (* on a node the stored ordinate is returned, whatever the weights *)
  Theorem interpolate_on_node (xs ys ws : list Fp2) k :
    NoDup xs -> length ys = length xs -> (k < length xs)%nat ->
    Fri.interpolate xs ys (nth k xs 0) ws = inl (nth k ys 0).
  Proof.
    intros Hnd Hl Hk. rewrite interpolate_is_g. f_equal. apply FriInterp.interpolate_on_node; assumption.
  Qed.

  (* ---- the embedding of the base field *)
  Lemma emb_mul (a b : Fp) : fp2_of_base (a * b) = fp2_of_base a * fp2_of_base b.
  Proof.
    unfold fp2_of_base. cbn [fmul Fp2Ops fp2_mul]. f_equal; ring.
  Qed.

  Lemma emb_one : fp2_of_base 1 = 1.
  Proof. reflexivity. Qed.

  Lemma emb_pow (a : Fp) n : fp2_of_base (fpow a n) = fpow (fp2_of_base a) n.
  Proof. induction n as [|n IH]; cbn [fpow]; [reflexivity|]. rewrite emb_mul, IH. reflexivity. Qed.

  Lemma emb_inj (a b : Fp) : fp2_of_base a = fp2_of_base b -> a = b.
  Proof. intros E. apply (f_equal fst) in E. exact E. Qed.

  (* ---- roots of unity of the Goldilocks field *)
  Lemma Fp_one_neq_neg_one : (1 : Fp) <> - (1).
  Proof. intros E. apply (f_equal fval) in E. vm_compute in E. discriminate E. Qed.

  Lemma primitive_root_is_prou a : primitive_root_of_unity a = prou a.
  Proof. unfold primitive_root_of_unity, prou. rewrite (exp_power_of_2_correct (F := Fp)). reflexivity. Qed.

  Lemma primitive_root_is_root a : (a <= two_adicity)%nat -> is_root (primitive_root_of_unity a) a.
  Proof. intros Ha. rewrite primitive_root_is_prou. apply (prou_is_root (F := Fp) (TL := Proofs.PolyOps.FpTwoAdicLaws)). exact Ha. Qed.

  Lemma reverse_index_bits_length {A} (l : list A) d bits : length (reverse_index_bits l d bits) = length l.
  Proof. unfold reverse_index_bits. rewrite map_length, seq_length. reflexivity. Qed.

  (* the interpolation nodes of compute_evaluation *)
  Definition coset_start (x : Fp) (within a : nat) : Fp :=
    x * exp_u64 (primitive_root_of_unity a) (N.of_nat (2 ^ a - reverse_bits within a)).
  Definition coset_nodes (x : Fp) (within a : nat) : list Fp2 :=
    map (fun y => fp2_of_base (coset_start x within a * y)) (powers (primitive_root_of_unity a) (2 ^ a)).

  Lemma compute_evaluation_unfold x within a evals beta :
    compute_evaluation x within a evals beta
    = Fri.interpolate (coset_nodes x within a) (reverse_index_bits evals 0 a) beta
                      (Fri.barycentric_weights (coset_nodes x within a)).
  Proof. reflexivity. Qed.

  Lemma coset_nodes_eq x within a :
    coset_nodes x within a
    = map (fun i => fp2_of_base (coset_start x within a * fpow (primitive_root_of_unity a) i)) (seq 0 (2 ^ a)).
  Proof. unfold coset_nodes. rewrite (powers_eq_map (F := Fp)), map_map. reflexivity. Qed.

  Lemma coset_nodes_length x within a : length (coset_nodes x within a) = (2 ^ a)%nat.
  Proof. rewrite coset_nodes_eq, map_length, seq_length. reflexivity. Qed.

  Lemma coset_start_nonzero x within a : x <> 0 -> coset_start x within a <> 0.
  Proof.
    intros Hx. unfold coset_start. apply (f_mul_neq_0 (F := Fp)); [exact Hx|].
    rewrite (exp_u64_correct (F := Fp)). apply (fpow_neq_0 (F := Fp)). apply primitive_root_nonzero.
  Qed.

  Lemma coset_nodes_NoDup x within a : (a <= two_adicity)%nat -> x <> 0 -> NoDup (coset_nodes x within a).
  Proof.
    intros Ha Hx. rewrite coset_nodes_eq. apply NoDup_map_in; [|apply seq_NoDup].
    intros i j Hi Hj E. apply in_seq in Hi. apply in_seq in Hj. apply emb_inj in E.
    apply (f_mul_cancel_l (F := Fp)) in E; [|apply coset_start_nonzero; exact Hx].
    apply (root_pows_inj (F := Fp) Fp_one_neq_neg_one a _ i j (primitive_root_is_root a Ha)); [lia|lia|exact E].
  Qed.

  (* every node z of the coset satisfies z^(2^a) = x^(2^a) *)
  Lemma coset_node_pow x within a i : (a <= two_adicity)%nat ->
    fpow (fp2_of_base (coset_start x within a * fpow (primitive_root_of_unity a) i)) (2 ^ a)
    = fp2_of_base (fpow x (2 ^ a)).
  Proof.
    intros Ha. rewrite <- emb_pow. f_equal.
    destruct (primitive_root_is_root a Ha) as [Hr _].
    unfold coset_start. rewrite (exp_u64_correct (F := Fp)).
    rewrite !(fpow_mul_base (F := Fp)).
    rewrite <- !(fpow_mul (F := Fp)).
    rewrite (Nat.mul_comm (N.to_nat _) (2 ^ a)), (Nat.mul_comm i (2 ^ a)).
    rewrite !(fpow_mul (F := Fp) _ (2 ^ a)), Hr, !(fpow_1_l (F := Fp)). ring.
  Qed.

  (* fold_complete *)
  Theorem fold_complete (x : Fp) (within a : nat) (evals : list Fp2) (beta : Fp2) (chunks : list (list Fp2)) :
    (a <= two_adicity)%nat -> x <> 0 -> length evals = (2 ^ a)%nat ->
    Forall (fun c : list Fp2 => length c = (2 ^ a)%nat) chunks ->
    (forall i, (i < 2 ^ a)%nat ->
       nth i (reverse_index_bits evals 0 a) 0
       = peval2 (concat chunks) (fp2_of_base (coset_start x within a * fpow (primitive_root_of_unity a) i))) ->
    compute_evaluation x within a evals beta
    = inl (peval2 (fold_coeffs beta chunks) (fp2_of_base (exp_power_of_2 x a))).
  Proof.
    intros Ha Hx Hlen Hch Hvals. rewrite compute_evaluation_unfold.
    rewrite (exp_power_of_2_correct (F := Fp)).
    set (y := fp2_of_base (fpow x (2 ^ a))).
    set (q := coset_poly y chunks).
    assert (Hys : reverse_index_bits evals 0 a = map (peval2 q) (coset_nodes x within a)).
    { apply (nth_ext _ _ 0 0).
      - rewrite reverse_index_bits_length, map_length, coset_nodes_length. exact Hlen.
      - intros i Hi. rewrite reverse_index_bits_length, Hlen in Hi.
        rewrite Hvals by exact Hi. rewrite coset_nodes_eq, map_map.
        rewrite (nth_map_seq _ 0) by exact Hi. cbn [Nat.add].
        rewrite !peval2_peval. unfold q.
        apply (coset_poly_eval (2 ^ a)); [exact Hch|]. apply coset_node_pow. exact Ha. }
    rewrite Hys. rewrite interpolate_correct.
    - f_equal. rewrite !peval2_peval. unfold q. apply coset_poly_fold.
    - apply coset_nodes_NoDup; assumption.
    - rewrite coset_nodes_length. unfold q. apply coset_poly_length. exact Hch.
  Qed.
End FriInterpolate.
