(* C07 - per-gate specifications for the gates whose written wires form a chain (each
   accumulator wire is defined from the previous one): ExponentiationGate, ReducingGate,
   ReducingExtensionGate.  Shape of the argument: the evaluator recomputes step i from the WIRE
   holding step i-1, the generator from its own value of step i-1; all constraints vanish iff every
   accumulator wire holds the generator's value (induction along the chain). *)
From Coq Require Import ZArith List Lia Arith Bool FinFun.
From Verif Require Import Base.Field Model.FieldGeneric Model.Gates Proofs.GatesLib Proofs.GatesSimple.
Import ListNotations.
Local Open Scope nat_scope.

Section ChainLemma.
  Context {A : Type}.
  Variable comp : nat -> A -> A.
  Variable init : A.

  Lemma chain_char (n : nat) (wire acc_val : nat -> A) :
    (0 < n -> acc_val 0 = comp 0 init) ->
    (forall i, S i < n -> acc_val (S i) = comp (S i) (acc_val i)) ->
    ((forall i, i < n -> wire i = comp i (match i with O => init | S j => wire j end)) <->
     (forall i, i < n -> wire i = acc_val i)).
  Proof.
    intros H0 HS. split.
    - intros Hw i. induction i as [|i IH]; intros Hi.
      + rewrite (Hw 0 Hi). symmetry. apply H0. exact Hi.
      + rewrite (Hw (S i) Hi). rewrite IH by lia. symmetry. apply HS. exact Hi.
    - intros Ha i Hi. destruct i as [|i].
      + rewrite (Ha 0 Hi). apply H0. exact Hi.
      + rewrite (Ha (S i) Hi), (Ha i) by lia. apply HS. exact Hi.
  Qed.
End ChainLemma.

Section Chain.
  Context {K : Type} `{FL : FieldLaws K} {OB : OfBase K} {TC : ToCanon K}.
  Add Field Kf_chain : (@F_field_theory K _ FL).

  (* a variant of spec_of_gate_char for generators that may write a wire twice (same value) *)
  Lemma spec_of_gate_char' g (ok : list K -> list K -> list K -> Prop) :
    (forall consts r1 r2, same_outside (gate_written g) r1 r2 -> gate_writes g consts r1 = gate_writes g consts r2) ->
    (forall consts pi r1 r2, same_outside (gate_written g) r1 r2 -> ok consts r1 pi -> ok consts r2 pi) ->
    (forall consts r wr i v, gate_writes g consts r = Some wr -> In (i, v) wr ->
       In i (gate_written g) /\ i < gate_num_wires g) ->
    (forall consts r wr w, gate_writes g consts r = Some wr -> In w (gate_written g) -> exists v, In (w, v) wr) ->
    (forall consts r wr, gate_writes g consts r = Some wr -> functional wr) ->
    (forall consts pi r wr, ok consts r pi -> gate_writes g consts r = Some wr ->
       (zero_all (gate_eval_unfiltered g consts r pi) <-> agree wr r)) ->
    gate_spec g ok.
  Proof.
    intros Hwe Hoe Hidx Hcov Hfun Hchar. constructor; try assumption.
    - intros consts pi r wr Hok Hw Ha. apply (Hchar consts pi r wr Hok Hw). exact Ha.
    - intros consts pi r wr w gv Hok Hw Hin _ Hne. apply not_zero_all. intros Hz.
      apply (Hchar consts pi r wr Hok Hw) in Hz. apply Hne. apply Hz. exact Hin.
  Qed.

  (* ================= ReducingGate / ReducingExtensionGate ================= *)
  Lemma reducing_loop_length (alpha : @alg K) : forall cs acc, length (reducing_gen_loop alpha cs acc) = length cs.
  Proof. induction cs as [|c cs IH]; intros acc; cbn [reducing_gen_loop length]; [reflexivity|]. rewrite IH. reflexivity. Qed.

  Lemma reducing_loop_0 (alpha : @alg K) cs acc d d' : 0 < length cs ->
    nth 0 (reducing_gen_loop alpha cs acc) d = alg_add (alg_mul acc alpha) (nth 0 cs d').
  Proof. destruct cs as [|c cs]; cbn [length]; [lia|]. intros _. reflexivity. Qed.

  Lemma reducing_loop_S (alpha : @alg K) d d' : forall cs acc i, S i < length cs ->
    nth (S i) (reducing_gen_loop alpha cs acc) d
    = alg_add (alg_mul (nth i (reducing_gen_loop alpha cs acc) d) alpha) (nth (S i) cs d').
  Proof.
    induction cs as [|c cs IH]; intros acc i Hi; cbn [length] in Hi; [lia|].
    cbn [reducing_gen_loop]. destruct i as [|i].
    - cbn [nth]. apply (reducing_loop_0 alpha cs _ d d'). lia.
    - change (nth (S (S i)) (?a :: ?l) d) with (nth (S i) l d).
      change (nth (S i) (?a :: ?l) d) with (nth i l d).
      change (nth (S (S i)) (c :: cs) d') with (nth (S i) cs d').
      apply IH. lia.
  Qed.

  Section Reducing.
    Variable n : nat.
    Variable acc_start : nat -> nat.
    Variable coeff : list K -> nat -> @alg K.

    Definition red_eval (row : list K) : list K :=
      flat_map (fun i => alg_coords (alg_sub (alg_add (alg_mul (reducing_prev acc_start row i) (alg_at row 2))
                                                      (coeff row i))
                                             (alg_at row (acc_start i)))) (seq 0 n).
    Definition red_accs (row : list K) : list alg :=
      reducing_gen_loop (alg_at row 2) (map (coeff row) (seq 0 n)) (alg_at row 4).
    Definition red_block (row : list K) : list (nat * K) :=
      flat_map (fun i => alg_writes (acc_start i) (nth i (red_accs row) alg_zero)) (seq 0 n).

    Lemma nth_map_seq (f : nat -> @alg K) i d : i < n -> nth i (map f (seq 0 n)) d = f i.
    Proof.
      intros Hi. rewrite (nth_indep _ d (f 0)) by (rewrite map_length, seq_length; exact Hi).
      rewrite map_nth. rewrite seq_nth by exact Hi. reflexivity.
    Qed.

    Lemma red_char row : zero_all (red_eval row) <-> agree (red_block row) row.
    Proof.
      unfold red_eval, red_block. rewrite zero_all_flat_map, agree_flat_map.
      pose (comp := fun i (a : @alg K) => alg_add (alg_mul a (alg_at row 2)) (coeff row i)).
      pose (wire := fun i => alg_at row (acc_start i)).
      pose (acc_val := fun i => nth i (red_accs row) alg_zero).
      assert (Hc := chain_char comp (alg_at row 4) n wire acc_val).
      assert (H0 : 0 < n -> acc_val 0 = comp 0 (alg_at row 4)).
      { intros Hn. unfold acc_val, comp, red_accs.
        rewrite (reducing_loop_0 _ _ _ alg_zero alg_zero) by (rewrite map_length, seq_length; exact Hn).
        rewrite nth_map_seq by exact Hn. reflexivity. }
      assert (HS : forall i, S i < n -> acc_val (S i) = comp (S i) (acc_val i)).
      { intros i Hi. unfold acc_val, comp, red_accs.
        rewrite (reducing_loop_S _ alg_zero alg_zero) by (rewrite map_length, seq_length; exact Hi).
        rewrite nth_map_seq by exact Hi. reflexivity. }
      specialize (Hc H0 HS). split.
      - intros Hz i Hi. apply in_seq in Hi. apply agree_alg_writes.
        apply (proj1 Hc); [|lia]. intros j Hj. symmetry.
        assert (Hzj := Hz j). rewrite in_seq in Hzj. specialize (Hzj ltac:(lia)).
        apply alg_coords_zero in Hzj. unfold comp, wire. rewrite <- Hzj.
        destruct j; reflexivity.
      - intros Ha i Hi. apply in_seq in Hi. apply alg_coords_zero.
        assert (Hw : forall j, j < n -> wire j = acc_val j).
        { intros j Hj. apply agree_alg_writes. apply Ha. apply in_seq. lia. }
        specialize (proj2 Hc Hw i ltac:(lia)) as Hci. unfold comp, wire in Hci. rewrite Hci.
        destruct i; reflexivity.
    Qed.

    Lemma red_block_fst row : map fst (red_block row) = flat_map (fun i => pair_idx (acc_start i)) (seq 0 n).
    Proof. apply map_fst_alg_block. Qed.
  End Reducing.

  Lemma NoDup_pair_block_gen (f : nat -> nat) n :
    (forall i j, i < j < n -> f i <> f j /\ f i <> S (f j) /\ S (f i) <> f j) ->
    NoDup (flat_map (fun i => pair_idx (f i)) (seq 0 n)).
  Proof.
    induction n as [|n IH]; intros Hf; [constructor|].
    rewrite seq_S, flat_map_app. cbn [flat_map plus]. rewrite app_nil_r.
    apply NoDup_app_intro.
    - apply IH. intros i j Hij. apply Hf. lia.
    - unfold pair_idx. constructor; [cbn [In]; lia|]. constructor; [cbn [In]; tauto | constructor].
    - intros w Hw Hw2. apply in_pair_block in Hw. destruct Hw as [i [Hi Hw]]. apply in_seq in Hi.
      unfold pair_idx in Hw2. cbn [In] in Hw2. specialize (Hf i n ltac:(lia)). lia.
  Qed.

  Lemma last_nth_len {A} (l : list A) d : last l d = nth (length l - 1) l d.
  Proof.
    induction l as [|a l IH]; [reflexivity|].
    destruct l as [|b l]; [reflexivity|].
    change (last (a :: b :: l) d) with (last (b :: l) d). rewrite IH.
    cbn [length]. replace (S (S (length l)) - 1) with (S (S (length l) - 1)) by lia. reflexivity.
  Qed.

  (* ---- ReducingExtensionGate *)
  Definition red_ext_coeff (row : list K) (i : nat) : @alg K := alg_at row (6 + 2 * i).

  Lemma red_ext_in_written n w : In w (gate_written (ReducingExtensionGate n)) <->
    exists i, i < n /\ (w = reducing_ext_acc_start n i \/ w = S (reducing_ext_acc_start n i)).
  Proof.
    cbn [gate_written]. rewrite in_pair_block. split.
    - intros [i [Hi E]]. apply in_seq in Hi. exists i. split; [lia | exact E].
    - intros [i [Hi E]]. exists i. split; [apply in_seq; lia | exact E].
  Qed.

  Lemma red_ext_start_cases n i : i < n ->
    (i = n - 1 /\ reducing_ext_acc_start n i = 0) \/ (i < n - 1 /\ reducing_ext_acc_start n i = 6 + n * 2 + 2 * i).
  Proof.
    intros Hi. unfold reducing_ext_acc_start. destruct (Nat.eqb_spec i (n - 1)); [left | right]; lia.
  Qed.

  Lemma reducing_ext_spec n : gate_spec (ReducingExtensionGate n) ok_true.
  Proof.
    apply spec_of_gate_char.
    - intros consts r1 r2 He. cbn [gate_writes]. cbv zeta. f_equal.
      assert (Hin : forall s, 2 <= s < 6 + 2 * n -> ~ In s (gate_written (ReducingExtensionGate n))).
      { intros s Hs Hin. apply red_ext_in_written in Hin. destruct Hin as [i [Hi E]].
        destruct (red_ext_start_cases n i Hi) as [[_ E2]|[_ E2]]; lia. }
      assert (Ha : forall s, 2 <= s -> S s < 6 + 2 * n -> alg_at r1 s = alg_at r2 s).
      { intros s H1 H2. apply (alg_at_ext _ r1 r2 s He); apply Hin; lia. }
      apply flat_map_ext. intros i. f_equal. f_equal.
      rewrite (Ha 2), (Ha 4) by lia. f_equal.
      apply map_ext_in. intros j Hj. apply in_seq in Hj. apply Ha; lia.
    - intros; exact I.
    - intros consts r wr Hw. cbn [gate_writes] in Hw. cbv zeta in Hw. apply Some_eq in Hw; subst wr.
      apply (map_fst_alg_block (seq 0 n) (reducing_ext_acc_start n)).
    - cbn [gate_written]. apply NoDup_pair_block_gen. intros i j Hij.
      destruct (red_ext_start_cases n i ltac:(lia)) as [[? E1]|[? E1]];
      destruct (red_ext_start_cases n j ltac:(lia)) as [[? E2]|[? E2]]; lia.
    - intros w Hw. apply red_ext_in_written in Hw. destruct Hw as [i [Hi E]]. cbn [gate_num_wires].
      destruct (red_ext_start_cases n i Hi) as [[? E1]|[? E1]]; lia.
    - intros consts pi r wr _ Hw. cbn [gate_writes] in Hw. cbv zeta in Hw. apply Some_eq in Hw; subst wr.
      cbn [gate_eval_unfiltered].
      apply (red_char n (reducing_ext_acc_start n) red_ext_coeff r).
  Qed.

  (* ---- ReducingGate (num_coeffs >= 1; with num_coeffs = 0 the generator still writes the output
     wires, which no constraint mentions: see reducing_zero_unpinned in Proofs/Gates.v) *)
  Definition red_coeff (row : list K) (i : nat) : @alg K := alg_of (nthF row (6 + i)).

  Lemma red_start_cases n i : i < n ->
    (i = n - 1 /\ reducing_acc_start n i = 0) \/ (i < n - 1 /\ reducing_acc_start n i = 6 + n + 2 * i).
  Proof.
    intros Hi. unfold reducing_acc_start. destruct (Nat.eqb_spec i (n - 1)); [left | right]; lia.
  Qed.

  Lemma red_in_written n w : 1 <= n -> In w (gate_written (ReducingGate n)) <->
    exists i, i < n /\ (w = reducing_acc_start n i \/ w = S (reducing_acc_start n i)).
  Proof.
    intros Hn. cbn [gate_written]. rewrite in_app_iff, in_pair_block. split.
    - intros [[i [Hi E]]|Hw].
      + apply in_seq in Hi. exists i. split; [lia | exact E].
      + exists (n - 1). split; [lia|]. destruct (red_start_cases n (n - 1) ltac:(lia)) as [[_ E]|[? _]]; [|lia].
        rewrite E. unfold pair_idx in Hw. cbn [In] in Hw. lia.
    - intros [i [Hi E]]. left. exists i. split; [apply in_seq; lia | exact E].
  Qed.

  Definition red_writes n (row : list K) : list (nat * K) :=
    red_block n (reducing_acc_start n) red_coeff row
    ++ alg_writes 0 (last (red_accs n red_coeff row) (alg_at row 4)).

  Lemma red_final_incl n row x : 1 <= n ->
    In x (alg_writes 0 (last (red_accs n red_coeff row) (alg_at row 4))) ->
    In x (red_block n (reducing_acc_start n) red_coeff row).
  Proof.
    intros Hn Hx. unfold red_block. apply in_flat_map. exists (n - 1). split; [apply in_seq; lia|].
    destruct (red_start_cases n (n - 1) ltac:(lia)) as [[_ E]|[? _]]; [|lia]. rewrite E.
    rewrite last_nth_len in Hx. unfold red_accs in Hx |- *.
    rewrite reducing_loop_length, map_length, seq_length in Hx.
    rewrite (nth_indep _ (alg_at row 4) alg_zero) in Hx
      by (rewrite reducing_loop_length, map_length, seq_length; lia).
    exact Hx.
  Qed.

  Lemma reducing_spec n : 1 <= n -> gate_spec (ReducingGate n) ok_true.
  Proof.
    intros Hn.
    assert (Hblock_idx : forall r i v, In (i, v) (red_block n (reducing_acc_start n) red_coeff r) ->
              In i (gate_written (ReducingGate n)) /\ i < gate_num_wires (ReducingGate n)).
    { intros r i v Hin.
      assert (Hi : In i (map fst (red_block n (reducing_acc_start n) red_coeff r))).
      { apply in_map_iff. exists (i, v). auto. }
      rewrite red_block_fst in Hi. apply in_pair_block in Hi. destruct Hi as [j [Hj E]]. apply in_seq in Hj.
      split.
      - apply red_in_written; [exact Hn|]. exists j. split; [lia | exact E].
      - cbn [gate_num_wires]. destruct (red_start_cases n j ltac:(lia)) as [[? E1]|[? E1]]; lia. }
    apply spec_of_gate_char'.
    - intros consts r1 r2 He. cbn [gate_writes]. cbv zeta. f_equal.
      assert (Hin : forall s, 2 <= s < 6 + n -> ~ In s (gate_written (ReducingGate n))).
      { intros s Hs Hin. apply red_in_written in Hin; [|exact Hn]. destruct Hin as [i [Hi E]].
        destruct (red_start_cases n i Hi) as [[_ E2]|[_ E2]]; lia. }
      assert (Ha : forall s, 2 <= s -> S s < 6 + n -> alg_at r1 s = alg_at r2 s).
      { intros s H1 H2. apply (alg_at_ext _ r1 r2 s He); apply Hin; lia. }
      assert (Hacc : reducing_gen_loop (alg_at r1 2) (map (fun i => alg_of (nthF r1 (6 + i))) (seq 0 n)) (alg_at r1 4)
                     = reducing_gen_loop (alg_at r2 2) (map (fun i => alg_of (nthF r2 (6 + i))) (seq 0 n)) (alg_at r2 4)).
      { rewrite (Ha 2), (Ha 4) by lia. f_equal.
        apply map_ext_in. intros j Hj. apply in_seq in Hj. f_equal. apply He. apply Hin. lia. }
      rewrite Hacc. rewrite (Ha 4) by lia. reflexivity.
    - intros; exact I.
    - intros consts r wr i v Hw Hin. cbn [gate_writes] in Hw. cbv zeta in Hw. apply Some_eq in Hw; subst wr.
      apply in_app_or in Hin. destruct Hin as [Hin|Hin].
      + apply (Hblock_idx r i v Hin).
      + apply (Hblock_idx r i v). apply red_final_incl; assumption.
    - intros consts r wr w Hw Hin. cbn [gate_writes] in Hw. cbv zeta in Hw. apply Some_eq in Hw; subst wr.
      apply red_in_written in Hin; [|exact Hn]. destruct Hin as [i [Hi E]].
      assert (Hw : In w (map fst (red_block n (reducing_acc_start n) red_coeff r))).
      { rewrite red_block_fst. apply in_pair_block. exists i. split; [apply in_seq; lia | exact E]. }
      apply in_map_iff in Hw. destruct Hw as [[w' v] [Ew Hin]]. cbn [fst] in Ew. subst w'.
      exists v. apply in_or_app. left. exact Hin.
    - intros consts r wr Hw. cbn [gate_writes] in Hw. cbv zeta in Hw. apply Some_eq in Hw; subst wr.
      assert (Hfb : functional (red_block n (reducing_acc_start n) red_coeff r)).
      { apply functional_NoDup. rewrite red_block_fst. apply NoDup_pair_block_gen. intros i j Hij.
        destruct (red_start_cases n i ltac:(lia)) as [[? E1]|[? E1]];
        destruct (red_start_cases n j ltac:(lia)) as [[? E2]|[? E2]]; lia. }
      intros i v v' H1 H2. apply (Hfb i).
      + apply in_app_or in H1. destruct H1 as [H1|H1]; [exact H1 | apply red_final_incl; assumption].
      + apply in_app_or in H2. destruct H2 as [H2|H2]; [exact H2 | apply red_final_incl; assumption].
    - intros consts pi r wr _ Hw. cbn [gate_writes] in Hw. cbv zeta in Hw. apply Some_eq in Hw; subst wr.
      cbn [gate_eval_unfiltered].
      change (eval_reducing n r) with (red_eval n (reducing_acc_start n) red_coeff r).
      rewrite (red_char n (reducing_acc_start n) red_coeff r).
      rewrite agree_app. split; [|tauto]. intros Ha. split; [exact Ha|].
      intros i v Hin. apply Ha. apply red_final_incl; assumption.
  Qed.

  (* ================= ExponentiationGate ================= *)
  Definition exp_sel (base b c : K) : K := if (b =? 1)%F then (c * base)%F else c.

  Lemma exp_loop_length (base : K) : forall bs cur, length (exp_gen_loop base bs cur) = length bs.
  Proof. induction bs as [|b bs IH]; intros cur; cbn [exp_gen_loop length]; [reflexivity|]. rewrite IH. reflexivity. Qed.

  Lemma exp_loop_0 (base : K) bs cur d d' : 0 < length bs ->
    nth 0 (exp_gen_loop base bs cur) d = exp_sel base (nth 0 bs d') cur.
  Proof. destruct bs as [|b bs]; cbn [length]; [lia|]. intros _. reflexivity. Qed.

  Lemma exp_loop_S (base : K) d d' : forall bs cur i, S i < length bs ->
    nth (S i) (exp_gen_loop base bs cur) d
    = exp_sel base (nth (S i) bs d') (nth i (exp_gen_loop base bs cur) d * nth i (exp_gen_loop base bs cur) d)%F.
  Proof.
    induction bs as [|b bs IH]; intros cur i Hi; cbn [length] in Hi; [lia|].
    cbn [exp_gen_loop]. cbv zeta. destruct i as [|i].
    - cbn [nth]. apply (exp_loop_0 base bs _ d d'). lia.
    - change (nth (S (S i)) (?a :: ?l) d) with (nth (S i) l d).
      change (nth (S i) (?a :: ?l) d) with (nth i l d).
      change (nth (S (S i)) (b :: bs) d') with (nth (S i) bs d').
      apply IH. lia.
  Qed.

  Lemma exp_sel_bool (base b c : K) : b = 0%F \/ b = 1%F -> exp_sel base b c = (c * (b * base + (1 - b)))%F.
  Proof.
    intros [E|E]; subst b; unfold exp_sel.
    - assert (Hf : ((0:K) =? 1)%F = false) by (apply feqb_false; intros E; apply f_1_neq_0; auto).
      rewrite Hf. ring.
    - rewrite feqb_refl. ring.
  Qed.

  Definition ok_exp (n : nat) (consts row pi : list K) : Prop :=
    forall i, i < n -> nthF row (1 + i) = 0%F \/ nthF row (1 + i) = 1%F.

  Definition exp_bits_be n (row : list K) : list K := map (fun i => nthF row (1 + (n - i - 1))) (seq 0 n).
  Definition exp_ivs n (row : list K) : list K := exp_gen_loop (nthF row 0) (exp_bits_be n row) 1%F.

  Lemma exp_bits_nth n row i : i < n -> nth i (exp_bits_be n row) 0%F = nthF row (1 + (n - i - 1)).
  Proof.
    intros Hi. unfold exp_bits_be.
    rewrite (nth_indep _ 0%F (nthF row (1 + (n - 0 - 1)))) by (rewrite map_length, seq_length; exact Hi).
    rewrite (map_nth (fun i => nthF row (1 + (n - i - 1)))). rewrite seq_nth by exact Hi. reflexivity.
  Qed.

  Lemma exp_in_written n w : In w (gate_written (ExponentiationGate n)) <-> (2 + n <= w < 2 + n + n) \/ w = 1 + n.
  Proof.
    cbn [gate_written]. rewrite in_app_iff, in_seq. cbn [In]. lia.
  Qed.

  Lemma exp_ivs_ext n r1 r2 : same_outside (gate_written (ExponentiationGate n)) r1 r2 -> exp_ivs n r1 = exp_ivs n r2.
  Proof.
    intros He. unfold exp_ivs, exp_bits_be. rewrite (He 0) by (rewrite exp_in_written; lia). f_equal.
    apply map_ext_in. intros i Hi. apply in_seq in Hi. apply He. rewrite exp_in_written. lia.
  Qed.

  Lemma exponentiation_spec n : 1 <= n -> gate_spec (ExponentiationGate n) (ok_exp n).
  Proof.
    intros Hn.
    assert (Hlen : forall r, length (exp_ivs n r) = n).
    { intros r. unfold exp_ivs, exp_bits_be. rewrite exp_loop_length, map_length, seq_length. reflexivity. }
    apply spec_of_gate_char.
    - intros consts r1 r2 He. cbn [gate_writes]. cbv zeta.
      change (exp_gen_loop (nthF r1 0) (map (fun i => nthF r1 (1 + (n - i - 1))) (seq 0 n)) 1%F) with (exp_ivs n r1).
      change (exp_gen_loop (nthF r2 0) (map (fun i => nthF r2 (1 + (n - i - 1))) (seq 0 n)) 1%F) with (exp_ivs n r2).
      rewrite (exp_ivs_ext n r1 r2 He). reflexivity.
    - intros consts pi r1 r2 He Hok i Hi. rewrite <- (He (1 + i)) by (rewrite exp_in_written; lia). apply Hok. exact Hi.
    - intros consts r wr Hw. cbn [gate_writes] in Hw. cbv zeta in Hw. apply Some_eq in Hw; subst wr.
      change (exp_gen_loop (nthF r 0) (map (fun i => nthF r (1 + (n - i - 1))) (seq 0 n)) 1%F) with (exp_ivs n r).
      rewrite map_app. rewrite map_fst_combine by (rewrite seq_length, Hlen; reflexivity). reflexivity.
    - cbn [gate_written]. apply NoDup_app_intro; [apply seq_NoDup | constructor; [intros [] | constructor] |].
      intros x Hx Hx2. apply in_seq in Hx. cbn [In] in Hx2. lia.
    - intros w Hw. apply exp_in_written in Hw. cbn [gate_num_wires]. lia.
    - intros consts pi r wr Hok Hw. cbn [gate_writes] in Hw. cbv zeta in Hw. apply Some_eq in Hw; subst wr.
      change (exp_gen_loop (nthF r 0) (map (fun i => nthF r (1 + (n - i - 1))) (seq 0 n)) 1%F) with (exp_ivs n r).
      cbn [gate_eval_unfiltered]. unfold eval_exponentiation.
      rewrite zero_all_app, agree_app.
      pose (factor := fun i => (nthF r (1 + (n - i - 1)) * nthF r 0 + (1 - nthF r (1 + (n - i - 1))))%F).
      pose (comp := fun i (a : K) => ((match i with O => 1 | S _ => fsquare a end) * factor i)%F).
      pose (wire := fun i => nthF r (2 + n + i)).
      pose (acc_val := fun i => nth i (exp_ivs n r) 0%F).
      assert (Hbool : forall i, i < n -> nthF r (1 + (n - i - 1)) = 0%F \/ nthF r (1 + (n - i - 1)) = 1%F).
      { intros i Hi. apply Hok. lia. }
      assert (H0 : 0 < n -> acc_val 0 = comp 0 0%F).
      { intros _. unfold acc_val, comp, exp_ivs.
        rewrite (exp_loop_0 _ _ _ 0%F 0%F) by (unfold exp_bits_be; rewrite map_length, seq_length; lia).
        rewrite exp_bits_nth by lia. rewrite exp_sel_bool by (apply Hbool; lia). reflexivity. }
      assert (HS : forall i, S i < n -> acc_val (S i) = comp (S i) (acc_val i)).
      { intros i Hi. unfold acc_val, comp, exp_ivs.
        rewrite (exp_loop_S _ 0%F 0%F) by (unfold exp_bits_be; rewrite map_length, seq_length; lia).
        rewrite exp_bits_nth by lia. rewrite exp_sel_bool by (apply Hbool; lia). reflexivity. }
      assert (Hc := chain_char comp 0%F n wire acc_val H0 HS).
      assert (Hcomp : forall i, exp_computed n r i = comp i (match i with O => 0%F | S j => wire j end)).
      { intros [|i]; reflexivity. }
      assert (HA : zero_all (map (fun i => (exp_computed n r i - nthF r (2 + n + i))%F) (seq 0 n))
                   <-> (forall i, i < n -> wire i = acc_val i)).
      { rewrite zero_all_map. rewrite <- Hc. split.
        - intros Hz i Hi. rewrite <- Hcomp. symmetry. apply f_sub_eq_0. apply Hz. apply in_seq. lia.
        - intros Hw i Hi. apply in_seq in Hi. apply f_sub_eq_0. rewrite Hcomp. symmetry. apply Hw. lia. }
      assert (HB : agree (combine (seq (2 + n) n) (exp_ivs n r)) r <-> (forall i, i < n -> wire i = acc_val i)).
      { unfold agree. split.
        - intros Ha i Hi. apply Ha. apply in_combine_seq; [apply Hlen|]. exists i. auto.
        - intros Hw j v Hin. apply in_combine_seq in Hin; [|apply Hlen].
          destruct Hin as [i [Hi [Ej Ev]]]. subst j v. apply Hw. exact Hi. }
      rewrite HA, HB. split; intros [Hw Hout]; (split; [exact Hw|]).
      + intros j v [E|[]]. apply pair_equal_spec in E. destruct E as [<- <-].
        unfold zero_all in Hout. apply Forall_cons_iff in Hout. destruct Hout as [Hout _].
        apply (proj1 (f_sub_eq_0 _ _)) in Hout. rewrite Hout. apply (Hw (n - 1)). lia.
      + constructor; [|constructor]. apply f_sub_eq_0.
        rewrite (Hout (1 + n) (nthF (exp_ivs n r) (n - 1))) by (left; reflexivity).
        symmetry. apply (Hw (n - 1)). lia.
  Qed.
End Chain.
