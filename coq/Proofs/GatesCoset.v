(* C07 - CosetInterpolationGate: the shifted evaluation point is pinned by the first constraint
   (evaluation_point - shifted * shift, shift <> 0 on a generated row because the generator divides
   by it); the intermediate (eval, prod) accumulators and the evaluation value are pinned by
   definition along the chain of partial interpolations.  Holds for every subgroup_bits, degree and
   weights vector (the argument does not look inside partial_interpolate). *)
From Coq Require Import ZArith List Lia Arith Bool FinFun Ring Field.
From Verif Require Import Base.Field Model.FieldGeneric Model.Gates Proofs.GatesLib Proofs.GatesSimple
  Proofs.GatesChain.
Import ListNotations.
Local Open Scope nat_scope.

Section Coset.
  Context {K : Type} `{FL : FieldLaws K} {OB : OfBase K} {TC : ToCanon K}.
  Add Field Kf_ci : (@F_field_theory K _ FL).

  Variables bits degree : nat.
  Variable weights : list Z.

  Let n := ci_num_points bits.
  Let si := ci_start_intermediates bits.
  Let ni := ci_num_intermediates bits degree.

  Lemma si_eq : si = 1 + n * 2 + 4. Proof. unfold si, ci_start_intermediates. fold n. lia. Qed.

  (* one partial interpolation step, as both the evaluator and the generator perform it *)
  Definition ciC (values : list alg) (sep : alg) (init : alg * alg) (i : nat) : alg * alg :=
    ci_computed bits degree weights values sep init i.

  (* the generator's accumulators: k steps from [cur], which sits at index i *)
  Fixpoint ciH (values : list alg) (sep : alg) (cur : alg * alg) (i k : nat) : alg * alg :=
    match k with
    | O => cur
    | S k' => ciH values sep (ciC values sep cur (S i)) (S i) k'
    end.

  Lemma ciH_S values sep : forall k cur i,
    ciH values sep cur i (S k) = ciC values sep (ciH values sep cur i k) (i + S k).
  Proof.
    induction k as [|k IH]; intros cur i.
    - cbn [ciH]. f_equal. lia.
    - change (ciH values sep cur i (S (S k))) with (ciH values sep (ciC values sep cur (S i)) (S i) (S k)).
      rewrite IH. cbn [ciH]. f_equal. lia.
  Qed.

  Definition ci_pair_writes (i : nat) (v : alg * alg) : list (nat * K) :=
    alg_writes (si + 2 * i) (fst v) ++ alg_writes (si + 2 * (ni + i)) (snd v).

  Lemma ci_gen_loop_spec values sep : forall todo i cur,
    ci_gen_loop bits degree weights values sep si ni todo i cur
    = (flat_map (fun k => ci_pair_writes (i + k) (ciH values sep cur i k)) (seq 0 todo),
       fst (ciH values sep cur i todo)).
  Proof.
    induction todo as [|todo IH]; intros i cur.
    - reflexivity.
    - cbn [ci_gen_loop]. cbv zeta. fold (ciC values sep cur (S i)). rewrite IH.
      cbn [seq flat_map ciH]. f_equal.
      unfold ci_pair_writes at 2. rewrite Nat.add_0_r. rewrite <- !app_assoc. f_equal. f_equal.
      rewrite flat_map_seq_shift. apply flat_map_ext. intros k. cbn [ciH]. f_equal. lia.
  Qed.

  Lemma alg_smul_inv (a b : @alg K) (s : K) : s <> 0%F -> (a = alg_smul b s <-> b = alg_smul a (finv s)).
  Proof.
    intros Hs. destruct a as [a0 a1], b as [b0 b1]. unfold alg_smul. cbn [fst snd]. split; intros E.
    - apply pair_equal_spec in E. destruct E as [E0 E1]. subst a0 a1. f_equal; field; exact Hs.
    - apply pair_equal_spec in E. destruct E as [E0 E1]. subst b0 b1. f_equal; field; exact Hs.
  Qed.

  Definition ci_sep_gen (r : list K) : alg := alg_smul (alg_at r (1 + n * 2)) (finv (nthF r 0)).
  Definition ci_first (r : list K) : alg * alg :=
    ciC (ci_values bits r) (ci_sep_gen r) (alg_zero, alg_one) 0.
  Definition ci_acc (r : list K) (k : nat) : alg * alg :=
    ciH (ci_values bits r) (ci_sep_gen r) (ci_first r) 0 k.
  Definition ci_writes (r : list K) : list (nat * K) :=
    alg_writes (si + 4 * ni) (ci_sep_gen r)
    ++ flat_map (fun k => ci_pair_writes k (ci_acc r k)) (seq 0 ni)
    ++ alg_writes (1 + n * 2 + 2) (fst (ci_acc r ni)).

  Lemma ci_writes_eq consts r : nthF r 0 <> 0%F ->
    gate_writes (CosetInterpolationGate bits degree weights) consts r = Some (ci_writes r).
  Proof.
    intros Hs. cbn [gate_writes]. cbv zeta.
    assert (Hf : (nthF r 0 =? 0)%F = false) by (apply feqb_false; exact Hs). rewrite Hf.
    fold n si ni. fold (ci_sep_gen r). fold (ciC (ci_values bits r) (ci_sep_gen r) (alg_zero, alg_one) 0).
    fold (ci_first r). rewrite ci_gen_loop_spec. reflexivity.
  Qed.

  Lemma ci_writes_none consts r : nthF r 0 = 0%F ->
    gate_writes (CosetInterpolationGate bits degree weights) consts r = None.
  Proof.
    intros Hs. cbn [gate_writes]. cbv zeta. rewrite Hs. rewrite feqb_refl. reflexivity.
  Qed.

  Lemma ci_acc_S r k : ci_acc r (S k) = ciC (ci_values bits r) (ci_sep_gen r) (ci_acc r k) (S k).
  Proof. unfold ci_acc. rewrite ciH_S. reflexivity. Qed.

  Definition ci_wire (r : list K) (i : nat) : alg * alg :=
    (alg_at r (si + 2 * i), alg_at r (si + 2 * (ni + i))).

  Lemma agree_pair_writes r i (v : alg * alg) : agree (ci_pair_writes i v) r <-> ci_wire r i = v.
  Proof.
    unfold ci_pair_writes, ci_wire. rewrite agree_app, !agree_alg_writes. destruct v as [v0 v1]. cbn [fst snd].
    split; [intros [E0 E1]; congruence | intros E; apply pair_equal_spec in E; exact E].
  Qed.

  Lemma coset_char r : nthF r 0 <> 0%F ->
    (zero_all (eval_coset_interpolation bits degree weights r) <-> agree (ci_writes r) r).
  Proof.
    intros Hs. unfold eval_coset_interpolation, ci_writes. cbv zeta. fold n si ni.
    set (sepw := alg_at r (si + 4 * ni)).
    set (vals := ci_values bits r).
    rewrite !zero_all_app, !agree_app.
    assert (HA : zero_all (alg_coords (alg_sub (alg_at r (1 + n * 2)) (alg_smul sepw (nthF r 0))))
                 <-> agree (alg_writes (si + 4 * ni) (ci_sep_gen r)) r).
    { rewrite alg_coords_zero, agree_alg_writes. fold sepw. unfold ci_sep_gen. apply alg_smul_inv. exact Hs. }
    assert (HBC : sepw = ci_sep_gen r ->
       (zero_all (flat_map (fun i =>
            alg_coords (alg_sub (alg_at r (si + 2 * i)) (fst (ci_computed bits degree weights vals sepw (ci_init bits degree r i) i)))
            ++ alg_coords (alg_sub (alg_at r (si + 2 * (ni + i))) (snd (ci_computed bits degree weights vals sepw (ci_init bits degree r i) i))))
            (seq 0 ni))
        /\ zero_all (alg_coords (alg_sub (alg_at r (1 + n * 2 + 2)) (fst (ci_computed bits degree weights vals sepw (ci_init bits degree r ni) ni)))))
       <-> (agree (flat_map (fun k => ci_pair_writes k (ci_acc r k)) (seq 0 ni)) r
            /\ agree (alg_writes (1 + n * 2 + 2) (fst (ci_acc r ni))) r)).
    { intros Esep. rewrite Esep.
      pose (comp := fun i (a : alg * alg) => ciC vals (ci_sep_gen r) a i).
      assert (Hinit : forall i, ci_init bits degree r i
                = match i with O => (alg_zero, alg_one) | S j => ci_wire r j end).
      { intros [|j]; reflexivity. }
      assert (Hc := chain_char comp (alg_zero, alg_one) ni (ci_wire r) (ci_acc r)
                      (fun _ => eq_refl) (fun i _ => ci_acc_S r i)).
      assert (HB : zero_all (flat_map (fun i =>
            alg_coords (alg_sub (alg_at r (si + 2 * i)) (fst (ci_computed bits degree weights vals (ci_sep_gen r) (ci_init bits degree r i) i)))
            ++ alg_coords (alg_sub (alg_at r (si + 2 * (ni + i))) (snd (ci_computed bits degree weights vals (ci_sep_gen r) (ci_init bits degree r i) i))))
            (seq 0 ni))
          <-> (forall i, i < ni -> ci_wire r i = comp i (match i with O => (alg_zero, alg_one) | S j => ci_wire r j end))).
      { rewrite zero_all_flat_map. split.
        - intros Hz i Hi. specialize (Hz i ltac:(apply in_seq; lia)). apply zero_all_app in Hz.
          rewrite !alg_coords_zero in Hz. destruct Hz as [E0 E1]. unfold ci_wire at 1. rewrite E0, E1.
          rewrite Hinit. unfold comp, ciC. symmetry. apply surjective_pairing.
        - intros Hw i Hi. apply in_seq in Hi. specialize (Hw i ltac:(lia)). apply zero_all_app.
          rewrite !alg_coords_zero. rewrite Hinit. unfold comp, ciC in Hw. rewrite <- Hw. split; reflexivity. }
      assert (HB' : agree (flat_map (fun k => ci_pair_writes k (ci_acc r k)) (seq 0 ni)) r
                    <-> (forall i, i < ni -> ci_wire r i = ci_acc r i)).
      { rewrite agree_flat_map. split.
        - intros Ha i Hi. apply agree_pair_writes. apply Ha. apply in_seq. lia.
        - intros Hw i Hi. apply in_seq in Hi. apply agree_pair_writes. apply Hw. lia. }
      rewrite HB, HB', Hc, alg_coords_zero, agree_alg_writes.
      split; intros [Hw Hev]; (split; [exact Hw|]).
      - rewrite Hev. f_equal. rewrite Hinit. destruct ni as [|j] eqn:Eni; [reflexivity|].
        rewrite (Hw j) by lia. symmetry. apply ci_acc_S.
      - rewrite Hev. f_equal. rewrite Hinit. destruct ni as [|j] eqn:Eni; [reflexivity|].
        rewrite (Hw j) by lia. apply ci_acc_S. }
    split.
    - intros [Hz1 [Hz2 Hz3]]. assert (Ha1 := proj1 HA Hz1). split; [exact Ha1|].
      apply HBC; [apply agree_alg_writes in Ha1; exact Ha1 | split; assumption].
    - intros [Ha1 [Ha2 Ha3]]. split; [apply HA; exact Ha1|].
      apply HBC; [apply agree_alg_writes in Ha1; exact Ha1 | split; assumption].
  Qed.

  (* ---- bookkeeping *)
  Definition ci_written : list nat :=
    pair_idx (si + 4 * ni)
    ++ flat_map (fun i => pair_idx (si + 2 * i) ++ pair_idx (si + 2 * (ni + i))) (seq 0 ni)
    ++ pair_idx (1 + n * 2 + 2).

  Lemma ci_written_eq : gate_written (CosetInterpolationGate bits degree weights) = ci_written.
  Proof. reflexivity. Qed.

  Lemma ci_in_written_range w : In w ci_written -> 1 + n * 2 + 2 <= w < si + 4 * ni + 2.
  Proof.
    unfold ci_written. rewrite !in_app_iff, in_flat_map. unfold pair_idx. cbn [In]. rewrite si_eq.
    intros [Hw|[[i [Hi Hw]]|Hw]]; try lia.
    apply in_seq in Hi. apply in_app_or in Hw. cbn [In] in Hw. lia.
  Qed.

  Lemma ci_written_NoDup : NoDup ci_written.
  Proof.
    unfold ci_written, pair_idx. rewrite si_eq.
    apply NoDup_app_intro; [constructor; [cbn [In]; lia | constructor; [intros [] | constructor]] | |].
    - apply NoDup_app_intro.
      + apply NoDup_flat_map_seq.
        * intros i Hi. cbn [app]. repeat (constructor; [cbn [In]; lia|]). constructor.
        * intros i j x Hij Hx Hy. cbn [app In] in Hx, Hy. lia.
      + constructor; [cbn [In]; lia | constructor; [intros [] | constructor]].
      + intros x Hx Hy. apply in_flat_map in Hx. destruct Hx as [i [Hi Hx]]. apply in_seq in Hi.
        cbn [app In] in Hx, Hy. lia.
    - intros x Hx Hy. cbn [In] in Hx. apply in_app_or in Hy. destruct Hy as [Hy|Hy].
      + apply in_flat_map in Hy. destruct Hy as [i [Hi Hy]]. apply in_seq in Hi. cbn [app In] in Hy. lia.
      + cbn [In] in Hy. lia.
  Qed.

  Lemma ci_writes_fst r : map fst (ci_writes r) = ci_written.
  Proof.
    unfold ci_writes, ci_written. rewrite !map_app. f_equal. f_equal.
    induction (seq 0 ni) as [|k l IH]; cbn [flat_map map]; [reflexivity|].
    rewrite map_app, IH. reflexivity.
  Qed.

  Lemma coset_spec : gate_spec (CosetInterpolationGate bits degree weights) ok_true.
  Proof.
    assert (Hsome : forall consts r wr, gate_writes (CosetInterpolationGate bits degree weights) consts r = Some wr ->
              nthF r 0 <> 0%F /\ wr = ci_writes r).
    { intros consts r wr Hw. destruct (F_eq_dec (nthF r 0) 0%F) as [E|E].
      - rewrite (ci_writes_none consts r E) in Hw. discriminate.
      - rewrite (ci_writes_eq consts r E) in Hw. apply Some_eq in Hw. auto. }
    assert (Hin_low : forall w, w < 1 + n * 2 + 2 -> ~ In w (gate_written (CosetInterpolationGate bits degree weights))).
    { intros w Hw Hin. rewrite ci_written_eq in Hin. apply ci_in_written_range in Hin. lia. }
    apply spec_of_gate_char.
    - intros consts r1 r2 He.
      assert (E0 : nthF r1 0 = nthF r2 0) by (apply He; apply Hin_low; lia).
      destruct (F_eq_dec (nthF r1 0) 0%F) as [E|E].
      + rewrite (ci_writes_none consts r1 E). rewrite E0 in E. rewrite (ci_writes_none consts r2 E). reflexivity.
      + rewrite (ci_writes_eq consts r1 E). rewrite E0 in E. rewrite (ci_writes_eq consts r2 E). f_equal.
        assert (Esep : ci_sep_gen r1 = ci_sep_gen r2).
        { unfold ci_sep_gen. rewrite E0. f_equal. apply (alg_at_ext _ r1 r2 _ He); apply Hin_low; lia. }
        assert (Evals : ci_values bits r1 = ci_values bits r2).
        { unfold ci_values. apply map_ext_in. intros i Hi. apply in_seq in Hi. fold n in Hi.
          apply (alg_at_ext _ r1 r2 _ He); apply Hin_low; lia. }
        unfold ci_writes, ci_acc, ci_first. rewrite Esep, Evals. reflexivity.
    - intros; exact I.
    - intros consts r wr Hw. destruct (Hsome consts r wr Hw) as [_ ->]. rewrite ci_written_eq. apply ci_writes_fst.
    - rewrite ci_written_eq. apply ci_written_NoDup.
    - intros w Hw. rewrite ci_written_eq in Hw. apply ci_in_written_range in Hw.
      cbn [gate_num_wires]. fold si ni. lia.
    - intros consts pi r wr _ Hw. destruct (Hsome consts r wr Hw) as [Hs ->].
      cbn [gate_eval_unfiltered]. apply coset_char. exact Hs.
  Qed.
End Coset.
