(* C05, batched variant: facts about the model of verify_batch_fri_proof (Model/BatchFri.v).
   - acceptance <-> shape /\ PoW /\ number of rounds /\ every zipped round accepts;
   - once every instance has been injected the reduction loop IS the plain FRI loop;
   - at an injection layer the value handed on is  folded * beta + incoming;
   - that rule is binding: with folded = f_e + beta * f_o, the three deviations (f_e, f_o, incoming)
     enter with the independent powers beta, beta^2, 1, so a non-zero deviation triple survives for
     all but two beta; the swapped rule  folded + beta * incoming  is NOT: f_o = - incoming cancels
     for EVERY beta (the seeded change of seeded/C05). *)
From Coq Require Import ZArith List Bool Lia Arith.
From Verif Require Import Base.Field Base.Poly Model.Fp Model.Fp2 Model.FieldGeneric Model.PoseidonSpec Model.Fri Model.BatchFri.
From Verif Require Import Proofs.Fp2Field Proofs.Fri.
Import ListNotations.
Local Open Scope nat_scope.

Section BatchFri.
  Variable hash_or_noop : list Fp -> digest.
  Variable two_to_one : digest -> digest -> digest.

  Notation bround := (bquery_round hash_or_noop two_to_one).
  Notation brounds := (bverify_rounds hash_or_noop two_to_one).
  Notation bsteps := (bquery_steps hash_or_noop two_to_one).
  Notation qsteps := (Fri.query_steps hash_or_noop two_to_one).
  Notation vbfri := (verify_batch_fri_proof hash_or_noop two_to_one).

  Lemma bverify_rounds_iff dbits insts ch reduced caps pr p : forall idxs rounds r0,
    brounds dbits insts ch reduced caps pr p r0 idxs rounds = inl tt <->
    (forall i x q, nth_error idxs i = Some x -> nth_error rounds i = Some q ->
       bround dbits insts ch reduced caps pr p (r0 + i) x q = inl tt).
  Proof.
    induction idxs as [|x0 it IH]; intros rounds r0.
    - cbn [bverify_rounds]. split; [|reflexivity]. intros _ [|i] x q Hn; discriminate Hn.
    - destruct rounds as [|q0 qt]; cbn [bverify_rounds].
      + split; [|reflexivity]. intros _ [|i] x q _ Hn; discriminate Hn.
      + rewrite rbindr_unit_ok. split.
        * intros ([] & H0 & Hk). pose proof (proj1 (IH _ _) Hk) as Hk'. clear Hk.
          intros [|i] x q Hx Hq; cbn [nth_error] in Hx, Hq.
          -- injection Hx as <-. injection Hq as <-. rewrite Nat.add_0_r. exact H0.
          -- replace (r0 + S i) with (S r0 + i) by lia. apply Hk'; assumption.
        * intros Hall. exists tt. split.
          -- specialize (Hall 0 x0 q0 eq_refl eq_refl). rewrite Nat.add_0_r in Hall. exact Hall.
          -- apply IH. intros i x q Hx Hq. replace (S r0 + i) with (r0 + S i) by lia.
             apply Hall; assumption.
  Qed.

  Theorem batch_accept_iff_all_checks degree_bits insts openings ch caps pr p :
    vbfri degree_bits insts openings ch caps pr p = inl tt <->
    validate_batch_shape insts p pr = true
    /\ pow_ok (fri_pow_response ch) (proof_of_work_bits (config p)) = true
    /\ num_query_rounds (config p) = length (fp_rounds pr)
    /\ (forall i x q, nth_error (fri_query_indices ch) i = Some x -> nth_error (fp_rounds pr) i = Some q ->
          bround (map (fun d => d + rate_bits (config p)) degree_bits) insts ch
                 (map (fun o => precomputed_reduced_openings o (fri_alpha ch)) openings) caps pr p i x q = inl tt).
  Proof.
    unfold verify_batch_fri_proof. rewrite rbindr_unit_ok. split.
    - intros ([] & H1 & Hk). apply ensure_ok in H1.
      apply rbindr_unit_ok in Hk. destruct Hk as ([] & H2 & Hk). apply ensure_ok in H2.
      apply rbindr_unit_ok in Hk. destruct Hk as ([] & H3 & Hk). apply ensure_ok in H3.
      apply Nat.eqb_eq in H3. pose proof (proj1 (bverify_rounds_iff _ _ _ _ _ _ _ _ _ _) Hk) as Hk'. auto.
    - intros (H1 & H2 & H3 & H4). exists tt. split; [apply ensure_ok; exact H1|].
      apply rbindr_unit_ok. exists tt. split; [apply ensure_ok; exact H2|].
      apply rbindr_unit_ok. exists tt. split; [apply ensure_ok; apply Nat.eqb_eq; exact H3|].
      apply (proj2 (bverify_rounds_iff _ _ _ _ _ _ _ _ _ _)). exact H4.
  Qed.

  Theorem batch_bad_pow_rejected degree_bits insts openings ch caps pr p :
    validate_batch_shape insts p pr = true ->
    pow_ok (fri_pow_response ch) (proof_of_work_bits (config p)) = false ->
    vbfri degree_bits insts openings ch caps pr p = inr EPow.
  Proof.
    intros Hs Hp. unfold verify_batch_fri_proof. rewrite Hs, Hp. reflexivity.
  Qed.

  Theorem batch_bad_shape_rejected degree_bits insts openings ch caps pr p :
    validate_batch_shape insts p pr = false ->
    vbfri degree_bits insts openings ch caps pr p = inr (EShape 0).
  Proof. intros Hs. unfold verify_batch_fri_proof. rewrite Hs. reflexivity. Qed.

  (* no instance left to inject: the batch loop is the plain FRI reduction loop *)
  Theorem bquery_steps_no_more_instances round degree_bits insts reduced alpha p initial caps betas :
    forall arities steps layer x n bi sx oe,
    length degree_bits <= bi ->
    bsteps round degree_bits insts reduced alpha p initial caps steps arities betas layer x n bi sx oe =
    match qsteps round caps steps arities betas layer x sx oe with
    | inl (sx', ev) => inl (sx', ev, bi)
    | inr e => inr e
    end.
  Proof.
    induction arities as [|a at' IH]; intros steps layer x n bi sx oe Hbi.
    - destruct steps; reflexivity.
    - destruct steps as [|s st]; cbn [bquery_steps Fri.query_steps]; [reflexivity|].
      destruct (nth_error (fs_evals s) (x mod 2 ^ a)) as [e|]; [|reflexivity].
      destruct (nth_error betas layer) as [beta|]; [|reflexivity].
      destruct (nth_error caps layer) as [cap|]; [|reflexivity].
      destruct (ensure (e =? oe)%F (EConsistency round layer)) as [[]|er]; cbn [rbindr]; [|reflexivity].
      destruct (compute_evaluation sx (x mod 2 ^ a) a (fs_evals s) beta) as [ev|er]; cbn [rbindr]; [|reflexivity].
      destruct (Fri.verify_merkle_proof_to_cap hash_or_noop two_to_one (flatten2 (fs_evals s)) (x / 2 ^ a) cap (fs_siblings s))
        as [[|]|]; try reflexivity.
      assert (Hlt : Nat.ltb bi (length degree_bits) = false) by (apply Nat.ltb_ge; exact Hbi).
      rewrite Hlt. cbn [andb]. apply IH. exact Hbi.
  Qed.

  (* one layer at which instance [bi] is injected (its LDE size is reached): all the checks of a
     plain layer, and the value handed to the next layer is  folded * beta + incoming *)
  Theorem bquery_steps_inject round degree_bits insts reduced alpha p initial caps betas
          a at' s st layer x n bi sx oe e beta cap ev inst red ev2 :
    nth_error (fs_evals s) (x mod 2 ^ a) = Some e -> nth_error betas layer = Some beta ->
    nth_error caps layer = Some cap -> e = oe ->
    compute_evaluation sx (x mod 2 ^ a) a (fs_evals s) beta = inl ev ->
    Fri.verify_merkle_proof_to_cap hash_or_noop two_to_one (flatten2 (fs_evals s)) (x / 2 ^ a) cap (fs_siblings s) = Some true ->
    bi < length degree_bits -> n - a = nth bi degree_bits 0 ->
    nth_error insts bi = Some inst -> nth_error reduced bi = Some red ->
    fri_combine_initial inst p initial alpha (subgroup_point (n - a) (x / 2 ^ a)) red = inl ev2 ->
    bsteps round degree_bits insts reduced alpha p initial caps (s :: st) (a :: at') betas layer x n bi sx oe =
    bsteps round degree_bits insts reduced alpha p initial caps st at' betas (S layer) (x / 2 ^ a) (n - a) (S bi)
           (exp_power_of_2 sx a) (ev * beta + ev2)%F.
  Proof.
    intros He Hb Hc Heq Hev Hm Hbi Hn Hi Hr Hc2.
    cbn [bquery_steps]. rewrite He, Hb, Hc.
    assert (Hens : ensure (e =? oe)%F (EConsistency round layer) = inl tt).
    { apply ensure_ok. apply Fp2_eqb_spec. exact Heq. }
    rewrite Hens. cbn [rbindr]. rewrite Hev. cbn [rbindr]. rewrite Hm.
    assert (Hlt : Nat.ltb bi (length degree_bits) = true) by (apply Nat.ltb_lt; exact Hbi).
    rewrite Hlt, Hn, Nat.eqb_refl. cbn [andb]. rewrite Hi, Hr.
    rewrite <- Hn. rewrite Hc2. cbn [rbindr]. reflexivity.
  Qed.
End BatchFri.

(* ------------------------------------------------------------------------------------------ *)
(* the injection rule as a polynomial in beta (any field) *)
Section InjectRule.
  Context {F : Type} {FO : FieldOps F} {FL : FieldLaws F}.
  Add Field Fbf : (@F_field_theory F FO FL).
  Local Open Scope field_scope.

  Lemma inject_rule_poly (fe fo v beta : F) :
    (fe + beta * fo) * beta + v = peval [v; fe; fo] beta.
  Proof. cbn [peval]. ring. Qed.

  Theorem inject_rule_binding (fe fo v : F) :
    (fe, fo, v) <> (0, 0, 0) ->
    forall bad : list F, NoDup bad ->
      (forall beta, In beta bad -> (fe + beta * fo) * beta + v = 0) -> (length bad <= 2)%nat.
  Proof.
    intros Hnz bad Hnd Hbad.
    assert (HE : Exists (fun t : F => t <> 0) [v; fe; fo]).
    { destruct (F_eq_dec v 0) as [Hv|Hv]; [|apply Exists_cons_hd; exact Hv].
      destruct (F_eq_dec fe 0) as [He|He]; [|apply Exists_cons_tl, Exists_cons_hd; exact He].
      destruct (F_eq_dec fo 0) as [Ho|Ho]; [|apply Exists_cons_tl, Exists_cons_tl, Exists_cons_hd; exact Ho].
      exfalso. apply Hnz. rewrite Hv, He, Ho. reflexivity. }
    pose proof (alpha_combination_bound [v; fe; fo] HE bad Hnd) as Hb.
    cbn [length] in Hb. apply Hb. intros beta Hin. rewrite <- inject_rule_poly. apply Hbad. exact Hin.
  Qed.

  (* the swapped rule: a non-zero deviation that cancels for every beta *)
  Theorem swapped_rule_not_binding :
    exists fe fo v : F, fo <> 0 /\ v <> 0 /\ forall beta : F, (fe + beta * fo) + v * beta = 0.
  Proof.
    exists 0, 1, (fneg 1). split; [apply f_1_neq_0|]. split.
    - intros H. apply (f_1_neq_0 (F := F)).
      assert (E : (1 : F) = fneg (fneg 1)) by ring. rewrite E, H. ring.
    - intros beta. ring.
  Qed.
End InjectRule.
