(* C13 (a) - the optimised field-level permutation equals the textbook permutation.
   * generic (any FieldLaws F, any constant injection): the full rounds of both coincide
     (mds_row_shf = row of circulant + diagonal, sbox_monomial = x^7);
   * at Fp: the symbolic runs of the two partial-round programs coincide on the REGENERATED
     tables (a closed vm_compute equality), hence by Proofs/PoseidonSym.v sym_sound the fast
     partial rounds equal the textbook ones on every state;
   * poseidon_fast = poseidon_spec = poseidon_naive on every input. *)
From Coq Require Import ZArith List Lia.
From Verif Require Import Base.Field Gen.PoseidonConsts Model.Fp Model.FieldGeneric Model.Poseidon
  Proofs.FpField Proofs.FpFieldPrime Proofs.PoseidonSym.
Import ListNotations.

Section FullRounds.
  Context {F : Type} {FO : FieldOps F} {FL : @FieldLaws F FO}.
  Add Field Ff2 : (@F_field_theory F FO FL).
  Variable ofZ : Z -> F.
  Local Open Scope field_scope.

  Lemma sbox_monomial_pow7 x : sbox_monomial x = pow7 x.
  Proof. unfold sbox_monomial, pow7. cbn [fpow]. ring. Qed.

  Lemma mds_layer_eq_spec v : mds_layer ofZ v = mds_spec ofZ v.
  Proof.
    unfold mds_layer, mds_spec. apply map_ext_in. intros r Hr.
    cbn [seq In] in Hr.
    repeat (destruct Hr as [<-|Hr]; [
      unfold mds_row_shf, mds_entry;
      cbn [seq map fold_left fsum fold_right Nat.eqb Nat.modulo Nat.divmod Nat.add Nat.sub fst snd];
      ring |]).
    contradiction.
  Qed.

  Lemma full_rounds_eq_spec r0 s : full_rounds ofZ r0 s = full_rounds_spec ofZ r0 s.
  Proof.
    unfold full_rounds, full_rounds_spec. generalize (seq r0 4). intros l. revert s.
    induction l as [|r l IH]; intros s; cbn [fold_left]; [reflexivity|].
    rewrite IH. f_equal. unfold full_round_spec. rewrite mds_layer_eq_spec. f_equal.
    unfold sbox_layer, constant_layer, add_round_constants. apply map_ext. apply sbox_monomial_pow7.
  Qed.

  Lemma full_rounds_length r0 s : length (full_rounds ofZ r0 s) = 12%nat.
  Proof.
    unfold full_rounds. change (seq r0 4) with [r0; S r0; S (S r0); S (S (S r0))].
    cbn [fold_left]. unfold mds_layer at 1. rewrite map_length. reflexivity.
  Qed.

  (* the naive partial rounds of poseidon.rs are literally the textbook ones *)
  Lemma partial_rounds_naive_eq_spec s : partial_rounds_naive ofZ s = partial_rounds_spec ofZ s.
  Proof.
    unfold partial_rounds_naive, partial_rounds_spec, partial_rounds_spec_gen.
    generalize (seq 0 22). intros l. revert s.
    induction l as [|k l IH]; intros s; cbn [fold_left]; [reflexivity|].
    rewrite IH. f_equal. unfold partial_round_spec_gen. rewrite mds_layer_eq_spec. f_equal.
    unfold constant_layer, add_round_constants.
    cbn [seq map sbox_first]. f_equal. apply sbox_monomial_pow7.
  Qed.
End FullRounds.

(* ---- the closed check on the regenerated tables *)
Definition fv2 (p : list (list Fp) * list (list Fp)) : list (list Z) * list (list Z) :=
  (map (map fval) (fst p), map (map fval) (snd p)).

Lemma map_fval_inj : forall a b : list Fp, map fval a = map fval b -> a = b.
Proof.
  induction a as [|x a IH]; intros [|y b] E; try discriminate E; [reflexivity|].
  cbn [map] in E. injection E as E1 E2. f_equal; [apply Fp_ext; exact E1 | apply IH; exact E2].
Qed.

Lemma map_map_fval_inj : forall a b : list (list Fp), map (map fval) a = map (map fval) b -> a = b.
Proof.
  induction a as [|x a IH]; intros [|y b] E; try discriminate E; [reflexivity|].
  cbn [map] in E. injection E as E1 E2. f_equal; [apply map_fval_inj; exact E1 | apply IH; exact E2].
Qed.

Lemma fv2_inj p q : fv2 p = fv2 q -> p = q.
Proof.
  destruct p as [p1 p2], q as [q1 q2]. unfold fv2. cbn [fst snd]. intros E. injection E as E1 E2.
  f_equal; apply map_map_fval_inj; assumption.
Qed.

(* 22 S-box input forms and 12 final forms, each a vector of 35 residues: naive = fast *)
Lemma sym_check : @sym_naive Fp FpOps toFp = @sym_fast Fp FpOps toFp.
Proof. apply fv2_inj. vm_compute. reflexivity. Qed.

Lemma fp_sbox_same : forall x : Fp, pow7 x = sbox_monomial x.
Proof. intros x. symmetry. apply sbox_monomial_pow7. Qed.

Theorem partial_rounds_fast_eq_naive : forall x : list Fp, length x = 12%nat ->
  partial_rounds toFp x = partial_rounds_spec toFp x.
Proof.
  intros x Hl. unfold partial_rounds, partial_rounds_spec.
  apply (@sym_sound Fp FpOps FpLaws toFp pow7 sbox_monomial fp_sbox_same sym_check x Hl).
Qed.

Theorem poseidon_fast_eq_spec_all : forall s : list Fp, poseidon_fast toFp s = poseidon_spec toFp s.
Proof.
  intros s. unfold poseidon_fast, poseidon_spec.
  rewrite partial_rounds_fast_eq_naive by apply full_rounds_length.
  rewrite !full_rounds_eq_spec. reflexivity.
Qed.

Theorem poseidon_fast_eq_spec : forall s : list Fp, length s = 12%nat ->
  poseidon_fast toFp s = poseidon_spec toFp s.
Proof. intros s _. apply poseidon_fast_eq_spec_all. Qed.

Theorem poseidon_naive_eq_spec : forall s : list Fp, poseidon_naive toFp s = poseidon_spec toFp s.
Proof.
  intros s. unfold poseidon_naive, poseidon_spec.
  rewrite partial_rounds_naive_eq_spec, !full_rounds_eq_spec. reflexivity.
Qed.

Corollary poseidon_fast_fp_eq : forall s, poseidon_fast_fp s = poseidon_fp s.
Proof. exact poseidon_fast_eq_spec_all. Qed.

Lemma poseidon_spec_length {F} {FO : FieldOps F} (ofZ : Z -> F) s : length (poseidon_spec ofZ s) = 12%nat.
Proof.
  unfold poseidon_spec, full_rounds_spec. change (seq 26 4) with [26; 27; 28; 29]%nat.
  cbn [fold_left]. unfold full_round_spec at 1. unfold mds_spec. rewrite map_length. reflexivity.
Qed.

Lemma poseidon_fp_length s : length (poseidon_fp s) = 12%nat.
Proof. apply poseidon_spec_length. Qed.
