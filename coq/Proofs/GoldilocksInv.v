(* C14: try_inverse (72-multiplication addition chain) computes x^(P-2), hence the inverse. *)
From Coq Require Import ZArith Bool List Lia Znumtheory.
From Verif Require Import Base.Mach Gen.FieldConsts Gen.GoldilocksImpl Proofs.Goldilocks Model.Fp
  Proofs.FpField Proofs.FpFieldPrime.
Open Scope Z_scope.

Local Notation P := Proofs.Goldilocks.P.

(* r represents x^e *)
Definition Pw (x r e : Z) : Prop := 0 <= r < 2 ^ 64 /\ 0 <= e /\ r mod P = (x ^ e) mod P.

Lemma P_pos' : 0 < P. Proof. rewrite P_val. lia. Qed.

Lemma Pw_mul x a b e f : Pw x a e -> Pw x b f ->
  exists r, gl_mul a b = Some r /\ Pw x r (e + f).
Proof.
  intros (Ha & He & Ca) (Hb & Hf & Cb).
  destruct (mul_correct a b Ha Hb) as (r & E & Hr & C). exists r. split; [exact E|].
  split; [exact Hr|]. split; [lia|].
  rewrite C. rewrite Z.pow_add_r by lia. rewrite Zmult_mod, Ca, Cb, <- Zmult_mod. reflexivity.
Qed.

Lemma Pw_square x a e : Pw x a e -> exists r, gl_square a = Some r /\ Pw x r (2 * e).
Proof.
  intros Ha. destruct (Pw_mul x a a e e Ha Ha) as (r & E & Hr). exists r. split; [exact E|].
  replace (2 * e) with (e + e) by lia. exact Hr.
Qed.

Lemma Pw_exp2 x n : forall a e, Pw x a e ->
  exists r, gl_exp_power_of_2_nat n a = Some r /\ Pw x r (e * 2 ^ Z.of_nat n).
Proof.
  induction n as [|n IH]; intros a e Ha.
  - exists a. split; [reflexivity|]. replace (e * 2 ^ Z.of_nat 0) with e by (simpl; lia). exact Ha.
  - cbn [gl_exp_power_of_2_nat]. destruct (Pw_square x a e Ha) as (r & E & Hr).
    rewrite E, bind_Some. destruct (IH r (2 * e) Hr) as (r2 & E2 & Hr2).
    exists r2. split; [exact E2|].
    replace (e * 2 ^ Z.of_nat (S n)) with (2 * e * 2 ^ Z.of_nat n); [exact Hr2|].
    rewrite Nat2Z.inj_succ, Z.pow_succ_r by lia. lia.
Qed.

Lemma Pw_exp_acc x n a b e f : Pw x a e -> Pw x b f -> 0 <= n ->
  exists r, gl_exp_acc n a b = Some r /\ Pw x r (e * 2 ^ n + f).
Proof.
  intros Ha Hb Hn. unfold gl_exp_acc, gl_exp_power_of_2.
  destruct (Pw_exp2 x (Z.to_nat n) a e Ha) as (r & E & Hr). rewrite E, bind_Some.
  rewrite Z2Nat.id in Hr by lia.
  apply Pw_mul; assumption.
Qed.

Lemma is_zero_spec x : 0 <= x < 2 ^ 64 -> gl_is_zero x = Some (x mod P =? 0).
Proof. intros. unfold gl_is_zero. rewrite to_canonical_spec by auto. reflexivity. Qed.

Ltac chain_sq H :=
  let r := fresh "t" in let E := fresh "E" in let Hr := fresh "Ht" in
  destruct (Pw_square _ _ _ H) as (r & E & Hr); rewrite E, bind_Some; clear E.
Ltac chain_mul H1 H2 :=
  let r := fresh "t" in let E := fresh "E" in let Hr := fresh "Ht" in
  destruct (Pw_mul _ _ _ _ _ H1 H2) as (r & E & Hr); rewrite E, bind_Some; clear E.
Ltac chain_acc n H1 H2 :=
  let r := fresh "t" in let E := fresh "E" in let Hr := fresh "Ht" in
  destruct (Pw_exp_acc _ n _ _ _ _ H1 H2 ltac:(lia)) as (r & E & Hr); rewrite E, bind_Some; clear E.

Theorem try_inverse_is_pow x : 0 <= x < 2 ^ 64 -> x mod P <> 0 ->
  exists r, gl_try_inverse x = Some (Some r) /\ 0 <= r < 2 ^ 64 /\ r mod P = (x ^ (P - 2)) mod P.
Proof.
  intros Hx Hnz. unfold gl_try_inverse. rewrite is_zero_spec by auto. rewrite bind_Some.
  destruct (Z.eqb_spec (x mod P) 0) as [E0|_]; [contradiction|].
  assert (H1 : Pw x x 1) by (unfold Pw; rewrite Z.pow_1_r; repeat split; try lia).
  chain_sq H1. chain_mul Ht H1.          (* t2 = x^3 *)
  chain_sq Ht0. chain_mul Ht1 H1.        (* t3 = x^7 *)
  chain_acc 3 Ht2 Ht2.                   (* t6 *)
  chain_acc 6 Ht3 Ht3.                   (* t12 *)
  chain_acc 12 Ht4 Ht4.                  (* t24 *)
  chain_acc 6 Ht5 Ht3.                   (* t30 *)
  chain_sq Ht6. chain_mul Ht7 H1.        (* t31 *)
  chain_acc 32 Ht8 Ht8.                  (* t63 *)
  chain_sq Ht9. chain_mul Ht10 H1.
  unfold ret. eexists. split; [reflexivity|].
  destruct Ht11 as (Hr & _ & C). split; [exact Hr|].
  rewrite C. f_equal; try (f_equal; rewrite P_val; lia).
Qed.

Theorem try_inverse_zero x : 0 <= x < 2 ^ 64 -> x mod P = 0 -> gl_try_inverse x = Some None.
Proof.
  intros Hx Hz. unfold gl_try_inverse. rewrite is_zero_spec by auto. rewrite bind_Some.
  rewrite Hz. reflexivity.
Qed.

Theorem inverse_correct x : 0 <= x < 2 ^ 64 -> x mod P <> 0 ->
  exists r, gl_try_inverse x = Some (Some r) /\ 0 <= r < 2 ^ 64 /\ (r * x) mod P = 1.
Proof.
  intros Hx Hnz. destruct (try_inverse_is_pow x Hx Hnz) as (r & E & Hr & C).
  exists r. split; [exact E|]. split; [exact Hr|].
  rewrite Zmult_mod, C, <- Zmult_mod.
  replace (x ^ (P - 2) * x) with (x ^ (P - 1)).
  - apply fermat_P. exact Hnz.
  - replace (P - 1) with (P - 2 + 1) by lia. rewrite Z.pow_add_r by (try rewrite P_val; lia).
    rewrite Z.pow_1_r. reflexivity.
Qed.
