(* C07 - shared lemmas for the per-gate proofs: rows and single-wire updates, sequential generator
   writes, all-zero / some-non-zero constraint vectors, and the derivation of gen_sat / gen_pinned
   from a per-gate specification ("the constraints vanish when every written wire holds the
   generated value; they do not vanish when exactly one written wire holds another value"). *)
From Coq Require Import ZArith List Lia Arith Bool.
From Verif Require Import Base.Field Model.FieldGeneric Model.Gates.
Import ListNotations.
Local Open Scope nat_scope.

Section Rows.
  Context {A : Type}.

  Lemma Some_eq (a b : A) : Some a = Some b -> a = b.
  Proof. intros E. injection E. auto. Qed.

  Lemma upd_length : forall (l : list A) i v, length (upd l i v) = length l.
  Proof. induction l; intros [|i] v; cbn [upd length]; auto. Qed.

  Lemma nth_upd_eq : forall (l : list A) i v d, i < length l -> nth i (upd l i v) d = v.
  Proof.
    induction l as [|a l IH]; intros i v d Hi; [cbn [length] in Hi; lia|].
    destruct i as [|i]; cbn [upd nth]; [reflexivity|]. apply IH. cbn [length] in Hi. lia.
  Qed.

  Lemma nth_upd_neq : forall (l : list A) i j v d, i <> j -> nth j (upd l i v) d = nth j l d.
  Proof.
    induction l as [|a l IH]; intros i j v d Hn; [destruct i; reflexivity|].
    destruct i as [|i], j as [|j]; cbn [upd nth]; try reflexivity; try congruence.
    apply IH. congruence.
  Qed.

  Lemma nth_map_seq_gen (f : nat -> A) s n i d : i < n -> nth i (map f (seq s n)) d = f (s + i).
  Proof.
    intros Hi. rewrite (nth_indep _ d (f 0)) by (rewrite map_length, seq_length; exact Hi).
    rewrite map_nth. rewrite seq_nth by exact Hi. reflexivity.
  Qed.

  Lemma fold_right_ext_in {B} (f g : B -> A -> A) (a : A) (l : list B) :
    (forall x acc, In x l -> f x acc = g x acc) -> fold_right f a l = fold_right g a l.
  Proof.
    induction l as [|x l IH]; intros Hfg; cbn [fold_right]; [reflexivity|].
    rewrite IH by (intros y acc Hy; apply Hfg; right; exact Hy). apply Hfg. left. reflexivity.
  Qed.

  Lemma flat_map_seq_shift (f : nat -> list A) s n :
    flat_map f (seq (S s) n) = flat_map (fun k => f (S k)) (seq s n).
  Proof.
    rewrite <- seq_shift. induction (seq s n) as [|a l IH]; cbn [map flat_map]; [reflexivity|].
    rewrite IH. reflexivity.
  Qed.

  Lemma NoDup_app_intro (l1 l2 : list A) :
    NoDup l1 -> NoDup l2 -> (forall x, In x l1 -> In x l2 -> False) -> NoDup (l1 ++ l2).
  Proof.
    induction l1 as [|a l1 IH]; intros H1 H2 Hd; cbn [app]; [exact H2|].
    inversion H1 as [|? ? Hna H1']; subst. constructor.
    - intros Hin. apply in_app_or in Hin. destruct Hin as [Hin|Hin]; [tauto|].
      apply (Hd a); [left; reflexivity | exact Hin].
    - apply IH; [exact H1' | exact H2 |]. intros x Hx1 Hx2. apply (Hd x); [right; exact Hx1 | exact Hx2].
  Qed.

  Lemma NoDup_flat_map_seq (f : nat -> list A) n :
    (forall i, i < n -> NoDup (f i)) ->
    (forall i j x, i < j < n -> In x (f i) -> In x (f j) -> False) ->
    NoDup (flat_map f (seq 0 n)).
  Proof.
    induction n as [|n IH]; intros Hnd Hdis; [constructor|].
    rewrite seq_S, flat_map_app. cbn [flat_map plus]. rewrite app_nil_r.
    apply NoDup_app_intro.
    - apply IH; [intros i Hi; apply Hnd; lia | intros i j x Hij; apply Hdis; lia].
    - apply Hnd. lia.
    - intros x Hx Hx2. apply in_flat_map in Hx. destruct Hx as [i [Hi Hx]]. apply in_seq in Hi.
      apply (Hdis i n x); [lia | exact Hx | exact Hx2].
  Qed.
End Rows.

Section Lib.
  Context {K : Type} `{FL : FieldLaws K}.
  Local Open Scope field_scope.
  Add Field Kf_lib : (@F_field_theory K _ FL).

  Definition zero_all (l : list K) : Prop := Forall (fun c => c = 0) l.
  Definition nonzero_some (l : list K) : Prop := Exists (fun c => c <> 0) l.

  Lemma zero_or_nonzero (l : list K) : zero_all l \/ nonzero_some l.
  Proof.
    induction l as [|c l IH]; [left; constructor|].
    destruct (F_eq_dec c 0) as [E|E].
    - destruct IH as [IH|IH]; [left; constructor; auto | right; apply Exists_cons_tl; exact IH].
    - right. apply Exists_cons_hd. exact E.
  Qed.

  Lemma not_zero_all (l : list K) : ~ zero_all l -> nonzero_some l.
  Proof. destruct (zero_or_nonzero l); tauto. Qed.

  Lemma zero_all_not_nonzero (l : list K) : zero_all l -> ~ nonzero_some l.
  Proof.
    unfold zero_all, nonzero_some. rewrite Forall_forall, Exists_exists.
    intros Hz [c [Hin Hc]]. apply Hc. apply Hz. exact Hin.
  Qed.

  Lemma zero_all_app (l1 l2 : list K) : zero_all (l1 ++ l2) <-> zero_all l1 /\ zero_all l2.
  Proof. unfold zero_all. apply Forall_app. Qed.

  Lemma nonzero_some_app (l1 l2 : list K) : nonzero_some (l1 ++ l2) <-> nonzero_some l1 \/ nonzero_some l2.
  Proof. unfold nonzero_some. apply Exists_app. Qed.

  Lemma zero_all_map {B} (f : B -> K) (l : list B) : zero_all (map f l) <-> forall x, In x l -> f x = 0.
  Proof.
    unfold zero_all. rewrite Forall_forall. split.
    - intros Hz x Hx. apply Hz. apply in_map. exact Hx.
    - intros Hz c Hc. apply in_map_iff in Hc. destruct Hc as [x [<- Hx]]. auto.
  Qed.

  Lemma zero_all_flat_map {B} (f : B -> list K) (l : list B) :
    zero_all (flat_map f l) <-> forall x, In x l -> zero_all (f x).
  Proof.
    unfold zero_all. induction l as [|a l IH]; cbn [flat_map].
    - split; [intros _ x [] | constructor].
    - rewrite Forall_app, IH. split.
      + intros [Ha Hl] x [<-|Hx]; auto.
      + intros Hz. split; [apply Hz; left; reflexivity | intros x Hx; apply Hz; right; exact Hx].
  Qed.

  Lemma nonzero_some_in (l : list K) c : In c l -> c <> 0 -> nonzero_some l.
  Proof. intros. apply Exists_exists. exists c. auto. Qed.

  Lemma nonzero_some_flat_map {B} (f : B -> list K) (l : list B) x :
    In x l -> nonzero_some (f x) -> nonzero_some (flat_map f l).
  Proof.
    unfold nonzero_some. rewrite !Exists_exists. intros Hx [c [Hc Hn]].
    exists c. split; [|exact Hn]. apply in_flat_map. exists x. auto.
  Qed.

  (* a running product vanishes iff the start value or one of the factors does (integral domain) *)
  Lemma fold_prod_zero {B} (f : B -> K) (l : list B) : forall a,
    fold_left (fun acc j => acc * f j) l a = 0 <-> a = 0 \/ exists j, In j l /\ f j = 0.
  Proof.
    induction l as [|x l IH]; intros a; cbn [fold_left].
    - split; [auto | intros [E|[j [[] _]]]; exact E].
    - rewrite IH. split.
      + intros [E|[j [Hj Ej]]].
        * apply f_mul_eq_0 in E. destruct E as [E|E]; [left; exact E | right; exists x; cbn [In]; auto].
        * right. exists j. cbn [In]. auto.
      + intros [E|[j [[Ej|Hj] Hf]]].
        * left. subst a. ring.
        * left. subst j. rewrite Hf. ring.
        * right. exists j. auto.
  Qed.

  (* ---- rows *)
  Lemma nthF_upd_eq (l : list K) i v : i < length l -> nthF (upd l i v) i = v.
  Proof. apply nth_upd_eq. Qed.
  Lemma nthF_upd_neq (l : list K) i j v : i <> j -> nthF (upd l i v) j = nthF l j.
  Proof. apply nth_upd_neq. Qed.

  (* ---- sequential writes *)
  Definition agree (wr : list (nat * K)) (row : list K) : Prop :=
    forall i v, In (i, v) wr -> nthF row i = v.
  Definition agree_except (w : nat) (wr : list (nat * K)) (row : list K) : Prop :=
    forall i v, In (i, v) wr -> i <> w -> nthF row i = v.
  Definition functional (wr : list (nat * K)) : Prop :=
    forall i v v', In (i, v) wr -> In (i, v') wr -> v = v'.

  Lemma agree_app wr1 wr2 row : agree (wr1 ++ wr2) row <-> agree wr1 row /\ agree wr2 row.
  Proof.
    unfold agree. split.
    - intros Ha. split; intros i v Hin; apply Ha; apply in_or_app; auto.
    - intros [H1 H2] i v Hin. apply in_app_or in Hin. destruct Hin; auto.
  Qed.

  Lemma row_write_length (wr : list (nat * K)) : forall row, length (row_write row wr) = length row.
  Proof.
    induction wr as [|[i v] t IH]; intros row; cbn [row_write]; [reflexivity|].
    rewrite IH. apply upd_length.
  Qed.

  Lemma row_write_other (wr : list (nat * K)) : forall row j,
    ~ In j (map fst wr) -> nthF (row_write row wr) j = nthF row j.
  Proof.
    induction wr as [|[i v] t IH]; intros row j Hj; cbn [row_write]; [reflexivity|].
    cbn [map fst In] in Hj. rewrite IH by tauto. apply nthF_upd_neq. tauto.
  Qed.

  Lemma row_write_agree (wr : list (nat * K)) : forall row,
    functional wr -> (forall i v, In (i, v) wr -> i < length row) -> agree wr (row_write row wr).
  Proof.
    induction wr as [|[i v] t IH]; intros row Hf Hb j u Hin; [destruct Hin|].
    cbn [row_write].
    assert (Hft : functional t).
    { intros a x y Hx Hy. apply (Hf a); right; assumption. }
    assert (Hbt : forall a x, In (a, x) t -> a < length (upd row i v)).
    { intros a x Hx. rewrite upd_length. apply (Hb a x). right. exact Hx. }
    destruct Hin as [E|Hin].
    - inversion E; subst j u; clear E.
      destruct (in_dec Nat.eq_dec i (map fst t)) as [Hi|Hi].
      + apply in_map_iff in Hi. destruct Hi as [[i' v'] [E Hin']]. cbn [fst] in E. subst i'.
        assert (v' = v) by (apply (Hf i); [right; exact Hin' | left; reflexivity]). subst v'.
        apply (IH _ Hft Hbt). exact Hin'.
      + rewrite row_write_other by exact Hi. apply nthF_upd_eq. apply (Hb i v). left. reflexivity.
    - apply (IH _ Hft Hbt). exact Hin.
  Qed.

  (* ---- the extension algebra K[X]/(X^2 - W) *)
  Context {OB : OfBase K}.

  Lemma alg_coords_zero (a b : alg) : zero_all (alg_coords (alg_sub a b)) <-> a = b.
  Proof.
    destruct a as [a0 a1], b as [b0 b1]. unfold alg_coords, alg_sub, zero_all. cbn [fst snd].
    split.
    - intros Hz. apply Forall_cons_iff in Hz. destruct Hz as [H0 Hz].
      apply Forall_cons_iff in Hz. destruct Hz as [H1 _].
      apply (proj1 (f_sub_eq_0 _ _)) in H0. apply (proj1 (f_sub_eq_0 _ _)) in H1. congruence.
    - intros E. inversion E; subst. repeat constructor; ring.
  Qed.

  Lemma alg_eta (a : alg (K:=K)) : (fst a, snd a) = a. Proof. destruct a; reflexivity. Qed.

  Lemma alg_at_upd_other (l : list K) s w v : w <> s -> w <> S s -> alg_at (upd l w v) s = alg_at l s.
  Proof. intros. unfold alg_at. rewrite !nthF_upd_neq by assumption. reflexivity. Qed.

  (* writes of an algebra element agree with the row iff the row holds it *)
  Lemma agree_alg_writes s (a : alg) row : agree (alg_writes s a) row <-> alg_at row s = a.
  Proof.
    unfold agree, alg_writes, alg_at. destruct a as [a0 a1]. cbn [fst snd]. split.
    - intros Ha. f_equal; apply Ha; cbn [In]; auto.
    - intros E i v [Hin|[Hin|[]]]; inversion Hin; subst; inversion E; reflexivity.
  Qed.
End Lib.

(* ---- derivation of gen_sat and gen_pinned from a per-gate specification *)
Section Derive.
  Context {K : Type} `{FL : FieldLaws K}.
  Local Open Scope field_scope.

  Variable eval : list K -> list K.
  Variable writes : list K -> option (list (nat * K)).
  Variable written : list nat.
  Variable ok : list K -> Prop.          (* conditions on the input (non-written) wires *)
  Variable N : nat.                        (* num_wires *)

  (* what the generators write, and the input conditions, depend on the non-written wires only *)
  Hypothesis writes_ext : forall r1 r2,
    (forall i, ~ In i written -> nthF r1 i = nthF r2 i) -> writes r1 = writes r2.
  Hypothesis ok_ext : forall r1 r2,
    (forall i, ~ In i written -> nthF r1 i = nthF r2 i) -> ok r1 -> ok r2.
  Hypothesis writes_idx : forall r wr i v,
    writes r = Some wr -> In (i, v) wr -> In i written /\ i < N.
  Hypothesis written_cov : forall r wr w, writes r = Some wr -> In w written -> exists v, In (w, v) wr.
  Hypothesis writes_fun : forall r wr, writes r = Some wr -> functional wr.
  Hypothesis spec_sat : forall r wr, ok r -> writes r = Some wr -> agree wr r -> zero_all (eval r).
  Hypothesis spec_pin : forall r wr w g, ok r -> writes r = Some wr -> In (w, g) wr ->
    agree_except w wr r -> nthF r w <> g -> nonzero_some (eval r).

  Lemma written_same row wr : writes row = Some wr ->
    forall i, ~ In i written -> nthF (row_write row wr) i = nthF row i.
  Proof.
    intros Hw i Hi. apply row_write_other. intros Hin. apply in_map_iff in Hin.
    destruct Hin as [[j v] [E Hin]]. cbn [fst] in E. subst j.
    apply Hi. apply (writes_idx row wr i v Hw Hin).
  Qed.

  Theorem derive_gen_sat row wr :
    N <= length row -> ok row -> writes row = Some wr -> zero_all (eval (row_write row wr)).
  Proof.
    intros Hlen Hok Hw.
    assert (Hsame := written_same row wr Hw).
    apply (spec_sat _ wr).
    - apply (ok_ext row); [|exact Hok]. intros i Hi. symmetry. apply Hsame. exact Hi.
    - rewrite <- Hw. apply writes_ext. exact Hsame.
    - apply row_write_agree; [apply (writes_fun row); exact Hw|].
      intros i v Hin. destruct (writes_idx row wr i v Hw Hin). lia.
  Qed.

  Theorem derive_gen_pinned row wr w v :
    N <= length row -> ok row -> writes row = Some wr -> In w written ->
    v <> nthF (row_write row wr) w -> nonzero_some (eval (upd (row_write row wr) w v)).
  Proof.
    intros Hlen Hok Hw Hin Hv.
    assert (Hsame := written_same row wr Hw).
    destruct (written_cov row wr w Hw Hin) as [g Hg].
    assert (Hag : agree wr (row_write row wr)).
    { apply row_write_agree; [apply (writes_fun row); exact Hw|].
      intros i x Hx. destruct (writes_idx row wr i x Hw Hx). lia. }
    assert (Hlt : w < length (row_write row wr)).
    { rewrite row_write_length. destruct (writes_idx row wr w g Hw Hg). lia. }
    assert (Hsame2 : forall i, ~ In i written -> nthF (upd (row_write row wr) w v) i = nthF row i).
    { intros i Hi. rewrite nthF_upd_neq; [apply Hsame; exact Hi|]. intros E. subst i. tauto. }
    apply (spec_pin _ wr w g).
    - apply (ok_ext row); [|exact Hok]. intros i Hi. symmetry. apply Hsame2. exact Hi.
    - rewrite <- Hw. apply writes_ext. exact Hsame2.
    - exact Hg.
    - intros i x Hx Hne. rewrite nthF_upd_neq by congruence. apply Hag. exact Hx.
    - rewrite nthF_upd_eq by exact Hlt. rewrite <- (Hag w g Hg). exact Hv.
  Qed.

  (* a gate whose constraints vanish exactly when all written wires hold the generated values
     ("pinned by definition") satisfies both halves of the specification *)
  Lemma spec_of_char :
    (forall r wr, ok r -> writes r = Some wr -> (zero_all (eval r) <-> agree wr r)) ->
    (forall r wr, ok r -> writes r = Some wr -> agree wr r -> zero_all (eval r)) /\
    (forall r wr w g, ok r -> writes r = Some wr -> In (w, g) wr ->
       agree_except w wr r -> nthF r w <> g -> nonzero_some (eval r)).
  Proof.
    intros Hchar. split.
    - intros r wr Hok Hw Ha. apply (Hchar r wr Hok Hw). exact Ha.
    - intros r wr w g Hok Hw Hin _ Hne. apply not_zero_all. intros Hz.
      apply (Hchar r wr Hok Hw) in Hz. apply Hne. apply Hz. exact Hin.
  Qed.
End Derive.

(* ---- the per-gate specification record and what follows from it *)
Section Spec.
  Context {K : Type} `{FL : FieldLaws K} {OB : OfBase K} {TC : ToCanon K}.

  Definition same_outside (written : list nat) (r1 r2 : list K) : Prop :=
    forall i, ~ In i written -> nthF r1 i = nthF r2 i.

  (* [ok consts row pi]: the conditions on the wires the gate's generators do NOT write (inputs,
     routed constants, public-input hash wires) under which a generated row is meant to satisfy the
     gate; they are exactly the facts the rest of the circuit has to provide. *)
  Record gate_spec (g : gate) (ok : list K -> list K -> list K -> Prop) : Prop := {
    gs_writes_ext : forall consts r1 r2, same_outside (gate_written g) r1 r2 ->
                      gate_writes g consts r1 = gate_writes g consts r2;
    gs_ok_ext : forall consts pi r1 r2, same_outside (gate_written g) r1 r2 ->
                      ok consts r1 pi -> ok consts r2 pi;
    gs_idx : forall consts r wr i v, gate_writes g consts r = Some wr -> In (i, v) wr ->
                      In i (gate_written g) /\ i < gate_num_wires g;
    gs_cov : forall consts r wr w, gate_writes g consts r = Some wr -> In w (gate_written g) ->
                      exists v, In (w, v) wr;
    gs_fun : forall consts r wr, gate_writes g consts r = Some wr -> functional wr;
    gs_sat : forall consts pi r wr, ok consts r pi -> gate_writes g consts r = Some wr -> agree wr r ->
                      zero_all (gate_eval_unfiltered g consts r pi);
    gs_pin : forall consts pi r wr w gv, ok consts r pi -> gate_writes g consts r = Some wr ->
                      In (w, gv) wr -> agree_except w wr r -> nthF r w <> gv ->
                      nonzero_some (gate_eval_unfiltered g consts r pi);
  }.

  Theorem spec_gen_sat g (ok : list K -> list K -> list K -> Prop) (S : gate_spec g ok) consts pi row row' :
    gate_num_wires g <= length row -> ok consts row pi ->
    gate_generate g consts row = Some row' ->
    zero_all (gate_eval_unfiltered g consts row' pi).
  Proof.
    intros Hlen Hok Hgen. unfold gate_generate in Hgen.
    destruct (gate_writes g consts row) as [wr|] eqn:Hw; [|discriminate].
    cbn [option_map] in Hgen. inversion Hgen; subst row'; clear Hgen.
    apply (derive_gen_sat (fun r => gate_eval_unfiltered g consts r pi) (gate_writes g consts)
             (gate_written g) (fun r => ok consts r pi) (gate_num_wires g)).
    - apply (gs_writes_ext g ok S).
    - apply (gs_ok_ext g ok S).
    - apply (gs_idx g ok S).
    - apply (gs_fun g ok S).
    - apply (gs_sat g ok S).
    - exact Hlen.
    - exact Hok.
    - exact Hw.
  Qed.

  Theorem spec_gen_pinned g (ok : list K -> list K -> list K -> Prop) (S : gate_spec g ok) consts pi row row' w v :
    gate_num_wires g <= length row -> ok consts row pi ->
    gate_generate g consts row = Some row' ->
    In w (gate_written g) -> v <> nthF row' w ->
    nonzero_some (gate_eval_unfiltered g consts (upd row' w v) pi).
  Proof.
    intros Hlen Hok Hgen Hin Hv. unfold gate_generate in Hgen.
    destruct (gate_writes g consts row) as [wr|] eqn:Hw; [|discriminate].
    cbn [option_map] in Hgen. inversion Hgen; subst row'; clear Hgen.
    apply (derive_gen_pinned (fun r => gate_eval_unfiltered g consts r pi) (gate_writes g consts)
             (gate_written g) (fun r => ok consts r pi) (gate_num_wires g)).
    - apply (gs_writes_ext g ok S).
    - apply (gs_ok_ext g ok S).
    - apply (gs_idx g ok S).
    - apply (gs_cov g ok S).
    - apply (gs_fun g ok S).
    - apply (gs_pin g ok S).
    - exact Hlen.
    - exact Hok.
    - exact Hw.
    - exact Hin.
    - exact Hv.
  Qed.

  Lemma functional_NoDup (wr : list (nat * K)) : NoDup (map fst wr) -> functional wr.
  Proof.
    induction wr as [|[i v] t IH]; intros Hnd a x y Hx Hy; [destruct Hx|].
    cbn [map fst] in Hnd. inversion Hnd as [|? ? Hni Hnd']; subst.
    destruct Hx as [Ex|Hx], Hy as [Ey|Hy].
    - congruence.
    - inversion Ex; subst. exfalso. apply Hni. apply in_map_iff. exists (a, y). auto.
    - inversion Ey; subst. exfalso. apply Hni. apply in_map_iff. exists (a, x). auto.
    - apply (IH Hnd' a); assumption.
  Qed.

  (* bookkeeping from "the generators write exactly the declared wires, each once" *)
  Lemma idx_of_fst (written : list nat) N (wr : list (nat * K)) i v :
    map fst wr = written -> (forall w, In w written -> w < N) -> In (i, v) wr -> In i written /\ i < N.
  Proof.
    intros E Hb Hin. assert (In i written).
    { rewrite <- E. apply in_map_iff. exists (i, v). auto. }
    auto.
  Qed.
  Lemma cov_of_fst (written : list nat) (wr : list (nat * K)) w :
    map fst wr = written -> In w written -> exists v, In (w, v) wr.
  Proof.
    intros E Hin. rewrite <- E in Hin. apply in_map_iff in Hin.
    destruct Hin as [[i v] [Ei Hin]]. cbn [fst] in Ei. subst i. exists v. exact Hin.
  Qed.

  (* a gate pinned by definition: the constraints vanish iff all written wires hold the generated values *)
  Lemma spec_of_gate_char g (ok : list K -> list K -> list K -> Prop) :
    (forall consts r1 r2, same_outside (gate_written g) r1 r2 -> gate_writes g consts r1 = gate_writes g consts r2) ->
    (forall consts pi r1 r2, same_outside (gate_written g) r1 r2 -> ok consts r1 pi -> ok consts r2 pi) ->
    (forall consts r wr, gate_writes g consts r = Some wr -> map fst wr = gate_written g) ->
    NoDup (gate_written g) ->
    (forall w, In w (gate_written g) -> w < gate_num_wires g) ->
    (forall consts pi r wr, ok consts r pi -> gate_writes g consts r = Some wr ->
       (zero_all (gate_eval_unfiltered g consts r pi) <-> agree wr r)) ->
    gate_spec g ok.
  Proof.
    intros Hwe Hoe Hfst Hnd Hb Hchar. constructor.
    - exact Hwe.
    - exact Hoe.
    - intros consts r wr i v Hw Hin. apply (idx_of_fst _ _ wr i v (Hfst _ _ _ Hw) Hb Hin).
    - intros consts r wr w Hw Hin. apply (cov_of_fst _ wr w (Hfst _ _ _ Hw) Hin).
    - intros consts r wr Hw. apply functional_NoDup. rewrite (Hfst _ _ _ Hw). exact Hnd.
    - intros consts pi r wr Hok Hw Ha. apply (Hchar consts pi r wr Hok Hw). exact Ha.
    - intros consts pi r wr w gv Hok Hw Hin _ Hne. apply not_zero_all. intros Hz.
      apply (Hchar consts pi r wr Hok Hw) in Hz. apply Hne. apply Hz. exact Hin.
  Qed.
End Spec.
