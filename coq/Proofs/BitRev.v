(* C15 proofs, part 1: bit reversal (Model/BitRev.v).
   [bitrev k] is the k-bit reversal; the table and shift arithmetic of util/src/lib.rs computes it;
   reverse_index_bits returns the bit-reversal permutation of its input for every length 2^k
   (k < 64, i.e. every length a usize can hold); the permutation is an involution. *)
From Coq Require Import NArith List Lia Bool Arith.
From Verif Require Import Model.BitRev.
Import ListNotations.
Open Scope N_scope.

(* ------------------------------------------------------------------ arithmetic of bitrev *)
Lemma rev_bits_loop_acc k : forall x acc, rev_bits_loop k x acc = acc * 2 ^ N.of_nat k + rev_bits_loop k x 0.
Proof.
  induction k as [|k IH]; intros x acc.
  - cbn [rev_bits_loop]. change (N.of_nat 0) with 0. rewrite N.pow_0_r. lia.
  - cbn [rev_bits_loop]. rewrite IH. rewrite (IH _ (2 * 0 + _)).
    rewrite Nat2N.inj_succ, N.pow_succ_r'. lia.
Qed.

Lemma bitrev_0 x : bitrev 0 x = 0.
Proof. reflexivity. Qed.

Lemma bitrev_S k x : bitrev (S k) x = (x mod 2) * 2 ^ N.of_nat k + bitrev k (x / 2).
Proof.
  unfold bitrev. cbn [rev_bits_loop]. rewrite rev_bits_loop_acc.
  rewrite N.div2_div. f_equal. f_equal.
  rewrite <- N.bit0_mod, N.bit0_odd. destruct (N.odd x); reflexivity.
Qed.

Lemma bitrev_lt k : forall x, bitrev k x < 2 ^ N.of_nat k.
Proof.
  induction k as [|k IH]; intros x.
  - rewrite bitrev_0. cbn. lia.
  - rewrite bitrev_S, Nat2N.inj_succ, N.pow_succ_r'.
    specialize (IH (x / 2)). assert (x mod 2 < 2) by (apply N.mod_lt; lia). nia.
Qed.

Lemma bitrev_zero k : bitrev k 0 = 0.
Proof.
  induction k as [|k IH]; [reflexivity|].
  rewrite bitrev_S. change (0 / 2) with 0. rewrite IH. reflexivity.
Qed.

Lemma mod_pow2_succ_mod2 x k : (x mod 2 ^ N.succ k) mod 2 = x mod 2.
Proof.
  rewrite N.pow_succ_r'.
  rewrite N.mod_mul_r by (try apply N.pow_nonzero; lia).
  rewrite (N.mul_comm 2), N.mod_add by lia. apply N.mod_mod. lia.
Qed.

Lemma mod_pow2_succ_div2 x k : (x mod 2 ^ N.succ k) / 2 = (x / 2) mod 2 ^ k.
Proof.
  rewrite N.pow_succ_r'.
  rewrite N.mod_mul_r by (try apply N.pow_nonzero; lia).
  rewrite N.add_comm, (N.mul_comm 2), N.div_add_l by lia.
  rewrite (N.div_small (x mod 2) 2) by (apply N.mod_lt; lia). lia.
Qed.

(* reversal of a (k + d)-bit word splits into the reversals of its low k and high d bits *)
Lemma bitrev_add k d : forall x,
  bitrev (k + d) x = bitrev k (x mod 2 ^ N.of_nat k) * 2 ^ N.of_nat d + bitrev d (x / 2 ^ N.of_nat k).
Proof.
  induction k as [|k IH]; intros x.
  - cbn [plus]. change (N.of_nat 0) with 0. rewrite N.pow_0_r, N.div_1_r, bitrev_0. lia.
  - change (S k + d)%nat with (S (k + d)). rewrite !bitrev_S, IH.
    rewrite Nat2N.inj_succ. rewrite mod_pow2_succ_mod2, mod_pow2_succ_div2.
    rewrite N.pow_succ_r', N.div_div by (try apply N.pow_nonzero; lia).
    rewrite Nat2N.inj_add, N.pow_add_r. lia.
Qed.

Lemma bitrev_1 x : bitrev 1 x = x mod 2.
Proof. rewrite bitrev_S, bitrev_0. cbn. lia. Qed.

(* the other recursion: peel the top bit *)
Lemma bitrev_S_top k x : x < 2 ^ N.of_nat (S k) ->
  bitrev (S k) x = 2 * bitrev k (x mod 2 ^ N.of_nat k) + x / 2 ^ N.of_nat k.
Proof.
  intros Hx. replace (S k) with (k + 1)%nat by lia. rewrite bitrev_add, bitrev_1.
  change (N.of_nat 1) with 1. rewrite N.pow_1_r.
  rewrite (N.mod_small (x / _) 2). lia.
  apply N.div_lt_upper_bound; [apply N.pow_nonzero; lia|].
  rewrite Nat2N.inj_succ, N.pow_succ_r' in Hx. lia.
Qed.

Lemma bitrev_involutive k : forall x, x < 2 ^ N.of_nat k -> bitrev k (bitrev k x) = x.
Proof.
  induction k as [|k IH]; intros x Hx.
  - cbn in Hx. rewrite bitrev_0. lia.
  - rewrite (bitrev_S_top k (bitrev (S k) x)) by apply bitrev_lt.
    rewrite bitrev_S.
    assert (H2 : x mod 2 < 2) by (apply N.mod_lt; lia).
    pose proof (bitrev_lt k (x / 2)) as Hb.
    assert (Hp : 2 ^ N.of_nat k <> 0) by (apply N.pow_nonzero; lia).
    set (b := bitrev k (x / 2)) in *. set (p := 2 ^ N.of_nat k) in *.
    assert (Hm : (x mod 2 * p + b) mod p = b) by (symmetry; apply N.mod_unique with (q := x mod 2); lia).
    assert (Hd : (x mod 2 * p + b) / p = x mod 2) by (symmetry; apply N.div_unique with (r := b); lia).
    rewrite Hm, Hd. unfold b. rewrite IH.
    + pose proof (N.div_mod' x 2). lia.
    + rewrite Nat2N.inj_succ, N.pow_succ_r' in Hx.
      apply N.div_lt_upper_bound; lia.
Qed.

(* a k-bit word reversed inside a wider word: shift back *)
Lemma bitrev_wide k d x : x < 2 ^ N.of_nat k -> bitrev (k + d) x = bitrev k x * 2 ^ N.of_nat d.
Proof.
  intros Hx. rewrite bitrev_add. rewrite N.mod_small, N.div_small by exact Hx.
  rewrite bitrev_zero. lia.
Qed.

Lemma bitrev_wide_shr k d x : x < 2 ^ N.of_nat k ->
  N.shiftr (bitrev (k + d) x) (N.of_nat d) = bitrev k x.
Proof.
  intros Hx. rewrite bitrev_wide by exact Hx. rewrite N.shiftr_div_pow2.
  apply N.div_mul. apply N.pow_nonzero. lia.
Qed.

(* plonky2's reverse_bits on its domain *)
Theorem reverse_bits_spec : forall (n : N) (k : nat), (k <= 64)%nat -> n < 2 ^ N.of_nat k ->
  reverse_bits n (N.of_nat k) = Some (bitrev k n).
Proof.
  intros n k Hk Hn. unfold reverse_bits, USIZE_BITS.
  destruct (64 <? N.of_nat k) eqn:E; [apply N.ltb_lt in E; lia|].
  f_equal. unfold wrapping_shr, usize_reverse_bits, USIZE_BITS.
  destruct (Nat.eq_dec k 0) as [->|Hk0].
  - change (N.of_nat 0) with 0 in *. cbn in Hn. assert (n = 0) by lia. subst n.
    reflexivity.
  - rewrite N.mod_small by lia.
    replace 64%nat with (k + (64 - k))%nat by lia.
    replace (64 - N.of_nat k) with (N.of_nat (64 - k)) by lia.
    apply bitrev_wide_shr. exact Hn.
Qed.

(* ------------------------------------------------------------------ list plumbing *)
Lemma iota_length len : forall s, length (iota len s) = len.
Proof. induction len; intros; cbn; auto. Qed.

Lemma nth_error_iota len : forall s i, (i < len)%nat -> nth_error (iota len s) i = Some (s + N.of_nat i).
Proof.
  induction len as [|len IH]; intros s i Hi; [lia|].
  destruct i as [|i]; cbn [iota nth_error].
  - change (N.of_nat 0) with 0. rewrite N.add_0_r. reflexivity.
  - rewrite IH by lia. f_equal. lia.
Qed.

Lemma in_iota len : forall s x, In x (iota len s) <-> s <= x < s + N.of_nat len.
Proof.
  induction len as [|len IH]; intros s x; cbn [iota In].
  - lia.
  - rewrite IH. lia.
Qed.

Lemma iota_app a b : forall s, iota (a + b) s = iota a s ++ iota b (s + N.of_nat a).
Proof.
  induction a as [|a IH]; intros s.
  - change (0 + b)%nat with b. change (N.of_nat 0) with 0. rewrite N.add_0_r. reflexivity.
  - change (S a + b)%nat with (S (a + b)). cbn [iota app]. rewrite IH.
    replace (s + 1 + N.of_nat a) with (s + N.of_nat (S a)) by lia. reflexivity.
Qed.

Lemma NoDup_iota len : forall s, NoDup (iota len s).
Proof.
  induction len as [|len IH]; intros s; cbn [iota]; constructor.
  - rewrite in_iota. lia.
  - apply IH.
Qed.

Lemma in_range a b x : In x (range a b) <-> a <= x < b.
Proof. unfold range. rewrite in_iota. lia. Qed.

Lemma range_length a b : length (range a b) = N.to_nat (b - a).
Proof. apply iota_length. Qed.

Lemma nth_error_range a b i : (i < N.to_nat (b - a))%nat -> nth_error (range a b) i = Some (a + N.of_nat i).
Proof. apply nth_error_iota. Qed.

Lemma range_snoc a b : a <= b -> range a (b + 1) = range a b ++ [b].
Proof.
  intros H. unfold range. replace (N.to_nat (b + 1 - a)) with (N.to_nat (b - a) + 1)%nat by lia.
  rewrite iota_app. cbn [iota]. replace (a + N.of_nat (N.to_nat (b - a))) with b by lia. reflexivity.
Qed.

Lemma range_nil a : range a a = [].
Proof. unfold range. rewrite N.sub_diag. reflexivity. Qed.

Lemma mapM_ext_in {X Y} (f g : X -> option Y) l : (forall x, In x l -> f x = g x) -> mapM f l = mapM g l.
Proof.
  induction l as [|x l IH]; intros H; cbn [mapM]; [reflexivity|].
  rewrite H by (left; reflexivity). rewrite IH by (intros; apply H; right; auto). reflexivity.
Qed.

Lemma mapM_app {X Y} (f : X -> option Y) l1 l2 :
  mapM f (l1 ++ l2) =
  match mapM f l1, mapM f l2 with Some a, Some b => Some (a ++ b) | _, _ => None end.
Proof.
  induction l1 as [|x l1 IH]; cbn [mapM app].
  - destruct (mapM f l2); reflexivity.
  - destruct (f x); [|reflexivity]. rewrite IH.
    destruct (mapM f l1); [|reflexivity]. destruct (mapM f l2); reflexivity.
Qed.

Lemma mapM_some {X Y} (f : X -> option Y) l :
  (forall x, In x l -> f x <> None) ->
  exists r, mapM f l = Some r /\ length r = length l /\
            forall i x, nth_error l i = Some x -> nth_error r i = f x.
Proof.
  induction l as [|x l IH]; intros H; cbn [mapM].
  - exists []. split; [reflexivity|]. split; [reflexivity|]. intros [|i] y; discriminate.
  - destruct (f x) as [y|] eqn:E; [|exfalso; apply (H x); [left; reflexivity|exact E]].
    destruct IH as [r [Hr [Hl Hn]]]; [intros; apply H; right; auto|].
    rewrite Hr. exists (y :: r). split; [reflexivity|]. split; [cbn; lia|].
    intros [|i] z Hz; cbn in *.
    + inversion Hz; subst. auto.
    + auto.
Qed.

Lemma mapM_length {X Y} (f : X -> option Y) l r : mapM f l = Some r -> length r = length l.
Proof.
  revert r. induction l as [|x l IH]; intros r; cbn [mapM].
  - intros E; inversion E; reflexivity.
  - destruct (f x); [|discriminate]. destruct (mapM f l) eqn:E; [|discriminate].
    intros E2; inversion E2; subst. cbn. rewrite (IH l0); auto.
Qed.

(* two nested push loops = one loop over the combined index *)
Lemma mapM_iota_shift {Y} (g h : N -> option Y) (off : N) : forall len t,
  (forall j, t <= j < t + N.of_nat len -> g j = h (off + j)) ->
  mapM g (iota len t) = mapM h (iota len (off + t)).
Proof.
  induction len as [|len IH]; intros t H; cbn [iota mapM]; [reflexivity|].
  rewrite H by lia. rewrite (IH (t + 1)) by (intros; apply H; lia).
  replace (off + t + 1) with (off + (t + 1)) by lia. reflexivity.
Qed.

Lemma nested_mapM {Y} (g : N -> N -> option Y) (h : N -> option Y) (mlen : nat) : forall (q : nat) (s : N),
  (forall c j, s <= c < s + N.of_nat q -> j < N.of_nat mlen -> g c j = h (c * N.of_nat mlen + j)) ->
  option_map (@concat Y) (mapM (fun c => mapM (g c) (iota mlen 0)) (iota q s)) =
  mapM h (iota (q * mlen) (s * N.of_nat mlen)).
Proof.
  induction q as [|q IH]; intros s H.
  - reflexivity.
  - cbn [iota mapM]. change (S q * mlen)%nat with (mlen + q * mlen)%nat.
    rewrite iota_app, mapM_app.
    rewrite (mapM_iota_shift (g s) h (s * N.of_nat mlen) mlen 0)
      by (intros; apply H; lia).
    rewrite N.add_0_r.
    destruct (mapM h (iota mlen (s * N.of_nat mlen))) as [blk|]; [|reflexivity].
    specialize (IH (s + 1) ltac:(intros; apply H; lia)).
    replace ((s + 1) * N.of_nat mlen) with (s * N.of_nat mlen + N.of_nat mlen) in IH by lia.
    rewrite <- IH.
    destruct (mapM (fun c => mapM (g c) (iota mlen 0)) (iota q (s + 1))); reflexivity.
Qed.

(* ------------------------------------------------------------------ log2_strict, the table *)
Lemma pow2_N (k : nat) : N.of_nat (2 ^ k) = 2 ^ N.of_nat k.
Proof. rewrite Nat2N.inj_pow. reflexivity. Qed.

Lemma log2_strict_pow2 k : log2_strict (2 ^ k) = Some k.
Proof.
  unfold log2_strict.
  assert (Hp : 2 ^ k <> 0) by (apply N.pow_nonzero; lia).
  destruct (2 ^ k =? 0) eqn:E; [apply N.eqb_eq in E; contradiction|].
  rewrite N.log2_pow2 by lia. rewrite N.shiftl_1_l, N.eqb_refl. reflexivity.
Qed.

Lemma log2_strict_some n r : log2_strict n = Some r -> n = 2 ^ r.
Proof.
  unfold log2_strict. destruct (n =? 0); [discriminate|].
  destruct (N.shiftl 1 (N.log2 n) =? n) eqn:E; [|discriminate].
  intros H; inversion H; subst. apply N.eqb_eq in E. rewrite N.shiftl_1_l in E. auto.
Qed.

Definition table_check : bool :=
  forallb (fun k : nat =>
             forallb (fun i => match getN BIT_REVERSE_6BIT i with
                               | Some b => N.shiftr b (6 - N.of_nat k) =? bitrev k i
                               | None => false
                               end) (range 0 (2 ^ N.of_nat k)))
          (seq 0 7).
Lemma table_check_ok : table_check = true.
Proof. vm_compute. reflexivity. Qed.

(* BIT_REVERSE_6BIT[i] >> (6 - k) is the k-bit reversal of i, for every k <= 6 and i < 2^k *)
Theorem bit_reverse_table_correct : forall (k : nat) (i : N), (k <= 6)%nat -> i < 2 ^ N.of_nat k ->
  exists b, getN BIT_REVERSE_6BIT i = Some b /\ N.shiftr b (6 - N.of_nat k) = bitrev k i.
Proof.
  intros k i Hk Hi. pose proof table_check_ok as T. unfold table_check in T.
  rewrite forallb_forall in T. specialize (T k ltac:(apply in_seq; lia)).
  rewrite forallb_forall in T. specialize (T i ltac:(apply in_range; lia)).
  destruct (getN BIT_REVERSE_6BIT i) as [b|]; [|discriminate].
  exists b. split; [reflexivity|]. apply N.eqb_eq. exact T.
Qed.

Lemma table_6 i : i < 64 -> getN BIT_REVERSE_6BIT i = Some (bitrev 6 i).
Proof.
  intros Hi. destruct (bit_reverse_table_correct 6 i ltac:(lia) ltac:(exact Hi)) as [b [Hb E]].
  rewrite Hb. f_equal. change (6 - N.of_nat 6) with 0 in E. rewrite N.shiftr_0_r in E. exact E.
Qed.

(* ------------------------------------------------------------------ reverse_index_bits *)
Section RevIdx.
  Context {A : Type}.

  Lemma lenN_pow2 (arr : list A) k : length arr = (2 ^ k)%nat -> lenN arr = 2 ^ N.of_nat k.
  Proof. intros H. unfold lenN. rewrite H. apply pow2_N. Qed.

  Lemma getN_some (arr : list A) i : i < lenN arr -> getN arr i <> None.
  Proof. unfold getN, lenN. intros H. apply nth_error_Some. lia. Qed.

  Lemma bitrev_perm_mapM (arr : list A) k : lenN arr = 2 ^ N.of_nat k ->
    exists res, mapM (fun i => getN arr (bitrev k i)) (range 0 (lenN arr)) = Some res /\
                length res = length arr /\
                forall i, i < 2 ^ N.of_nat k -> getN res i = getN arr (bitrev k i).
  Proof.
    intros Hn.
    destruct (mapM_some (fun i => getN arr (bitrev k i)) (range 0 (lenN arr))) as [res [Hr [Hl Hnth]]].
    { intros x _. apply getN_some. rewrite Hn. apply bitrev_lt. }
    exists res. split; [exact Hr|]. split.
    - rewrite Hl, range_length. unfold lenN. lia.
    - intros i Hi. unfold getN at 1. apply Hnth.
      rewrite nth_error_range by (rewrite Hn; lia). f_equal. lia.
  Qed.

  Lemma small_eq (arr : list A) k : (k <= 6)%nat -> lenN arr = 2 ^ N.of_nat k ->
    reverse_index_bits_small arr (N.of_nat k) = mapM (fun i => getN arr (bitrev k i)) (range 0 (lenN arr)).
  Proof.
    intros Hk Hn. unfold reverse_index_bits_small. apply mapM_ext_in.
    intros i Hi. apply in_range in Hi. rewrite Hn in Hi.
    destruct (bit_reverse_table_correct k i Hk ltac:(lia)) as [b [Hb E]].
    rewrite Hb, E. reflexivity.
  Qed.

  Lemma large_index k c j : (6 < k)%nat -> (k <= 70)%nat -> c < 2 ^ N.of_nat (k - 6) -> j < 64 ->
    N.shiftl (bitrev 6 j) (N.of_nat k - 6) + N.shiftr (usize_reverse_bits c) (64 - (N.of_nat k - 6))
    = bitrev k (c * 64 + j).
  Proof.
    intros Hk Hk2 Hc Hj.
    replace k with (6 + (k - 6))%nat at 3 by lia. rewrite bitrev_add.
    change (2 ^ N.of_nat 6) with 64.
    replace ((c * 64 + j) mod 64) with j by (apply N.mod_unique with (q := c); lia).
    replace ((c * 64 + j) / 64) with c by (apply N.div_unique with (r := j); lia).
    rewrite N.shiftl_mul_pow2. replace (N.of_nat k - 6) with (N.of_nat (k - 6)) by lia.
    f_equal. unfold usize_reverse_bits.
    replace 64%nat with ((k - 6) + (64 - (k - 6)))%nat by lia.
    replace (64 - N.of_nat (k - 6)) with (N.of_nat (64 - (k - 6))) by lia.
    apply bitrev_wide_shr. exact Hc.
  Qed.

  Lemma large_eq (arr : list A) k : (6 < k)%nat -> (k <= 70)%nat -> lenN arr = 2 ^ N.of_nat k ->
    reverse_index_bits_large arr (N.of_nat k) = mapM (fun i => getN arr (bitrev k i)) (range 0 (lenN arr)).
  Proof.
    intros Hk Hk2 Hn. unfold reverse_index_bits_large.
    rewrite Hn. rewrite N.shiftr_div_pow2.
    assert (Hq : 2 ^ N.of_nat k / 2 ^ 6 = 2 ^ N.of_nat (k - 6)).
    { replace (N.of_nat k) with (N.of_nat (k - 6) + 6) by lia. rewrite N.pow_add_r.
      apply N.div_mul. lia. }
    rewrite Hq. unfold range at 1 2. cbv zeta. rewrite !N.sub_0_r. change (N.to_nat (N.shiftl 1 6)) with 64%nat.
    rewrite (nested_mapM _ (fun i => getN arr (bitrev k i)) 64 (N.to_nat (2 ^ N.of_nat (k - 6))) 0).
    - unfold range. rewrite N.sub_0_r.
      replace (N.to_nat (2 ^ N.of_nat k)) with (N.to_nat (2 ^ N.of_nat (k - 6)) * 64)%nat; [reflexivity|].
      replace (N.of_nat k) with (N.of_nat (k - 6) + 6) by lia. rewrite N.pow_add_r.
      change (2 ^ 6) with 64. lia.
    - intros c j Hc Hj. change (N.of_nat 64) with 64 in *.
      rewrite table_6 by exact Hj. rewrite large_index by lia. reflexivity.
  Qed.

  (* reverse_index_bits arr = the bit-reversal permutation of arr, for every length 2^k that a
     usize can hold (k < 64) *)
  Theorem reverse_index_bits_spec : forall (arr : list A) (k : nat),
    (k < 64)%nat -> length arr = (2 ^ k)%nat ->
    exists res, reverse_index_bits arr = Some res /\ length res = length arr /\
                forall i, i < 2 ^ N.of_nat k -> getN res i = getN arr (bitrev k i).
  Proof.
    intros arr k Hk Hlen. pose proof (lenN_pow2 arr k Hlen) as Hn.
    unfold reverse_index_bits. rewrite Hn, log2_strict_pow2.
    destruct (N.of_nat k <=? 6) eqn:E.
    - apply N.leb_le in E. rewrite small_eq by (auto; lia). apply bitrev_perm_mapM. exact Hn.
    - apply N.leb_gt in E. rewrite large_eq by (auto; lia). apply bitrev_perm_mapM. exact Hn.
  Qed.

  Theorem reverse_index_bits_not_pow2 : forall (arr : list A),
    (forall k : nat, length arr <> (2 ^ k)%nat) -> reverse_index_bits arr = None.
  Proof.
    intros arr H. unfold reverse_index_bits.
    destruct (log2_strict (lenN arr)) as [r|] eqn:E; [|reflexivity].
    exfalso. apply log2_strict_some in E. apply (H (N.to_nat r)).
    unfold lenN in E. apply Nat2N.inj. rewrite E, pow2_N, N2Nat.id. reflexivity.
  Qed.
End RevIdx.

(* the result is a permutation of the input, and reversing twice is the identity *)
Lemma nth_error_ext' {A} : forall (l1 l2 : list A), (forall n, nth_error l1 n = nth_error l2 n) -> l1 = l2.
Proof.
  induction l1 as [|x l1 IH]; intros [|y l2] H.
  - reflexivity.
  - specialize (H O). discriminate.
  - specialize (H O). discriminate.
  - pose proof (H O) as H0. cbn in H0. inversion H0; subst. f_equal. apply IH. intros n. apply (H (S n)).
Qed.

Lemma getN_ext {A} (l1 l2 : list A) : length l1 = length l2 ->
  (forall i, i < lenN l1 -> getN l1 i = getN l2 i) -> l1 = l2.
Proof.
  intros Hl H. apply nth_error_ext'. intros n.
  destruct (Nat.lt_ge_cases n (length l1)) as [Hlt|Hge].
  - specialize (H (N.of_nat n) ltac:(unfold lenN; lia)). unfold getN in H. rewrite Nat2N.id in H. exact H.
  - rewrite (proj2 (nth_error_None l1 n)) by lia. rewrite (proj2 (nth_error_None l2 n)) by lia. reflexivity.
Qed.

Theorem reverse_index_bits_involutive {A} : forall (arr res : list A) (k : nat),
  (k < 64)%nat -> length arr = (2 ^ k)%nat -> reverse_index_bits arr = Some res ->
  reverse_index_bits res = Some arr.
Proof.
  intros arr res k Hk Hlen Hres.
  destruct (reverse_index_bits_spec arr k Hk Hlen) as [res' [E1 [L1 G1]]].
  rewrite Hres in E1. inversion E1; subst res'. clear E1.
  destruct (reverse_index_bits_spec res k Hk ltac:(lia)) as [r2 [E2 [L2 G2]]].
  rewrite E2. f_equal. apply getN_ext; [lia|].
  intros i Hi. rewrite (lenN_pow2 r2 k) in Hi by lia.
  rewrite G2 by exact Hi. rewrite G1 by apply bitrev_lt. rewrite bitrev_involutive by exact Hi. reflexivity.
Qed.

(* ------------------------------------------------------------------ in-place swap loops *)
Lemma set_nth_length {A} (l : list A) : forall i v, length (set_nth l i v) = length l.
Proof. induction l as [|x l IH]; intros [|i] v; cbn; auto. Qed.

Lemma nth_error_set_nth_eq {A} (l : list A) : forall i v, (i < length l)%nat -> nth_error (set_nth l i v) i = Some v.
Proof.
  induction l as [|x l IH]; intros [|i] v H; cbn in *; try lia; auto. apply IH. lia.
Qed.

Lemma nth_error_set_nth_neq {A} (l : list A) : forall i j v, i <> j -> nth_error (set_nth l i v) j = nth_error l j.
Proof.
  induction l as [|x l IH]; intros [|i] [|j] v H; cbn; auto; try congruence.
Qed.

Lemma setN_length {A} (l : list A) i v : length (setN l i v) = length l.
Proof. apply set_nth_length. Qed.

Lemma getN_setN_eq {A} (l : list A) i v : i < lenN l -> getN (setN l i v) i = Some v.
Proof. unfold getN, setN, lenN. intros H. apply nth_error_set_nth_eq. lia. Qed.

Lemma getN_setN_neq {A} (l : list A) i j v : i <> j -> getN (setN l i v) j = getN l j.
Proof. unfold getN, setN. intros H. apply nth_error_set_nth_neq. lia. Qed.

Lemma lenN_setN {A} (l : list A) i v : lenN (setN l i v) = lenN l.
Proof. unfold lenN. rewrite setN_length. reflexivity. Qed.

Lemma getN_lt {A} (l : list A) i : i < lenN l -> exists x, getN l i = Some x.
Proof.
  intros H. destruct (getN l i) eqn:E; [eauto|]. exfalso. revert E. apply getN_some. exact H.
Qed.

Lemma swapN_spec {A} (l : list A) i j : i < lenN l -> j < lenN l ->
  exists l', swapN l i j = Some l' /\ length l' = length l /\
             getN l' i = getN l j /\ getN l' j = getN l i /\
             forall t, t <> i -> t <> j -> getN l' t = getN l t.
Proof.
  intros Hi Hj. unfold swapN.
  destruct (getN_lt l i Hi) as [x Hx]. destruct (getN_lt l j Hj) as [y Hy].
  rewrite Hx, Hy. eexists. split; [reflexivity|]. split; [rewrite !setN_length; reflexivity|].
  split; [|split].
  - destruct (N.eq_dec i j) as [->|Hne].
    + rewrite getN_setN_eq by (rewrite lenN_setN; auto). congruence.
    + rewrite getN_setN_neq by auto. rewrite getN_setN_eq by auto. reflexivity.
  - rewrite getN_setN_eq by (rewrite lenN_setN; auto). reflexivity.
  - intros t H1 H2. rewrite !getN_setN_neq by auto. reflexivity.
Qed.

Lemma foldM_ext_in {X St} (f g : St -> X -> option St) l : (forall s x, In x l -> f s x = g s x) ->
  forall s, foldM f l s = foldM g l s.
Proof.
  induction l as [|x l IH]; intros H s; cbn [foldM]; [reflexivity|].
  rewrite H by (left; reflexivity). destruct (g s x); [|reflexivity].
  apply IH. intros; apply H; right; auto.
Qed.

Lemma foldM_app {X St} (f : St -> X -> option St) l1 l2 s :
  foldM f (l1 ++ l2) s = match foldM f l1 s with Some s' => foldM f l2 s' | None => None end.
Proof.
  revert s. induction l1 as [|x l1 IH]; intros s; cbn [foldM app]; [reflexivity|].
  destruct (f s x); [apply IH|reflexivity].
Qed.

Lemma foldM_iota_shift {St} (g h : St -> N -> option St) (off : N) : forall len t s,
  (forall s j, t <= j < t + N.of_nat len -> g s j = h s (off + j)) ->
  foldM g (iota len t) s = foldM h (iota len (off + t)) s.
Proof.
  induction len as [|len IH]; intros t s H; cbn [iota foldM]; [reflexivity|].
  rewrite H by lia. destruct (h s (off + t)); [|reflexivity].
  rewrite (IH (t + 1)) by (intros; apply H; lia).
  replace (off + t + 1) with (off + (t + 1)) by lia. reflexivity.
Qed.

Lemma nested_foldM {St} (g : N -> St -> N -> option St) (h : St -> N -> option St) (mlen : nat) :
  forall (q : nat) (st : N) (s : St),
  (forall c s j, st <= c < st + N.of_nat q -> j < N.of_nat mlen -> g c s j = h s (c * N.of_nat mlen + j)) ->
  foldM (fun s c => foldM (g c) (iota mlen 0) s) (iota q st) s =
  foldM h (iota (q * mlen) (st * N.of_nat mlen)) s.
Proof.
  induction q as [|q IH]; intros st s H.
  - reflexivity.
  - cbn [iota foldM]. change (S q * mlen)%nat with (mlen + q * mlen)%nat.
    rewrite iota_app, foldM_app.
    rewrite (foldM_iota_shift (g st) h (st * N.of_nat mlen) mlen 0)
      by (intros; apply H; lia).
    rewrite N.add_0_r.
    destruct (foldM h (iota mlen (st * N.of_nat mlen)) s) as [s'|]; [|reflexivity].
    rewrite (IH (st + 1)) by (intros; apply H; lia).
    replace ((st + 1) * N.of_nat mlen) with (st * N.of_nat mlen + N.of_nat mlen) by lia. reflexivity.
Qed.

Section SwapLoop.
  Context {A : Type}.
  Variable f : N -> N.
  Variable n : N.
  Hypothesis f_lt : forall i, i < n -> f i < n.
  Hypothesis f_inv : forall i, i < n -> f (f i) = i.

  (* one iteration of a loop `dst = f(src); if src < dst { swap(arr[src], arr[dst]) }` *)
  Definition cstep (arr : list A) (src : N) : option (list A) :=
    if src <? f src then swapN arr src (f src) else Some arr.

  (* positions whose orbit {i, f i} has its smaller member in [done] hold the mirrored element *)
  Definition sw_state (arr0 arr : list A) (done : N -> bool) : Prop :=
    length arr = length arr0 /\
    forall i, i < n -> getN arr i = getN arr0 (if done (N.min i (f i)) then f i else i).

  Lemma sw_state_ext arr0 arr d1 d2 : (forall x, d1 x = d2 x) -> sw_state arr0 arr d1 -> sw_state arr0 arr d2.
  Proof. intros E [L H]. split; [exact L|]. intros i Hi. rewrite <- E. apply H. exact Hi. Qed.

  Lemma cstep_ok arr0 arr done s : lenN arr0 = n -> sw_state arr0 arr done -> s < n -> done s = false ->
    exists arr', cstep arr s = Some arr' /\ sw_state arr0 arr' (fun x => done x || (x =? s)).
  Proof.
    intros Hn [L H] Hs Hd. unfold cstep.
    assert (Hlen : lenN arr = n) by (unfold lenN in *; rewrite L; exact Hn).
    pose proof (f_lt s Hs) as Hfs. pose proof (f_inv s Hs) as Hff.
    destruct (s <? f s) eqn:E.
    - apply N.ltb_lt in E.
      destruct (swapN_spec arr s (f s)) as [arr' [Hsw [L' [G1 [G2 G3]]]]]; [lia|lia|].
      exists arr'. split; [exact Hsw|]. split; [lia|].
      intros i Hi. pose proof (f_lt i Hi) as Hfi. pose proof (f_inv i Hi) as Hffi.
      destruct (N.eq_dec i s) as [->|Hne1].
      + rewrite G1. rewrite (H (f s)) by lia. rewrite Hff.
        replace (N.min (f s) s) with s by lia. replace (N.min s (f s)) with s by lia.
        rewrite Hd, N.eqb_refl. reflexivity.
      + destruct (N.eq_dec i (f s)) as [->|Hne2].
        * rewrite G2. rewrite (H s) by lia. rewrite Hff.
          replace (N.min (f s) s) with s by lia. replace (N.min s (f s)) with s by lia.
          rewrite Hd, N.eqb_refl. reflexivity.
        * rewrite G3 by auto. rewrite H by auto.
          assert (Hm : N.min i (f i) <> s).
          { intros Hm. destruct (N.min_spec i (f i)) as [[_ M]|[_ M]]; rewrite M in Hm; [congruence|].
            apply Hne2. rewrite <- Hm. symmetry. exact Hffi. }
          apply N.eqb_neq in Hm. rewrite Hm, orb_false_r. reflexivity.
    - apply N.ltb_ge in E. exists arr. split; [reflexivity|]. split; [exact L|].
      intros i Hi. pose proof (f_lt i Hi) as Hfi. pose proof (f_inv i Hi) as Hffi.
      rewrite H by auto.
      destruct (N.eq_dec (N.min i (f i)) s) as [Hm|Hm].
      + (* then i = s = f s *)
        assert (i = s /\ f s = s).
        { destruct (N.min_spec i (f i)) as [[Hlt M]|[Hle M]]; rewrite M in Hm.
          - subst i. lia.
          - assert (i = f s) by (rewrite <- Hm; auto). lia. }
        destruct H0 as [-> Hfix]. rewrite Hfix. destruct (done (N.min s s) || _); destruct (done (N.min s s)); reflexivity.
      + apply N.eqb_neq in Hm. rewrite Hm, orb_false_r. reflexivity.
  Qed.

  Lemma cloop_ok arr0 : lenN arr0 = n -> forall l arr done,
    sw_state arr0 arr done -> NoDup l -> (forall s, In s l -> s < n /\ done s = false) ->
    exists arr', foldM cstep l arr = Some arr' /\
                 sw_state arr0 arr' (fun x => done x || existsb (N.eqb x) l).
  Proof.
    intros Hn. induction l as [|s l IH]; intros arr done Hst Hnd Hin.
    - exists arr. split; [reflexivity|]. eapply sw_state_ext; [|exact Hst].
      intros x. cbn. rewrite orb_false_r. reflexivity.
    - inversion Hnd as [|? ? Hnotin Hnd']; subst.
      destruct (Hin s (or_introl eq_refl)) as [Hs Hds].
      destruct (cstep_ok arr0 arr done s Hn Hst Hs Hds) as [arr1 [E1 St1]].
      cbn [foldM]. rewrite E1.
      destruct (IH arr1 _ St1 Hnd') as [arr' [E2 St2]].
      { intros t Ht. destruct (Hin t (or_intror Ht)) as [Ht1 Ht2]. split; [exact Ht1|].
        rewrite Ht2. cbn. apply N.eqb_neq. intros ->. contradiction. }
      exists arr'. split; [exact E2|]. eapply sw_state_ext; [|exact St2].
      intros x. cbn. rewrite orb_assoc. reflexivity.
  Qed.

  (* the whole loop over 0..n applies the involution *)
  Lemma cloop_full (arr : list A) : lenN arr = n ->
    exists arr', foldM cstep (range 0 n) arr = Some arr' /\ length arr' = length arr /\
                 forall i, i < n -> getN arr' i = getN arr (f i).
  Proof.
    intros Hn.
    destruct (cloop_ok arr Hn (range 0 n) arr (fun _ => false)) as [arr' [E [L H]]].
    - split; [reflexivity|]. intros i Hi. reflexivity.
    - apply NoDup_iota.
    - intros s Hs. apply in_range in Hs. split; [lia|reflexivity].
    - exists arr'. split; [exact E|]. split; [exact L|].
      intros i Hi. rewrite H by exact Hi.
      assert (Hex : existsb (N.eqb (N.min i (f i))) (range 0 n) = true).
      { apply existsb_exists. exists (N.min i (f i)). split; [|apply N.eqb_refl].
        apply in_range. pose proof (f_lt i Hi). lia. }
      rewrite Hex. reflexivity.
  Qed.
End SwapLoop.

Section InPlaceSmall.
  Context {A : Type}.

  Lemma in_place_small_eq (arr : list A) k : (k < 64)%nat -> lenN arr = 2 ^ N.of_nat k ->
    reverse_index_bits_in_place_small arr (N.of_nat k) = foldM (cstep (bitrev k)) (range 0 (lenN arr)) arr.
  Proof.
    intros Hk Hn. unfold reverse_index_bits_in_place_small.
    destruct (N.of_nat k <=? 6) eqn:E.
    - apply N.leb_le in E. apply foldM_ext_in. intros s src Hsrc.
      apply in_range in Hsrc. rewrite Hn in Hsrc.
      destruct (bit_reverse_table_correct k src ltac:(lia) ltac:(lia)) as [b [Hb Eb]].
      rewrite Hb. unfold wrapping_shr, USIZE_BITS. rewrite N.mod_small by lia. rewrite Eb. reflexivity.
    - apply N.leb_gt in E. cbv zeta. rewrite Hn, N.shiftr_div_pow2.
      assert (Hq : 2 ^ N.of_nat k / 2 ^ 6 = 2 ^ N.of_nat (k - 6)).
      { replace (N.of_nat k) with (N.of_nat (k - 6) + 6) by lia. rewrite N.pow_add_r.
        apply N.div_mul. lia. }
      rewrite Hq. unfold range. rewrite !N.sub_0_r. change (N.to_nat (N.shiftl 1 6)) with 64%nat.
      rewrite (nested_foldM _ (cstep (bitrev k)) 64 (N.to_nat (2 ^ N.of_nat (k - 6))) 0).
      + replace (N.to_nat (2 ^ N.of_nat k)) with (N.to_nat (2 ^ N.of_nat (k - 6)) * 64)%nat; [reflexivity|].
        replace (N.of_nat k) with (N.of_nat (k - 6) + 6) by lia. rewrite N.pow_add_r.
        change (2 ^ 6) with 64. lia.
      + intros c s j Hc Hj. change (N.of_nat 64) with 64 in *.
        rewrite table_6 by exact Hj. unfold cstep.
        assert (Ed : N.shiftl (bitrev 6 j) (N.of_nat k - 6) +
                     wrapping_shr (usize_reverse_bits c) (USIZE_BITS - (N.of_nat k - 6)) = bitrev k (c * 64 + j)).
        { unfold wrapping_shr, USIZE_BITS. rewrite N.mod_small by lia. apply large_index; lia. }
        rewrite N.shiftl_mul_pow2. change (2 ^ 6) with 64. rewrite Ed. reflexivity.
  Qed.

  Theorem reverse_index_bits_in_place_small_spec : forall (arr : list A) (k : nat),
    (k < 64)%nat -> length arr = (2 ^ k)%nat ->
    exists res, reverse_index_bits_in_place_small arr (N.of_nat k) = Some res /\ length res = length arr /\
                forall i, i < 2 ^ N.of_nat k -> getN res i = getN arr (bitrev k i).
  Proof.
    intros arr k Hk Hlen. pose proof (lenN_pow2 arr k Hlen) as Hn.
    rewrite in_place_small_eq by auto. rewrite Hn.
    apply cloop_full.
    - intros i _. apply bitrev_lt.
    - intros i Hi. apply bitrev_involutive. exact Hi.
    - exact Hn.
  Qed.
End InPlaceSmall.

(* ------------------------------------------------------------------ unconditional swap loops *)
Section USwapLoop.
  Context {A : Type}.
  Variable f : N -> N.
  Variable n : N.
  Hypothesis f_lt : forall i, i < n -> f i < n.
  Hypothesis f_inv : forall i, i < n -> f (f i) = i.

  Definition omin (s : N) : N := N.min s (f s).

  Lemma ustep_ok (arr0 arr : list A) done s : lenN arr0 = n -> sw_state f n arr0 arr done -> s < n ->
    done (omin s) = false ->
    exists arr', swapN arr s (f s) = Some arr' /\ sw_state f n arr0 arr' (fun x => done x || (x =? omin s)).
  Proof.
    intros Hn [L H] Hs Hd. unfold omin in *.
    assert (Hlen : lenN arr = n) by (unfold lenN in *; rewrite L; exact Hn).
    pose proof (f_lt s Hs) as Hfs. pose proof (f_inv s Hs) as Hff.
    destruct (swapN_spec arr s (f s)) as [arr' [Hsw [L' [G1 [G2 G3]]]]]; [lia|lia|].
    exists arr'. split; [exact Hsw|]. split; [lia|].
    assert (Hs0 : getN arr s = getN arr0 s) by (rewrite (H s Hs), Hd; reflexivity).
    assert (Hfs0 : getN arr (f s) = getN arr0 (f s)).
    { rewrite (H (f s) Hfs), Hff. rewrite (N.min_comm (f s) s), Hd. reflexivity. }
    intros i Hi. pose proof (f_lt i Hi) as Hfi. pose proof (f_inv i Hi) as Hffi.
    destruct (N.eq_dec i s) as [->|Hne1].
    - rewrite G1, Hfs0. rewrite N.eqb_refl, orb_true_r. reflexivity.
    - destruct (N.eq_dec i (f s)) as [->|Hne2].
      + rewrite G2, Hs0. rewrite Hff. rewrite (N.min_comm (f s) s), N.eqb_refl, orb_true_r. reflexivity.
      + rewrite G3 by auto. rewrite H by auto.
        assert (Hm : N.min i (f i) <> N.min s (f s)).
        { intros Hm.
          destruct (N.min_spec i (f i)) as [[_ M]|[_ M]]; destruct (N.min_spec s (f s)) as [[_ M']|[_ M']];
            rewrite M, M' in Hm; try congruence.
          all: try (apply Hne2; rewrite <- Hffi, Hm; reflexivity).
          all: try (apply Hne1; rewrite <- Hffi, Hm, Hff; reflexivity).
          }
        apply N.eqb_neq in Hm. rewrite Hm, orb_false_r. reflexivity.
  Qed.

  Lemma uloop_ok (arr0 : list A) : lenN arr0 = n -> forall l arr done,
    sw_state f n arr0 arr done -> NoDup (map omin l) ->
    (forall s, In s l -> s < n /\ done (omin s) = false) ->
    exists arr', foldM (fun a s => swapN a s (f s)) l arr = Some arr' /\
                 sw_state f n arr0 arr' (fun x => done x || existsb (N.eqb x) (map omin l)).
  Proof.
    intros Hn. induction l as [|s l IH]; intros arr done Hst Hnd Hin.
    - exists arr. split; [reflexivity|]. eapply sw_state_ext; [|exact Hst].
      intros x. cbn. rewrite orb_false_r. reflexivity.
    - cbn [map] in Hnd. apply NoDup_cons_iff in Hnd. destruct Hnd as [Hnotin Hnd'].
      destruct (Hin s (or_introl eq_refl)) as [Hs Hds].
      destruct (ustep_ok arr0 arr done s Hn Hst Hs Hds) as [arr1 [E1 St1]].
      cbn [foldM]. rewrite E1.
      destruct (IH arr1 _ St1 Hnd') as [arr' [E2 St2]].
      { intros t Ht. destruct (Hin t (or_intror Ht)) as [Ht1 Ht2]. split; [exact Ht1|].
        rewrite Ht2. cbn. apply N.eqb_neq. intros E. apply Hnotin. rewrite <- E. apply in_map. exact Ht. }
      exists arr'. split; [exact E2|]. eapply sw_state_ext; [|exact St2].
      intros x. cbn. rewrite orb_assoc. reflexivity.
  Qed.

  (* a loop of swaps (s, f s) whose orbits cover every non-fixed point applies the involution *)
  Lemma uloop_full (arr : list A) l : lenN arr = n -> NoDup (map omin l) -> (forall s, In s l -> s < n) ->
    (forall p, p < n -> f p <> p -> In (omin p) (map omin l)) ->
    exists arr', foldM (fun a s => swapN a s (f s)) l arr = Some arr' /\ length arr' = length arr /\
                 forall p, p < n -> getN arr' p = getN arr (f p).
  Proof.
    intros Hn Hnd Hlt Hcov.
    destruct (uloop_ok arr Hn l arr (fun _ => false)) as [arr' [E [L H]]].
    - split; [reflexivity|]. intros; reflexivity.
    - exact Hnd.
    - intros s Hs. split; [apply Hlt; exact Hs|reflexivity].
    - exists arr'. split; [exact E|]. split; [exact L|].
      intros p Hp. rewrite H by exact Hp. cbn [orb].
      destruct (N.eq_dec (f p) p) as [Efp|Nfp].
      + rewrite Efp. destruct (existsb _ _); reflexivity.
      + assert (Hex : existsb (N.eqb (N.min p (f p))) (map omin l) = true).
        { apply existsb_exists. exists (omin p). split; [apply Hcov; auto|apply N.eqb_refl]. }
        rewrite Hex. reflexivity.
  Qed.
End USwapLoop.

Lemma foldM_noop {X St} (f : St -> X -> option St) l : forall s, (forall x, In x l -> f s x = Some s) -> foldM f l s = Some s.
Proof.
  induction l as [|x l IH]; intros s H; cbn [foldM]; [reflexivity|].
  rewrite H by (left; reflexivity). apply IH. intros y Hy. apply H. right. exact Hy.
Qed.

(* ------------------------------------------------------------------ chunk reversal *)
Section Chunks.
  Context {A : Type}.
  Variables (h c : nat).
  Hypothesis Hh : (h <= 64)%nat.

  Definition fC (I : N) : N := bitrev h (I / 2 ^ N.of_nat c) * 2 ^ N.of_nat c + I mod 2 ^ N.of_nat c.

  Let S := 2 ^ N.of_nat c.
  Let n := 2 ^ N.of_nat h * 2 ^ N.of_nat c.

  Lemma S_pos : 0 < S. Proof. unfold S. apply N.neq_0_lt_0. apply N.pow_nonzero. lia. Qed.

  Lemma decode (r t : N) : t < S -> (r * S + t) / S = r /\ (r * S + t) mod S = t.
  Proof.
    intros Ht. pose proof S_pos. split.
    - symmetry. apply N.div_unique with (r := t); lia.
    - symmetry. apply N.mod_unique with (q := r); lia.
  Qed.

  Lemma fC_lt I : I < n -> fC I < n.
  Proof.
    intros HI. unfold fC. fold S. pose proof S_pos.
    pose proof (bitrev_lt h (I / S)). pose proof (N.mod_lt I S ltac:(lia)). unfold n. fold S. nia.
  Qed.

  Lemma fC_inv I : I < n -> fC (fC I) = I.
  Proof.
    intros HI. unfold fC. fold S. pose proof S_pos.
    pose proof (N.mod_lt I S ltac:(lia)) as Hm.
    destruct (decode (bitrev h (I / S)) (I mod S) Hm) as [E1 E2]. rewrite E1, E2.
    rewrite bitrev_involutive.
    - pose proof (N.div_mod' I S). lia.
    - apply N.div_lt_upper_bound; [lia|]. unfold n in HI. fold S in HI. lia.
  Qed.

  Lemma chunk_j i : i < 2 ^ N.of_nat h ->
    wrapping_shr (usize_reverse_bits i) (USIZE_BITS - N.of_nat h) = bitrev h i.
  Proof.
    intros Hi. pose proof (reverse_bits_spec i h Hh Hi) as E. unfold reverse_bits in E.
    destruct (USIZE_BITS <? N.of_nat h) eqn:E1; [apply N.ltb_lt in E1; unfold USIZE_BITS in E1; lia|].
    inversion E. reflexivity.
  Qed.

  Lemma chunks_eq (arr : list A) :
    reverse_index_bits_in_place_chunks arr (N.of_nat h) (N.of_nat c) = foldM (cstep fC) (range 0 n) arr.
  Proof.
    unfold reverse_index_bits_in_place_chunks.
    transitivity (foldM (fun a i => foldM (fun a t => cstep fC a (i * S + t)) (iota (N.to_nat S) 0) a)
                        (iota (N.to_nat (2 ^ N.of_nat h)) 0) arr).
    - unfold range. rewrite (N.shiftl_1_l (N.of_nat h)), N.sub_0_r. apply foldM_ext_in.
      intros a i Hi. apply in_iota in Hi. cbv zeta.
      rewrite chunk_j by lia. rewrite !N.shiftl_mul_pow2, N.mul_1_l. fold S.
      destruct (i <? bitrev h i) eqn:E.
      + apply N.ltb_lt in E. unfold swap_range, range. rewrite N.sub_0_r. apply foldM_ext_in.
        intros a' t Ht. apply in_iota in Ht. unfold cstep, fC. fold S.
        destruct (decode i t ltac:(lia)) as [E1 E2]. rewrite E1, E2.
        replace (i * S + t <? bitrev h i * S + t) with true by (symmetry; apply N.ltb_lt; pose proof S_pos; nia).
        reflexivity.
      + apply N.ltb_ge in E. symmetry. apply foldM_noop. intros t Ht. apply in_iota in Ht.
        unfold cstep, fC. fold S. destruct (decode i t ltac:(lia)) as [E1 E2]. rewrite E1, E2.
        replace (i * S + t <? bitrev h i * S + t) with false by (symmetry; apply N.ltb_ge; pose proof S_pos; nia).
        reflexivity.
    - rewrite (nested_foldM (fun i a t => cstep fC a (i * S + t)) (cstep fC) (N.to_nat S) (N.to_nat (2 ^ N.of_nat h)) 0).
      + unfold range, n. fold S. rewrite N.sub_0_r. f_equal. f_equal. lia.
      + intros i a t _ _. rewrite N2Nat.id. reflexivity.
  Qed.

  Lemma chunks_spec (arr : list A) : lenN arr = n ->
    exists res, reverse_index_bits_in_place_chunks arr (N.of_nat h) (N.of_nat c) = Some res /\
                length res = length arr /\ forall I, I < n -> getN res I = getN arr (fC I).
  Proof.
    intros Hn. rewrite chunks_eq. apply cloop_full; [exact fC_lt|exact fC_inv|exact Hn].
  Qed.
End Chunks.

(* ------------------------------------------------------------------ square transposes *)
Lemma NoDup_app_intro {X} (l1 l2 : list X) : NoDup l1 -> NoDup l2 -> (forall y, In y l1 -> ~ In y l2) ->
  NoDup (l1 ++ l2).
Proof.
  induction l1 as [|x l1 IH]; intros H1 H2 H; cbn [app]; [exact H2|].
  apply NoDup_cons_iff in H1. destruct H1 as [Hx H1]. constructor.
  - rewrite in_app_iff. intros [Hi|Hi]; [contradiction|]. apply (H x); [left; reflexivity|exact Hi].
  - apply IH; auto. intros y Hy. apply H. right. exact Hy.
Qed.

Lemma NoDup_flat_map {X Y} (g : X -> list Y) (l : list X) : NoDup l -> (forall x, In x l -> NoDup (g x)) ->
  (forall x x' y, In x l -> In x' l -> In y (g x) -> In y (g x') -> x = x') -> NoDup (flat_map g l).
Proof.
  induction l as [|x l IH]; intros Hl Hg Hd; cbn [flat_map]; [constructor|].
  apply NoDup_cons_iff in Hl. destruct Hl as [Hx Hl].
  apply NoDup_app_intro.
  - apply Hg. left. reflexivity.
  - apply IH; auto.
    + intros; apply Hg; right; auto.
    + intros x1 x2 y H1 H2. apply Hd; right; auto.
  - intros y Hy Hy2. apply in_flat_map in Hy2. destruct Hy2 as [x' [Hx' Hy']].
    assert (x = x') by (apply (Hd x x' y); [left; reflexivity|right; exact Hx'|exact Hy|exact Hy']).
    subst x'. contradiction.
Qed.

Lemma NoDup_map_inj_in {X Y} (g : X -> Y) (l : list X) : NoDup l ->
  (forall a b, In a l -> In b l -> g a = g b -> a = b) -> NoDup (map g l).
Proof.
  induction l as [|x l IH]; intros Hl Hi; cbn [map]; [constructor|].
  apply NoDup_cons_iff in Hl. destruct Hl as [Hx Hl]. constructor.
  - intros Hin. apply in_map_iff in Hin. destruct Hin as [b [E Hb]].
    assert (b = x) by (apply Hi; [right; exact Hb|left; reflexivity|exact E]). subst b. contradiction.
  - apply IH; auto. intros a b Ha Hb. apply Hi; right; auto.
Qed.

Lemma foldM_flat_map {X Y St} (h : St -> Y -> option St) (g : X -> list Y) l : forall s,
  foldM (fun s x => foldM h (g x) s) l s = foldM h (flat_map g l) s.
Proof.
  induction l as [|x l IH]; intros s; cbn [foldM flat_map]; [reflexivity|].
  rewrite foldM_app. destruct (foldM h (g x) s); [apply IH|reflexivity].
Qed.

Lemma foldM_map {X Y St} (h : St -> Y -> option St) (mk : X -> Y) l : forall s,
  foldM h (map mk l) s = foldM (fun s x => h s (mk x)) l s.
Proof.
  induction l as [|x l IH]; intros s; cbn [foldM map]; [reflexivity|].
  destruct (h s (mk x)); [apply IH|reflexivity].
Qed.

Definition in_rng (x s v : N) : bool := (x <=? v) && (v <? x + s).
Definition Rsq (x s r c : N) : bool := in_rng x s r && in_rng x s c.
Definition Rsw (x y s r c : N) : bool := (in_rng x s r && in_rng y s c) || (in_rng y s r && in_rng x s c).

Lemma in_rng_spec x s v : in_rng x s v = true <-> x <= v < x + s.
Proof. unfold in_rng. rewrite andb_true_iff, N.leb_le, N.ltb_lt. tauto. Qed.
Lemma Rsq_spec x s r c : Rsq x s r c = true <-> (x <= r < x + s) /\ (x <= c < x + s).
Proof. unfold Rsq. rewrite andb_true_iff, !in_rng_spec. tauto. Qed.
Lemma Rsw_spec x y s r c : Rsw x y s r c = true <->
  ((x <= r < x + s) /\ (y <= c < y + s)) \/ ((y <= r < y + s) /\ (x <= c < x + s)).
Proof. unfold Rsw. rewrite orb_true_iff, !andb_true_iff, !in_rng_spec. tauto. Qed.

Lemma bool_ext (a b : bool) : (a = true <-> b = true) -> a = b.
Proof. destruct a, b; intros [H1 H2]; auto; try (symmetry; auto); discriminate (H1 eq_refl) || discriminate (H2 eq_refl). Qed.

Section Transpose.
  Context {A : Type}.
  Variable cS : N.                       (* lb_stride *)
  Let S := 2 ^ cS.
  Variable len : N.

  Lemma St_pos : 0 < S. Proof. unfold S. apply N.neq_0_lt_0. apply N.pow_nonzero. lia. Qed.

  Lemma dec2 (r t : N) : t < S -> (r * S + t) / S = r /\ (r * S + t) mod S = t.
  Proof.
    intros Ht. pose proof St_pos. split.
    - symmetry. apply N.div_unique with (r := t); lia.
    - symmetry. apply N.mod_unique with (q := r); lia.
  Qed.

  Definition Tr (R : N -> N -> bool) (p : N) : N :=
    if R (p / S) (p mod S) then (p mod S) * S + p / S else p.

  Record region_ok (R : N -> N -> bool) : Prop := {
    r_sym : forall r c, R r c = R c r;
    r_bd : forall r c, R r c = true -> r < S /\ c < S;
    r_in : forall r c, R r c = true -> r * S + c < len }.

  Lemma Tr_lt R p : region_ok R -> p < len -> Tr R p < len.
  Proof.
    intros HR Hp. unfold Tr. destruct (R (p / S) (p mod S)) eqn:E; [|exact Hp].
    apply (r_in R HR). rewrite (r_sym R HR). exact E.
  Qed.

  Lemma Tr_inv R p : region_ok R -> Tr R (Tr R p) = p.
  Proof.
    intros HR. unfold Tr at 2. destruct (R (p / S) (p mod S)) eqn:E.
    - destruct (r_bd R HR _ _ E) as [H1 H2]. unfold Tr.
      destruct (dec2 (p mod S) (p / S) H1) as [E1 E2]. rewrite E1, E2.
      rewrite (r_sym R HR), E. pose proof (N.div_mod' p S). lia.
    - unfold Tr. rewrite E. reflexivity.
  Qed.

  Definition transposed (R : N -> N -> bool) (arr res : list A) : Prop :=
    length res = length arr /\ forall p, p < lenN arr -> getN res p = getN arr (Tr R p).

  Lemma Tr_ext R R' : (forall r c, R r c = R' r c) -> forall p, Tr R p = Tr R' p.
  Proof. intros H p. unfold Tr. rewrite H. reflexivity. Qed.

  Lemma transposed_ext R R' arr res : (forall r c, R r c = R' r c) -> transposed R arr res -> transposed R' arr res.
  Proof. intros H [L G]. split; [exact L|]. intros p Hp. rewrite <- (Tr_ext R R' H). apply G. exact Hp. Qed.

  Lemma region_ok_or R1 R2 : region_ok R1 -> region_ok R2 -> region_ok (fun r c => R1 r c || R2 r c).
  Proof.
    intros H1 H2. constructor.
    - intros r c. rewrite (r_sym R1 H1), (r_sym R2 H2). reflexivity.
    - intros r c E. apply orb_true_iff in E. destruct E as [E|E]; [apply (r_bd R1 H1)|apply (r_bd R2 H2)]; exact E.
    - intros r c E. apply orb_true_iff in E. destruct E as [E|E]; [apply (r_in R1 H1)|apply (r_in R2 H2)]; exact E.
  Qed.

  Lemma transposed_compose R1 R2 (arr a1 a2 : list A) : region_ok R1 -> region_ok R2 -> lenN arr = len ->
    (forall r c, R1 r c = true -> R2 r c = true -> False) ->
    transposed R1 arr a1 -> transposed R2 a1 a2 -> transposed (fun r c => R1 r c || R2 r c) arr a2.
  Proof.
    intros H1 H2 Hn Hdis [L1 G1] [L2 G2]. split; [lia|].
    assert (Ln1 : lenN a1 = len) by (unfold lenN in *; rewrite L1; exact Hn).
    intros p Hp. rewrite Hn in Hp. rewrite G2 by (rewrite Ln1; exact Hp).
    rewrite G1 by (rewrite Hn; apply Tr_lt; assumption). f_equal.
    unfold Tr at 2. destruct (R2 (p / S) (p mod S)) eqn:E2.
    - destruct (r_bd R2 H2 _ _ E2) as [B1 B2]. unfold Tr at 1.
      destruct (dec2 (p mod S) (p / S) B1) as [D1 D2]. rewrite D1, D2.
      destruct (R1 (p mod S) (p / S)) eqn:E1.
      + exfalso. apply (Hdis (p / S) (p mod S)); [rewrite (r_sym R1 H1); exact E1|exact E2].
      + unfold Tr. rewrite E2, orb_true_r. reflexivity.
    - unfold Tr. rewrite E2, orb_false_r. reflexivity.
  Qed.

  (* a list of swaps of mirrored cells (row j, col i) <-> (row i, col j) realises the transposition
     of a symmetric region, when every off-diagonal cell pair of the region occurs exactly once *)
  Lemma swaps_transposed (R : N -> N -> bool) (cells : list (N * N)) (arr : list A) :
    region_ok R -> lenN arr = len ->
    (forall i j, In (i, j) cells -> R j i = true /\ i <> j) ->
    NoDup (map (fun ij => N.min (snd ij * S + fst ij) (fst ij * S + snd ij)) cells) ->
    (forall r c, R r c = true -> r <> c -> In (r, c) cells \/ In (c, r) cells) ->
    exists res,
      foldM (fun a (ij : N * N) => swapN a (fst ij + N.shiftl (snd ij) cS) (N.shiftl (fst ij) cS + snd ij)) cells arr
      = Some res /\ transposed R arr res.
  Proof.
    intros HR Hn Hcells Hnd Hcov.
    set (enc := fun ij : N * N => snd ij * S + fst ij).
    assert (Hf : forall ij, In ij cells -> Tr R (enc ij) = fst ij * S + snd ij /\ enc ij < len).
    { intros [i j] Hin. destruct (Hcells i j Hin) as [HRji _]. unfold enc. cbn [fst snd].
      destruct (r_bd R HR _ _ HRji) as [B1 B2]. destruct (dec2 j i B2) as [D1 D2].
      unfold Tr. rewrite D1, D2, HRji. split; [reflexivity|]. apply (r_in R HR). exact HRji. }
    assert (Eq : foldM (fun a (ij : N * N) => swapN a (fst ij + N.shiftl (snd ij) cS) (N.shiftl (fst ij) cS + snd ij)) cells arr
                 = foldM (fun a s => swapN a s (Tr R s)) (map enc cells) arr).
    { rewrite foldM_map. apply foldM_ext_in. intros a ij Hin. destruct (Hf ij Hin) as [E _]. rewrite E.
      unfold enc. rewrite !N.shiftl_mul_pow2. fold S. f_equal. lia. }
    rewrite Eq.
    destruct (uloop_full (Tr R) len (fun p Hp => Tr_lt R p HR Hp) (fun p _ => Tr_inv R p HR) arr (map enc cells) Hn)
      as [res [E [L G]]].
    - rewrite map_map. erewrite map_ext_in; [exact Hnd|].
      intros ij Hin. unfold omin. destruct (Hf ij Hin) as [E _]. rewrite E. reflexivity.
    - intros s Hs. apply in_map_iff in Hs. destruct Hs as [ij [E Hin]]. subst s. apply (Hf ij Hin).
    - intros p Hp Hne. unfold Tr in Hne. destruct (R (p / S) (p mod S)) eqn:ER; [|congruence].
      destruct (r_bd R HR _ _ ER) as [B1 B2]. pose proof (N.div_mod' p S) as Hdm.
      assert (Hrc : p / S <> p mod S) by (intros Erc; apply Hne; rewrite <- Erc; lia).
      assert (Hp2 : Tr R p = p mod S * S + p / S) by (unfold Tr; rewrite ER; reflexivity).
      destruct (Hcov _ _ ER Hrc) as [Hin|Hin].
      + (* cell (i, j) = (p/S, p mod S): enc = (p mod S) * S + p / S = Tr p *)
        apply in_map_iff. exists (enc (p / S, p mod S)). split; [|apply in_map; exact Hin].
        unfold omin. destruct (Hf _ Hin) as [E1 _]. rewrite E1, Hp2. unfold enc. cbn [fst snd].
        rewrite N.min_comm. f_equal. lia.
      + apply in_map_iff. exists (enc (p mod S, p / S)). split; [|apply in_map; exact Hin].
        unfold omin. destruct (Hf _ Hin) as [E1 _]. rewrite E1, Hp2. unfold enc. cbn [fst snd].
        f_equal. lia.
    - exists res. split; [exact E|]. split; [exact L|]. intros p Hp. apply G. rewrite <- Hn. exact Hp.
  Qed.
End Transpose.

(* ---- the loops of transpose_util.rs *)
Section TransposeLoops.
  Context {A : Type}.
  Variable cS : N.
  Let S := 2 ^ cS.
  Variable len : N.
  Variable bnd : N.
  Hypothesis bnd_le : bnd <= S.
  Hypothesis bnd_in : forall r c, r < bnd -> c < bnd -> r * S + c < len.

  Lemma Rsq_ok x s : x + s <= bnd -> region_ok cS len (Rsq x s).
  Proof.
    intros H. constructor.
    - intros r c. unfold Rsq. apply andb_comm.
    - intros r c E. apply Rsq_spec in E. fold S. lia.
    - intros r c E. apply Rsq_spec in E. apply bnd_in; lia.
  Qed.

  Lemma Rsw_ok x y s : x + s <= bnd -> y + s <= bnd -> region_ok cS len (Rsw x y s).
  Proof.
    intros H1 H2. constructor.
    - intros r c. unfold Rsw. rewrite orb_comm. f_equal; apply andb_comm.
    - intros r c E. apply Rsw_spec in E. fold S. lia.
    - intros r c E. apply Rsw_spec in E. apply bnd_in; lia.
  Qed.

  Definition swap_cell (a : list A) (ij : N * N) : option (list A) :=
    swapN a (fst ij + N.shiftl (snd ij) cS) (N.shiftl (fst ij) cS + snd ij).

  Lemma loops_as_cells (rows : list N) (cols : N -> list N) (arr : list A) :
    foldM (fun a i => foldM (fun a j => swapN a (i + N.shiftl j cS) (N.shiftl i cS + j)) (cols i) a) rows arr
    = foldM swap_cell (flat_map (fun i => map (pair i) (cols i)) rows) arr.
  Proof.
    rewrite <- foldM_flat_map. apply foldM_ext_in. intros a i _. rewrite foldM_map. reflexivity.
  Qed.

  Lemma NoDup_cells (rows : list N) (cols : N -> list N) : NoDup rows -> (forall i, NoDup (cols i)) ->
    NoDup (flat_map (fun i => map (pair i) (cols i)) rows).
  Proof.
    intros Hr Hc. apply NoDup_flat_map; [exact Hr| |].
    - intros i _. apply NoDup_map_inj_in; [apply Hc|]. intros a b _ _ E. inversion E. reflexivity.
    - intros i i' [a b] _ _ H1 H2. apply in_map_iff in H1. apply in_map_iff in H2.
      destruct H1 as [? [E1 _]]. destruct H2 as [? [E2 _]]. inversion E1. inversion E2. congruence.
  Qed.

  Lemma in_cells (rows : list N) (cols : N -> list N) i j :
    In (i, j) (flat_map (fun i => map (pair i) (cols i)) rows) <-> In i rows /\ In j (cols i).
  Proof.
    rewrite in_flat_map. split.
    - intros [i' [Hi Hin]]. apply in_map_iff in Hin. destruct Hin as [j' [E Hj]]. inversion E; subst. auto.
    - intros [Hi Hj]. exists i. split; [exact Hi|]. apply in_map. exact Hj.
  Qed.

  Lemma tips_small_spec (arr : list A) lb_size x : x + 2 ^ lb_size <= bnd -> lenN arr = len ->
    exists res, transpose_in_place_square_small arr cS lb_size x = Some res /\
                transposed cS (Rsq x (2 ^ lb_size)) arr res.
  Proof.
    intros Hx Hn. unfold transpose_in_place_square_small. rewrite N.shiftl_1_l.
    set (sz := 2 ^ lb_size) in *. rewrite loops_as_cells.
    set (cells := flat_map (fun i => map (pair i) (range x i)) (range (x + 1) (x + sz))).
    pose proof (St_pos cS) as HS. fold S in HS.
    assert (Hc : forall i j, In (i, j) cells <-> (x + 1 <= i < x + sz) /\ (x <= j < i)).
    { intros i j. unfold cells. rewrite in_cells, !in_range. tauto. }
    apply (swaps_transposed cS len (Rsq x sz) cells arr (Rsq_ok x sz Hx) Hn).
    - intros i j Hin. apply Hc in Hin. split; [apply Rsq_spec|]; lia.
    - apply NoDup_map_inj_in.
      + apply NoDup_cells; [apply NoDup_iota|intros; apply NoDup_iota].
      + intros [i j] [i' j'] H1 H2. apply Hc in H1. apply Hc in H2. cbn [fst snd]. fold S.
        rewrite !N.min_l by nia. intros E.
        destruct (dec2 cS j i ltac:(fold S; lia)) as [D1 D2]. destruct (dec2 cS j' i' ltac:(fold S; lia)) as [D1' D2'].
        fold S in D1, D2, D1', D2'. rewrite E in D1, D2. congruence.
    - intros r c E Hne. apply Rsq_spec in E.
      destruct (N.lt_ge_cases c r); [left|right]; apply Hc; lia.
  Qed.

  Lemma tss_small_spec (arr : list A) lb_size x y : x + 2 ^ lb_size <= y -> y + 2 ^ lb_size <= bnd ->
    lenN arr = len ->
    exists res, transpose_swap_square_small arr cS lb_size x y = Some res /\
                transposed cS (Rsw x y (2 ^ lb_size)) arr res.
  Proof.
    intros Hx Hy Hn. unfold transpose_swap_square_small. rewrite N.shiftl_1_l.
    set (sz := 2 ^ lb_size) in *. rewrite loops_as_cells.
    set (cells := flat_map (fun i => map (pair i) (range y (y + sz))) (range x (x + sz))).
    pose proof (St_pos cS) as HS. fold S in HS.
    assert (Hc : forall i j, In (i, j) cells <-> (x <= i < x + sz) /\ (y <= j < y + sz)).
    { intros i j. unfold cells. rewrite in_cells, !in_range. tauto. }
    apply (swaps_transposed cS len (Rsw x y sz) cells arr (Rsw_ok x y sz ltac:(lia) Hy) Hn).
    - intros i j Hin. apply Hc in Hin. split; [apply Rsw_spec|]; lia.
    - apply NoDup_map_inj_in.
      + apply NoDup_cells; [apply NoDup_iota|intros; apply NoDup_iota].
      + intros [i j] [i' j'] H1 H2. apply Hc in H1. apply Hc in H2. cbn [fst snd]. fold S.
        rewrite !N.min_r by nia. intros E.
        destruct (dec2 cS i j ltac:(fold S; lia)) as [D1 D2]. destruct (dec2 cS i' j' ltac:(fold S; lia)) as [D1' D2'].
        fold S in D1, D2, D1', D2'. rewrite E in D1, D2. congruence.
    - intros r c E Hne. apply Rsw_spec in E. destruct E as [E|E]; [left|right]; apply Hc; lia.
  Qed.

  Lemma transposed_lenN R (arr res : list A) : transposed cS R arr res -> lenN arr = len -> lenN res = len.
  Proof. intros [L _] Hn. unfold lenN in *. rewrite L. exact Hn. Qed.

  Lemma pow2_half lb : 0 < lb -> 2 ^ lb = 2 * 2 ^ (lb - 1).
  Proof. intros H. rewrite <- N.pow_succ_r'. f_equal. lia. Qed.

  Lemma tss_f_spec : forall fuel lb_size (arr : list A) x y, (N.to_nat lb_size <= fuel)%nat ->
    x + 2 ^ lb_size <= y -> y + 2 ^ lb_size <= bnd -> lenN arr = len ->
    exists res, transpose_swap_square_f fuel arr cS lb_size x y = Some res /\
                transposed cS (Rsw x y (2 ^ lb_size)) arr res.
  Proof.
    induction fuel as [|fuel IH]; intros lb_size arr x y Hf Hx Hy Hn.
    - cbn [transpose_swap_square_f]. replace (lb_size <=? LB_BLOCK_SIZE) with true by (symmetry; apply N.leb_le; lia).
      apply tss_small_spec; assumption.
    - cbn [transpose_swap_square_f]. destruct (lb_size <=? LB_BLOCK_SIZE) eqn:E; [apply tss_small_spec; assumption|].
      apply N.leb_gt in E. unfold LB_BLOCK_SIZE in E. rewrite N.shiftl_1_l.
      set (b := 2 ^ (lb_size - 1)). assert (Hb : 2 ^ lb_size = 2 * b) by (apply pow2_half; lia).
      rewrite Hb in *.
      destruct (IH (lb_size - 1) arr x y ltac:(lia) ltac:(fold b; lia) ltac:(fold b; lia) Hn) as [a1 [E1 T1]]. fold b in T1.
      rewrite E1. pose proof (transposed_lenN _ _ _ T1 Hn) as Hn1.
      destruct (IH (lb_size - 1) a1 (x + b) y ltac:(lia) ltac:(fold b; lia) ltac:(fold b; lia) Hn1) as [a2 [E2 T2]]. fold b in T2.
      rewrite E2. pose proof (transposed_lenN _ _ _ T2 Hn1) as Hn2.
      destruct (IH (lb_size - 1) a2 x (y + b) ltac:(lia) ltac:(fold b; lia) ltac:(fold b; lia) Hn2) as [a3 [E3 T3]]. fold b in T3.
      rewrite E3. pose proof (transposed_lenN _ _ _ T3 Hn2) as Hn3.
      destruct (IH (lb_size - 1) a3 (x + b) (y + b) ltac:(lia) ltac:(fold b; lia) ltac:(fold b; lia) Hn3) as [a4 [E4 T4]]. fold b in T4.
      rewrite E4. exists a4. split; [reflexivity|].
      pose proof (Rsw_ok x y b ltac:(lia) ltac:(lia)) as O1.
      pose proof (Rsw_ok (x + b) y b ltac:(lia) ltac:(lia)) as O2.
      pose proof (Rsw_ok x (y + b) b ltac:(lia) ltac:(lia)) as O3.
      pose proof (Rsw_ok (x + b) (y + b) b ltac:(lia) ltac:(lia)) as O4.
      assert (C12 := transposed_compose cS len _ _ arr a1 a2 O1 O2 Hn
                       ltac:(intros r c H1 H2; apply Rsw_spec in H1; apply Rsw_spec in H2; lia) T1 T2).
      assert (C123 := transposed_compose cS len _ _ arr a2 a3 (region_ok_or cS len _ _ O1 O2) O3 Hn
                       ltac:(intros r c H1 H2; apply orb_true_iff in H1; rewrite !Rsw_spec in H1; apply Rsw_spec in H2; lia) C12 T3).
      assert (C1234 := transposed_compose cS len _ _ arr a3 a4
                       (region_ok_or cS len _ _ (region_ok_or cS len _ _ O1 O2) O3) O4 Hn
                       ltac:(intros r c H1 H2; rewrite !orb_true_iff, !Rsw_spec in H1; apply Rsw_spec in H2; lia) C123 T4).
      eapply transposed_ext; [|exact C1234].
      intros r c. apply bool_ext. rewrite !orb_true_iff, !Rsw_spec. lia.
  Qed.

  Lemma tips_f_spec : forall fuel lb_size (arr : list A) x, (N.to_nat lb_size <= fuel)%nat ->
    x + 2 ^ lb_size <= bnd -> lenN arr = len ->
    exists res, transpose_in_place_square_f fuel arr cS lb_size x = Some res /\
                transposed cS (Rsq x (2 ^ lb_size)) arr res.
  Proof.
    induction fuel as [|fuel IH]; intros lb_size arr x Hf Hx Hn.
    - cbn [transpose_in_place_square_f]. replace (lb_size <=? LB_BLOCK_SIZE) with true by (symmetry; apply N.leb_le; lia).
      apply tips_small_spec; assumption.
    - cbn [transpose_in_place_square_f]. destruct (lb_size <=? LB_BLOCK_SIZE) eqn:E; [apply tips_small_spec; assumption|].
      apply N.leb_gt in E. unfold LB_BLOCK_SIZE in E. rewrite N.shiftl_1_l.
      set (b := 2 ^ (lb_size - 1)). assert (Hb : 2 ^ lb_size = 2 * b) by (apply pow2_half; lia).
      rewrite Hb in *.
      destruct (IH (lb_size - 1) arr x ltac:(lia) ltac:(fold b; lia) Hn) as [a1 [E1 T1]]. fold b in T1.
      rewrite E1. pose proof (transposed_lenN _ _ _ T1 Hn) as Hn1.
      destruct (tss_f_spec fuel (lb_size - 1) a1 x (x + b) ltac:(lia) ltac:(fold b; lia) ltac:(fold b; lia) Hn1) as [a2 [E2 T2]]. fold b in T2.
      rewrite E2. pose proof (transposed_lenN _ _ _ T2 Hn1) as Hn2.
      destruct (IH (lb_size - 1) a2 (x + b) ltac:(lia) ltac:(fold b; lia) Hn2) as [a3 [E3 T3]]. fold b in T3.
      rewrite E3. exists a3. split; [reflexivity|].
      pose proof (Rsq_ok x b ltac:(lia)) as O1.
      pose proof (Rsw_ok x (x + b) b ltac:(lia) ltac:(lia)) as O2.
      pose proof (Rsq_ok (x + b) b ltac:(lia)) as O3.
      assert (C12 := transposed_compose cS len _ _ arr a1 a2 O1 O2 Hn
                       ltac:(intros r c H1 H2; apply Rsq_spec in H1; apply Rsw_spec in H2; lia) T1 T2).
      assert (C123 := transposed_compose cS len _ _ arr a2 a3 (region_ok_or cS len _ _ O1 O2) O3 Hn
                       ltac:(intros r c H1 H2; apply orb_true_iff in H1; rewrite Rsq_spec, Rsw_spec in H1; apply Rsq_spec in H2; lia) C12 T3).
      eapply transposed_ext; [|exact C123].
      intros r c. apply bool_ext. rewrite !orb_true_iff, !Rsq_spec, !Rsw_spec. lia.
  Qed.

  (* transpose_in_place_square: every cell (i, j) of the 2^lb_size square at offset x is exchanged
     with (j, i); every index touched is in range (no [None]) provided the square fits *)
  Theorem transpose_square_spec (arr : list A) lb_size x : x + 2 ^ lb_size <= bnd -> lenN arr = len ->
    exists res, transpose_in_place_square arr cS lb_size x = Some res /\
                transposed cS (Rsq x (2 ^ lb_size)) arr res.
  Proof. intros Hx Hn. apply tips_f_spec; [lia|exact Hx|exact Hn]. Qed.
End TransposeLoops.

(* ---- index arithmetic of chunks / transpose / chunks *)
Lemma dm (S r t : N) : t < S -> (r * S + t) / S = r /\ (r * S + t) mod S = t.
Proof.
  intros Ht. split.
  - symmetry. apply N.div_unique with (r := t); lia.
  - symmetry. apply N.mod_unique with (q := r); lia.
Qed.

Lemma even_index (h : nat) (I : N) : let B := 2 ^ N.of_nat h in I < B * B ->
  let J := fC h h I in
  let p := Tr (N.of_nat h) (Rsq 0 B) J in
  fC h h p = bitrev (h + h) I.
Proof.
  intros B HI J p. assert (HB : 0 < B) by (apply N.neq_0_lt_0; apply N.pow_nonzero; lia).
  set (i := I / B). set (j := I mod B).
  assert (Hj : j < B) by (apply N.mod_lt; lia).
  assert (Hi : i < B) by (apply N.div_lt_upper_bound; lia).
  pose proof (bitrev_lt h i) as Hri. pose proof (bitrev_lt h j) as Hrj. fold B in Hri, Hrj.
  assert (EJ : J = bitrev h i * B + j) by reflexivity.
  destruct (dm B (bitrev h i) j Hj) as [D1 D2].
  assert (Ep : p = j * B + bitrev h i).
  { unfold p, Tr. fold B. rewrite EJ, D1, D2.
    replace (Rsq 0 B (bitrev h i) j) with true by (symmetry; apply Rsq_spec; lia). reflexivity. }
  destruct (dm B j (bitrev h i) Hri) as [D3 D4].
  unfold fC at 1. fold B. rewrite Ep, D3, D4.
  rewrite bitrev_add. fold B. fold i. fold j. reflexivity.
Qed.

Lemma odd_index (h : nat) (I : N) : let B := 2 ^ N.of_nat h in let W := 2 ^ N.of_nat (Datatypes.S h) in I < B * W ->
  let J := fC h (Datatypes.S h) I in
  let J2 := if J <? B then J else B + Tr (N.of_nat (Datatypes.S h)) (Rsq 0 B) (J - B) in
  let p := Tr (N.of_nat (Datatypes.S h)) (Rsq 0 B) J2 in
  fC h (Datatypes.S h) p = bitrev (h + Datatypes.S h) I.
Proof.
  intros B W HI J J2 p. assert (HB : 0 < B) by (apply N.neq_0_lt_0; apply N.pow_nonzero; lia).
  assert (ES : W = 2 * B) by (unfold W, B; rewrite Nat2N.inj_succ, N.pow_succ_r'; reflexivity).
  set (i := I / W). set (u := I mod W).
  assert (Hu : u < W) by (apply N.mod_lt; lia).
  assert (Hi : i < B) by (apply N.div_lt_upper_bound; lia).
  set (m := u / B). set (j := u mod B).
  assert (Hj : j < B) by (apply N.mod_lt; lia).
  assert (Hm : m < 2) by (apply N.div_lt_upper_bound; lia).
  assert (Eu : u = m * B + j) by (pose proof (N.div_mod' u B); unfold m, j; lia).
  assert (EI : I = i * W + u) by (pose proof (N.div_mod' I W); unfold i, u; lia).
  pose proof (bitrev_lt h i) as Hri. pose proof (bitrev_lt h j) as Hrj. fold B in Hri, Hrj.
  set (ri := bitrev h i) in *. set (rj := bitrev h j) in *.
  assert (EJ : J = ri * W + u) by reflexivity.
  (* the target *)
  assert (Egoal : bitrev (h + Datatypes.S h) I = rj * W + m * B + ri).
  { rewrite bitrev_add. fold B.
    assert (E1 : I mod B = j).
    { symmetry. apply N.mod_unique with (q := 2 * i + m); [exact Hj|]. rewrite EI, Eu, ES. lia. }
    assert (E2 : I / B = 2 * i + m).
    { symmetry. apply N.div_unique with (r := j); [exact Hj|]. rewrite EI, Eu, ES. lia. }
    rewrite E1, E2. fold rj. fold W.
    replace (Datatypes.S h) with (1 + h)%nat by lia. rewrite bitrev_add, bitrev_1. change (2 ^ N.of_nat 1) with 2.
    replace ((2 * i + m) mod 2) with m by (apply N.mod_unique with (q := i); lia).
    replace ((2 * i + m) / 2) with i by (apply N.div_unique with (r := m); lia).
    rewrite N.mod_small by exact Hm. fold B. fold ri. lia. }
  rewrite Egoal.
  assert (Hm01 : m = 0 \/ m = 1) by lia.
  destruct Hm01 as [Em|Em]; rewrite Em in *.
  - (* middle bit 0: the first transpose moves the cell, the second leaves it *)
    assert (Eu' : u = j) by lia.
    assert (EJ2 : J2 = J).
    { unfold J2. destruct (J <? B) eqn:EB; [reflexivity|]. apply N.ltb_ge in EB.
      assert (Hri1 : 1 <= ri) by (rewrite EJ, Eu' in EB; destruct (N.eq_dec ri 0) as [Z|Z]; [rewrite Z in EB; lia|lia]).
      assert (EJB : J - B = (ri - 1) * W + (B + j)) by (rewrite EJ, Eu', ES; nia).
      destruct (dm W (ri - 1) (B + j) ltac:(lia)) as [D1 D2].
      unfold Tr. fold W. rewrite EJB, D1, D2.
      replace (Rsq 0 B (ri - 1) (B + j)) with false; [nia|].
      symmetry. apply not_true_is_false. intros E. apply Rsq_spec in E. lia. }
    assert (Ep : p = j * W + ri).
    { unfold p. rewrite EJ2, EJ, Eu'. destruct (dm W ri j ltac:(lia)) as [D1 D2].
      unfold Tr. fold W. rewrite D1, D2.
      replace (Rsq 0 B ri j) with true by (symmetry; apply Rsq_spec; lia). reflexivity. }
    destruct (dm W j ri ltac:(lia)) as [D3 D4].
    unfold fC. fold W. rewrite Ep, D3, D4. fold rj. lia.
  - (* middle bit 1: the second transpose moves the cell *)
    assert (Eu' : u = B + j) by lia.
    assert (EJ2 : J2 = j * W + (B + ri)).
    { unfold J2. replace (J <? B) with false by (symmetry; apply N.ltb_ge; rewrite EJ, Eu'; nia).
      assert (EJB : J - B = ri * W + j) by (rewrite EJ, Eu'; nia).
      destruct (dm W ri j ltac:(lia)) as [D1 D2].
      unfold Tr. fold W. rewrite EJB, D1, D2.
      replace (Rsq 0 B ri j) with true by (symmetry; apply Rsq_spec; lia). lia. }
    assert (Ep : p = j * W + (B + ri)).
    { unfold p. rewrite EJ2. destruct (dm W j (B + ri) ltac:(lia)) as [D1 D2].
      unfold Tr. fold W. rewrite D1, D2.
      replace (Rsq 0 B j (B + ri)) with false; [reflexivity|].
      symmetry. apply not_true_is_false. intros E. apply Rsq_spec in E. lia. }
    destruct (dm W j (B + ri) ltac:(lia)) as [D3 D4].
    unfold fC. fold W. rewrite Ep, D3, D4. fold rj. lia.
Qed.

(* ------------------------------------------------------------------ reverse_index_bits_in_place *)
(* "the in-place reversal of 2^k elements of [sz] bytes is the bit-reversal permutation" *)
Definition in_place_ok (sz : N) (k : nat) : Prop :=
  forall (A : Type) (arr : list A), length arr = (2 ^ k)%nat ->
    exists res, reverse_index_bits_in_place sz arr = Some res /\ length res = length arr /\
                forall i, i < 2 ^ N.of_nat k -> getN res i = getN arr (bitrev k i).

(* the simple path: the whole array fits in SMALL_ARR_SIZE bytes, or the elements are huge *)
Theorem in_place_ok_small : forall (sz : N) (k : nat), (k < 64)%nat ->
  (N.shiftl sz (N.of_nat k) <= SMALL_ARR_SIZE \/ BIG_T_SIZE <= sz) -> in_place_ok sz k.
Proof.
  intros sz k Hk Hsmall A arr Hlen. unfold reverse_index_bits_in_place.
  rewrite (lenN_pow2 arr k Hlen), log2_strict_pow2.
  assert (E : orb (N.shiftl sz (N.of_nat k) <=? SMALL_ARR_SIZE) (BIG_T_SIZE <=? sz) = true).
  { apply orb_true_iff. destruct Hsmall as [H|H]; [left|right]; apply N.leb_le; exact H. }
  rewrite E. apply reverse_index_bits_in_place_small_spec; assumption.
Qed.

Theorem reverse_index_bits_in_place_not_pow2 {A} : forall sz (arr : list A),
  (forall k : nat, length arr <> (2 ^ k)%nat) -> reverse_index_bits_in_place sz arr = None.
Proof.
  intros sz arr H. unfold reverse_index_bits_in_place.
  destruct (log2_strict (lenN arr)) as [r|] eqn:E; [|reflexivity].
  exfalso. apply log2_strict_some in E. apply (H (N.to_nat r)).
  unfold lenN in E. apply Nat2N.inj. rewrite E, pow2_N, N2Nat.id. reflexivity.
Qed.

(* ------------------------------------------------------------------ the chunk / transpose / chunk path *)
Lemma getN_skipn {A} (l : list A) (m q : N) : getN (skipn (N.to_nat m) l) q = getN l (m + q).
Proof.
  unfold getN. replace (N.to_nat (m + q)) with (N.to_nat m + N.to_nat q)%nat by lia.
  generalize (N.to_nat m) as a. generalize (N.to_nat q) as b. clear.
  intros b a. revert l. induction a as [|a IH]; intros l; [reflexivity|].
  destruct l as [|x l]; [destruct b; reflexivity|]. cbn [skipn plus nth_error]. apply IH.
Qed.

Lemma getN_firstn_app {A} (l t : list A) (off p : N) : off <= lenN l ->
  getN (firstn (N.to_nat off) l ++ t) p = if p <? off then getN l p else getN t (p - off).
Proof.
  intros Hoff. unfold getN, lenN in *.
  assert (Lf : length (firstn (N.to_nat off) l) = N.to_nat off) by (rewrite firstn_length; lia).
  destruct (p <? off) eqn:E.
  - apply N.ltb_lt in E. rewrite nth_error_app1 by lia.
    rewrite <- (firstn_skipn (N.to_nat off) l) at 2. rewrite nth_error_app1 by lia. reflexivity.
  - apply N.ltb_ge in E. rewrite nth_error_app2 by lia. rewrite Lf. f_equal. lia.
Qed.

Theorem reverse_in_place_chunked_spec : forall (A : Type) (arr : list A) (k : nat),
  (k < 64)%nat -> length arr = (2 ^ k)%nat ->
  let lb_num_chunks := N.shiftr (N.of_nat k) 1 in
  let lb_chunk_size := N.of_nat k - lb_num_chunks in
  exists a1 a2 a3 res,
    reverse_index_bits_in_place_chunks arr lb_num_chunks lb_chunk_size = Some a1 /\
    transpose_in_place_square a1 lb_chunk_size lb_num_chunks 0 = Some a2 /\
    (if negb (lb_num_chunks =? lb_chunk_size)
     then lenN a2 <? N.shiftl 1 lb_num_chunks = false /\
          exists t, transpose_in_place_square (skipn (N.to_nat (N.shiftl 1 lb_num_chunks)) a2) lb_chunk_size lb_num_chunks 0 = Some t /\
                    a3 = firstn (N.to_nat (N.shiftl 1 lb_num_chunks)) a2 ++ t
     else a3 = a2) /\
    reverse_index_bits_in_place_chunks a3 lb_num_chunks lb_chunk_size = Some res /\
    length res = length arr /\ forall I, I < 2 ^ N.of_nat k -> getN res I = getN arr (bitrev k I).
Proof.
  intros A arr k Hk Hlen lbn lbc.
  set (h := (k / 2)%nat). set (c := (k - k / 2)%nat).
  assert (Eh : lbn = N.of_nat h).
  { unfold lbn, h. rewrite N.shiftr_div_pow2. change (2 ^ 1) with 2. rewrite Nat2N.inj_div. reflexivity. }
  assert (Ec : lbc = N.of_nat c).
  { unfold lbc. rewrite Eh. unfold c, h. pose proof (Nat.div_lt_upper_bound k 2 (k + 1)). lia. }
  assert (Hhk : (h + c = k)%nat) by (unfold h, c; pose proof (Nat.div_le_upper_bound k 2 k ltac:(lia) ltac:(lia)); lia).
  assert (Hpar : c = h \/ c = S h).
  { unfold c, h. pose proof (Nat.div_mod_eq k 2). pose proof (Nat.mod_upper_bound k 2 ltac:(lia)). lia. }
  rewrite Eh, Ec. clear lbn lbc Eh Ec.
  set (B := 2 ^ N.of_nat h). set (W := 2 ^ N.of_nat c). set (n := B * W).
  assert (HB : 0 < B) by (apply N.neq_0_lt_0; apply N.pow_nonzero; lia).
  assert (HW : 0 < W) by (apply N.neq_0_lt_0; apply N.pow_nonzero; lia).
  assert (Hnk : 2 ^ N.of_nat k = n) by (unfold n, B, W; rewrite <- N.pow_add_r; f_equal; lia).
  assert (Hn : lenN arr = n) by (rewrite <- Hnk; apply lenN_pow2; exact Hlen).
  assert (HBW : B <= W) by (unfold B, W; apply N.pow_le_mono_r; lia).
  assert (Hh64 : (h <= 64)%nat) by lia.
  (* phase 1 *)
  destruct (chunks_spec h c Hh64 arr Hn) as [a1 [E1 [L1 G1]]]. fold B W n in G1.
  assert (Hn1 : lenN a1 = n) by (unfold lenN in *; rewrite L1; exact Hn).
  (* phase 2 *)
  assert (Hin : forall r c0, r < B -> c0 < B -> r * W + c0 < n) by (intros; unfold n; nia).
  destruct (transpose_square_spec (N.of_nat c) n B HBW Hin a1 (N.of_nat h) 0 ltac:(fold B; lia) Hn1) as [a2 [E2 [L2 G2]]].
  fold B in G2.
  assert (Hn2 : lenN a2 = n) by (unfold lenN in *; rewrite L2; exact Hn1).
  pose proof (Rsq_ok (N.of_nat c) n B HBW Hin 0 B ltac:(lia)) as ROK.
  rewrite N.shiftl_1_l. fold B.
  destruct Hpar as [Ech|Ech].
  - (* even: one transpose *)
    assert (Eeq : (N.of_nat h =? N.of_nat c) = true) by (apply N.eqb_eq; lia).
    rewrite Eeq. cbn [negb].
    destruct (chunks_spec h c Hh64 a2 Hn2) as [res [E3 [L3 G3]]]. fold B W n in G3.
    exists a1, a2, a2, res. split; [exact E1|]. split; [exact E2|]. split; [reflexivity|]. split; [exact E3|].
    split; [lia|]. intros I HI. rewrite Hnk in HI.
    rewrite G3 by exact HI. rewrite Hn1 in G2.
    pose proof (fC_lt h c Hh64 I HI) as HJ. fold B W n in HJ.
    rewrite G2 by exact HJ.
    pose proof (Tr_lt (N.of_nat c) n (Rsq 0 B) (fC h c I) ROK HJ) as Hp.
    rewrite G1 by exact Hp. f_equal.
    assert (Ec' : c = h) by exact Ech. revert Hp HJ HI. unfold n, W. rewrite Ec'. intros Hp HJ HI.
    replace k with (h + h)%nat by lia. apply even_index. exact HI.
  - (* odd: a second transpose on the array advanced by 2^h *)
    assert (Eeq : (N.of_nat h =? N.of_nat c) = false) by (apply N.eqb_neq; lia).
    rewrite Eeq. cbn [negb].
    assert (EW : W = 2 * B) by (unfold W, B; rewrite Ech, Nat2N.inj_succ, N.pow_succ_r'; reflexivity).
    assert (Hoff : (lenN a2 <? B) = false) by (apply N.ltb_ge; rewrite Hn2; unfold n; nia).
    set (a2s := skipn (N.to_nat B) a2).
    assert (Ln2s : lenN a2s = n - B).
    { unfold a2s, lenN in *. rewrite skipn_length. lia. }
    assert (Hin' : forall r c0, r < B -> c0 < B -> r * W + c0 < n - B) by (intros; unfold n; nia).
    destruct (transpose_square_spec (N.of_nat c) (n - B) B HBW Hin' a2s (N.of_nat h) 0 ltac:(fold B; lia) Ln2s) as [t [E2' [L2' G2']]].
    fold B in G2'.
    set (a3 := firstn (N.to_nat B) a2 ++ t).
    assert (Hn3 : lenN a3 = n).
    { unfold a3, lenN in *. rewrite app_length, firstn_length, L2'. unfold a2s. rewrite skipn_length. lia. }
    destruct (chunks_spec h c Hh64 a3 Hn3) as [res [E3 [L3 G3]]]. fold B W n in G3.
    exists a1, a2, a3, res. split; [exact E1|]. split; [exact E2|].
    split; [split; [exact Hoff|]; exists t; split; [exact E2'|reflexivity]|].
    split; [exact E3|]. split; [unfold lenN in *; lia|].
    intros I HI. rewrite Hnk in HI.
    rewrite G3 by exact HI.
    pose proof (fC_lt h c Hh64 I HI) as HJ. fold B W n in HJ.
    set (J := fC h c I) in *.
    pose proof (Rsq_ok (N.of_nat c) (n - B) B HBW Hin' 0 B ltac:(lia)) as ROK'.
    (* through the second transpose *)
    set (J2 := if J <? B then J else B + Tr (N.of_nat c) (Rsq 0 B) (J - B)).
    assert (HJ2 : J2 < n).
    { unfold J2. destruct (J <? B) eqn:EB; [exact HJ|]. apply N.ltb_ge in EB.
      pose proof (Tr_lt (N.of_nat c) (n - B) (Rsq 0 B) (J - B) ROK' ltac:(lia)). lia. }
    assert (Ga3 : getN a3 J = getN a2 J2).
    { unfold a3. rewrite getN_firstn_app by (rewrite Hn2; unfold n; nia). unfold J2.
      destruct (J <? B) eqn:EB; [reflexivity|]. apply N.ltb_ge in EB.
      rewrite G2' by (rewrite Ln2s; lia). unfold a2s. apply getN_skipn. }
    rewrite Ga3. rewrite Hn1 in G2. rewrite G2 by exact HJ2.
    pose proof (Tr_lt (N.of_nat c) n (Rsq 0 B) J2 ROK HJ2) as Hp.
    rewrite G1 by exact Hp. f_equal.
    revert Hp HJ2 HJ HI. unfold J2, J, n, W. rewrite Ech. intros Hp HJ2 HJ HI.
    replace k with (h + S h)%nat by lia. apply odd_index. exact HI.
Qed.

(* reverse_index_bits_in_place is the bit-reversal permutation for every element size and every
   length 2^k that a usize can hold: simple path and chunk / transpose / chunk path *)
Theorem in_place_ok_all : forall (sz : N) (k : nat), (k < 64)%nat -> in_place_ok sz k.
Proof.
  intros sz k Hk.
  destruct (orb (N.shiftl sz (N.of_nat k) <=? SMALL_ARR_SIZE) (BIG_T_SIZE <=? sz)) eqn:E.
  - apply in_place_ok_small; [exact Hk|]. apply orb_true_iff in E. destruct E as [E|E]; [left|right]; apply N.leb_le; exact E.
  - intros A arr Hlen. unfold reverse_index_bits_in_place.
    rewrite (lenN_pow2 arr k Hlen), log2_strict_pow2, E.
    destruct (reverse_in_place_chunked_spec A arr k Hk Hlen) as [a1 [a2 [a3 [res [E1 [E2 [E3 [E4 [L G]]]]]]]]].
    cbv zeta in *. rewrite E1, E2.
    destruct (negb (N.shiftr (N.of_nat k) 1 =? N.of_nat k - N.shiftr (N.of_nat k) 1)).
    + destruct E3 as [Hoff [t [Et Ea3]]]. rewrite Hoff, Et, <- Ea3, E4. exists res. auto.
    + rewrite <- E3 in E2. rewrite E3 in E4. rewrite E4. exists res. auto.
Qed.
