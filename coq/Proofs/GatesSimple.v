(* C07 - per-gate specifications (gate_spec of Proofs/GatesLib.v) for the gates whose written
   wires are pinned by definition and need no arithmetic side condition:
   ArithmeticGate, ArithmeticExtensionGate, MulExtensionGate, PoseidonMdsGate, ConstantGate,
   PublicInputGate, NoopGate, LookupGate, LookupTableGate.
   For each: the constraints vanish iff every generator-written wire holds exactly the value the
   generator computes from the input wires. *)
From Coq Require Import ZArith List Lia Arith Bool FinFun.
From Verif Require Import Base.Field Model.FieldGeneric Model.Gates Proofs.GatesLib.
Import ListNotations.
Local Open Scope nat_scope.

Lemma SW_eq : SW = 12. Proof. reflexivity. Qed.
Lemma HALF_FULL_eq : HALF_FULL = 4. Proof. reflexivity. Qed.
Lemma N_PARTIAL_eq : N_PARTIAL = 22. Proof. reflexivity. Qed.

Section Simple.
  Context {K : Type} `{FL : FieldLaws K} {OB : OfBase K} {TC : ToCanon K}.
  Add Field Kf_simple : (@F_field_theory K _ FL).

  Definition ok_true (consts row pi : list K) : Prop := True.

  (* ---- blocks of independent definitional constraints *)
  Lemma char_scalar_block (idx : list nat) (out : nat -> nat) (e : nat -> K) (row : list K) :
    zero_all (map (fun i => (nthF row (out i) - e i)%F) idx) <-> agree (map (fun i => (out i, e i)) idx) row.
  Proof.
    rewrite zero_all_map. unfold agree. split.
    - intros Hz j v Hin. apply in_map_iff in Hin. destruct Hin as [i [E Hi]]. inversion E; subst.
      apply f_sub_eq_0. apply Hz. exact Hi.
    - intros Ha i Hi. apply f_sub_eq_0. apply Ha. apply in_map_iff. exists i. auto.
  Qed.

  Lemma agree_flat_map {B} (f : B -> list (nat * K)) (l : list B) row :
    agree (flat_map f l) row <-> forall x, In x l -> agree (f x) row.
  Proof.
    unfold agree. split.
    - intros Ha x Hx i v Hin. apply Ha. apply in_flat_map. exists x. auto.
    - intros Ha i v Hin. apply in_flat_map in Hin. destruct Hin as [x [Hx Hin]]. apply (Ha x Hx). exact Hin.
  Qed.

  Lemma char_alg_block (idx : list nat) (out : nat -> nat) (e : nat -> @alg K) (row : list K) :
    zero_all (flat_map (fun i => alg_coords (alg_sub (alg_at row (out i)) (e i))) idx)
    <-> agree (flat_map (fun i => alg_writes (out i) (e i)) idx) row.
  Proof.
    rewrite zero_all_flat_map, agree_flat_map. split; intros Hx i Hi.
    - apply agree_alg_writes. apply alg_coords_zero. apply Hx. exact Hi.
    - apply alg_coords_zero. apply agree_alg_writes. apply Hx. exact Hi.
  Qed.

  Lemma map_fst_alg_block (idx : list nat) (out : nat -> nat) (e : nat -> @alg K) :
    map fst (flat_map (fun i => alg_writes (out i) (e i)) idx) = flat_map (fun i => pair_idx (out i)) idx.
  Proof.
    induction idx as [|i t IH]; cbn [flat_map]; [reflexivity|].
    rewrite map_app, IH. reflexivity.
  Qed.

  Lemma in_pair_block (idx : list nat) (out : nat -> nat) w :
    In w (flat_map (fun i => pair_idx (out i)) idx) <-> exists i, In i idx /\ (w = out i \/ w = S (out i)).
  Proof.
    rewrite in_flat_map. unfold pair_idx. split.
    - intros [i [Hi [E|[E|[]]]]]; exists i; auto.
    - intros [i [Hi [E|E]]]; exists i; cbn [In]; auto.
  Qed.

  (* pairs at strictly increasing starts (stride >= 2) never overlap *)
  Lemma NoDup_pair_block (n stride off : nat) : 2 <= stride ->
    NoDup (flat_map (fun i => pair_idx (stride * i + off)) (seq 0 n)).
  Proof.
    intros Hs. induction n as [|n IH]; [constructor|].
    rewrite seq_S, flat_map_app. cbn [flat_map plus]. rewrite app_nil_r.
    apply NoDup_app_intro; [exact IH| |].
    - unfold pair_idx. constructor; [cbn [In]; lia|]. constructor; [cbn [In]; tauto | constructor].
    - intros w Hw Hw2. apply in_pair_block in Hw. destruct Hw as [i [Hi Hw]]. apply in_seq in Hi.
      unfold pair_idx in Hw2. cbn [In] in Hw2. nia.
  Qed.

  Lemma in_combine_seq (s n : nat) (l : list K) j v : length l = n ->
    In (j, v) (combine (seq s n) l) <-> exists i, i < n /\ j = s + i /\ v = nth i l 0%F.
  Proof.
    revert s l. induction n as [|n IH]; intros s l Hl.
    - cbn [seq combine In]. split; [tauto | intros [i [Hi _]]; lia].
    - destruct l as [|a l]; [discriminate|]. cbn [length] in Hl. cbn [seq combine In].
      rewrite (IH (S s) l) by lia. split.
      + intros [E|[i [Hi [Ej Ev]]]].
        * inversion E; subst. exists 0. split; [lia|]. split; [lia | reflexivity].
        * exists (S i). split; [lia|]. split; [lia | exact Ev].
      + intros [[|i] [Hi [Ej Ev]]].
        * left. cbn [nth] in Ev. subst. f_equal. lia.
        * right. exists i. split; [lia|]. split; [lia | exact Ev].
  Qed.

  Lemma map_fst_combine {A B} : forall (l1 : list A) (l2 : list B), length l1 = length l2 ->
    map fst (combine l1 l2) = l1.
  Proof.
    induction l1 as [|a l1 IH]; intros [|b l2] Hl; cbn [length] in Hl; try discriminate; [reflexivity|].
    cbn [combine map fst]. f_equal. apply IH. lia.
  Qed.

  (* ================= ArithmeticGate ================= *)
  Lemma arith_in_written n w : In w (gate_written (ArithmeticGate n)) <-> exists i, i < n /\ w = 4 * i + 3.
  Proof.
    cbn [gate_written]. rewrite in_map_iff. split.
    - intros [i [E Hi]]. apply in_seq in Hi. exists i. lia.
    - intros [i [Hi E]]. exists i. split; [lia|]. apply in_seq. lia.
  Qed.

  Lemma arithmetic_spec n : gate_spec (ArithmeticGate n) ok_true.
  Proof.
    apply spec_of_gate_char.
    - intros consts r1 r2 He. cbn [gate_writes]. f_equal. apply map_ext_in. intros i _. f_equal.
      unfold arith_output.
      rewrite !(He (4 * i)), !(He (4 * i + 1)), !(He (4 * i + 2));
        try reflexivity; rewrite arith_in_written; intros [j [_ E]]; lia.
    - intros; exact I.
    - intros consts r wr Hw. cbn [gate_writes] in Hw. apply Some_eq in Hw; subst wr. rewrite map_map. reflexivity.
    - cbn [gate_written]. apply Injective_map_NoDup; [|apply seq_NoDup]. intros a b E. lia.
    - intros w Hw. apply arith_in_written in Hw. destruct Hw as [i [Hi E]]. cbn [gate_num_wires]. lia.
    - intros consts pi r wr _ Hw. cbn [gate_writes] in Hw. apply Some_eq in Hw; subst wr.
      cbn [gate_eval_unfiltered]. unfold eval_arithmetic.
      apply (char_scalar_block (seq 0 n) (fun i => 4 * i + 3) (arith_output (nthF consts 0) (nthF consts 1) r)).
  Qed.

  (* ================= ArithmeticExtensionGate / MulExtensionGate ================= *)
  Lemma alg_at_ext written (r1 r2 : list K) s :
    same_outside written r1 r2 -> ~ In s written -> ~ In (S s) written -> alg_at r1 s = alg_at r2 s.
  Proof. intros He H0 H1. unfold alg_at. rewrite (He s H0), (He (S s) H1). reflexivity. Qed.

  Lemma arith_ext_in_written n w :
    In w (gate_written (ArithmeticExtensionGate n)) <-> exists i, i < n /\ (w = 8 * i + 6 \/ w = 8 * i + 7).
  Proof.
    cbn [gate_written]. rewrite in_pair_block. split.
    - intros [i [Hi E]]. apply in_seq in Hi. exists i. lia.
    - intros [i [Hi E]]. exists i. split; [apply in_seq; lia | lia].
  Qed.

  Lemma arithmetic_ext_spec n : gate_spec (ArithmeticExtensionGate n) ok_true.
  Proof.
    apply spec_of_gate_char.
    - intros consts r1 r2 He. cbn [gate_writes]. f_equal. apply flat_map_ext. intros i. f_equal.
      unfold arith_ext_output.
      rewrite (alg_at_ext _ r1 r2 (8 * i) He), (alg_at_ext _ r1 r2 (8 * i + 2) He), (alg_at_ext _ r1 r2 (8 * i + 4) He);
        try reflexivity; rewrite arith_ext_in_written; intros [j [_ E]]; lia.
    - intros; exact I.
    - intros consts r wr Hw. cbn [gate_writes] in Hw. apply Some_eq in Hw; subst wr.
      rewrite (map_fst_alg_block (seq 0 n) (fun i => 8 * i + 6)). reflexivity.
    - cbn [gate_written]. apply (NoDup_pair_block n 8 6). lia.
    - intros w Hw. apply arith_ext_in_written in Hw. destruct Hw as [i [Hi E]]. cbn [gate_num_wires]. lia.
    - intros consts pi r wr _ Hw. cbn [gate_writes] in Hw. apply Some_eq in Hw; subst wr.
      cbn [gate_eval_unfiltered]. unfold eval_arithmetic_ext.
      apply (char_alg_block (seq 0 n) (fun i => 8 * i + 6) (arith_ext_output (nthF consts 0) (nthF consts 1) r)).
  Qed.

  Lemma mul_ext_in_written n w :
    In w (gate_written (MulExtensionGate n)) <-> exists i, i < n /\ (w = 6 * i + 4 \/ w = 6 * i + 5).
  Proof.
    cbn [gate_written]. rewrite in_pair_block. split.
    - intros [i [Hi E]]. apply in_seq in Hi. exists i. lia.
    - intros [i [Hi E]]. exists i. split; [apply in_seq; lia | lia].
  Qed.

  Lemma mul_ext_spec n : gate_spec (MulExtensionGate n) ok_true.
  Proof.
    apply spec_of_gate_char.
    - intros consts r1 r2 He. cbn [gate_writes]. f_equal. apply flat_map_ext. intros i. f_equal.
      unfold mul_ext_output.
      rewrite (alg_at_ext _ r1 r2 (6 * i) He), (alg_at_ext _ r1 r2 (6 * i + 2) He);
        try reflexivity; rewrite mul_ext_in_written; intros [j [_ E]]; lia.
    - intros; exact I.
    - intros consts r wr Hw. cbn [gate_writes] in Hw. apply Some_eq in Hw; subst wr.
      rewrite (map_fst_alg_block (seq 0 n) (fun i => 6 * i + 4)). reflexivity.
    - cbn [gate_written]. apply (NoDup_pair_block n 6 4). lia.
    - intros w Hw. apply mul_ext_in_written in Hw. destruct Hw as [i [Hi E]]. cbn [gate_num_wires]. lia.
    - intros consts pi r wr _ Hw. cbn [gate_writes] in Hw. apply Some_eq in Hw; subst wr.
      cbn [gate_eval_unfiltered]. unfold eval_mul_ext.
      apply (char_alg_block (seq 0 n) (fun i => 6 * i + 4) (mul_ext_output (nthF consts 0) r)).
  Qed.

  (* ================= PoseidonMdsGate ================= *)
  Lemma mds_written_eq : gate_written PoseidonMdsGate = flat_map (fun i => pair_idx (2 * i + 24)) (seq 0 12).
  Proof. reflexivity. Qed.

  Lemma mds_in_written w : In w (gate_written PoseidonMdsGate) <-> 24 <= w < 48.
  Proof. cbn [gate_written]. rewrite SW_eq. rewrite in_seq. lia. Qed.

  Lemma poseidon_mds_spec : gate_spec PoseidonMdsGate ok_true.
  Proof.
    apply spec_of_gate_char.
    - intros consts r1 r2 He. cbn [gate_writes]. cbv zeta. f_equal. apply flat_map_ext. intros i. f_equal. f_equal.
      apply map_ext_in. intros j Hj. apply in_seq in Hj. rewrite SW_eq in Hj.
      apply (alg_at_ext _ r1 r2 (2 * j) He); rewrite mds_in_written; lia.
    - intros; exact I.
    - intros consts r wr Hw. cbn [gate_writes] in Hw. cbv zeta in Hw. apply Some_eq in Hw; subst wr.
      rewrite (map_fst_alg_block (seq 0 SW) (fun i => 2 * (SW + i))). reflexivity.
    - rewrite mds_written_eq. apply (NoDup_pair_block 12 2 24). lia.
    - intros w Hw. apply mds_in_written in Hw. cbn [gate_num_wires]. rewrite SW_eq. lia.
    - intros consts pi r wr _ Hw. cbn [gate_writes] in Hw. cbv zeta in Hw. apply Some_eq in Hw; subst wr.
      cbn [gate_eval_unfiltered]. unfold eval_poseidon_mds. cbv zeta.
      apply (char_alg_block (seq 0 SW) (fun i => 2 * (SW + i))
               (fun i => pg_mds_row_shf_alg i (map (fun i => alg_at r (2 * i)) (seq 0 SW)))).
  Qed.

  (* ================= gates without generators ================= *)
  Lemma no_generator_spec g (ok : list K -> list K -> list K -> Prop) :
    gate_written g = [] -> (forall consts r, gate_writes g consts r = Some []) ->
    (forall consts pi r1 r2, (forall i, nthF r1 i = nthF r2 i) -> ok consts r1 pi -> ok consts r2 pi) ->
    (forall consts pi r, ok consts r pi -> zero_all (gate_eval_unfiltered g consts r pi)) ->
    gate_spec g ok.
  Proof.
    intros Hwr Hws ok_pointwise Hsat. constructor.
    - intros. rewrite !Hws. reflexivity.
    - intros consts pi r1 r2 He Hok. rewrite Hwr in He.
      assert (Hall : forall i, nthF r1 i = nthF r2 i) by (intros i; apply He; intros []).
      (* ok only reads the row through nthF: it is stated on r2 via the pointwise equality *)
      exact (ok_pointwise consts pi r1 r2 Hall Hok).
    - intros consts r wr i v Hw Hin. rewrite Hws in Hw. inversion Hw; subst. destruct Hin.
    - intros consts r wr w Hw Hin. rewrite Hwr in Hin. destruct Hin.
    - intros consts r wr Hw. rewrite Hws in Hw. inversion Hw; subst. intros i v v' [].
    - intros consts pi r wr Hok _ _. apply Hsat. exact Hok.
    - intros consts pi r wr w gv _ Hw Hin. rewrite Hws in Hw. inversion Hw; subst. destruct Hin.
  Qed.

  Definition ok_constant (n : nat) (consts row pi : list K) : Prop :=
    forall i, i < n -> nthF row i = nthF consts i.
  Definition ok_public_input (consts row pi : list K) : Prop :=
    forall i, i < 4 -> nthF row i = nthF pi i.

  Lemma constant_spec n : gate_spec (ConstantGate n) (ok_constant n).
  Proof.
    apply no_generator_spec; try reflexivity.
    - intros consts pi r1 r2 He Hok i Hi. rewrite <- He. apply Hok. exact Hi.
    - intros consts pi r Hok. cbn [gate_eval_unfiltered]. unfold eval_constant.
      apply zero_all_map. intros i Hi. apply in_seq in Hi. rewrite (Hok i) by lia. ring.
  Qed.

  Lemma public_input_spec : gate_spec PublicInputGate ok_public_input.
  Proof.
    apply no_generator_spec; try reflexivity.
    - intros consts pi r1 r2 He Hok i Hi. rewrite <- He. apply Hok. exact Hi.
    - intros consts pi r Hok. cbn [gate_eval_unfiltered]. unfold eval_public_input.
      apply zero_all_map. intros i Hi. apply in_seq in Hi. rewrite (Hok i) by lia. ring.
  Qed.

  Lemma noop_spec : gate_spec NoopGate ok_true.
  Proof. apply no_generator_spec; try reflexivity; intros; try exact I; try constructor. Qed.
  (* the lookup gates declare no gate constraints at all; their generators are part of C08 *)
  Lemma lookup_spec n : gate_spec (LookupGate n) ok_true.
  Proof. apply no_generator_spec; try reflexivity; intros; try exact I; try constructor. Qed.
  Lemma lookup_table_spec n : gate_spec (LookupTableGate n) ok_true.
  Proof. apply no_generator_spec; try reflexivity; intros; try exact I; try constructor. Qed.
End Simple.
